#!/bin/sh
# Build the whole Coq development (full .vo build) from files on disk only.
cd "$(dirname "$0")" || exit 1
/venv/bin/python - <<'PY'
import sys
sys.path.insert(0, 'lib'); sys.path.insert(0, 'gen')
import vlib
try:
    import genall
    genall.run_all()
except ImportError:
    pass
ok, log = vlib.coq_make(None, timeout=3000)
print(log[-3000:])
sys.exit(0 if ok else 1)
PY
