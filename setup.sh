#!/bin/sh
# Build the Coq development (full .vo build, no -vos) from files on disk only.
# Succeeds when the property file of every check registered in MANIFEST.json is built.
cd "$(dirname "$0")" || exit 1
/venv/bin/python - <<'PY'
import json, os, sys, traceback
sys.path.insert(0, 'lib'); sys.path.insert(0, 'gen')
import vlib
vlib.ensure_impl_path()
import glob, importlib
for f in sorted(glob.glob('gen/c[0-9][0-9]_*.py')):
    try:
        mod = importlib.import_module(os.path.basename(f)[:-3])
        if hasattr(mod, 'generate'):
            mod.generate()
    except Exception:
        traceback.print_exc()
ok, log = vlib.coq_make(None, timeout=3000)
print(log[-2000:])
man = json.load(open('MANIFEST.json'))
missing = []
for c in man['checks']:
    pid = c['property_id']
    if not os.path.exists('coq/props/%s.vo' % pid):
        missing.append(pid)
if missing:
    print('setup: property files not built:', missing)
    sys.exit(1)
print('setup: ok (%d property files built)' % len(man['checks']))
PY
