"""C12 translator: coq/C12/Gen_rpc.v from the current working tree.

(a) live object graph: the root object the XML-RPC handler dispatches on
    (RootRPCInterface built as supervisor.http.make_http_servers builds it) and
    the AttrDict root system.multicall dispatches on; every attribute name of
    the root and every attribute name of each such attribute with the kind of
    object getattr() yields.
(b) AST of supervisor/xmlrpc.py, supervisor/rpcinterface.py, supervisor/states.py:
    Faults table, traverse() parameters, _update() condition, multicall
    constants, and for every public method of a registered namespace: arity
    range, where self._update(...) sits, what precedes it.
(c) docs/api.rst: the documented method list.

Fail closed: any shape this file does not recognise raises.
"""
import ast
import inspect
import os
import re
import sys
import types

import vlib

OUT = os.path.join(vlib.COQ, 'C12', 'Gen_rpc.v')


class Reject(Exception):
    pass


def need(cond, msg):
    if not cond:
        raise Reject(msg)


# ------------------------------------------------------------------ live graph

class _Logger(object):
    handlers = ()

    def __getattr__(self, name):
        return lambda *a, **k: None


class _Options(object):
    mood = 1
    logfile = None
    identifier = 'supervisor'
    process_group_configs = ()
    logger = _Logger()


class _Supervisord(object):
    def __init__(self):
        self.options = _Options()
        self.process_groups = {}


def build_live():
    """(root, mroot, namespaces dict) built as make_http_servers does with the
    default [rpcinterface:supervisor] factory."""
    vlib.ensure_impl_path()
    from supervisor import xmlrpc, rpcinterface
    sup = _Supervisord()
    inst = rpcinterface.make_main_rpcinterface(sup)
    subinterfaces = [('supervisor', inst)]
    subinterfaces.append(('system', xmlrpc.SystemNamespaceRPCInterface(subinterfaces)))
    handler = xmlrpc.supervisor_xmlrpc_handler(sup, subinterfaces)
    root = handler.rpcinterface
    system = subinterfaces[-1][1]
    mroot = xmlrpc.AttrDict(system.namespaces)
    return root, mroot, dict(subinterfaces), system


def kind_of(v):
    if isinstance(v, types.MethodType):
        return 'BoundMethod'
    if isinstance(v, types.FunctionType):
        return 'Function'
    if isinstance(v, types.BuiltinFunctionType):
        return 'Builtin'
    if isinstance(v, types.MethodWrapperType):
        return 'MethodWrapper'
    return 'Other'


_MISSING = object()


def _probe(obj, name):
    try:
        return getattr(obj, name, _MISSING)
    except Exception:       # a property that raises: getattr(ob, n, None) would propagate
        raise Reject('getattr(%r, %r) raises' % (type(obj).__name__, name))


def _names_of(obj):
    out = set()
    for o in (obj, type(obj), type(type(obj))):
        try:
            out.update(dir(o))
        except Exception:
            pass
        d = getattr(o, '__dict__', None)
        if isinstance(d, (dict, types.MappingProxyType)):
            out.update(k for k in d if isinstance(k, str))
    if isinstance(obj, dict):
        out.update(k for k in obj if isinstance(k, str))
    return out


def attribute_tables(root, mroot):
    """For both roots: {first: None | {second: kind}} over a universe of names
    closed under dir()/__dict__ of every object met (depth 2)."""
    universe = set()
    firsts = {}
    for r in (root, mroot):
        universe |= _names_of(r)
    # close the universe over the second-level objects
    for _ in range(2):
        for r in (root, mroot):
            for n in sorted(universe):
                v = _probe(r, n)
                if v is not _MISSING and v is not None:
                    universe |= _names_of(v)
    tables = []
    for r in (root, mroot):
        t = {}
        for n in sorted(universe):
            v = _probe(r, n)
            if v is _MISSING:
                continue
            if v is None:
                # AttrDict.__getattr__ answers None for every unknown name:
                # only record None-valued names the object really lists
                if n in _names_of(r):
                    t[n] = None
                continue
            sub = {}
            for m in sorted(universe):
                w = _probe(v, m)
                if w is _MISSING:
                    continue
                sub[m] = kind_of(w)
            t[n] = sub
        tables.append(t)
    return tables[0], tables[1], universe


# ------------------------------------------------------------------------- AST

def _parse(rel):
    path = os.path.join(vlib.REPO, rel)
    with open(path) as f:
        src = f.read()
    return ast.parse(src, path)


def _class(tree, name):
    found = [n for n in tree.body if isinstance(n, ast.ClassDef) and n.name == name]
    need(len(found) == 1, 'class %s: %d definitions' % (name, len(found)))
    return found[0]


def _func(tree, name):
    found = [n for n in tree.body if isinstance(n, ast.FunctionDef) and n.name == name]
    need(len(found) == 1, 'function %s: %d definitions' % (name, len(found)))
    return found[0]


def int_table(cls):
    out = []
    for st in cls.body:
        if isinstance(st, ast.Expr) and isinstance(st.value, ast.Constant) and isinstance(st.value.value, str):
            continue
        need(isinstance(st, ast.Assign) and len(st.targets) == 1 and isinstance(st.targets[0], ast.Name),
             'class %s: unexpected statement at line %d' % (cls.name, st.lineno))
        v = st.value
        if isinstance(v, ast.UnaryOp) and isinstance(v.op, ast.USub) and isinstance(v.operand, ast.Constant):
            val = -v.operand.value
        else:
            need(isinstance(v, ast.Constant), 'class %s: non-constant value at line %d' % (cls.name, st.lineno))
            val = v.value
        need(type(val) is int, 'class %s: non-int value at line %d' % (cls.name, st.lineno))
        out.append((st.targets[0].id, val))
    need(len(set(n for n, _ in out)) == len(out), 'class %s: duplicate names' % cls.name)
    return out


def _strip_doc(body):
    if body and isinstance(body[0], ast.Expr) and isinstance(body[0].value, ast.Constant) \
            and isinstance(body[0].value.value, str):
        return body[1:]
    return body


def _is_self_attr(node, attr):
    return (isinstance(node, ast.Attribute) and node.attr == attr and
            isinstance(node.value, ast.Name) and node.value.id == 'self')


def _dump(node):
    return ast.dump(node, annotate_fields=False)


def _is_update_call(st):
    return (isinstance(st, ast.Expr) and isinstance(st.value, ast.Call) and
            _is_self_attr(st.value.func, '_update'))


def _update_text(st):
    c = st.value
    need(len(c.args) == 1 and not c.keywords and isinstance(c.args[0], ast.Constant)
         and isinstance(c.args[0].value, str), 'self._update(...) with a non-literal argument at line %d' % st.lineno)
    return c.args[0].value


def _faults_attr(node):
    """Faults.X -> 'X'"""
    if isinstance(node, ast.Attribute) and isinstance(node.value, ast.Name) and node.value.id == 'Faults':
        return node.attr
    return None


def _raise_rpcerror(st):
    """`raise RPCError(Faults.X, ...)` -> 'X' else None"""
    if isinstance(st, ast.Raise) and isinstance(st.exc, ast.Call) and isinstance(st.exc.func, ast.Name) \
            and st.exc.func.id == 'RPCError' and st.exc.args:
        return _faults_attr(st.exc.args[0])
    return None


def arity(fn):
    a = fn.args
    need(not a.kwonlyargs or all(d is not None for d in a.kw_defaults),
         '%s: required keyword-only argument' % fn.name)
    pos = list(a.posonlyargs) + list(a.args)
    need(pos and pos[0].arg == 'self', '%s: first parameter is not self' % fn.name)
    npos = len(pos) - 1
    ndef = len(a.defaults)
    need(ndef <= npos, '%s: default for self' % fn.name)
    return npos - ndef, (None if a.vararg is not None else npos)


def guard_of(fn, public_methods):
    """Where self._update(...) sits in the body of a public method."""
    body = _strip_doc(fn.body)
    need(body, '%s: empty body' % fn.name)
    if _is_update_call(body[0]):
        return ('GFirst', [], _update_text(body[0]))
    idx = [i for i, st in enumerate(body) if _is_update_call(st)]
    if not idx:
        # _update may still hide in nested statements; that is not a guard we accept
        return ('GNone', [], '')
    pre = []
    closures = {}
    for st in body[:idx[0]]:
        need(isinstance(st, ast.Assign) and len(st.targets) == 1 and isinstance(st.targets[0], ast.Name),
             '%s: statement before self._update at line %d is not a simple assignment' % (fn.name, st.lineno))
        tgt = st.targets[0].id
        v = st.value
        need(isinstance(v, ast.Call), '%s: line %d: not a call' % (fn.name, st.lineno))
        f = v.func
        d = _dump(f)
        if d == _dump(ast.parse('self.supervisord.process_groups.get', mode='eval').body):
            need(len(v.args) == 1 and isinstance(v.args[0], ast.Name) and not v.keywords,
                 '%s: line %d: process_groups.get shape' % (fn.name, st.lineno))
            pre.append('PRead')
        elif _is_self_attr(f, '_getAllProcesses'):
            pre.append('PRead')
        elif isinstance(f, ast.Name) and f.id == 'make_allfunc':
            need(len(v.args) == 3 and isinstance(v.args[0], ast.Name) and isinstance(v.args[1], ast.Name)
                 and isinstance(v.args[2], ast.Attribute) and isinstance(v.args[2].value, ast.Name)
                 and v.args[2].value.id == 'self', '%s: line %d: make_allfunc shape' % (fn.name, st.lineno))
            need(v.args[1].id in ('isRunning', 'isNotRunning', 'isSignallable'),
                 '%s: line %d: unknown predicate %s' % (fn.name, st.lineno, v.args[1].id))
            need(all(isinstance(k.value, ast.Name) for k in v.keywords), '%s: line %d: make_allfunc kwargs' % (fn.name, st.lineno))
            target = v.args[2].attr
            need(target in public_methods, '%s: delegates to unknown method %s' % (fn.name, target))
            closures[tgt] = target
            pre.append('PRead')
        elif isinstance(f, ast.Name) and f.id in closures:
            need(not v.args and not v.keywords, '%s: line %d: closure called with arguments' % (fn.name, st.lineno))
            pre.append('(PDelegate "%s")' % closures[f.id])
        else:
            raise Reject('%s: line %d: unrecognised statement before self._update: %s' % (fn.name, st.lineno, d[:120]))
    return ('GLate', pre, _update_text(body[idx[0]]))


def namespace_methods(cls):
    """{attribute name: (FunctionDef, defining name)} for a namespace class body."""
    defs = {}
    for st in cls.body:
        if isinstance(st, ast.Expr) and isinstance(st.value, ast.Constant):
            continue
        if isinstance(st, ast.FunctionDef):
            need(not st.decorator_list, 'class %s: decorated method %s' % (cls.name, st.name))
            defs[st.name] = (st, st.name)
        elif isinstance(st, ast.Assign) and len(st.targets) == 1 and isinstance(st.targets[0], ast.Name) \
                and isinstance(st.value, ast.Name) and st.value.id in defs:
            defs[st.targets[0].id] = defs[st.value.id]
        else:
            raise Reject('class %s: unexpected class-level statement at line %d' % (cls.name, st.lineno))
    return defs


def analyse_update(fn, states):
    """_update(self, text): returns dict(checks_mood, threshold, exempt, fault)."""
    need([a.arg for a in fn.args.args] == ['self', 'text'] and not fn.args.defaults, '_update signature')
    body = _strip_doc(fn.body)
    need(len(body) == 2, '_update: %d statements' % len(body))
    a = body[0]
    need(isinstance(a, ast.Assign) and len(a.targets) == 1 and _is_self_attr(a.targets[0], 'update_text')
         and isinstance(a.value, ast.Name) and a.value.id == 'text', '_update: first statement')
    i = body[1]
    need(isinstance(i, ast.If) and not i.orelse and len(i.body) == 1, '_update: second statement is not a plain if')
    fault = _raise_rpcerror(i.body[0])
    need(fault is not None and len(i.body[0].exc.args) == 1, '_update: if-body is not raise RPCError(Faults.X)')
    t = i.test
    need(isinstance(t, ast.BoolOp) and isinstance(t.op, ast.And) and len(t.values) in (2, 3), '_update: condition shape')
    mood = _dump(ast.parse('self.supervisord.options.mood', mode='eval').body)
    c0 = t.values[0]
    need(isinstance(c0, ast.Call) and isinstance(c0.func, ast.Name) and c0.func.id == 'isinstance'
         and len(c0.args) == 2 and _dump(c0.args[0]) == mood and isinstance(c0.args[1], ast.Name)
         and c0.args[1].id == 'int', '_update: isinstance(mood, int) conjunct')
    c1 = t.values[1]
    need(isinstance(c1, ast.Compare) and len(c1.ops) == 1 and isinstance(c1.ops[0], ast.Lt)
         and _dump(c1.left) == mood, '_update: mood < X conjunct')
    r = c1.comparators[0]
    need(isinstance(r, ast.Attribute) and isinstance(r.value, ast.Name) and r.value.id == 'SupervisorStates'
         and r.attr in dict(states), '_update: threshold is not a SupervisorStates constant')
    exempt = []
    if len(t.values) == 3:
        c2 = t.values[2]
        need(isinstance(c2, ast.Compare) and len(c2.ops) == 1 and isinstance(c2.ops[0], ast.NotIn)
             and isinstance(c2.left, ast.Name) and c2.left.id == 'text'
             and isinstance(c2.comparators[0], (ast.Tuple, ast.List))
             and all(isinstance(e, ast.Constant) and isinstance(e.value, str) for e in c2.comparators[0].elts),
             '_update: exemption conjunct')
        exempt = [e.value for e in c2.comparators[0].elts]
    return {'checks_mood': True, 'threshold': dict(states)[r.attr], 'threshold_name': r.attr,
            'exempt': exempt, 'fault': fault}


def analyse_traverse(fn):
    """The statements of traverse(ob, method, params), in order, fail closed."""
    need([a.arg for a in fn.args.args] == ['ob', 'method', 'params'], 'traverse signature')
    body = _strip_doc(fn.body)
    src = [ast.unparse(s) for s in body]
    out = {'parts': None, 'underscore': False, 'none_ns_refused': False, 'kind': None,
           'typeerror_fault': None, 'refuse_fault': None}
    refuse = set()
    k = 0

    def nxt():
        nonlocal k
        need(k < len(body), 'traverse: too few statements')
        k += 1
        return body[k - 1]

    st = nxt()
    need(ast.unparse(st) == "dotted_parts = method.split('.')", 'traverse: split statement: ' + ast.unparse(st))
    while k < len(body):
        st = nxt()
        u = ast.unparse(st)
        if isinstance(st, ast.If):
            need(not st.orelse and len(st.body) == 1, 'traverse: if with else/long body at line %d' % st.lineno)
            f = _raise_rpcerror(st.body[0])
            need(f is not None and len(st.body[0].exc.args) == 1, 'traverse: if body is not raise RPCError(Faults.X)')
            refuse.add(f)
            tu = ast.unparse(st.test)
            m = re.match(r'^len\(dotted_parts\) != (\d+)$', tu)
            if m:
                need(out['parts'] is None and not out['underscore'] and out['kind'] is None, 'traverse: order of checks')
                out['parts'] = int(m.group(1))
            elif tu == "method.startswith('_')":
                need(out['parts'] is not None and out['kind'] is None and not out['none_ns_refused'],
                     'traverse: underscore check is not before the lookups')
                out['underscore'] = True
            elif tu == 'rpcinterface is None':
                out['none_ns_refused'] = True
            elif tu == 'not isinstance(func, types.MethodType)':
                out['kind'] = 'BoundMethod'
            else:
                raise Reject('traverse: unrecognised condition: ' + tu)
        elif u == 'namespace, method = dotted_parts':
            need(out['parts'] is not None, 'traverse: unpack before the length check')
        elif u == 'rpcinterface = getattr(ob, namespace, None)':
            pass
        elif u == 'func = getattr(rpcinterface, method, None)':
            need(out['none_ns_refused'], 'traverse: method lookup before the None check')
        elif isinstance(st, ast.Try):
            need(k == len(body), 'traverse: statements after the call')
            need(len(st.body) == 1 and ast.unparse(st.body[0]) == 'return func(*params)', 'traverse: call shape')
            need(len(st.handlers) == 1 and not st.orelse and not st.finalbody, 'traverse: handlers')
            h = st.handlers[0]
            need(isinstance(h.type, ast.Name) and h.type.id == 'TypeError' and len(h.body) == 1, 'traverse: handler type')
            f = _raise_rpcerror(h.body[0])
            need(f is not None, 'traverse: handler body')
            out['typeerror_fault'] = f
        else:
            raise Reject('traverse: unrecognised statement: ' + u)
    need('namespace, method = dotted_parts' in src, 'traverse: no unpack statement')
    need(out['typeerror_fault'] is not None, 'traverse: no call')
    need(len(refuse) == 1, 'traverse: refusals use %r' % sorted(refuse))
    out['refuse_fault'] = refuse.pop()
    if out['parts'] is None:
        out['parts'] = -1          # no length check at all
    if out['kind'] is None:
        out['kind'] = 'Other'      # sentinel: no kind check; model treats as "any"
    return out


def analyse_multicall(fn):
    """Constants and skeleton of SystemNamespaceRPCInterface.multicall."""
    body = _strip_doc(fn.body)
    u = [ast.unparse(s) for s in body]
    need(u[0] == 'remaining_calls = calls[:]' and u[1] == 'callbacks = []' and u[2] == 'results = []',
         'multicall: initial statements')
    need(isinstance(body[3], ast.FunctionDef) and body[3].name == 'multi', 'multicall: no inner multi()')
    need(u[4] == 'multi.delay = 0.05' and u[5] == 'value = multi()', 'multicall: tail statements')
    need(len(body) == 7 and isinstance(body[6], ast.If) and
         ast.unparse(body[6].test) == 'value is NOT_DONE_YET' and
         ast.unparse(body[6].body[0]) == 'return multi' and ast.unparse(body[6].orelse[0]) == 'return value',
         'multicall: final if')
    multi = _strip_doc(body[3].body)
    need(len(multi) == 3, 'multi(): %d statements' % len(multi))
    cbpart, loop, fin = multi
    # -- callback part
    need(isinstance(cbpart, ast.If) and ast.unparse(cbpart.test) == 'callbacks' and not cbpart.orelse
         and len(cbpart.body) == 2, 'multi(): callback part')
    tr, upd = cbpart.body
    need(isinstance(tr, ast.Try) and ast.unparse(tr.body[0]) == 'value = callbacks[0]()' and len(tr.body) == 1,
         'multi(): callback call')
    cb_faults = _handlers(tr, 'multi() callback')
    need(ast.unparse(upd) == 'if value is not NOT_DONE_YET:\n    callbacks.pop(0)\n    results.append(value)',
         'multi(): callback completion')
    # -- loop
    need(isinstance(loop, ast.While) and ast.unparse(loop.test) == 'not callbacks and remaining_calls'
         and not loop.orelse, 'multi(): loop condition')
    lu = [ast.unparse(s) for s in loop.body]
    need(lu[0] == 'call = remaining_calls.pop(0)' and lu[1] == "name = call.get('methodName', None)"
         and lu[2] == "params = call.get('params', [])", 'multi(): loop head')
    need(len(loop.body) == 5 and isinstance(loop.body[3], ast.Try), 'multi(): loop body')
    tr2 = loop.body[3]
    consts = {}
    tb = tr2.body
    need(len(tb) == 4, 'multi(): try body')
    need(ast.unparse(tb[0].test) == 'name is None', 'multi(): name None check')
    consts['noname_fault'] = _raise_rpcerror(tb[0].body[0])
    m = re.match(r"^name == '([^']*)'$", ast.unparse(tb[1].test))
    need(m, 'multi(): recursion check')
    consts['recursion_name'] = m.group(1)
    consts['recursion_fault'] = _raise_rpcerror(tb[1].body[0])
    need(consts['noname_fault'] and consts['recursion_fault'], 'multi(): refusals')
    need(ast.unparse(tb[2]) == 'root = AttrDict(self.namespaces)' and
         ast.unparse(tb[3]) == 'value = traverse(root, name, params)', 'multi(): dispatch')
    call_faults = _handlers(tr2, 'multi() call')
    need(call_faults == cb_faults, 'multi(): handlers differ')
    consts['crash_fault'] = call_faults
    need(ast.unparse(loop.body[4]) ==
         'if isinstance(value, types.FunctionType):\n    callbacks.append(value)\nelse:\n    results.append(value)',
         'multi(): result/callback split')
    need(ast.unparse(fin) == 'if callbacks or remaining_calls:\n    return NOT_DONE_YET\nelse:\n    return results',
         'multi(): final statement')
    return consts


def _handlers(tr, what):
    need(len(tr.handlers) == 2 and not tr.orelse and not tr.finalbody, what + ': handlers')
    h0, h1 = tr.handlers
    need(isinstance(h0.type, ast.Name) and h0.type.id == 'RPCError' and h0.name == 'exc' and
         ast.unparse(h0.body[0]) == "value = {'faultCode': exc.code, 'faultString': exc.text}" and len(h0.body) == 1,
         what + ': RPCError handler')
    need(h1.type is None and len(h1.body) == 3, what + ': bare handler')
    m = re.match(r"^value = \{'faultCode': Faults\.(\w+), 'faultString': '\w+: ' \+ errmsg\}$", ast.unparse(h1.body[2]))
    need(m, what + ': bare handler value')
    return m.group(1)


def fault_references(trees):
    """Every Faults.X mentioned, and the functions using getattr(Faults, ...)."""
    refs = set()
    dynamic = []
    for tree in trees:
        for fn in ast.walk(tree):
            if not isinstance(fn, ast.FunctionDef):
                continue
            for n in ast.walk(fn):
                x = _faults_attr(n)
                if x is not None and not x.startswith('__'):
                    refs.add(x)
                if isinstance(n, ast.Call) and isinstance(n.func, ast.Name) and n.func.id == 'getattr' \
                        and n.args and isinstance(n.args[0], ast.Name) and n.args[0].id == 'Faults':
                    dynamic.append(fn.name)
    return sorted(refs), sorted(set(dynamic))


def documented_api(classmap):
    """`.. automethod::` entries of docs/api.rst as ns.method names."""
    path = os.path.join(vlib.REPO, 'docs', 'api.rst')
    with open(path) as f:
        lines = f.read().split('\n')
    cur = None
    out = []
    for ln in lines:
        m = re.match(r'^\s*\.\.\s+autoclass::\s+(\w+)\s*$', ln)
        if m:
            need(m.group(1) in classmap, 'docs/api.rst documents class %s which is not a registered namespace' % m.group(1))
            cur = classmap[m.group(1)]
            continue
        m = re.match(r'^\s*\.\.\s+automethod::\s+(\w+)\s*$', ln)
        if m:
            need(cur is not None, 'docs/api.rst: automethod before autoclass')
            out.append('%s.%s' % (cur, m.group(1)))
            continue
        need('automethod' not in ln and 'autoclass' not in ln, 'docs/api.rst: unparsed directive: ' + ln)
    need(out, 'docs/api.rst: no automethod entries')
    need(len(set(out)) == len(out), 'docs/api.rst: duplicate automethod entries')
    return out


# -------------------------------------------------------------------- emission

def cstr(s):
    need(isinstance(s, str) and all(32 <= ord(c) < 127 and c != '"' for c in s), 'name not printable ASCII: %r' % (s,))
    return '"%s"' % s


def collect():
    root, mroot, namespaces, system = build_live()
    t_root, t_mroot, universe = attribute_tables(root, mroot)

    tx = _parse('supervisor/xmlrpc.py')
    tr = _parse('supervisor/rpcinterface.py')
    ts = _parse('supervisor/states.py')
    faults = int_table(_class(tx, 'Faults'))
    moods = int_table(_class(ts, 'SupervisorStates'))

    # namespace classes: must be defined in the two modelled files
    files = {os.path.join(vlib.REPO, 'supervisor', 'xmlrpc.py'): tx,
             os.path.join(vlib.REPO, 'supervisor', 'rpcinterface.py'): tr}
    classmap = {}
    infos = []
    docparams = []
    signatures = {}
    upd = None
    for ns in sorted(namespaces):
        obj = namespaces[ns]
        cls = type(obj)
        src = os.path.realpath(inspect.getsourcefile(cls))
        match = [t for p, t in files.items() if os.path.realpath(p) == src]
        need(match, 'namespace %s: class %s is defined in %s (not modelled)' % (ns, cls.__name__, src))
        need(cls.__bases__ == (object,), 'namespace class %s has base classes' % cls.__name__)
        cdef = _class(match[0], cls.__name__)
        need(cls.__name__ not in classmap, 'class %s registered twice' % cls.__name__)
        classmap[cls.__name__] = ns
        defs = namespace_methods(cdef)
        public = [n for n in defs if not n.startswith('_')]
        if '_update' in defs:
            u = analyse_update(defs['_update'][0], moods)
            need(upd is None or upd == u, 'two different _update definitions')
            upd = u
        # live cross-check: every BoundMethod attribute must have a definition
        live = t_root.get(ns)
        need(isinstance(live, dict), 'namespace %s is not an attribute of the root' % ns)
        for name, k in sorted(live.items()):
            if k != 'BoundMethod':
                continue
            need(name in defs, 'live bound method %s.%s has no definition in the class body' % (ns, name))
            fn, defname = defs[name]
            func = getattr(obj, name).__func__
            need(func.__qualname__ == '%s.%s' % (cls.__name__, defname), 'live %s.%s is %s' % (ns, name, func.__qualname__))
            amin, amax = arity(fn)
            code = func.__code__
            need(code.co_argcount - 1 == (amax if amax is not None else code.co_argcount - 1) and
                 code.co_argcount - 1 - len(func.__defaults__ or ()) == amin,
                 'arity of %s.%s differs between AST and live function' % (ns, name))
            if name.startswith('_'):
                continue
            if '_update' in defs:
                g = guard_of(fn, public)
            else:
                g = ('GNone', [], '')
            infos.append((ns, name, '%s.%s' % (cls.__name__, defname), amin, amax, g))
            doc = ast.get_docstring(fn, clean=False)
            need(doc is not None, 'public method %s.%s has no docstring' % (ns, name))
            tags = [ln.split() for ln in doc.split('\n') if ln.strip().startswith('@')]
            need(all(t[0] in ('@param', '@return') and len(t) >= 2 for t in tags),
                 '%s.%s: unrecognised documentation tag' % (ns, name))
            need(len([t for t in tags if t[0] == '@return']) == 1, '%s.%s: not exactly one @return tag' % (ns, name))
            docparams.append(('%s.%s' % (ns, name), len([t for t in tags if t[0] == '@param'])))
        for name in public:
            need(live.get(name) == 'BoundMethod', 'public definition %s.%s is not a live bound method' % (ns, name))
    need(upd is not None, 'no _update found')
    need(dict(faults).get(upd['fault']) is not None, '_update raises an unknown fault')

    trav = analyse_traverse(_func(tx, 'traverse'))
    mc = analyse_multicall(namespace_methods(_class(tx, 'SystemNamespaceRPCInterface'))['multicall'][0])
    refs, dynamic = fault_references([tx, tr])
    docs = documented_api(classmap)
    listed = system.listMethods()
    need(isinstance(listed, list) and all(isinstance(x, str) for x in listed), 'listMethods() shape')
    for ns, name, *_ in infos:
        try:
            signatures['%s.%s' % (ns, name)] = system.methodSignature('%s.%s' % (ns, name))
        except Exception:
            signatures['%s.%s' % (ns, name)] = None
    # handler.call dispatches on self.rpcinterface with traverse
    hcls = _class(tx, 'supervisor_xmlrpc_handler')
    callfn = [s for s in hcls.body if isinstance(s, ast.FunctionDef) and s.name == 'call']
    need(len(callfn) == 1 and ast.unparse(_strip_doc(callfn[0].body)[0]) == 'return traverse(self.rpcinterface, method, params)',
         'supervisor_xmlrpc_handler.call shape')
    return dict(t_root=t_root, t_mroot=t_mroot, faults=faults, moods=moods, infos=infos, upd=upd, trav=trav, mc=mc,
                refs=refs, dynamic=dynamic, docs=docs, listed=listed, signatures=signatures, universe=sorted(universe),
                docparams=docparams)


def render(d):
    o = []
    w = o.append
    w('(* GENERATED by gen/c12_rpc.py from the working tree of the repository - do not edit. *)')
    w('From Coq Require Import ZArith List Bool String.')
    w('Import ListNotations.')
    w('Require Import SV.C12.RpcTypes.')
    w('Local Open Scope string_scope.')
    w('')

    def table(name, t):
        w('Definition %s : roottable :=' % name)
        rows = []
        for n in sorted(t):
            sub = t[n]
            if sub is None:
                rows.append('  (%s, NsNone)' % cstr(n))
            else:
                inner = '; '.join('(%s, %s)' % (cstr(m), sub[m]) for m in sorted(sub))
                rows.append('  (%s, NsObj [%s])' % (cstr(n), inner))
        w('[\n' + ';\n'.join(rows) + '\n].')
        w('')
    table('root_table', d['t_root'])
    table('mroot_table', d['t_mroot'])

    w('Definition method_info : list minfo :=')
    rows = []
    for ns, name, target, amin, amax, (g, pre, text) in d['infos']:
        gs = {'GFirst': 'GFirst', 'GNone': 'GNone'}.get(g) or '(GLate [%s])' % '; '.join(pre)
        rows.append('  MkInfo %s %s %s %d%%Z %s %s %s' % (
            cstr(ns), cstr(name), cstr(target), amin, 'None' if amax is None else '(Some %d%%Z)' % amax, gs, cstr(text)))
    w('[\n' + ';\n'.join(rows) + '\n].')
    w('')
    w('(* number of @param tags in each public method\'s docstring: the documented signature *)')
    w('Definition doc_param_count : list (string * Z) :=\n  [%s].' % ';\n   '.join(
        '(%s, %s)' % (cstr(n), vlib.zlit(k)) for n, k in d['docparams']))
    w('Definition faults_table : list (string * Z) :=\n  [%s].' % '; '.join(
        '(%s, %s)' % (cstr(n), vlib.zlit(v)) for n, v in d['faults']))
    w('Definition moods_table : list (string * Z) :=\n  [%s].' % '; '.join(
        '(%s, %s)' % (cstr(n), vlib.zlit(v)) for n, v in d['moods']))
    w('Definition faults_referenced : list string :=\n  [%s].' % '; '.join(cstr(x) for x in d['refs']))
    w('Definition dynamic_fault_sites : list string := [%s].' % '; '.join(cstr(x) for x in d['dynamic']))
    w('Definition documented_api : list string :=\n  [%s].' % ';\n   '.join(cstr(x) for x in d['docs']))
    w('Definition list_methods_live : list string :=\n  [%s].' % ';\n   '.join(cstr(x) for x in d['listed']))
    w('')
    t = d['trav']
    w('(* traverse() *)')
    w('Definition tr_parts : Z := %s.' % vlib.zlit(t['parts']))
    w('Definition tr_underscore_check : bool := %s.' % vlib.blit(t['underscore']))
    w('Definition tr_none_ns_refused : bool := %s.' % vlib.blit(t['none_ns_refused']))
    w('Definition tr_kind_checked : bool := %s.' % vlib.blit(t['kind'] == 'BoundMethod'))
    w('Definition tr_kind_required : kind := BoundMethod.')
    w('Definition tr_refuse_fault : string := %s.' % cstr(t['refuse_fault']))
    w('Definition tr_typeerror_fault : string := %s.' % cstr(t['typeerror_fault']))
    u = d['upd']
    w('(* SupervisorNamespaceRPCInterface._update() *)')
    w('Definition upd_checks_mood : bool := %s.' % vlib.blit(u['checks_mood']))
    w('Definition upd_threshold : Z := %s.  (* SupervisorStates.%s *)' % (vlib.zlit(u['threshold']), u['threshold_name']))
    w('Definition upd_exempt : list string := [%s].' % '; '.join(cstr(x) for x in u['exempt']))
    w('Definition upd_fault : string := %s.' % cstr(u['fault']))
    m = d['mc']
    w('(* SystemNamespaceRPCInterface.multicall() *)')
    w('Definition mc_recursion_name : string := %s.' % cstr(m['recursion_name']))
    w('Definition mc_recursion_fault : string := %s.' % cstr(m['recursion_fault']))
    w('Definition mc_noname_fault : string := %s.' % cstr(m['noname_fault']))
    w('Definition mc_crash_fault : string := %s.' % cstr(m['crash_fault']))
    return '\n'.join(o) + '\n'


_CACHE = {}


def facts():
    """The collected facts (also used by the Python side of the check)."""
    if 'd' not in _CACHE:
        _CACHE['d'] = collect()
    return _CACHE['d']


def generate():
    _CACHE.clear()
    d = facts()
    vlib.write_if_changed(OUT, render(d))
    return d


if __name__ == '__main__':
    d = generate()
    print('root attrs %d, multicall-root attrs %d, second-level entries %d, methods %d' % (
        len(d['t_root']), len(d['t_mroot']),
        sum(len(v) for t in (d['t_root'], d['t_mroot']) for v in t.values() if v), len(d['infos'])))
