"""C17 translator: supervisor/http.py + medusa/auth_handler.py -> coq/C17/Gen_http.v

Reads the current working tree with `ast` and fails closed (raises) on any
shape it does not recognise.  Generated:

  installed_handlers : list (list Z * bool)   handler variables of
        make_http_servers in DISPATCH order (install_handler inserts at index 0,
        the channel takes the first element whose match() is true), each with
        "rebound to supervisor_auth_handler(users, <itself>) in the
        `if username:` branch";
  auth_literal       : for every character of the literal part of the
        AUTHORIZATION regex, the code points `re` accepts there under
        re.IGNORECASE (computed with the real `re` over all of Unicode);
  scheme_literal     : the same for the word compared with scheme.lower();
  sha_prefix, sha_skip : the constants of encrypted_dictionary_authorizer.

A handler that is installed but not rebound makes generate() raise after the
file is written (so the Coq proof `c17_all_wrapped` fails as well).
"""
import ast
import os
import re

import vlib


class Reject(ValueError):
    pass


def _src(rel):
    path = os.path.join(vlib.REPO, rel)
    with open(path) as f:
        return ast.parse(f.read(), path)


def _find(body, kind, name):
    hits = [n for n in body if isinstance(n, kind) and n.name == name]
    if len(hits) != 1:
        raise Reject('expected exactly one %s %s, found %d' % (kind.__name__, name, len(hits)))
    return hits[0]


def _is_name(n, ident=None):
    return isinstance(n, ast.Name) and (ident is None or n.id == ident)


def _assigned_names(stmt):
    out = set()
    for n in ast.walk(stmt):
        if isinstance(n, (ast.Name,)) and isinstance(n.ctx, (ast.Store, ast.Del)):
            out.add(n.id)
    return out


def handler_chain(tree):
    fn = _find(tree.body, ast.FunctionDef, 'make_http_servers')
    loops = [s for s in fn.body if isinstance(s, ast.For)]
    if len(loops) != 1:
        raise Reject('make_http_servers: expected one top-level for loop')
    loop = loops[0]
    if not (_is_name(loop.target, 'config') and isinstance(loop.iter, ast.Attribute)
            and loop.iter.attr == 'server_configs'):
        raise Reject('make_http_servers: loop is not `for config in options.server_configs`')
    body = loop.body
    # all install_handler calls of the function are top-level statements of the loop
    installs = []
    for idx, s in enumerate(body):
        if (isinstance(s, ast.Expr) and isinstance(s.value, ast.Call)
                and isinstance(s.value.func, ast.Attribute) and s.value.func.attr == 'install_handler'):
            c = s.value
            if not _is_name(c.func.value, 'hs') or len(c.args) != 1 or c.keywords or not _is_name(c.args[0]):
                raise Reject('install_handler call of unexpected shape at line %d' % s.lineno)
            installs.append((idx, c.args[0].id))
    total = 0
    for n in ast.walk(fn):
        if isinstance(n, ast.Attribute) and n.attr == 'install_handler':
            total += 1
        if isinstance(n, ast.Attribute) and n.attr in ('handlers', 'remove_handler'):
            raise Reject('make_http_servers touches .%s directly (line %d)' % (n.attr, n.lineno))
    if total != len(installs) or not installs:
        raise Reject('install_handler used outside the loop body top level (%d vs %d)' % (total, len(installs)))
    names = [n for _, n in installs]
    if len(set(names)) != len(names):
        raise Reject('a handler variable is installed twice: %r' % names)
    # the `if username:` statement
    ifs = [(i, s) for i, s in enumerate(body) if isinstance(s, ast.If)]
    ifs_user = [(i, s) for i, s in ifs if _is_name(s.test, 'username')]
    if len(ifs_user) != 1:
        raise Reject('expected exactly one `if username:` in the loop body, found %d' % len(ifs_user))
    if_idx, ifs_stmt = ifs_user[0]
    if if_idx > installs[0][0]:
        raise Reject('`if username:` comes after an install_handler call')
    # username / password come from the config, once, before the if
    seen = {}
    for i, s in enumerate(body[:if_idx]):
        if isinstance(s, ast.Assign) and len(s.targets) == 1 and _is_name(s.targets[0]) \
                and s.targets[0].id in ('username', 'password'):
            v = s.value
            if not (isinstance(v, ast.Subscript) and _is_name(v.value, 'config')
                    and isinstance(v.slice, ast.Constant) and v.slice.value == s.targets[0].id):
                raise Reject('%s is not config[%r]' % (s.targets[0].id, s.targets[0].id))
            if s.targets[0].id in seen:
                raise Reject('%s assigned twice' % s.targets[0].id)
            seen[s.targets[0].id] = i
    if set(seen) != {'username', 'password'}:
        raise Reject('username/password are not both read from config before the if')
    # body of the if: users = {username:password}; X = supervisor_auth_handler(users, X)
    wrapped = []
    users = None          # name of the {username:password} dictionary
    for s in ifs_stmt.body:
        if (isinstance(s, ast.Assign) and len(s.targets) == 1 and _is_name(s.targets[0])
                and isinstance(s.value, ast.Dict)):
            d = s.value
            if not (len(d.keys) == 1 and _is_name(d.keys[0], 'username') and _is_name(d.values[0], 'password')) \
                    or wrapped or users is not None or s.targets[0].id in names:
                raise Reject('credential dictionary is not {username:password} (line %d)' % s.lineno)
            users = s.targets[0].id
            continue
        if isinstance(s, ast.Assign) and len(s.targets) == 1 and _is_name(s.targets[0]):
            t = s.targets[0].id
            c = s.value
            ok = (isinstance(c, ast.Call) and _is_name(c.func, 'supervisor_auth_handler') and len(c.args) == 2
                  and not c.keywords and users is not None and _is_name(c.args[0], users) and _is_name(c.args[1], t))
            if ok:
                if t in wrapped:
                    raise Reject('%s wrapped twice' % t)
                wrapped.append(t)
                continue
            if t in names or t in ('username', 'password', users):
                raise Reject('unexpected rebinding of %s at line %d' % (t, s.lineno))
            continue
        if _assigned_names(s) & (set(names) | {'username', 'password', users}):
            raise Reject('unexpected statement rebinding a handler in the if body (line %d)' % s.lineno)
    for s in ifs_stmt.orelse:
        if _assigned_names(s) & set(names):
            raise Reject('the else branch rebinds a handler variable (line %d)' % s.lineno)
    # nothing between the if and the last install rebinds a handler or the credentials
    for s in body[if_idx + 1:]:
        if _assigned_names(s) & (set(names) | {'hs'}):
            raise Reject('statement after `if username:` rebinds %r (line %d)'
                         % (sorted(_assigned_names(s) & (set(names) | {'hs'})), s.lineno))
    # other ifs in the loop body must not rebind handlers either
    for i, s in ifs:
        if s is not ifs_stmt and i > min(seen.values()) and _assigned_names(s) & set(names):
            raise Reject('another if statement rebinds a handler variable (line %d)' % s.lineno)
    # every handler variable is created before the if
    classes = {}
    for n in names:
        created = [i for i, s in enumerate(body[:if_idx]) if n in _assigned_names(s)]
        if not created:
            raise Reject('handler variable %s is not bound before `if username:`' % n)
        st = body[created[-1]]
        if not (isinstance(st, ast.Assign) and len(st.targets) == 1 and _is_name(st.targets[0], n)
                and isinstance(st.value, ast.Call)):
            raise Reject('handler variable %s is not created by a constructor call (line %d)' % (n, st.lineno))
        f = st.value.func
        classes[n] = f.id if isinstance(f, ast.Name) else f.attr if isinstance(f, ast.Attribute) else None
        if classes[n] is None:
            raise Reject('constructor of %s not recognised' % n)
    handler_chain.classes = classes          # variable -> class of the handler it holds (wrapper i wraps handler i)
    return names, wrapped


def install_order(http_tree, medusa_tree):
    """install_handler(handler) inserts at index 0; the channel walks
    self.server.handlers from the front."""
    cls = _find(medusa_tree.body, ast.ClassDef, 'http_server')
    fn = _find(cls.body, ast.FunctionDef, 'install_handler')
    args = [a.arg for a in fn.args.args]
    ok = (args == ['self', 'handler', 'back'] and len(fn.args.defaults) == 1
          and isinstance(fn.args.defaults[0], ast.Constant) and not fn.args.defaults[0].value
          and len(fn.body) == 1 and isinstance(fn.body[0], ast.If) and _is_name(fn.body[0].test, 'back'))
    if ok:
        els = fn.body[0].orelse
        ok = (len(els) == 1 and isinstance(els[0], ast.Expr) and isinstance(els[0].value, ast.Call)
              and isinstance(els[0].value.func, ast.Attribute) and els[0].value.func.attr == 'insert'
              and ast.dump(els[0].value.func.value) == ast.dump(ast.parse('self.handlers').body[0].value)
              and len(els[0].value.args) == 2 and isinstance(els[0].value.args[0], ast.Constant)
              and els[0].value.args[0].value == 0 and _is_name(els[0].value.args[1], 'handler'))
    if not ok:
        raise Reject('http_server.install_handler is not `insert(0, handler)` by default')
    for c in http_tree.body:
        if isinstance(c, ast.ClassDef):
            for m in c.body:
                if isinstance(m, ast.FunctionDef) and m.name in ('install_handler', 'remove_handler'):
                    raise Reject('%s overrides %s' % (c.name, m.name))
    ch = _find(http_tree.body, ast.ClassDef, 'deferring_http_channel')
    ft = _find(ch.body, ast.FunctionDef, 'found_terminator')
    loops = [n for n in ast.walk(ft) if isinstance(n, ast.For)]
    want = ast.dump(ast.parse('self.server.handlers').body[0].value)
    if len(loops) != 1 or ast.dump(loops[0].iter) != want:
        raise Reject('found_terminator does not dispatch with `for h in self.server.handlers`')
    srv = _find(http_tree.body, ast.ClassDef, 'supervisor_http_server')
    cc = [s for s in srv.body if isinstance(s, ast.Assign) and _is_name(s.targets[0], 'channel_class')]
    if len(cc) != 1 or not _is_name(cc[0].value, 'deferring_http_channel'):
        raise Reject('supervisor_http_server.channel_class is not deferring_http_channel')


def wrapper_class(http_tree):
    cls = _find(http_tree.body, ast.ClassDef, 'supervisor_auth_handler')
    if len(cls.bases) != 1 or not _is_name(cls.bases[0], 'auth_handler'):
        raise Reject('supervisor_auth_handler does not derive from auth_handler alone')
    methods = [m.name for m in cls.body if isinstance(m, ast.FunctionDef)]
    if methods != ['__init__']:
        raise Reject('supervisor_auth_handler defines %r (expected only __init__)' % methods)
    init = cls.body[[isinstance(m, ast.FunctionDef) for m in cls.body].index(True)]
    sets = [s for s in ast.walk(init) if isinstance(s, ast.Assign)]
    ok = (len(sets) == 1 and isinstance(sets[0].targets[0], ast.Attribute) and sets[0].targets[0].attr == 'authorizer'
          and isinstance(sets[0].value, ast.Call) and _is_name(sets[0].value.func, 'encrypted_dictionary_authorizer')
          and len(sets[0].value.args) == 1 and _is_name(sets[0].value.args[0], 'dict'))
    if not ok:
        raise Reject('supervisor_auth_handler.__init__ does not install encrypted_dictionary_authorizer(dict)')
    imp = [n for n in http_tree.body if isinstance(n, ast.ImportFrom) and n.module == 'supervisor.medusa.auth_handler']
    if len(imp) != 1 or [a.name for a in imp[0].names] != ['auth_handler']:
        raise Reject('auth_handler is not imported from supervisor.medusa.auth_handler')


def authorizer_constants(http_tree):
    cls = _find(http_tree.body, ast.ClassDef, 'encrypted_dictionary_authorizer')
    fn = _find(cls.body, ast.FunctionDef, 'authorize')
    prefixes = [n.args[0].value for n in ast.walk(fn)
                if isinstance(n, ast.Call) and isinstance(n.func, ast.Attribute) and n.func.attr == 'startswith'
                and len(n.args) == 1 and isinstance(n.args[0], ast.Constant)]
    skips = [n.slice.lower.value for n in ast.walk(fn)
             if isinstance(n, ast.Subscript) and isinstance(n.slice, ast.Slice) and n.slice.upper is None
             and isinstance(n.slice.lower, ast.Constant)]
    if len(prefixes) != 1 or not isinstance(prefixes[0], str) or len(skips) != 1 or not isinstance(skips[0], int):
        raise Reject('encrypted_dictionary_authorizer.authorize: prefix/slice constants not found')
    return prefixes[0], skips[0]


def auth_regex(auth_tree):
    assigns = [s for s in auth_tree.body if isinstance(s, ast.Assign) and _is_name(s.targets[0], 'AUTHORIZATION')]
    if len(assigns) != 1:
        raise Reject('AUTHORIZATION regex not found')
    c = assigns[0].value
    ok = (isinstance(c, ast.Call) and ast.dump(c.func) == ast.dump(ast.parse('re.compile').body[0].value)
          and len(c.args) == 2 and isinstance(c.args[0], ast.Constant) and isinstance(c.args[0].value, str)
          and ast.dump(c.args[1]) == ast.dump(ast.parse('re.IGNORECASE').body[0].value) and not c.keywords)
    if not ok:
        raise Reject('AUTHORIZATION is not re.compile(<str>, re.IGNORECASE)')
    pat = c.args[0].value
    tail = ' ([^ ]+) (.*)'
    if not pat.endswith(tail):
        raise Reject('AUTHORIZATION pattern %r does not end with %r' % (pat, tail))
    lit = pat[:-len(tail)] + ' '
    if not re.match(r'^[A-Za-z\-]+: $', lit):
        raise Reject('AUTHORIZATION pattern has a non-literal head: %r' % pat)
    cls = _find(auth_tree.body, ast.ClassDef, 'auth_handler')
    fn = _find(cls.body, ast.FunctionDef, 'handle_request')
    words = [n.comparators[0].value for n in ast.walk(fn)
             if isinstance(n, ast.Compare) and _is_name(n.left, 'scheme') and len(n.ops) == 1
             and isinstance(n.ops[0], ast.Eq) and isinstance(n.comparators[0], ast.Constant)]
    if len(words) != 1 or not isinstance(words[0], str) or not words[0]:
        raise Reject('scheme comparison constant not found in auth_handler.handle_request')
    lowers = [n for n in ast.walk(fn) if isinstance(n, ast.Call) and isinstance(n.func, ast.Attribute)
              and n.func.attr == 'lower' and _is_name(n.func.value, 'scheme')]
    if len(lowers) != 1:
        raise Reject('scheme.lower() not found')
    return lit, words[0]


_UNI = {}


def ci_alternatives(lit):
    """Code points `re` accepts for each character of a literal under
    re.IGNORECASE (str pattern: Unicode case rules)."""
    key = ''.join(sorted(set(lit)))
    if key not in _UNI:
        cls = re.compile('[' + re.escape(key) + ']', re.IGNORECASE)
        cands = [cp for cp in range(0x110000) if cls.match(chr(cp))]
        table = {}
        for ch in key:
            one = re.compile(re.escape(ch), re.IGNORECASE)
            table[ch] = [cp for cp in cands if one.match(chr(cp))]
        _UNI[key] = table
    return [_UNI[key][ch] for ch in lit]


def lower_alternatives(word):
    """Code points c with chr(c).lower() == the given letter; fails closed if
    some character lower-cases to a multi-character string made of letters of
    the word (the per-position table could not express that)."""
    letters = set(word)
    table = dict((ch, []) for ch in letters)
    for cp in range(0x110000):
        low = chr(cp).lower()
        if len(low) == 1:
            if low in letters:
                table[low].append(cp)
        elif set(low) <= letters:
            raise Reject('U+%04X lower-cases to %r inside the scheme word' % (cp, low))
    return [table[ch] for ch in word]


def catch_all(names, classes):
    """The handler consulted last must claim every request (so that, all handlers
    being wrapped, every dispatched request meets an authentication wrapper):
    it is a medusa default_handler whose match() is `return <true constant>`."""
    tree = _src('supervisor/medusa/default_handler.py')
    cls = _find(tree.body, ast.ClassDef, 'default_handler')
    fn = _find(cls.body, ast.FunctionDef, 'match')
    stmts = [st for st in fn.body if not (isinstance(st, ast.Expr) and isinstance(st.value, ast.Constant))]
    ok = (len(stmts) == 1 and isinstance(stmts[0], ast.Return) and isinstance(stmts[0].value, ast.Constant)
          and bool(stmts[0].value.value) is True)
    if not ok:
        raise Reject('default_handler.match() is no longer `return 1`: the catch-all handler may decline requests, '
                     'which then fall through to an unauthenticated 404')
    last = list(reversed(names))[-1]
    if classes[last] != 'default_handler':
        raise Reject('the handler consulted last (%s) is not the medusa default_handler' % last)


def generate():
    http_tree = _src('supervisor/http.py')
    medusa_tree = _src('supervisor/medusa/http_server.py')
    auth_tree = _src('supervisor/medusa/auth_handler.py')
    names, wrapped = handler_chain(http_tree)
    install_order(http_tree, medusa_tree)
    catch_all(names, handler_chain.classes)
    wrapper_class(http_tree)
    prefix, skip = authorizer_constants(http_tree)
    if skip != len(prefix):
        raise Reject('authorizer strips %d characters for the %d-character prefix %r' % (skip, len(prefix), prefix))
    lit, word = auth_regex(auth_tree)
    dispatch = list(reversed(names))
    lines = ['(* GENERATED by gen/c17_http.py from supervisor/http.py, medusa/http_server.py,',
             '   medusa/auth_handler.py - do not edit *)',
             'From Coq Require Import ZArith List Bool.', 'Import ListNotations.', 'Open Scope Z_scope.', '']
    lines.append('(* handler variables of make_http_servers in dispatch order; true = rebound to')
    lines.append('   supervisor_auth_handler(users, <itself>) in the `if username:` branch *)')
    lines.append('Definition installed_handlers : list (list Z * bool) :=')
    ents = ['    (%s, %s) (* %s *)' % (vlib.bytes_lit(n.encode()), 'true' if n in wrapped else 'false', n)
            for n in dispatch]
    lines.append('  [\n' + ';\n'.join(ents) + '\n  ].')
    lines.append('')
    lines.append('(* %r under re.IGNORECASE *)' % lit)
    lines.append('Definition auth_literal : list (list Z) :=\n  [ ' +
                 ';\n    '.join(vlib.zlist(a) for a in ci_alternatives(lit)) + ' ].')
    lines.append('')
    lines.append('(* scheme.lower() == %r *)' % word)
    lines.append('Definition scheme_literal : list (list Z) :=\n  [ ' +
                 ';\n    '.join(vlib.zlist(a) for a in lower_alternatives(word)) + ' ].')
    lines.append('')
    lines.append('Definition sha_prefix : list Z := %s. (* %r *)' % (vlib.bytes_lit(prefix.encode()), prefix))
    lines.append('Definition sha_skip : Z := %d.' % skip)
    lines.append('')
    lines.append('(* the handler consulted last is a medusa default_handler whose match() is `return 1` *)')
    lines.append('Definition catch_all_last : bool := true.')
    lines.append('')
    vlib.write_if_changed(os.path.join(vlib.COQ, 'C17', 'Gen_http.v'), '\n'.join(lines))
    bare = [n for n in dispatch if n not in wrapped]
    if bare:
        raise Reject('handler(s) %s installed but NOT wrapped in supervisor_auth_handler when a username is configured'
                     % ', '.join(bare))
    extra = [n for n in wrapped if n not in names]
    if extra:
        raise Reject('wrapped but never installed: %r' % extra)
    return {'dispatch': dispatch, 'wrapped': wrapped, 'literal': lit, 'scheme': word, 'prefix': prefix,
            'classes': [handler_chain.classes[n] for n in dispatch]}


if __name__ == '__main__':
    print(generate())
