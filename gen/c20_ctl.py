"""C20 translator: supervisorctl.py / xmlrpc.py / states.py / rpcinterface.py -> coq/C20/Gen_ctl.v

Reads the current working tree with `ast` and fails closed (raises Reject) on any
shape it does not recognise.  What it extracts:

  * xmlrpc.Faults                              -> Faults, F_<NAME>
  * LSBInitExitStatuses / LSBStatusExitStatuses -> LSBInit_<NAME>, LSBStatus_<NAME>
  * DEAD_PROGRAM_FAULTS                        -> DEAD_PROGRAM_FAULTS
  * Controller.set_exitstatus_from_xmlrpc_fault -> its exact three-way shape is
    checked; the two statuses it assigns      -> setexit_dead, setexit_other
  * the if/elif chains of _startresult / _signalresult / _clearresult as
    association lists  fault code -> wording   -> *_table ; the fall-through must be
    `return template % (name, '<a>%s<b>%s<c>' % (code, description))` -> *_default
  * _stopresult = _signalresult(result, success=<word>) and the default of
    `success` in _signalresult                 -> stop_success, signal_success
  * the ignored_faultcode argument of every set_exitstatus_from_xmlrpc_fault call
    site inside do_start/do_stop/do_signal/do_clear, in source order
                                               -> ignored_<action> : list (option Z)
  * states.ProcessStates / STOPPED_STATES      -> STOPPED_STATES
  * rpcinterface.API_VERSION                   -> API_VERSION
  * errno.ECONNREFUSED / errno.ENOENT of the running platform (environment fact)
"""
import ast
import errno
import os

import vlib


class Reject(Exception):
    pass


def _parse(rel):
    path = os.path.join(vlib.REPO, rel)
    with open(path) as f:
        return ast.parse(f.read(), path)


def _cls(tree, name):
    for n in tree.body:
        if isinstance(n, ast.ClassDef) and n.name == name:
            return n
    raise Reject('class %s not found' % name)


def _int_class(tree, name):
    """class X: A = 1; B = 2 ... (only integer constant assignments)."""
    c = _cls(tree, name)
    out = []
    for st in c.body:
        if isinstance(st, ast.Expr) and isinstance(st.value, ast.Constant) and isinstance(st.value.value, str):
            continue  # docstring
        if not (isinstance(st, ast.Assign) and len(st.targets) == 1 and isinstance(st.targets[0], ast.Name)
                and isinstance(st.value, ast.Constant) and type(st.value.value) is int):
            raise Reject('%s: unexpected statement %s' % (name, ast.dump(st)[:200]))
        out.append((st.targets[0].id, st.value.value))
    if not out:
        raise Reject('%s is empty' % name)
    if len(set(k for k, _ in out)) != len(out):
        raise Reject('%s: duplicate names' % name)
    return out


def _func(cls, name):
    for n in cls.body:
        if isinstance(n, ast.FunctionDef) and n.name == name:
            return n
    raise Reject('method %s.%s not found' % (cls.name, name))


def _attr_chain(e):
    """a.b.c -> ['a','b','c'] or None."""
    parts = []
    while isinstance(e, ast.Attribute):
        parts.append(e.attr)
        e = e.value
    if isinstance(e, ast.Name):
        parts.append(e.id)
        return parts[::-1]
    return None


def _fault_ref(e, faults):
    ch = _attr_chain(e)
    if ch and len(ch) == 3 and ch[0] == 'xmlrpc' and ch[1] == 'Faults' and ch[2] in faults:
        return faults[ch[2]]
    raise Reject('expected xmlrpc.Faults.<NAME>, got %s' % ast.dump(e)[:200])


def _lsb_ref(e, table, clsname):
    ch = _attr_chain(e)
    if ch and len(ch) == 2 and ch[0] == clsname and ch[1] in table:
        return table[ch[1]]
    raise Reject('expected %s.<NAME>, got %s' % (clsname, ast.dump(e)[:200]))


def _is_name(e, n):
    return isinstance(e, ast.Name) and e.id == n


def _str(e):
    if isinstance(e, ast.Constant) and isinstance(e.value, str):
        return e.value
    return None


def _wording_chain(fn, faults, has_success_param):
    """Body shape:
         name = make_namespec(result['group'], result['name'])
         code = result['status']
         [fault_string = result['description']]
         template = '%s: ERROR (%s)'
         if code == xmlrpc.Faults.X: return <wording> elif ...
         return template % (name, '<a>%s<b>%s<c>' % (code, <description>))     (default wording)
    """
    body = [s for s in fn.body if not (isinstance(s, ast.Expr) and _str(s.value) is not None)]
    assigns = {}
    i = 0
    while i < len(body) and isinstance(body[i], ast.Assign):
        st = body[i]
        if not (len(st.targets) == 1 and isinstance(st.targets[0], ast.Name)):
            raise Reject('%s: unexpected assignment' % fn.name)
        assigns[st.targets[0].id] = st.value
        i += 1
    want = {'name', 'code', 'template'}
    if not want <= set(assigns) or not set(assigns) <= want | {'fault_string'}:
        raise Reject('%s: unexpected local variables %s' % (fn.name, sorted(assigns)))
    if ast.dump(assigns['name']) != ast.dump(ast.parse("make_namespec(result['group'], result['name'])").body[0].value):
        raise Reject('%s: name is not make_namespec(result[group], result[name])' % fn.name)
    if ast.dump(assigns['code']) != ast.dump(ast.parse("result['status']").body[0].value):
        raise Reject('%s: code is not result[status]' % fn.name)
    if 'fault_string' in assigns and ast.dump(assigns['fault_string']) != ast.dump(ast.parse("result['description']").body[0].value):
        raise Reject('%s: fault_string is not result[description]' % fn.name)
    if _str(assigns['template']) != '%s: ERROR (%s)':
        raise Reject('%s: template changed: %r' % (fn.name, _str(assigns['template'])))
    rest = body[i:]
    if len(rest) != 2 or not isinstance(rest[0], ast.If) or not isinstance(rest[1], ast.Return):
        raise Reject('%s: expected one if/elif chain followed by `return template %% (name, <default wording>)`' % fn.name)
    # the fall-through: return template % (name, '<fmt with two %s>' % (code, <description>))
    r = rest[1].value
    descr_ok = False
    default = None
    if (isinstance(r, ast.BinOp) and isinstance(r.op, ast.Mod) and _is_name(r.left, 'template')
            and isinstance(r.right, ast.Tuple) and len(r.right.elts) == 2 and _is_name(r.right.elts[0], 'name')):
        inner = r.right.elts[1]
        if (isinstance(inner, ast.BinOp) and isinstance(inner.op, ast.Mod) and _str(inner.left) is not None
                and isinstance(inner.right, ast.Tuple) and len(inner.right.elts) == 2
                and _is_name(inner.right.elts[0], 'code')):
            d = inner.right.elts[1]
            if 'fault_string' in assigns and _is_name(d, 'fault_string'):
                descr_ok = True
            elif ast.dump(d) == ast.dump(ast.parse("result['description']").body[0].value):
                descr_ok = True
            fmt = _str(inner.left)
            pieces = fmt.split('%s')
            if len(pieces) == 3 and '%' not in ''.join(pieces):
                default = tuple(pieces)
    if not descr_ok or default is None:
        raise Reject('%s: fall-through is not `return template %% (name, "<a>%%s<b>%%s<c>" %% (code, description))`' % fn.name)
    table = []
    node = rest[0]
    while True:
        t = node.test
        if not (isinstance(t, ast.Compare) and len(t.ops) == 1 and isinstance(t.ops[0], ast.Eq)
                and _is_name(t.left, 'code') and len(t.comparators) == 1):
            raise Reject('%s: test is not code == xmlrpc.Faults.X' % fn.name)
        code = _fault_ref(t.comparators[0], faults)
        if len(node.body) != 1 or not isinstance(node.body[0], ast.Return):
            raise Reject('%s: branch is not a single return' % fn.name)
        table.append((code, _wording(fn, node.body[0].value, has_success_param, 'fault_string' in assigns)))
        if not node.orelse:
            break
        if len(node.orelse) != 1 or not isinstance(node.orelse[0], ast.If):
            raise Reject('%s: else branch in the chain' % fn.name)
        node = node.orelse[0]
    return table, default


def _wording(fn, e, has_success_param, has_fault_string):
    # fault_string
    if has_fault_string and _is_name(e, 'fault_string'):
        return ('WFaultString', None)
    if isinstance(e, ast.BinOp) and isinstance(e.op, ast.Mod):
        # template % (name, 'text')
        if (_is_name(e.left, 'template') and isinstance(e.right, ast.Tuple) and len(e.right.elts) == 2
                and _is_name(e.right.elts[0], 'name') and _str(e.right.elts[1]) is not None):
            return ('WErr', _str(e.right.elts[1]))
        # '%s: word' % name
        s = _str(e.left)
        if s is not None and s.startswith('%s: ') and '%' not in s[4:] and _is_name(e.right, 'name'):
            return ('WOk', s[4:])
        # '%s: %s' % (name, success)
        if (s == '%s: %s' and has_success_param and isinstance(e.right, ast.Tuple) and len(e.right.elts) == 2
                and _is_name(e.right.elts[0], 'name') and _is_name(e.right.elts[1], 'success')):
            return ('WSuccessArg', None)
    raise Reject('%s: unrecognised wording expression %s' % (fn.name, ast.dump(e)[:300]))


def _ignored_sites(fn, faults):
    """Every call self.ctl.set_exitstatus_from_xmlrpc_fault(X[, Y]) inside fn, in
    source order; returns the list of Y (fault code or None)."""
    sites = []
    for n in ast.walk(fn):
        if isinstance(n, ast.Call) and isinstance(n.func, ast.Attribute) and n.func.attr == 'set_exitstatus_from_xmlrpc_fault':
            if _attr_chain(n.func) != ['self', 'ctl', 'set_exitstatus_from_xmlrpc_fault']:
                raise Reject('%s: unexpected receiver of set_exitstatus_from_xmlrpc_fault' % fn.name)
            if n.keywords:
                if len(n.keywords) != 1 or n.keywords[0].arg != 'ignored_faultcode' or len(n.args) != 1:
                    raise Reject('%s: unexpected keywords at call site' % fn.name)
                ign = _fault_ref(n.keywords[0].value, faults)
            elif len(n.args) == 2:
                ign = _fault_ref(n.args[1], faults)
            elif len(n.args) == 1:
                ign = None
            else:
                raise Reject('%s: unexpected argument count at call site' % fn.name)
            a0 = n.args[0]
            good = False
            if isinstance(a0, ast.Subscript) and isinstance(a0.value, ast.Name) and a0.value.id in ('result', 'error'):
                sl = a0.slice
                if _str(sl) == 'status':
                    good = True
            if not good:
                raise Reject('%s: first argument of set_exitstatus_from_xmlrpc_fault is not result/error[status]' % fn.name)
            sites.append((n.lineno, n.col_offset, ign))
    sites.sort()
    return [s[2] for s in sites]


def _check_set_exitstatus(fn, faults, lsb):
    """if faultcode in (ignored_faultcode, xmlrpc.Faults.SUCCESS): pass
       elif faultcode in DEAD_PROGRAM_FAULTS: self.exitstatus = LSBInitExitStatuses.A
       else: self.exitstatus = LSBInitExitStatuses.B"""
    a = fn.args
    if [x.arg for x in a.args] != ['self', 'faultcode', 'ignored_faultcode'] or len(a.defaults) != 1 \
            or not (isinstance(a.defaults[0], ast.Constant) and a.defaults[0].value is None):
        raise Reject('set_exitstatus_from_xmlrpc_fault: signature changed')
    body = [s for s in fn.body if not (isinstance(s, ast.Expr) and _str(s.value) is not None)]
    if len(body) != 1 or not isinstance(body[0], ast.If):
        raise Reject('set_exitstatus_from_xmlrpc_fault: body is not a single if')
    i1 = body[0]
    t = i1.test
    ok = (isinstance(t, ast.Compare) and len(t.ops) == 1 and isinstance(t.ops[0], ast.In) and _is_name(t.left, 'faultcode')
          and isinstance(t.comparators[0], ast.Tuple) and len(t.comparators[0].elts) == 2
          and _is_name(t.comparators[0].elts[0], 'ignored_faultcode'))
    if not ok or _fault_ref(t.comparators[0].elts[1], faults) != faults['SUCCESS']:
        raise Reject('set_exitstatus_from_xmlrpc_fault: first test changed')
    if len(i1.body) != 1 or not isinstance(i1.body[0], ast.Pass):
        raise Reject('set_exitstatus_from_xmlrpc_fault: first branch is not pass')
    if len(i1.orelse) != 1 or not isinstance(i1.orelse[0], ast.If):
        raise Reject('set_exitstatus_from_xmlrpc_fault: no elif')
    i2 = i1.orelse[0]
    t = i2.test
    ok = (isinstance(t, ast.Compare) and len(t.ops) == 1 and isinstance(t.ops[0], ast.In) and _is_name(t.left, 'faultcode')
          and _is_name(t.comparators[0], 'DEAD_PROGRAM_FAULTS'))
    if not ok:
        raise Reject('set_exitstatus_from_xmlrpc_fault: second test changed')

    def assigned(stmts):
        if len(stmts) != 1 or not isinstance(stmts[0], ast.Assign) or len(stmts[0].targets) != 1 \
                or _attr_chain(stmts[0].targets[0]) != ['self', 'exitstatus']:
            raise Reject('set_exitstatus_from_xmlrpc_fault: branch is not self.exitstatus = ...')
        return _lsb_ref(stmts[0].value, lsb, 'LSBInitExitStatuses')
    return assigned(i2.body), assigned(i2.orelse)


def coq_str(s):
    if any(ord(c) < 32 or ord(c) > 126 for c in s):
        raise Reject('non printable text in a table: %r' % s)
    return '"%s"' % s.replace('"', '""')


def zl(n):
    return '(%d)' % n if n < 0 else '%d' % n


def extract():
    x = _parse('supervisor/xmlrpc.py')
    faults_l = _int_class(x, 'Faults')
    faults = dict(faults_l)
    if len(set(faults.values())) != len(faults):
        raise Reject('Faults: two names share a code')
    for need in ('SUCCESS', 'BAD_NAME', 'UNKNOWN_METHOD', 'SHUTDOWN_STATE', 'ALREADY_STARTED', 'NOT_RUNNING',
                 'ALREADY_ADDED', 'STILL_RUNNING', 'CANT_REREAD', 'NO_FILE', 'FAILED', 'BAD_SIGNAL',
                 'NOT_EXECUTABLE', 'SPAWN_ERROR', 'ABNORMAL_TERMINATION'):
        if need not in faults:
            raise Reject('Faults.%s missing' % need)
    c = _parse('supervisor/supervisorctl.py')
    lsbinit_l = _int_class(c, 'LSBInitExitStatuses')
    lsbstat_l = _int_class(c, 'LSBStatusExitStatuses')
    lsbinit = dict(lsbinit_l)
    for need in ('SUCCESS', 'GENERIC', 'INVALID_ARGS', 'UNIMPLEMENTED_FEATURE', 'INSUFFICIENT_PRIVILEGES',
                 'NOT_INSTALLED', 'NOT_RUNNING'):
        if need not in lsbinit:
            raise Reject('LSBInitExitStatuses.%s missing' % need)
    for need in ('NOT_RUNNING', 'UNKNOWN'):
        if need not in dict(lsbstat_l):
            raise Reject('LSBStatusExitStatuses.%s missing' % need)
    dead = None
    for n in c.body:
        if isinstance(n, ast.Assign) and len(n.targets) == 1 and _is_name(n.targets[0], 'DEAD_PROGRAM_FAULTS'):
            if dead is not None or not isinstance(n.value, (ast.Tuple, ast.List)):
                raise Reject('DEAD_PROGRAM_FAULTS: unexpected definition')
            dead = [_fault_ref(e, faults) for e in n.value.elts]
    if dead is None:
        raise Reject('DEAD_PROGRAM_FAULTS not found')
    ctl = _cls(c, 'Controller')
    sx_dead, sx_other = _check_set_exitstatus(_func(ctl, 'set_exitstatus_from_xmlrpc_fault'), faults, lsbinit)
    plug = _cls(c, 'DefaultControllerPlugin')
    start_t, start_d = _wording_chain(_func(plug, '_startresult'), faults, False)
    sigfn = _func(plug, '_signalresult')
    if [a.arg for a in sigfn.args.args] != ['self', 'result', 'success'] or len(sigfn.args.defaults) != 1 \
            or _str(sigfn.args.defaults[0]) is None:
        raise Reject('_signalresult: signature changed')
    signal_success = _str(sigfn.args.defaults[0])
    signal_t, signal_d = _wording_chain(sigfn, faults, True)
    clear_t, clear_d = _wording_chain(_func(plug, '_clearresult'), faults, False)
    stopfn = _func(plug, '_stopresult')
    sb = [s for s in stopfn.body if not (isinstance(s, ast.Expr) and _str(s.value) is not None)]
    ok = (len(sb) == 1 and isinstance(sb[0], ast.Return) and isinstance(sb[0].value, ast.Call)
          and _attr_chain(sb[0].value.func) == ['self', '_signalresult'] and len(sb[0].value.args) == 1
          and _is_name(sb[0].value.args[0], 'result') and len(sb[0].value.keywords) == 1
          and sb[0].value.keywords[0].arg == 'success' and _str(sb[0].value.keywords[0].value) is not None)
    if not ok:
        raise Reject('_stopresult is not `return self._signalresult(result, success=<text>)`')
    stop_success = _str(sb[0].value.keywords[0].value)
    ignored = {}
    for act, nsites in (('start', 3), ('stop', 3), ('signal', 3), ('clear', 2)):
        s = _ignored_sites(_func(plug, 'do_' + act), faults)
        if len(s) != nsites:
            raise Reject('do_%s: expected %d set_exitstatus_from_xmlrpc_fault call sites, found %d' % (act, nsites, len(s)))
        ignored[act] = s
    # no other action may call it (the model does not know about it)
    for n in plug.body:
        if isinstance(n, ast.FunctionDef) and n.name not in ('do_start', 'do_stop', 'do_signal', 'do_clear'):
            for m in ast.walk(n):
                if isinstance(m, ast.Attribute) and m.attr == 'set_exitstatus_from_xmlrpc_fault':
                    raise Reject('%s uses set_exitstatus_from_xmlrpc_fault: not modelled' % n.name)
    st = _parse('supervisor/states.py')
    pstates = dict(_int_class(st, 'ProcessStates'))
    stopped = None
    for n in st.body:
        if isinstance(n, ast.Assign) and len(n.targets) == 1 and _is_name(n.targets[0], 'STOPPED_STATES'):
            if not isinstance(n.value, (ast.Tuple, ast.List)):
                raise Reject('STOPPED_STATES: unexpected definition')
            stopped = []
            for e in n.value.elts:
                ch = _attr_chain(e)
                if not (ch and len(ch) == 2 and ch[0] == 'ProcessStates' and ch[1] in pstates):
                    raise Reject('STOPPED_STATES: unexpected element')
                stopped.append(pstates[ch[1]])
    if stopped is None:
        raise Reject('STOPPED_STATES not found')
    rp = _parse('supervisor/rpcinterface.py')
    api = None
    for n in rp.body:
        if isinstance(n, ast.Assign) and len(n.targets) == 1 and _is_name(n.targets[0], 'API_VERSION'):
            api = _str(n.value)
    if api is None:
        raise Reject('rpcinterface.API_VERSION not found')
    if 'RUNNING' not in pstates:
        raise Reject('ProcessStates.RUNNING missing')
    return dict(ps_running=pstates['RUNNING'], faults=faults_l, lsbinit=lsbinit_l, lsbstat=lsbstat_l, dead=dead, sx_dead=sx_dead, sx_other=sx_other,
                start_t=start_t, signal_t=signal_t, clear_t=clear_t, start_d=start_d, signal_d=signal_d, clear_d=clear_d, signal_success=signal_success,
                stop_success=stop_success, ignored=ignored, stopped=stopped, api=api)


def render(d):
    o = []
    w = o.append
    w('(* GENERATED by gen/c20_ctl.py from supervisor/supervisorctl.py, xmlrpc.py, states.py,')
    w('   rpcinterface.py of the current working tree.  Do not edit. *)')
    w('From Coq Require Import ZArith List String.')
    w('Import ListNotations.')
    w('Open Scope Z_scope.')
    w('Open Scope string_scope.')
    w('')
    w('(* how a result line is worded: *)')
    w('Inductive wording :=')
    w('| WErr (what : string)      (* template % (name, what)  with template = "%s: ERROR (%s)" *)')
    w('| WOk (word : string)       (* "%s: <word>" % name *)')
    w('| WSuccessArg               (* "%s: %s" % (name, success) *)')
    w('| WFaultString.             (* the server\'s description, verbatim *)')
    w('')
    w('Definition Faults : list (string * Z) :=')
    w('  [ ' + '\n  ; '.join('(%s, %s)' % (coq_str(k), zl(v)) for k, v in d['faults']) + ' ].')
    for k, v in d['faults']:
        w('Definition F_%s : Z := %s.' % (k, zl(v)))
    w('')
    for k, v in d['lsbinit']:
        w('Definition LSBInit_%s : Z := %s.' % (k, zl(v)))
    w('Definition LSBInit_all : list Z := [%s].' % '; '.join(zl(v) for _, v in d['lsbinit']))
    for k, v in d['lsbstat']:
        w('Definition LSBStatus_%s : Z := %s.' % (k, zl(v)))
    w('')
    w('Definition DEAD_PROGRAM_FAULTS : list Z := [%s].' % '; '.join(zl(v) for v in d['dead']))
    w('(* set_exitstatus_from_xmlrpc_fault: ignored/SUCCESS -> unchanged; dead program -> setexit_dead; else setexit_other *)')
    w('Definition setexit_dead : Z := %s.' % zl(d['sx_dead']))
    w('Definition setexit_other : Z := %s.' % zl(d['sx_other']))
    w('')

    def tbl(name, t):
        w('Definition %s : list (Z * wording) :=' % name)
        items = []
        for code, (kind, text) in t:
            if kind in ('WErr', 'WOk'):
                items.append('(%s, %s %s)' % (zl(code), kind, coq_str(text)))
            else:
                items.append('(%s, %s)' % (zl(code), kind))
        w('  [ ' + '\n  ; '.join(items) + ' ].')
    tbl('startresult_table', d['start_t'])
    tbl('signalresult_table', d['signal_t'])
    tbl('clearresult_table', d['clear_t'])
    w('(* the fall-through of each chain: template % (name, a ++ str(code) ++ b ++ description ++ c) *)')
    for nm, key in (('startresult', 'start_d'), ('signalresult', 'signal_d'), ('clearresult', 'clear_d')):
        w('Definition %s_default : string * string * string := (%s, %s, %s).' % ((nm,) + tuple(coq_str(x) for x in d[key])))
    w('Definition signal_success : string := %s.' % coq_str(d['signal_success']))
    w('Definition stop_success : string := %s.' % coq_str(d['stop_success']))
    w('')
    w('(* ignored_faultcode at the call sites of set_exitstatus_from_xmlrpc_fault, in source order')
    w('   (start/stop/signal: the `all` form, the group form, the single-process form; clear: all, single) *)')
    for act in ('start', 'stop', 'signal', 'clear'):
        w('Definition ignored_%s : list (option Z) := [%s].' % (
            act, '; '.join('None' if v is None else 'Some %s' % zl(v) for v in d['ignored'][act])))
    w('')
    w('Definition STOPPED_STATES : list Z := [%s].' % '; '.join(zl(v) for v in d['stopped']))
    w('Definition PS_RUNNING : Z := %s.' % zl(d['ps_running']))
    w('Definition API_VERSION : string := %s.' % coq_str(d['api']))
    w('(* errno values of the platform the check runs on *)')
    w('Definition ECONNREFUSED : Z := %d.' % errno.ECONNREFUSED)
    w('Definition ENOENT : Z := %d.' % errno.ENOENT)
    return '\n'.join(o) + '\n'


def generate():
    text = render(extract())
    vlib.write_if_changed(os.path.join(vlib.COQ, 'C20', 'Gen_ctl.v'), text)
    return text


if __name__ == '__main__':
    import sys
    sys.path.insert(0, os.path.join(os.path.dirname(os.path.dirname(os.path.abspath(__file__))), 'lib'))
    print(generate())
