"""C15 translator: what configuration equality compares.

Reads (with `ast`, fail closed: any shape this file does not expect raises):
  supervisor/options.py   ProcessConfig.req_param_names / optional_param_names,
                          ProcessConfig.__init__ (which attributes a process config has),
                          ProcessConfig.__eq__ (the list it iterates, the Automatic wildcard),
                          ProcessGroupConfig / EventListenerPoolConfig / FastCGIGroupConfig
                          __eq__: isinstance guard, attribute names compared, delegation,
                          Config.__ne__ (= not __eq__), the class parents
  supervisor/datatypes.py SocketConfig.__eq__ / __ne__ (attributes compared directly and
                          attributes compared through getattr(x, a, None)), parents of the socket classes
  supervisor/xmlrpc.py    class Faults
  supervisor/states.py    class ProcessStates, STOPPED_STATES, RUNNING_STATES
Writes coq/C15/Gen_fields.v.

Every __eq__ is reduced to a *conjunction* of atoms
    isinstance(other, C) | self.a == other.a | Base.__eq__(self, other)
by a tiny symbolic evaluator that accepts only the statement forms
    if not isinstance(other, C): return False
    if self.a != other.a: return False
    if (self.a == other.a) and ...: return True      [then: return False]
    return True | return False | return Base.__eq__(self, other)
Anything else is rejected.
"""
import ast
import os

import vlib

OUT = os.path.join(vlib.COQ, 'C15', 'Gen_fields.v')


class Reject(Exception):
    pass


def _need(cond, msg):
    if not cond:
        raise Reject(msg)


def _parse(rel):
    path = os.path.join(vlib.REPO, rel)
    with open(path) as f:
        src = f.read()
    return ast.parse(src, path)


def _find_class(mod, name):
    for n in mod.body:
        if isinstance(n, ast.ClassDef) and n.name == name:
            return n
    raise Reject('class %s not found' % name)


def _find_method(cls, name, required=True):
    found = [n for n in cls.body if isinstance(n, ast.FunctionDef) and n.name == name]
    _need(len(found) <= 1, 'method %s.%s defined twice' % (cls.name, name))
    if not found:
        _need(not required, 'method %s.%s not found' % (cls.name, name))
        return None
    return found[0]


def _body(fn):
    """statements of a function without its docstring"""
    b = list(fn.body)
    if b and isinstance(b[0], ast.Expr) and isinstance(b[0].value, ast.Constant) and isinstance(b[0].value.value, str):
        b = b[1:]
    return b


def _cstr(s):
    _need('"' not in s and '\\' not in s, 'unexpected character in name %r' % s)
    return '"' + s + '"'


def _clist(xs):
    return '[' + '; '.join(_cstr(x) for x in xs) + ']'


def _str_list_attr(cls, name):
    found = []
    for n in cls.body:
        if isinstance(n, ast.Assign) and len(n.targets) == 1 and isinstance(n.targets[0], ast.Name) \
                and n.targets[0].id == name:
            found.append(n)
    _need(len(found) == 1, '%s.%s must be assigned exactly once in the class body' % (cls.name, name))
    v = found[0].value
    _need(isinstance(v, ast.List), '%s.%s is not a list literal' % (cls.name, name))
    out = []
    for e in v.elts:
        _need(isinstance(e, ast.Constant) and isinstance(e.value, str), '%s.%s has a non-string element' % (cls.name, name))
        out.append(e.value)
    _need(len(set(out)) == len(out), '%s.%s has a duplicate' % (cls.name, name))
    return out


def _args_are(fn, names):
    a = fn.args
    _need([x.arg for x in a.args] == names and not a.vararg and not a.kwonlyargs and not a.kwarg
          and not a.defaults and not fn.decorator_list,
          '%s has unexpected parameters/decorators (line %d)' % (fn.name, fn.lineno))


def _is_self_attr(node, who='self'):
    return isinstance(node, ast.Attribute) and isinstance(node.value, ast.Name) and node.value.id == who


def _attr_lists_expr(node, known):
    """`self.a + self.b + ...` over known list attributes -> list of attribute names"""
    if isinstance(node, ast.BinOp) and isinstance(node.op, ast.Add):
        return _attr_lists_expr(node.left, known) + _attr_lists_expr(node.right, known)
    if _is_self_attr(node) and node.attr in known:
        return [node.attr]
    raise Reject('unexpected iterable in ProcessConfig (line %d): %s' % (node.lineno, ast.dump(node)))


def _is_getattr(node, who):
    return (isinstance(node, ast.Call) and isinstance(node.func, ast.Name) and node.func.id == 'getattr'
            and len(node.args) == 2 and not node.keywords
            and isinstance(node.args[0], ast.Name) and node.args[0].id == who
            and isinstance(node.args[1], ast.Name) and node.args[1].id == 'name')


def _isinstance_guard(st):
    """`if not isinstance(other, C): return False` -> C"""
    ok = (isinstance(st, ast.If) and not st.orelse and isinstance(st.test, ast.UnaryOp)
          and isinstance(st.test.op, ast.Not) and isinstance(st.test.operand, ast.Call)
          and isinstance(st.test.operand.func, ast.Name) and st.test.operand.func.id == 'isinstance'
          and len(st.test.operand.args) == 2 and not st.test.operand.keywords
          and isinstance(st.test.operand.args[0], ast.Name) and st.test.operand.args[0].id == 'other'
          and isinstance(st.test.operand.args[1], ast.Name)
          and len(st.body) == 1 and _is_return_const(st.body[0], False))
    _need(ok, 'expected `if not isinstance(other, C): return False` at line %d' % st.lineno)
    return st.test.operand.args[1].id


def _is_return_const(st, val):
    return isinstance(st, ast.Return) and isinstance(st.value, ast.Constant) and st.value.value is val


def _process_config(opts):
    cls = _find_class(opts, 'ProcessConfig')
    lists = {'req_param_names': _str_list_attr(cls, 'req_param_names'),
             'optional_param_names': _str_list_attr(cls, 'optional_param_names')}
    _need(not set(lists['req_param_names']) & set(lists['optional_param_names']),
          'a name is both required and optional')
    # __init__: which attributes exist
    init = _find_method(cls, '__init__')
    b = _body(init)
    _need(len(b) == 3, 'ProcessConfig.__init__ has an unexpected number of statements')
    st = b[0]
    _need(isinstance(st, ast.Assign) and len(st.targets) == 1 and _is_self_attr(st.targets[0])
          and st.targets[0].attr == 'options', 'ProcessConfig.__init__: first statement is not self.options = ...')
    init_lists = []
    for st, how in ((b[1], 'subscript'), (b[2], 'get')):
        ok = (isinstance(st, ast.For) and not st.orelse and isinstance(st.target, ast.Name) and st.target.id == 'name'
              and _is_self_attr(st.iter) and st.iter.attr in lists and len(st.body) == 1
              and isinstance(st.body[0], ast.Expr) and isinstance(st.body[0].value, ast.Call)
              and isinstance(st.body[0].value.func, ast.Name) and st.body[0].value.func.id == 'setattr'
              and len(st.body[0].value.args) == 3
              and isinstance(st.body[0].value.args[0], ast.Name) and st.body[0].value.args[0].id == 'self'
              and isinstance(st.body[0].value.args[1], ast.Name) and st.body[0].value.args[1].id == 'name')
        _need(ok, 'ProcessConfig.__init__: unexpected loop at line %d' % st.lineno)
        init_lists.append(st.iter.attr)
    _need(init_lists == ['req_param_names', 'optional_param_names'], 'ProcessConfig.__init__ sets unexpected lists')
    # __eq__
    eq = _find_method(cls, '__eq__')
    _args_are(eq, ['self', 'other'])
    b = _body(eq)
    _need(len(b) == 3, 'ProcessConfig.__eq__ has an unexpected number of statements')
    isinst = _isinstance_guard(b[0])
    loop = b[1]
    _need(isinstance(loop, ast.For) and not loop.orelse and isinstance(loop.target, ast.Name)
          and loop.target.id == 'name', 'ProcessConfig.__eq__: expected `for name in ...`')
    eq_lists = _attr_lists_expr(loop.iter, lists)
    _need(len(loop.body) == 2, 'ProcessConfig.__eq__: loop body has an unexpected number of statements')
    s1, s2 = loop.body
    ok1 = (isinstance(s1, ast.If) and not s1.orelse and len(s1.body) == 1 and isinstance(s1.body[0], ast.Continue)
           and isinstance(s1.test, ast.Compare) and len(s1.test.ops) == 1 and isinstance(s1.test.ops[0], ast.In)
           and isinstance(s1.test.left, ast.Name) and s1.test.left.id == 'Automatic'
           and isinstance(s1.test.comparators[0], ast.List) and len(s1.test.comparators[0].elts) == 2
           and _is_getattr(s1.test.comparators[0].elts[0], 'self')
           and _is_getattr(s1.test.comparators[0].elts[1], 'other'))
    _need(ok1, 'ProcessConfig.__eq__: the Automatic wildcard test has an unexpected shape (line %d)' % s1.lineno)
    ok2 = (isinstance(s2, ast.If) and not s2.orelse and len(s2.body) == 1 and _is_return_const(s2.body[0], False)
           and isinstance(s2.test, ast.Compare) and len(s2.test.ops) == 1 and isinstance(s2.test.ops[0], ast.NotEq)
           and _is_getattr(s2.test.left, 'self') and _is_getattr(s2.test.comparators[0], 'other'))
    _need(ok2, 'ProcessConfig.__eq__: the field comparison has an unexpected shape (line %d)' % s2.lineno)
    _need(_is_return_const(b[2], True), 'ProcessConfig.__eq__ does not end with `return True`')
    # subclasses must not override equality
    for sub in ('EventListenerConfig', 'FastCGIProcessConfig'):
        c = _find_class(opts, sub)
        for m in ('__eq__', '__ne__', '__hash__', '__init__'):
            _need(_find_method(c, m, required=False) is None, '%s overrides %s' % (sub, m))
    return lists, init_lists, eq_lists, isinst


def _cmp_atom(node, op_type):
    """`self.a <op> other.a` -> a"""
    ok = (isinstance(node, ast.Compare) and len(node.ops) == 1 and isinstance(node.ops[0], op_type)
          and _is_self_attr(node.left, 'self') and _is_self_attr(node.comparators[0], 'other')
          and node.left.attr == node.comparators[0].attr)
    _need(ok, 'unexpected comparison at line %d: %s' % (node.lineno, ast.dump(node)))
    return node.left.attr


def _dflt_atom(node):
    """`getattr(self, 'a', None) != getattr(other, 'a', None)` -> a, else None"""
    if not (isinstance(node, ast.Compare) and len(node.ops) == 1 and isinstance(node.ops[0], ast.NotEq)):
        return None
    sides = []
    for who, c in (('self', node.left), ('other', node.comparators[0])):
        ok = (isinstance(c, ast.Call) and isinstance(c.func, ast.Name) and c.func.id == 'getattr' and not c.keywords
              and len(c.args) == 3 and isinstance(c.args[0], ast.Name) and c.args[0].id == who
              and isinstance(c.args[1], ast.Constant) and isinstance(c.args[1].value, str)
              and isinstance(c.args[2], ast.Constant) and c.args[2].value is None)
        if not ok:
            return None
        sides.append(c.args[1].value)
    _need(sides[0] == sides[1], 'getattr comparison of two different attributes at line %d' % node.lineno)
    return sides[0]


def _conj_eq(cls, dflt=None):
    """__eq__ of a group/socket config class -> (isinstance class, [attrs], delegate class or None).
    With a list `dflt`, atoms `getattr(self, 'a', None) != getattr(other, 'a', None)` are accepted
    too and their attribute names appended to it."""
    eq = _find_method(cls, '__eq__')
    _args_are(eq, ['self', 'other'])
    b = _body(eq)
    _need(len(b) >= 2, '%s.__eq__ too short' % cls.name)
    isinst = _isinstance_guard(b[0])
    attrs = []
    delegate = None
    rest = b[1:]
    while rest:
        st = rest.pop(0)
        if isinstance(st, ast.If) and not st.orelse and len(st.body) == 1 and _is_return_const(st.body[0], False):
            d = _dflt_atom(st.test) if dflt is not None else None
            if d is not None:
                _need(d not in dflt and d not in attrs, '%s.__eq__ compares %s twice' % (cls.name, d))
                dflt.append(d)
            else:
                attrs.append(_cmp_atom(st.test, ast.NotEq))
            continue
        if isinstance(st, ast.If) and not st.orelse and len(st.body) == 1 and _is_return_const(st.body[0], True):
            # if (A == A') and (...): return True ; return False
            t = st.test
            conj = t.values if (isinstance(t, ast.BoolOp) and isinstance(t.op, ast.And)) else [t]
            for c in conj:
                attrs.append(_cmp_atom(c, ast.Eq))
            _need(len(rest) == 1 and _is_return_const(rest[0], False),
                  '%s.__eq__: `if conj: return True` must be followed by `return False` only' % cls.name)
            rest = []
            break
        if _is_return_const(st, True):
            _need(not rest, '%s.__eq__: statements after return True' % cls.name)
            break
        if isinstance(st, ast.Return) and isinstance(st.value, ast.Call):
            c = st.value
            ok = (isinstance(c.func, ast.Attribute) and c.func.attr == '__eq__' and isinstance(c.func.value, ast.Name)
                  and len(c.args) == 2 and not c.keywords
                  and isinstance(c.args[0], ast.Name) and c.args[0].id == 'self'
                  and isinstance(c.args[1], ast.Name) and c.args[1].id == 'other')
            _need(ok and not rest, '%s.__eq__: unexpected delegation at line %d' % (cls.name, st.lineno))
            delegate = c.func.value.id
            break
        raise Reject('%s.__eq__: unexpected statement at line %d' % (cls.name, st.lineno))
    else:
        raise Reject('%s.__eq__ falls off the end (returns None)' % cls.name)
    _need(len(set(attrs)) == len(attrs), '%s.__eq__ compares an attribute twice' % cls.name)
    return isinst, attrs, delegate


def _ne_is_not_eq(cls):
    ne = _find_method(cls, '__ne__')
    _args_are(ne, ['self', 'other'])
    b = _body(ne)
    ok = (len(b) == 1 and isinstance(b[0], ast.Return) and isinstance(b[0].value, ast.UnaryOp)
          and isinstance(b[0].value.op, ast.Not) and isinstance(b[0].value.operand, ast.Call)
          and isinstance(b[0].value.operand.func, ast.Attribute) and b[0].value.operand.func.attr == '__eq__'
          and isinstance(b[0].value.operand.func.value, ast.Name) and b[0].value.operand.func.value.id == 'self'
          and len(b[0].value.operand.args) == 1 and isinstance(b[0].value.operand.args[0], ast.Name)
          and b[0].value.operand.args[0].id == 'other')
    _need(ok, '%s.__ne__ is not `return not self.__eq__(other)`' % cls.name)


def _parents(mod, names, table):
    for name in names:
        cls = _find_class(mod, name)
        _need(len(cls.bases) <= 1 and not cls.keywords, 'class %s has unexpected bases' % name)
        if cls.bases:
            _need(isinstance(cls.bases[0], ast.Name), 'class %s has an unexpected base expression' % name)
            table.append((name, cls.bases[0].id))
        else:
            table.append((name, 'object'))


def _int_class(mod, name):
    cls = _find_class(mod, name)
    out = []
    for n in cls.body:
        _need(isinstance(n, ast.Assign) and len(n.targets) == 1 and isinstance(n.targets[0], ast.Name)
              and isinstance(n.value, ast.Constant) and isinstance(n.value.value, int)
              and not isinstance(n.value.value, bool), 'class %s: unexpected member at line %d' % (name, n.lineno))
        out.append((n.targets[0].id, n.value.value))
    return out


def _state_tuple(mod, name, states):
    for n in mod.body:
        if isinstance(n, ast.Assign) and len(n.targets) == 1 and isinstance(n.targets[0], ast.Name) \
                and n.targets[0].id == name:
            _need(isinstance(n.value, ast.Tuple), '%s is not a tuple' % name)
            out = []
            for e in n.value.elts:
                _need(isinstance(e, ast.Attribute) and isinstance(e.value, ast.Name) and e.value.id == 'ProcessStates'
                      and e.attr in states, '%s has an unexpected element' % name)
                out.append(states[e.attr])
            return out
    raise Reject('%s not found' % name)


def extract():
    opts = _parse('supervisor/options.py')
    dt = _parse('supervisor/datatypes.py')
    lists, init_lists, eq_lists, pc_isinst = _process_config(opts)
    _need(pc_isinst == 'ProcessConfig', 'ProcessConfig.__eq__ tests isinstance of %s' % pc_isinst)
    _ne_is_not_eq(_find_class(opts, 'Config'))
    groups = {}
    for cname in ('ProcessGroupConfig', 'EventListenerPoolConfig', 'FastCGIGroupConfig'):
        cls = _find_class(opts, cname)
        groups[cname] = _conj_eq(cls)
        _need(_find_method(cls, '__ne__', required=False) is None, '%s overrides __ne__' % cname)
    sock_cls = _find_class(dt, 'SocketConfig')
    sock_dflt = []
    sock = _conj_eq(sock_cls, sock_dflt)
    _need(sock[2] is None, 'SocketConfig.__eq__ delegates')
    _need(not set(sock_dflt) & set(sock[1]), 'SocketConfig.__eq__ compares an attribute twice')
    _ne_is_not_eq(sock_cls)
    for sub in ('InetStreamSocketConfig', 'UnixStreamSocketConfig'):
        c = _find_class(dt, sub)
        for m in ('__eq__', '__ne__'):
            _need(_find_method(c, m, required=False) is None, '%s overrides %s' % (sub, m))
    parents = []
    _parents(opts, ['Config', 'ProcessConfig', 'EventListenerConfig', 'FastCGIProcessConfig', 'ProcessGroupConfig',
                    'EventListenerPoolConfig', 'FastCGIGroupConfig'], parents)
    _parents(dt, ['SocketConfig', 'InetStreamSocketConfig', 'UnixStreamSocketConfig'], parents)
    faults = _int_class(_parse('supervisor/xmlrpc.py'), 'Faults')
    st_mod = _parse('supervisor/states.py')
    states = dict(_int_class(st_mod, 'ProcessStates'))
    return {
        'lists': lists, 'init_lists': init_lists, 'eq_lists': eq_lists, 'groups': groups, 'sock': sock,
        'sock_dflt': sock_dflt,
        'parents': parents, 'faults': faults, 'states': states,
        'stopped_states': _state_tuple(st_mod, 'STOPPED_STATES', states),
        'running_states': _state_tuple(st_mod, 'RUNNING_STATES', states),
    }


def render(x):
    L = []
    w = L.append
    w('(* GENERATED by gen/c15_fields.py from the working tree of the implementation. Do not edit. *)')
    w('From Coq Require Import ZArith List String.')
    w('Import ListNotations.')
    w('Open Scope string_scope.')
    w('')
    w('Definition req_param_names : list string :=\n  %s.' % _clist(x['lists']['req_param_names']))
    w('Definition optional_param_names : list string :=\n  %s.' % _clist(x['lists']['optional_param_names']))
    w('(* attributes ProcessConfig.__init__ sets *)')
    w('Definition pc_init_fields : list string := %s.' % ' ++ '.join(x['init_lists']))
    w('(* names ProcessConfig.__eq__ iterates over; each is skipped when either side is Automatic *)')
    w('Definition pc_eq_fields : list string := %s.' % ' ++ '.join(x['eq_lists']))
    w('Definition pc_eq_isinstance : string := "ProcessConfig".')
    w('')
    short = {'ProcessGroupConfig': 'pgc', 'EventListenerPoolConfig': 'pool', 'FastCGIGroupConfig': 'fcgi'}
    for cname, s in short.items():
        isinst, attrs, delegate = x['groups'][cname]
        w('(* %s.__eq__ : isinstance(other, %s) and the attributes below%s *)' % (
            cname, isinst, (' and %s.__eq__(self, other)' % delegate) if delegate else ''))
        w('Definition %s_eq_isinstance : string := %s.' % (s, _cstr(isinst)))
        w('Definition %s_eq_attrs : list string := %s.' % (s, _clist(attrs)))
        w('Definition %s_eq_super : option string := %s.' % (s, ('Some %s' % _cstr(delegate)) if delegate else 'None'))
    isinst, attrs, _ = x['sock']
    w('Definition sock_eq_isinstance : string := %s.' % _cstr(isinst))
    w('(* compared as self.a != other.a *)')
    w('Definition sock_eq_attrs : list string := %s.' % _clist(attrs))
    w('(* compared as getattr(self, a, None) != getattr(other, a, None) *)')
    w('Definition sock_eq_attrs_dflt : list string := %s.' % _clist(x['sock_dflt']))
    w('')
    w('(* class -> its single base class *)')
    w('Definition class_parent : list (string * string) :=\n  [%s].' % ';\n   '.join(
        '(%s, %s)' % (_cstr(a), _cstr(b)) for a, b in x['parents']))
    w('')
    w('Open Scope Z_scope.')
    for name, v in x['faults']:
        w('Definition F_%s : Z := %d.' % (name, v))
    for name, v in sorted(x['states'].items(), key=lambda kv: kv[1]):
        w('Definition PS_%s : Z := %d.' % (name, v))
    w('Definition STOPPED_STATES : list Z := [%s].' % '; '.join(str(v) for v in x['stopped_states']))
    w('Definition RUNNING_STATES : list Z := [%s].' % '; '.join(str(v) for v in x['running_states']))
    return '\n'.join(L) + '\n'


def generate():
    vlib.write_if_changed(OUT, render(extract()))


if __name__ == '__main__':
    generate()
    print(open(OUT).read())
