"""C11 translator: supervisor/events.py (+ states.py, process.py and the
`notify(...)` call sites of supervisor/*.py) -> coq/C11/Gen_events.v.

Everything is read with `ast` from vlib.REPO's working tree; nothing is
imported.  Fail closed: any shape this translator does not know raises
`Reject`, which the check turns into a violation.

Generated:
  evclass            one constructor per class of events.py (except EventTypes)
  all_classes, cls_idx, cls_name, parents
  event_types        the EventTypes class body, in order: (name, class)
  payload_kind       which payload() the class inherits
  channel_of         class attribute `channel`
  extra_spec         get_extra_values(), resolved along the base chain
  eager_extra        ProcessStateEvent.__init__ stores get_extra_values() eagerly
  tick_events        TICK_EVENTS with each class's `period`
  process_states     ProcessStates (name, code)
  supervisor_running SupervisorStates.RUNNING
  event_map          Subprocess.event_map
  notified           classes that reach events.notify() anywhere in supervisor/*.py
"""
import ast
import glob
import os

import vlib


class Reject(Exception):
    pass


PAYLOAD_KINDS = {
    'ProcessLogEvent': 'PKLog',
    'ProcessCommunicationEvent': 'PKComm',
    'RemoteCommunicationEvent': 'PKRemote',
    'SupervisorStateChangeEvent': 'PKSupervisor',
    'ProcessStateEvent': 'PKState',
    'ProcessGroupEvent': 'PKGroup',
    'TickEvent': 'PKTick',
}

EXTRA_SRC = {
    "Call(func=Name(id='int'), args=[Attribute(value=Attribute(value=Name(id='self'), attr='process'), attr='backoff')], keywords=[])": 'SrcBackoff',
    "Call(func=Name(id='int'), args=[Attribute(value=Name(id='self'), attr='expected')], keywords=[])": 'SrcExpected',
    "Attribute(value=Attribute(value=Name(id='self'), attr='process'), attr='pid')": 'SrcPid',
}


def _dump(node):
    return ast.dump(node, annotate_fields=True, include_attributes=False).replace(', ctx=Load()', '').replace('ctx=Load()', '')


def _parse(rel):
    path = os.path.join(vlib.REPO, rel)
    with open(path) as f:
        return ast.parse(f.read(), path)


def _is_doc(stmt):
    return isinstance(stmt, ast.Expr) and isinstance(stmt.value, ast.Constant) and isinstance(stmt.value.value, str)


def zl(s):
    if isinstance(s, str):
        s = s.encode('ascii')
    return '[' + '; '.join(str(b) for b in s) + ']'


# ------------------------------------------------------------------ events.py

def read_events():
    tree = _parse('supervisor/events.py')
    classes = []          # (name, [bases], {attr: node}, {method: FunctionDef})
    event_types = None
    tick_events = None
    for node in tree.body:
        if isinstance(node, ast.ClassDef):
            if node.decorator_list or node.keywords:
                raise Reject('events.py: class %s has decorators/keywords' % node.name)
            bases = []
            for b in node.bases:
                if not isinstance(b, ast.Name):
                    raise Reject('events.py: class %s has a base that is not a plain name' % node.name)
                bases.append(b.id)
            attrs, methods = {}, {}
            for st in node.body:
                if _is_doc(st) or isinstance(st, ast.Pass):
                    continue
                if isinstance(st, ast.Assign) and len(st.targets) == 1 and isinstance(st.targets[0], ast.Name):
                    if st.targets[0].id in attrs:
                        raise Reject('events.py: %s.%s assigned twice' % (node.name, st.targets[0].id))
                    attrs[st.targets[0].id] = st.value
                    if node.name == 'EventTypes':
                        attrs.setdefault('__order__', []).append(st.targets[0].id)
                    continue
                if isinstance(st, ast.FunctionDef):
                    if st.decorator_list:
                        raise Reject('events.py: %s.%s is decorated' % (node.name, st.name))
                    methods[st.name] = st
                    continue
                raise Reject('events.py: unexpected statement in class %s: %s' % (node.name, _dump(st)[:80]))
            if node.name == 'EventTypes':
                if bases or methods:
                    raise Reject('events.py: EventTypes has bases or methods')
                event_types = attrs
            else:
                if node.name in [c[0] for c in classes]:
                    raise Reject('events.py: class %s defined twice' % node.name)
                classes.append((node.name, bases, attrs, methods))
        elif isinstance(node, ast.Assign) and len(node.targets) == 1 and isinstance(node.targets[0], ast.Name) \
                and node.targets[0].id == 'TICK_EVENTS':
            if tick_events is not None or not isinstance(node.value, ast.List):
                raise Reject('events.py: TICK_EVENTS shape')
            tick_events = []
            for e in node.value.elts:
                if not isinstance(e, ast.Name):
                    raise Reject('events.py: TICK_EVENTS element is not a name')
                tick_events.append(e.id)
    if event_types is None or tick_events is None:
        raise Reject('events.py: EventTypes or TICK_EVENTS not found')
    names = [c[0] for c in classes]
    cmap = dict((c[0], c) for c in classes)
    for name, bases, _, _ in classes:
        if len(bases) > 1:
            raise Reject('events.py: class %s has several bases' % name)
        for b in bases:
            if b not in names or names.index(b) >= names.index(name):
                raise Reject('events.py: class %s has unknown base %s' % (name, b))

    def chain(name):
        out = [name]
        while cmap[out[-1]][1]:
            out.append(cmap[out[-1]][1][0])
        return out

    def resolve_attr(name, attr):
        for c in chain(name):
            if attr in cmap[c][2]:
                return c, cmap[c][2][attr]
        return None, None

    def resolve_method(name, meth):
        for c in chain(name):
            if meth in cmap[c][3]:
                return c, cmap[c][3][meth]
        return None, None

    # EventTypes table
    et = []
    for k in event_types.get('__order__', []):
        v = event_types[k]
        if not isinstance(v, ast.Name) or v.id not in names:
            raise Reject('events.py: EventTypes.%s is not a class of this module' % k)
        if not k.replace('_', '').isalnum() or k.startswith('__'):
            raise Reject('events.py: EventTypes.%s: unexpected name' % k)
        et.append((k, v.id))
    if not et:
        raise Reject('events.py: EventTypes is empty')

    payload_kind, channel_of, extra_spec = {}, {}, {}
    for name in names:
        owner, fn = resolve_method(name, 'payload')
        if owner is None:
            payload_kind[name] = 'PKNone'
        elif owner in PAYLOAD_KINDS:
            payload_kind[name] = PAYLOAD_KINDS[owner]
        else:
            raise Reject('events.py: payload() defined in unmodelled class %s' % owner)
        _, ch = resolve_attr(name, 'channel')
        if ch is None or (isinstance(ch, ast.Constant) and ch.value is None):
            channel_of[name] = None
        elif isinstance(ch, ast.Constant) and isinstance(ch.value, str) and ch.value.isascii():
            channel_of[name] = ch.value
        else:
            raise Reject('events.py: %s.channel is not a string constant' % name)
        owner, fn = resolve_method(name, 'get_extra_values')
        if owner is None:
            extra_spec[name] = None
        else:
            body = [s for s in fn.body if not _is_doc(s)]
            if len(body) != 1 or not isinstance(body[0], ast.Return) or not isinstance(body[0].value, ast.List):
                raise Reject('events.py: %s.get_extra_values is not a single `return [...]`' % owner)
            items = []
            for e in body[0].value.elts:
                if not (isinstance(e, ast.Tuple) and len(e.elts) == 2 and isinstance(e.elts[0], ast.Constant)
                        and isinstance(e.elts[0].value, str) and e.elts[0].value.isascii()):
                    raise Reject('events.py: %s.get_extra_values element shape' % owner)
                src = EXTRA_SRC.get(_dump(e.elts[1]))
                if src is None:
                    raise Reject('events.py: %s.get_extra_values: unmodelled value expression %s' % (owner, _dump(e.elts[1])))
                items.append((e.elts[0].value, src))
            extra_spec[name] = items

    # ProcessStateEvent.__init__ renders extra values eagerly
    eager = False
    if 'ProcessStateEvent' in cmap:
        init = cmap['ProcessStateEvent'][3].get('__init__')
        pay = cmap['ProcessStateEvent'][3].get('payload')
        if init is not None:
            for st in init.body:
                if _dump(st) == ("Assign(targets=[Attribute(value=Name(id='self'), attr='extra_values', ctx=Store())], "
                                 "value=Call(func=Attribute(value=Name(id='self'), attr='get_extra_values'), args=[], keywords=[]))"):
                    eager = True
        if pay is not None and 'get_extra_values' in _dump(pay):
            eager = False

    ticks = []
    for t in tick_events:
        if t not in names:
            raise Reject('events.py: TICK_EVENTS names unknown class %s' % t)
        _, per = resolve_attr(t, 'period')
        if not (isinstance(per, ast.Constant) and isinstance(per.value, int) and not isinstance(per.value, bool)):
            raise Reject('events.py: %s.period is not an int constant' % t)
        ticks.append((t, per.value))
    return {'names': names, 'cmap': cmap, 'event_types': et, 'payload_kind': payload_kind,
            'channel_of': channel_of, 'extra_spec': extra_spec, 'ticks': ticks, 'eager': eager}


# ------------------------------------------------------------------ states.py

def read_states():
    tree = _parse('supervisor/states.py')
    out = {}
    for node in tree.body:
        if isinstance(node, ast.ClassDef) and node.name in ('ProcessStates', 'SupervisorStates'):
            items = []
            for st in node.body:
                if _is_doc(st) or isinstance(st, ast.Pass):
                    continue
                ok = (isinstance(st, ast.Assign) and len(st.targets) == 1 and isinstance(st.targets[0], ast.Name))
                val = None
                if ok:
                    v = st.value
                    if isinstance(v, ast.Constant) and isinstance(v.value, int) and not isinstance(v.value, bool):
                        val = v.value
                    elif isinstance(v, ast.UnaryOp) and isinstance(v.op, ast.USub) and isinstance(v.operand, ast.Constant) \
                            and isinstance(v.operand.value, int):
                        val = -v.operand.value
                if val is None:
                    raise Reject('states.py: unexpected statement in %s' % node.name)
                items.append((st.targets[0].id, val))
            if len(set(c for _, c in items)) != len(items) or len(set(n for n, _ in items)) != len(items):
                raise Reject('states.py: %s has duplicate names or codes' % node.name)
            out[node.name] = items
    if 'ProcessStates' not in out or 'SupervisorStates' not in out:
        raise Reject('states.py: ProcessStates/SupervisorStates not found')
    return out


# ------------------------------------------------------------------ process.py

def read_event_map(ev, states):
    tree = _parse('supervisor/process.py')
    codes = dict(states['ProcessStates'])
    for node in tree.body:
        if isinstance(node, ast.ClassDef) and node.name == 'Subprocess':
            for st in node.body:
                if isinstance(st, ast.Assign) and len(st.targets) == 1 and isinstance(st.targets[0], ast.Name) \
                        and st.targets[0].id == 'event_map':
                    if not isinstance(st.value, ast.Dict):
                        raise Reject('process.py: event_map is not a dict display')
                    out = []
                    for k, v in zip(st.value.keys, st.value.values):
                        if not (isinstance(k, ast.Attribute) and isinstance(k.value, ast.Name)
                                and k.value.id == 'ProcessStates' and k.attr in codes):
                            raise Reject('process.py: event_map key shape')
                        if not (isinstance(v, ast.Attribute) and isinstance(v.value, ast.Name)
                                and v.value.id == 'events' and v.attr in ev['names']):
                            raise Reject('process.py: event_map value shape')
                        if codes[k.attr] in [c for c, _ in out]:
                            raise Reject('process.py: event_map duplicate key')
                        out.append((codes[k.attr], v.attr))
                    return out
    raise Reject('process.py: Subprocess.event_map not found')


# ------------------------------------------------------- notify() call sites

class _Site(object):
    def __init__(self, rel, tree, ev, event_map):
        self.rel = rel
        self.tree = tree
        self.ev = ev
        self.event_map = event_map
        self.notify_names = set()     # local names bound to events.notify
        self.events_mods = set()      # local names bound to the events module
        self.class_names = {}         # local name -> events class
        for node in ast.walk(tree):
            if isinstance(node, ast.ImportFrom) and node.module == 'supervisor.events':
                for a in node.names:
                    local = a.asname or a.name
                    if a.name == 'notify':
                        self.notify_names.add(local)
                    elif a.name in ev['names']:
                        self.class_names[local] = a.name
            elif isinstance(node, ast.ImportFrom) and node.module == 'supervisor':
                for a in node.names:
                    if a.name == 'events':
                        self.events_mods.add(a.asname or a.name)
            elif isinstance(node, ast.Import):
                for a in node.names:
                    if a.name == 'supervisor.events':
                        raise Reject('%s: `import supervisor.events` form is not handled' % rel)

    def is_notify(self, f):
        if isinstance(f, ast.Name) and f.id in self.notify_names:
            return True
        return (isinstance(f, ast.Attribute) and f.attr == 'notify' and isinstance(f.value, ast.Name)
                and f.value.id in self.events_mods)

    def class_ref(self, n):
        if isinstance(n, ast.Name) and n.id in self.class_names:
            return self.class_names[n.id]
        if isinstance(n, ast.Attribute) and isinstance(n.value, ast.Name) and n.value.id in self.events_mods \
                and n.attr in self.ev['names']:
            return n.attr
        return None


def _output_dispatcher_types(sites):
    """Event classes passed as `event_type` to POutputDispatcher(proc, etype, fd)
    anywhere in supervisor/*.py."""
    found = set()
    for s in sites:
        for fn in ast.walk(s.tree):
            if not isinstance(fn, (ast.FunctionDef, ast.Module)):
                continue
            for call in ast.walk(fn):
                if isinstance(call, ast.Call) and isinstance(call.func, ast.Name) and call.func.id == 'POutputDispatcher':
                    if len(call.args) != 3 or call.keywords:
                        raise Reject('%s: POutputDispatcher call shape' % s.rel)
                    a = call.args[1]
                    c = s.class_ref(a)
                    if c:
                        found.add(c)
                        continue
                    if not isinstance(a, ast.Name):
                        raise Reject('%s: POutputDispatcher event_type argument shape' % s.rel)
                    got = False
                    for asg in ast.walk(fn):
                        if isinstance(asg, ast.Assign) and len(asg.targets) == 1 and isinstance(asg.targets[0], ast.Name) \
                                and asg.targets[0].id == a.id:
                            c = s.class_ref(asg.value)
                            if not c:
                                raise Reject('%s: `%s = ...` is not an events class' % (s.rel, a.id))
                            found.add(c)
                            got = True
                    if not got and isinstance(fn, ast.FunctionDef):
                        raise Reject('%s: cannot resolve POutputDispatcher event_type `%s`' % (s.rel, a.id))
    return found


def _tick_loop_classes(site, fn, var, ev):
    for loop in ast.walk(fn):
        if isinstance(loop, ast.For) and isinstance(loop.target, ast.Name) and loop.target.id == var:
            it = loop.iter
            if isinstance(it, ast.Attribute) and it.attr == 'TICK_EVENTS' and isinstance(it.value, ast.Name) \
                    and it.value.id in site.events_mods:
                return [t for t, _ in ev['ticks']]
            raise Reject('%s:%d: loop over something other than events.TICK_EVENTS' % (site.rel, loop.lineno))
    return None


def read_notified(ev, event_map):
    files = sorted(glob.glob(os.path.join(vlib.REPO, 'supervisor', '*.py')))
    sites = []
    for path in files:
        rel = os.path.relpath(path, vlib.REPO)
        if os.path.basename(path) == 'events.py':
            continue
        sites.append(_Site(rel, _parse(rel), ev, event_map))
    state = {'disp': None}
    notified = []
    nsites = [0]

    def add(c):
        if c not in notified:
            notified.append(c)

    def ctor_classes(s, fn, f, lineno):
        c = s.class_ref(f)
        if c:
            return [c]
        if _dump(f) == "Attribute(value=Name(id='self'), attr='event_type')":
            if state['disp'] is None:
                state['disp'] = _output_dispatcher_types(sites)
                if not state['disp']:
                    raise Reject('no POutputDispatcher(...) construction found')
            return sorted(state['disp'])
        if isinstance(f, ast.Name):
            # a local variable holding a class
            srcs = []
            for asg in ast.walk(fn):
                if isinstance(asg, ast.Assign) and len(asg.targets) == 1 and isinstance(asg.targets[0], ast.Name) \
                        and asg.targets[0].id == f.id:
                    srcs.append(asg)
            if srcs:
                out = []
                for asg in srcs:
                    if _dump(asg.value).startswith("Call(func=Attribute(value=Attribute(value=Name(id='self'), attr='event_map'), attr='get')"):
                        out += [c for _, c in event_map]
                    else:
                        raise Reject('%s:%d: `%s` source shape' % (s.rel, asg.lineno, f.id))
                return out
            t = _tick_loop_classes(s, fn, f.id, ev)
            if t is not None:
                return t
        raise Reject('%s:%d: unmodelled constructor expression %s' % (s.rel, lineno, _dump(f)[:100]))

    for s in sites:
        for fn in [n for n in ast.walk(s.tree) if isinstance(n, ast.FunctionDef)]:
            for call in ast.walk(fn):
                if not (isinstance(call, ast.Call) and s.is_notify(call.func)):
                    continue
                nsites[0] += 1
                if len(call.args) != 1 or call.keywords:
                    raise Reject('%s:%d: notify() call shape' % (s.rel, call.lineno))
                arg = call.args[0]
                if isinstance(arg, ast.Call):
                    for c in ctor_classes(s, fn, arg.func, call.lineno):
                        add(c)
                    continue
                if not isinstance(arg, ast.Name):
                    raise Reject('%s:%d: notify() argument shape' % (s.rel, call.lineno))
                ctors = []
                for asg in ast.walk(fn):
                    if isinstance(asg, ast.Assign) and len(asg.targets) == 1 and isinstance(asg.targets[0], ast.Name) \
                            and asg.targets[0].id == arg.id:
                        if not isinstance(asg.value, ast.Call):
                            raise Reject('%s:%d: `%s` is not built by a call' % (s.rel, asg.lineno, arg.id))
                        ctors.append(asg.value.func)
                if not ctors:
                    raise Reject('%s:%d: cannot find where `%s` is built' % (s.rel, call.lineno, arg.id))
                for f in ctors:
                    for c in ctor_classes(s, fn, f, call.lineno):
                        add(c)
    if nsites[0] == 0:
        raise Reject('no notify() call site found')
    return notified, nsites[0]


# ------------------------------------------------------------------ emit

def build():
    ev = read_events()
    states = read_states()
    emap = read_event_map(ev, states)
    notified, nsites = read_notified(ev, emap)
    names = ev['names']
    L = []
    w = L.append
    w('(* GENERATED by gen/c11_events.py from supervisor/events.py, states.py, process.py and the')
    w('   notify() call sites of supervisor/*.py (%d call sites).  Do not edit. *)' % nsites)
    w('From Coq Require Import ZArith List Bool.')
    w('Import ListNotations.')
    w('Require Import SV.C11.Base.')
    w('Open Scope Z_scope.')
    w('')
    w('Inductive evclass :=')
    for n in names:
        w('| %s' % n)
    L[-1] += '.'
    w('')
    w('Definition all_classes : list evclass :=\n  [%s].' % '; '.join(names))
    w('')
    w('Definition cls_idx (c : evclass) : Z :=\n  match c with')
    for i, n in enumerate(names):
        w('  | %s => %d' % (n, i))
    w('  end.')
    w('')
    w('Definition cls_name (c : evclass) : list Z :=\n  match c with')
    for n in names:
        w('  | %s => %s' % (n, zl(n)))
    w('  end.')
    w('')
    w('Definition parents (c : evclass) : list evclass :=\n  match c with')
    for n in names:
        w('  | %s => [%s]' % (n, '; '.join(ev['cmap'][n][1])))
    w('  end.')
    w('')
    w('(* class EventTypes, in class-body order (the order EventTypes.__dict__ is searched in) *)')
    w('Definition event_types : list (list Z * evclass) :=\n  [ ' +
      '\n  ; '.join('(%s, %s) (* %s *)' % (zl(k), c, k) for k, c in ev['event_types']) + '\n  ].')
    w('')
    w('Definition payload_kind (c : evclass) : pkind :=\n  match c with')
    for n in names:
        w('  | %s => %s' % (n, ev['payload_kind'][n]))
    w('  end.')
    w('')
    w('Definition channel_of (c : evclass) : option (list Z) :=\n  match c with')
    for n in names:
        ch = ev['channel_of'][n]
        w('  | %s => %s' % (n, 'None' if ch is None else 'Some %s (* %s *)' % (zl(ch), ch)))
    w('  end.')
    w('')
    w('(* get_extra_values() as inherited; None = the class has no such method *)')
    w('Definition extra_spec (c : evclass) : option (list (list Z * extra_src)) :=\n  match c with')
    for n in names:
        sp = ev['extra_spec'][n]
        if sp is None:
            w('  | %s => None' % n)
        else:
            w('  | %s => Some [%s]' % (n, '; '.join('(%s (* %s *), %s)' % (zl(k), k, s) for k, s in sp)))
    w('  end.')
    w('')
    w('(* ProcessStateEvent.__init__ stores self.get_extra_values() (and payload() does not call it again) *)')
    w('Definition eager_extra : bool := %s.' % ('true' if ev['eager'] else 'false'))
    w('')
    w('Definition tick_events : list (evclass * Z) :=\n  [%s].' % '; '.join('(%s, %d)' % t for t in ev['ticks']))
    w('')
    w('Definition process_states : list (list Z * Z) :=\n  [ ' +
      '\n  ; '.join('(%s, %s) (* %s *)' % (zl(k), ('(%d)' % c) if c < 0 else str(c), k) for k, c in states['ProcessStates']) + '\n  ].')
    w('')
    sr = dict(states['SupervisorStates']).get('RUNNING')
    if sr is None:
        raise Reject('states.py: SupervisorStates.RUNNING missing')
    w('Definition supervisor_running : Z := %s.' % (('(%d)' % sr) if sr < 0 else str(sr)))
    w('')
    w('(* Subprocess.event_map *)')
    w('Definition event_map : list (Z * evclass) :=\n  [%s].' % '; '.join('(%d, %s)' % e for e in emap))
    w('')
    w('(* classes whose instances reach events.notify() somewhere in supervisor/*.py *)')
    w('Definition notified : list evclass :=\n  [%s].' % '; '.join(notified))
    return '\n'.join(L) + '\n', {'classes': len(names), 'event_types': len(ev['event_types']),
                                 'notify_sites': nsites, 'notified': list(notified)}


def generate():
    text, info = build()
    vlib.write_if_changed(os.path.join(vlib.COQ, 'C11', 'Gen_events.v'), text)
    return info


if __name__ == '__main__':
    print(generate())
