"""Run every translator: each module gen/<cxx>_*.py exposing generate()."""
import glob, importlib, os, sys
HERE = os.path.dirname(os.path.abspath(__file__))
sys.path.insert(0, HERE)
sys.path.insert(0, os.path.join(os.path.dirname(HERE), 'lib'))


def run_all():
    for f in sorted(glob.glob(os.path.join(HERE, 'c[0-9][0-9]_*.py'))):
        mod = importlib.import_module(os.path.basename(f)[:-3])
        if hasattr(mod, 'generate'):
            mod.generate()


if __name__ == '__main__':
    run_all()
