"""C08/C07 translator: capture-mode tokens, ANSI constants and the comparison
operators of BoundIO.write -> coq/C08/Gen_tokens.v.

Reads, with `ast` only (nothing is imported or executed):
  supervisor/events.py       ProcessCommunicationEvent.BEGIN_TOKEN / END_TOKEN
  supervisor/loggers.py      BoundIO.write (exact shape; the two comparison operators are generated)
  supervisor/dispatchers.py  ANSI_ESCAPE_BEGIN, ANSI_TERMINATORS, and the syntactic
                             facts that POutputDispatcher takes its tokens from
                             `self.event_type.BEGIN_TOKEN/END_TOKEN`
Fails closed: any unexpected shape raises, which the check reports as a
translator rejection (a violation without a failing input)."""
import ast
import os

import vlib


class Reject(Exception):
    pass


def _parse(rel):
    path = os.path.join(vlib.REPO, rel)
    with open(path, 'rb') as f:
        return ast.parse(f.read(), filename=path)


def _class(tree, name):
    hits = [n for n in tree.body if isinstance(n, ast.ClassDef) and n.name == name]
    if len(hits) != 1:
        raise Reject('expected exactly one class %s, found %d' % (name, len(hits)))
    return hits[0]


def _bytes_const(node, what):
    if not (isinstance(node, ast.Constant) and isinstance(node.value, bytes)):
        raise Reject('%s is not a bytes literal: %s' % (what, ast.dump(node)[:200]))
    return node.value


def _class_assigns(cls):
    out = {}
    for n in cls.body:
        if isinstance(n, ast.Assign):
            for t in n.targets:
                if isinstance(t, ast.Name):
                    if t.id in out:
                        raise Reject('%s assigned twice in class %s' % (t.id, cls.name))
                    out[t.id] = n.value
    return out


def read_tokens():
    ev = _parse('supervisor/events.py')
    base = _class(ev, 'ProcessCommunicationEvent')
    asg = _class_assigns(base)
    for k in ('BEGIN_TOKEN', 'END_TOKEN'):
        if k not in asg:
            raise Reject('ProcessCommunicationEvent.%s not found' % k)
    begin = _bytes_const(asg['BEGIN_TOKEN'], 'BEGIN_TOKEN')
    end = _bytes_const(asg['END_TOKEN'], 'END_TOKEN')
    # the two concrete subclasses used by make_dispatchers must inherit the tokens unchanged
    for sub in ('ProcessCommunicationStdoutEvent', 'ProcessCommunicationStderrEvent'):
        c = _class(ev, sub)
        bases = [b.id for b in c.bases if isinstance(b, ast.Name)]
        if bases != ['ProcessCommunicationEvent']:
            raise Reject('%s has unexpected bases %r' % (sub, bases))
        a = _class_assigns(c)
        if 'BEGIN_TOKEN' in a or 'END_TOKEN' in a:
            raise Reject('%s overrides a token' % sub)
    # nobody else assigns X.BEGIN_TOKEN = ... at module level
    for n in ast.walk(ev):
        if isinstance(n, ast.Assign):
            for t in n.targets:
                if isinstance(t, ast.Attribute) and t.attr in ('BEGIN_TOKEN', 'END_TOKEN'):
                    raise Reject('token reassigned through an attribute')
    return begin, end


def read_dispatcher_facts():
    dp = _parse('supervisor/dispatchers.py')
    consts = {}
    for n in dp.body:
        if isinstance(n, ast.Assign) and len(n.targets) == 1 and isinstance(n.targets[0], ast.Name):
            consts[n.targets[0].id] = n.value
    if 'ANSI_ESCAPE_BEGIN' not in consts or 'ANSI_TERMINATORS' not in consts:
        raise Reject('ANSI constants not found in dispatchers.py')
    esc = _bytes_const(consts['ANSI_ESCAPE_BEGIN'], 'ANSI_ESCAPE_BEGIN')
    tnode = consts['ANSI_TERMINATORS']
    if not isinstance(tnode, (ast.Tuple, ast.List)):
        raise Reject('ANSI_TERMINATORS is not a tuple')
    terms = [_bytes_const(e, 'ANSI terminator') for e in tnode.elts]
    if any(len(t) != 1 for t in terms):
        raise Reject('an ANSI terminator is not a single byte')
    if len(esc) != 2:
        raise Reject('ANSI_ESCAPE_BEGIN is not two bytes (the model of stripEscapes assumes ESC [)')
    # POutputDispatcher.__init__ takes the tokens from the event type
    cls = _class(dp, 'POutputDispatcher')
    init = [n for n in cls.body if isinstance(n, ast.FunctionDef) and n.name == '__init__']
    if len(init) != 1:
        raise Reject('POutputDispatcher.__init__ not found')
    want = {'begintoken': 'BEGIN_TOKEN', 'endtoken': 'END_TOKEN'}
    seen = {}
    for n in ast.walk(init[0]):
        if isinstance(n, ast.Assign) and len(n.targets) == 1 and isinstance(n.targets[0], ast.Name) \
                and n.targets[0].id in want:
            v = n.value
            ok = (isinstance(v, ast.Attribute) and v.attr == want[n.targets[0].id]
                  and isinstance(v.value, ast.Attribute) and v.value.attr == 'event_type'
                  and isinstance(v.value.value, ast.Name) and v.value.value.id == 'self')
            if not ok:
                raise Reject('%s is not self.event_type.%s' % (n.targets[0].id, want[n.targets[0].id]))
            seen[n.targets[0].id] = True
    if set(seen) != set(want):
        raise Reject('POutputDispatcher.__init__ does not bind begintoken/endtoken as expected')
    return esc, terms


_BOUNDIO_TEMPLATE = (
    "def write(self, b):\n"
    "    blen = len(b)\n"
    "    if len(self.buf) + blen %s self.maxbytes:\n"
    "        self.buf = self.buf[blen:]\n"
    "    self.buf += b\n"
    "    if len(self.buf) %s self.maxbytes:\n"
    "        self.buf = self.buf[len(self.buf) - self.maxbytes:]")
_CMP = {ast.Gt: ('>', 'Z.gtb'), ast.GtE: ('>=', 'Z.geb')}


def read_boundio():
    """The two comparison operators of loggers.BoundIO.write (everything else of
    the method must have exactly the modelled shape) -> (coq fn, coq fn)."""
    lg = _parse('supervisor/loggers.py')
    cls = _class(lg, 'BoundIO')
    fns = [n for n in cls.body if isinstance(n, ast.FunctionDef) and n.name == 'write']
    if len(fns) != 1:
        raise Reject('BoundIO.write not found')
    fn = fns[0]
    ifs = [n for n in fn.body if isinstance(n, ast.If)]
    if len(ifs) != 2:
        raise Reject('BoundIO.write does not have exactly two if statements')
    ops = []
    for n in ifs:
        t = n.test
        if not (isinstance(t, ast.Compare) and len(t.ops) == 1 and type(t.ops[0]) in _CMP):
            raise Reject('unexpected test in BoundIO.write: %s' % ast.dump(t)[:200])
        ops.append(type(t.ops[0]))
    got = ast.unparse(fn)
    want = _BOUNDIO_TEMPLATE % (_CMP[ops[0]][0], _CMP[ops[1]][0])
    if ast.dump(ast.parse(got)) != ast.dump(ast.parse(want)):
        raise Reject('BoundIO.write has an unexpected shape:\n%s' % got)
    init = [n for n in cls.body if isinstance(n, ast.FunctionDef) and n.name == '__init__']
    if len(init) != 1 or ast.dump(ast.parse(ast.unparse(init[0]))) != ast.dump(ast.parse(
            "def __init__(self, maxbytes, buf=b''):\n    self.maxbytes = maxbytes\n    self.buf = buf")):
        raise Reject('BoundIO.__init__ has an unexpected shape')
    return _CMP[ops[0]][1], _CMP[ops[1]][1]


def generate():
    begin, end = read_tokens()
    esc, terms = read_dispatcher_facts()
    drop_cmp, clamp_cmp = read_boundio()
    text = (
        '(* GENERATED by gen/c08_tokens.py from supervisor/events.py and\n'
        '   supervisor/dispatchers.py -- do not edit. *)\n'
        'From Coq Require Import ZArith List.\nImport ListNotations.\n'
        'Definition begin_token : list Z := %s.\n'
        'Definition end_token : list Z := %s.\n'
        'Definition ansi_escape_begin : list Z := %s.\n'
        'Definition ansi_terminators : list Z := %s.\n'
        '(* loggers.BoundIO.write: `if len(self.buf) + blen <cmp> self.maxbytes` (drop from the\n'
        '   front) and `if len(self.buf) <cmp> self.maxbytes` (clamp); the rest of the method\n'
        '   has exactly the shape modelled by Stream.bound_write *)\n'
        'Definition boundio_drop_cmp : Z -> Z -> bool := %s.\n'
        'Definition boundio_clamp_cmp : Z -> Z -> bool := %s.\n'
        % (vlib.bytes_lit(begin), vlib.bytes_lit(end), vlib.bytes_lit(esc),
           vlib.zlist([t[0] for t in terms]), drop_cmp, clamp_cmp))
    vlib.write_if_changed(os.path.join(vlib.COQ, 'C08', 'Gen_tokens.v'), text)
    return {'begin': begin, 'end': end, 'esc': esc, 'terms': terms}


if __name__ == '__main__':
    print(generate())
