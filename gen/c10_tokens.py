"""C10 translator: protocol tokens and syntactic facts of the listener protocol
code, read from /repo's working tree with `ast` (fail closed).

Writes coq/C10/Gen_tokens.v:
  READY_TOKEN, RESULT_START        PEventListenerDispatcher class constants
  OK_TOKEN                         the literal default_handler compares with
  LS_ACK/LS_READY/LS_BUSY/LS_UNKNOWN   EventListenerStates codes
  initial_listener_state_code      what PEventListenerDispatcher.__init__ assigns

Shapes that are checked (any other shape raises):
  * the token constants are bytes literals and the *_LEN constants are len(<token>)
  * default_handler is `if response != b'..': raise RejectEvent(response)`
  * PEventListenerDispatcher.__init__ assigns process.listener_state =
    EventListenerStates.<X>, process.event = None, self.result = b'',
    self.resultlen = None
  * handle_read_event appends the bytes returned by readfd to state_buffer before any
    rewriting of `data` (strip_ansi concerns the child log only)
  * ServerOptions.make_pipes: the loop that sets O_NDELAY and the pipe ends it covers
    (PIPE_NONBLOCK_STDIN/STDOUT/STDERR)
  * PEventListenerDispatcher.writable returns False (nothing is ever written to
    a listener through its stdout dispatcher)
"""
import ast
import os

import vlib


class Reject(Exception):
    pass


def _class(tree, name):
    for n in tree.body:
        if isinstance(n, ast.ClassDef) and n.name == name:
            return n
    raise Reject('class %s not found' % name)


def _func(body, name):
    for n in body:
        if isinstance(n, ast.FunctionDef) and n.name == name:
            return n
    raise Reject('function %s not found' % name)


def _const_assigns(cls):
    out = {}
    for n in cls.body:
        if isinstance(n, ast.Assign) and len(n.targets) == 1 and isinstance(n.targets[0], ast.Name):
            out[n.targets[0].id] = n.value
    return out


def _bytes_const(node, what):
    if isinstance(node, ast.Constant) and isinstance(node.value, bytes):
        return node.value
    raise Reject('%s is not a bytes literal: %s' % (what, ast.dump(node)))


def _is_len_of(node, name):
    return (isinstance(node, ast.Call) and isinstance(node.func, ast.Name) and node.func.id == 'len'
            and len(node.args) == 1 and isinstance(node.args[0], ast.Name) and node.args[0].id == name)


def _attr_chain(node):
    parts = []
    while isinstance(node, ast.Attribute):
        parts.append(node.attr)
        node = node.value
    if isinstance(node, ast.Name):
        parts.append(node.id)
        return '.'.join(reversed(parts))
    return None


def read_facts():
    with open(os.path.join(vlib.REPO, 'supervisor', 'dispatchers.py')) as f:
        dtree = ast.parse(f.read())
    with open(os.path.join(vlib.REPO, 'supervisor', 'states.py')) as f:
        stree = ast.parse(f.read())
    facts = {}
    cls = _class(dtree, 'PEventListenerDispatcher')
    consts = _const_assigns(cls)
    for k in ('READY_FOR_EVENTS_TOKEN', 'RESULT_TOKEN_START', 'READY_FOR_EVENTS_LEN', 'RESULT_TOKEN_START_LEN'):
        if k not in consts:
            raise Reject('PEventListenerDispatcher.%s missing' % k)
    facts['READY_TOKEN'] = _bytes_const(consts['READY_FOR_EVENTS_TOKEN'], 'READY_FOR_EVENTS_TOKEN')
    facts['RESULT_START'] = _bytes_const(consts['RESULT_TOKEN_START'], 'RESULT_TOKEN_START')
    if not _is_len_of(consts['READY_FOR_EVENTS_LEN'], 'READY_FOR_EVENTS_TOKEN'):
        raise Reject('READY_FOR_EVENTS_LEN is not len(READY_FOR_EVENTS_TOKEN)')
    if not _is_len_of(consts['RESULT_TOKEN_START_LEN'], 'RESULT_TOKEN_START'):
        raise Reject('RESULT_TOKEN_START_LEN is not len(RESULT_TOKEN_START)')
    # default_handler
    dh = _func(dtree.body, 'default_handler')
    if [a.arg for a in dh.args.args] != ['event', 'response'] or len(dh.body) != 1:
        raise Reject('default_handler: unexpected signature/body')
    st = dh.body[0]
    ok = (isinstance(st, ast.If) and not st.orelse and isinstance(st.test, ast.Compare)
          and isinstance(st.test.left, ast.Name) and st.test.left.id == 'response'
          and len(st.test.ops) == 1 and isinstance(st.test.ops[0], ast.NotEq)
          and len(st.body) == 1 and isinstance(st.body[0], ast.Raise)
          and isinstance(st.body[0].exc, ast.Call) and _attr_chain(st.body[0].exc.func) == 'RejectEvent')
    if not ok:
        raise Reject('default_handler: unexpected shape')
    facts['OK_TOKEN'] = _bytes_const(st.test.comparators[0], 'default_handler literal')
    # listener state codes
    scls = _class(stree, 'EventListenerStates')
    codes = {}
    for k, v in _const_assigns(scls).items():
        if not (isinstance(v, ast.Constant) and isinstance(v.value, int)):
            raise Reject('EventListenerStates.%s is not an int literal' % k)
        codes[k] = v.value
    if sorted(codes) != ['ACKNOWLEDGED', 'BUSY', 'READY', 'UNKNOWN']:
        raise Reject('EventListenerStates members changed: %r' % sorted(codes))
    if len(set(codes.values())) != 4:
        raise Reject('EventListenerStates codes are not distinct')
    facts['codes'] = codes
    # __init__ of the listener dispatcher
    init = _func(cls.body, '__init__')
    seen = {}
    for n in init.body:
        if isinstance(n, ast.Assign) and len(n.targets) == 1:
            t = _attr_chain(n.targets[0])
            if t:
                seen[t] = n.value
    v = seen.get('self.process.listener_state')
    if v is None or not (_attr_chain(v) or '').startswith('EventListenerStates.'):
        raise Reject('__init__ does not assign process.listener_state = EventListenerStates.X')
    facts['init_state'] = _attr_chain(v).split('.')[1]
    for t, want in (('self.process.event', None), ('self.resultlen', None), ('self.result', b'')):
        v = seen.get(t)
        if not (isinstance(v, ast.Constant) and v.value == want and type(v.value) == type(want)):
            raise Reject('__init__ does not assign %s = %r' % (t, want))
    # ANSI escape stripping (applied to what is written to the child log only)
    mod = {}
    for n in dtree.body:
        if isinstance(n, ast.Assign) and len(n.targets) == 1 and isinstance(n.targets[0], ast.Name):
            mod[n.targets[0].id] = n.value
    if 'ANSI_ESCAPE_BEGIN' not in mod or 'ANSI_TERMINATORS' not in mod:
        raise Reject('ANSI_ESCAPE_BEGIN / ANSI_TERMINATORS missing')
    facts['ANSI_BEGIN'] = _bytes_const(mod['ANSI_ESCAPE_BEGIN'], 'ANSI_ESCAPE_BEGIN')
    if len(facts['ANSI_BEGIN']) != 2:
        raise Reject('ANSI_ESCAPE_BEGIN is not two bytes long')
    t = mod['ANSI_TERMINATORS']
    if not isinstance(t, ast.Tuple):
        raise Reject('ANSI_TERMINATORS is not a tuple literal')
    terms = [_bytes_const(e, 'ANSI terminator') for e in t.elts]
    if any(len(x) != 1 for x in terms):
        raise Reject('an ANSI terminator is not a single byte')
    facts['ANSI_TERMS'] = b''.join(terms)
    # handle_read_event: the protocol buffer receives the bytes as read; `data` may be
    # rewritten (escape stripping for the child log) only after `self.state_buffer += data`
    hre = _func(cls.body, 'handle_read_event')
    aug = [n.lineno for n in ast.walk(hre) if isinstance(n, ast.AugAssign)
           and _attr_chain(n.target) == 'self.state_buffer' and isinstance(n.value, ast.Name) and n.value.id == 'data']
    if len(aug) != 1:
        raise Reject('handle_read_event: expected exactly one `self.state_buffer += data`')
    assigns = sorted(n.lineno for n in ast.walk(hre) if isinstance(n, ast.Assign)
                     and any(isinstance(t, ast.Name) and t.id == 'data' for t in n.targets))
    if not assigns or any(l < aug[0] for l in assigns[1:]) or assigns[0] > aug[0]:
        raise Reject('handle_read_event: `data` is rewritten before it is appended to state_buffer')
    # ServerOptions.make_pipes: which parent-side pipe ends are put in non-blocking mode
    with open(os.path.join(vlib.REPO, 'supervisor', 'options.py')) as f:
        otree = ast.parse(f.read())
    mp = _func(_class(otree, 'ServerOptions').body, 'make_pipes')
    ends = None
    for n in ast.walk(mp):
        if not isinstance(n, ast.For):
            continue
        body_src = '\n'.join(ast.unparse(st) for st in n.body)
        if 'F_SETFL' not in body_src:
            continue
        if 'O_NDELAY' not in body_src and 'O_NONBLOCK' not in body_src:
            raise Reject('make_pipes: F_SETFL without O_NDELAY/O_NONBLOCK')
        if ends is not None or not isinstance(n.iter, (ast.Tuple, ast.List)):
            raise Reject('make_pipes: unexpected loop over the descriptors')
        ends = []
        for e in n.iter.elts:
            if isinstance(e, ast.Subscript) and _attr_chain(e.value) == 'pipes' and isinstance(e.slice, ast.Constant):
                ends.append(e.slice.value)          # for fd in (pipes['stdout'], ...)
            elif isinstance(e, ast.Constant) and isinstance(e.value, str) and 'pipes[%s]' % n.target.id in body_src:
                ends.append(e.value)                # for name in ('stdout', ...): fd = pipes[name]
            else:
                raise Reject('make_pipes: unexpected element in the descriptor loop: %s' % ast.dump(e))
    if ends is None:
        raise Reject('make_pipes: no loop setting O_NDELAY found')
    if [x for x in ends if x not in ('stdin', 'stdout', 'stderr', 'child_stdin', 'child_stdout', 'child_stderr')]:
        raise Reject('make_pipes: unknown pipe end in %r' % ends)
    facts['nonblock_ends'] = ends
    wr = _func(cls.body, 'writable')
    if not (len(wr.body) == 1 and isinstance(wr.body[0], ast.Return)
            and isinstance(wr.body[0].value, ast.Constant) and wr.body[0].value.value is False):
        raise Reject('PEventListenerDispatcher.writable is not `return False`')
    return facts


def generate():
    f = read_facts()
    names = {'ACKNOWLEDGED': 'ACK', 'READY': 'READY', 'BUSY': 'BUSY', 'UNKNOWN': 'UNKNOWN'}
    lines = [
        '(* GENERATED by gen/c10_tokens.py from supervisor/dispatchers.py and supervisor/states.py; do not edit *)',
        'From Coq Require Import ZArith List.', 'Import ListNotations.', 'Open Scope Z_scope.', '',
        'Definition READY_TOKEN : list Z := %s.' % vlib.bytes_lit(f['READY_TOKEN']),
        'Definition RESULT_START : list Z := %s.' % vlib.bytes_lit(f['RESULT_START']),
        'Definition OK_TOKEN : list Z := %s.' % vlib.bytes_lit(f['OK_TOKEN']),
    ]
    lines.append('Definition ANSI_BEGIN : list Z := %s.' % vlib.bytes_lit(f['ANSI_BEGIN']))
    lines.append('Definition ANSI_TERMS : list Z := %s.' % vlib.bytes_lit(f['ANSI_TERMS']))
    lines.append('(* ServerOptions.make_pipes sets O_NDELAY on these ends of a child\'s pipes: %s *)' % ', '.join(f['nonblock_ends']))
    for end in ('stdin', 'stdout', 'stderr'):
        lines.append('Definition PIPE_NONBLOCK_%s : bool := %s.' % (end.upper(), 'true' if end in f['nonblock_ends'] else 'false'))
    for k in ('ACKNOWLEDGED', 'READY', 'BUSY', 'UNKNOWN'):
        lines.append('Definition LS_CODE_%s : Z := %d.' % (names[k], f['codes'][k]))
    lines.append('(* state assigned by PEventListenerDispatcher.__init__, as its EventListenerStates code *)')
    lines.append('Definition INIT_LS_CODE : Z := %d.' % f['codes'][f['init_state']])
    lines.append('')
    vlib.write_if_changed(os.path.join(vlib.COQ, 'C10', 'Gen_tokens.v'), '\n'.join(lines))


if __name__ == '__main__':
    generate()
    print(open(os.path.join(vlib.COQ, 'C10', 'Gen_tokens.v')).read())
