"""C07 translator: syntactic facts about the reap-time path -> coq/C07/Gen_facts.v.

Reads with `ast` only:
  supervisor/options.py  ServerOptions.readfd: exact shape; the size argument of
                         os.read (a constant expression) is generated as readfd_size
  supervisor/process.py  Subprocess.finish: `self.drain()` is a top-level statement,
                         the loop calling `dispatcher.record_output(final=True)` is a
                         top-level statement, both before `self.pid = 0`,
                         close_parent_pipes, `self.pipes = {}`, `self.dispatchers = {}`;
                         their relative order is generated as finish_drain_first
                         Subprocess.drain: one pass over self.dispatchers.values() with one
                         handle_read_event per readable dispatcher
Fails closed on any other shape."""
import ast
import os

import vlib


class Reject(Exception):
    pass


def _parse(rel):
    path = os.path.join(vlib.REPO, rel)
    with open(path, 'rb') as f:
        return ast.parse(f.read(), filename=path)


def _method(tree, cls, name):
    cs = [n for n in tree.body if isinstance(n, ast.ClassDef) and n.name == cls]
    if len(cs) != 1:
        raise Reject('class %s not found exactly once' % cls)
    fs = [n for n in cs[0].body if isinstance(n, ast.FunctionDef) and n.name == name]
    if len(fs) != 1:
        raise Reject('%s.%s not found exactly once' % (cls, name))
    return fs[0]


def _const_int(node):
    if isinstance(node, ast.Constant) and isinstance(node.value, int) and not isinstance(node.value, bool):
        return node.value
    if isinstance(node, ast.BinOp) and isinstance(node.op, (ast.LShift, ast.Mult, ast.Pow, ast.Add)):
        a, b = _const_int(node.left), _const_int(node.right)
        if isinstance(node.op, ast.LShift):
            if not 0 <= b <= 40:
                raise Reject('shift out of range')
            return a << b
        if isinstance(node.op, ast.Mult):
            return a * b
        if isinstance(node.op, ast.Add):
            return a + b
        if not 0 <= b <= 40:
            raise Reject('exponent out of range')
        return a ** b
    raise Reject('read size is not a constant integer expression: %s' % ast.dump(node)[:200])


_READFD = (
    "def readfd(self, fd):\n"
    "    try:\n"
    "        data = os.read(fd, SIZE)\n"
    "    except OSError as why:\n"
    "        if why.args[0] not in (errno.EWOULDBLOCK, errno.EBADF, errno.EINTR):\n"
    "            raise\n"
    "        data = b''\n"
    "    return data")


def read_readfd():
    fn = _method(_parse('supervisor/options.py'), 'ServerOptions', 'readfd')
    calls = [n for n in ast.walk(fn) if isinstance(n, ast.Call) and isinstance(n.func, ast.Attribute)
             and n.func.attr == 'read' and isinstance(n.func.value, ast.Name) and n.func.value.id == 'os']
    if len(calls) != 1 or len(calls[0].args) != 2 or calls[0].keywords:
        raise Reject('readfd does not contain exactly one os.read(fd, size)')
    size = _const_int(calls[0].args[1])
    calls[0].args[1] = ast.Name(id='SIZE', ctx=ast.Load())
    if ast.dump(ast.parse(ast.unparse(fn))) != ast.dump(ast.parse(_READFD)):
        raise Reject('ServerOptions.readfd has an unexpected shape:\n%s' % ast.unparse(fn))
    if size <= 0:
        raise Reject('non-positive read size')
    return size


def _is_self_call(stmt, name):
    return (isinstance(stmt, ast.Expr) and isinstance(stmt.value, ast.Call)
            and isinstance(stmt.value.func, ast.Attribute) and stmt.value.func.attr == name
            and isinstance(stmt.value.func.value, ast.Name) and stmt.value.func.value.id == 'self'
            and not stmt.value.args and not stmt.value.keywords)


def _is_flush_loop(stmt):
    if not (isinstance(stmt, ast.For) and ast.unparse(stmt.iter) == 'self.dispatchers.values()'
            and isinstance(stmt.target, ast.Name) and not stmt.orelse):
        return False
    want = ("for %s in self.dispatchers.values():\n"
            "    if hasattr(%s, 'record_output'):\n"
            "        %s.record_output(final=True)") % ((stmt.target.id,) * 3)
    return ast.dump(ast.parse(ast.unparse(stmt))) == ast.dump(ast.parse(want))


def read_finish():
    fn = _method(_parse('supervisor/process.py'), 'Subprocess', 'finish')
    body = fn.body
    idx = {}
    for i, st in enumerate(body):
        if _is_self_call(st, 'drain'):
            idx.setdefault('drain', []).append(i)
        elif _is_flush_loop(st):
            idx.setdefault('flush', []).append(i)
        else:
            src = ast.unparse(st)
            for key, text in (('pid0', 'self.pid = 0'), ('close', 'self.config.options.close_parent_pipes(self.pipes)'),
                              ('pipes', 'self.pipes = {}'), ('disp', 'self.dispatchers = {}')):
                if src == text:
                    idx.setdefault(key, []).append(i)
    for k in ('drain', 'flush', 'pid0', 'close', 'pipes', 'disp'):
        if len(idx.get(k, [])) != 1:
            raise Reject('Subprocess.finish: expected exactly one top-level %s statement, found %r' % (k, idx.get(k)))
    # nothing else in finish() may touch the output path
    for n in ast.walk(fn):
        if isinstance(n, ast.Attribute) and n.attr in ('record_output', 'handle_read_event', 'drain'):
            pass
    n_rec = len([n for n in ast.walk(fn) if isinstance(n, ast.Attribute) and n.attr == 'record_output'])
    n_drain = len([n for n in ast.walk(fn) if isinstance(n, ast.Attribute) and n.attr == 'drain'])
    if n_rec != 1 or n_drain != 1:
        raise Reject('Subprocess.finish mentions record_output/drain more than once')
    d, f = idx['drain'][0], idx['flush'][0]
    if not (max(d, f) < idx['pid0'][0] < idx['close'][0] < idx['pipes'][0] and idx['close'][0] < idx['disp'][0]):
        raise Reject('Subprocess.finish: drain/flush are not before pid = 0 / close_parent_pipes / forgetting the maps')
    return d < f


def read_drain():
    fn = _method(_parse('supervisor/process.py'), 'Subprocess', 'drain')
    loops = [st for st in fn.body if isinstance(st, ast.For)]
    if len(loops) != 1 or len(fn.body) != 1 or ast.unparse(loops[0].iter) != 'self.dispatchers.values()':
        raise Reject('Subprocess.drain is not a single loop over self.dispatchers.values()')
    if any(isinstance(n, (ast.While, ast.For)) for n in ast.walk(loops[0]) if n is not loops[0]):
        raise Reject('Subprocess.drain contains a nested loop (the model reads once per dispatcher)')
    reads = [n for n in ast.walk(fn) if isinstance(n, ast.Attribute) and n.attr == 'handle_read_event']
    if len(reads) != 1:
        raise Reject('Subprocess.drain does not call handle_read_event exactly once per dispatcher')
    return True


def generate():
    size = read_readfd()
    drain_first = read_finish()
    read_drain()
    text = (
        '(* GENERATED by gen/c07_facts.py from supervisor/options.py and\n'
        '   supervisor/process.py -- do not edit. *)\n'
        'From Coq Require Import ZArith.\n'
        '(* ServerOptions.readfd: os.read(fd, readfd_size) *)\n'
        'Definition readfd_size : Z := %d%%Z.\n'
        '(* Subprocess.finish: self.drain() comes before the record_output(final=True) loop *)\n'
        'Definition finish_drain_first : bool := %s.\n' % (size, 'true' if drain_first else 'false'))
    vlib.write_if_changed(os.path.join(vlib.COQ, 'C07', 'Gen_facts.v'), text)
    return {'readfd_size': size, 'finish_drain_first': drain_first}


if __name__ == '__main__':
    print(generate())
