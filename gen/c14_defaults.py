"""C14 translator: option defaults of the configuration reader, as the code has
them and as docs/configuration.rst states them, plus the valid event type
names, the logging level names and the signal table.

Reads (with `ast`, fail closed: any shape this file does not expect raises):
  supervisor/options.py   ServerOptions.read_config, process_groups_from_parser,
                          _processes_from_section: every `get(...)` call with its
                          literal default and the converter wrapped around it;
                          ProcessConfig.req_param_names/optional_param_names
  supervisor/events.py    class EventTypes: the attribute names
  supervisor/loggers.py   class LevelsByDescription / LevelsByName
  supervisor/datatypes.py TRUTHY_STRINGS, FALSY_STRINGS, LOGFILE_* tuples,
                          byte_size suffix table, forbidden name characters
  docs/configuration.rst  the `*Default*:` line of every documented option
Writes coq/C14/Gen_defaults.v.
"""
import ast
import os
import re

import vlib

OUT = os.path.join(vlib.COQ, 'C14', 'Gen_defaults.v')


class Reject(Exception):
    pass


def _need(cond, msg):
    if not cond:
        raise Reject(msg)


def _parse(rel):
    path = os.path.join(vlib.REPO, rel)
    with open(path) as f:
        src = f.read()
    return ast.parse(src, path)


def _find_class(mod, name):
    for n in mod.body:
        if isinstance(n, ast.ClassDef) and n.name == name:
            return n
    raise Reject('class %s not found' % name)


def _find_method(cls, name):
    for n in cls.body:
        if isinstance(n, ast.FunctionDef) and n.name == name:
            return n
    raise Reject('method %s.%s not found' % (cls.name, name))


def _cstr(s):
    return '"' + s.replace('"', '""') + '"'


def _dflt_term(node, allowed_names):
    """A default-value expression -> Coq `dflt` term."""
    if isinstance(node, ast.Constant):
        v = node.value
        if v is None:
            return 'DNone'
        if isinstance(v, bool):
            return 'DBool %s' % ('true' if v else 'false')
        if isinstance(v, int):
            return 'DInt %s' % (('(%d)' % v) if v < 0 else str(v))
        if isinstance(v, str):
            return 'DStr %s' % _cstr(v)
        raise Reject('unexpected constant default %r' % (v,))
    if isinstance(node, ast.UnaryOp) and isinstance(node.op, ast.USub) and isinstance(node.operand, ast.Constant) \
            and isinstance(node.operand.value, int):
        return 'DInt (-%d)' % node.operand.value
    if isinstance(node, ast.Name):
        _need(node.id in allowed_names, 'default is the unexpected name %r (line %d)' % (node.id, node.lineno))
        return 'DName %s' % _cstr(node.id)
    raise Reject('unexpected default expression %s (line %d)' % (ast.dump(node), node.lineno))


class _GetCollector(ast.NodeVisitor):
    """Collects get(...) calls of one function body: (option, converter, default).

    nargs_before_opt: 1 for get(section, opt, default), 0 for get(opt, default).
    Keys may be literal strings, or names bound by `NAME = '%s_suffix' % k`
    inside `for k in (<string constants>)` (the log file loop)."""

    def __init__(self, nbefore, allowed_names):
        self.nbefore = nbefore
        self.allowed = allowed_names
        self.out = []          # (opt, conv, dflt_term, lineno)
        self.loopvals = {}     # loop variable -> tuple of strings
        self.bound = {}        # name -> ('fmt', template, loopvar)
        self.seen_calls = set()

    def visit_FunctionDef(self, node):
        # do not descend into the local helper `def get(...)`
        if node.name == 'get':
            return
        self.generic_visit(node)

    def visit_For(self, node):
        if isinstance(node.target, ast.Name) and isinstance(node.iter, ast.Tuple) and \
                all(isinstance(e, ast.Constant) and isinstance(e.value, str) for e in node.iter.elts):
            self.loopvals[node.target.id] = tuple(e.value for e in node.iter.elts)
        self.generic_visit(node)

    def visit_Assign(self, node):
        if len(node.targets) == 1 and isinstance(node.targets[0], ast.Name):
            v = node.value
            if isinstance(v, ast.BinOp) and isinstance(v.op, ast.Mod) and isinstance(v.left, ast.Constant) \
                    and isinstance(v.left.value, str) and isinstance(v.right, ast.Name):
                self.bound[node.targets[0].id] = (v.left.value, v.right.id)
        self.generic_visit(node)

    def _keys(self, node):
        if isinstance(node, ast.Constant) and isinstance(node.value, str):
            return [node.value]
        if isinstance(node, ast.Name) and node.id in self.bound:
            tmpl, var = self.bound[node.id]
            _need(var in self.loopvals, 'option key %s formats an unknown loop variable %s' % (node.id, var))
            return [tmpl % v for v in self.loopvals[var]]
        raise Reject('get() with an option key this translator cannot resolve (line %d): %s'
                     % (node.lineno, ast.dump(node)))

    def _record(self, call, conv):
        if id(call) in self.seen_calls:
            return
        self.seen_calls.add(id(call))
        args = call.args
        _need(len(args) in (self.nbefore + 1, self.nbefore + 2),
              'get() with %d positional arguments (line %d)' % (len(args), call.lineno))
        if self.nbefore:
            _need(isinstance(args[0], ast.Name) and args[0].id == 'section',
                  'get() whose first argument is not `section` (line %d)' % call.lineno)
        keys = self._keys(args[self.nbefore])
        if len(args) == self.nbefore + 2:
            d = _dflt_term(args[self.nbefore + 1], self.allowed)
        else:
            d = 'DRequired'
        kw = {}
        for k in call.keywords:
            _need(k.arg in ('do_expand', 'expansions'), 'get() with unexpected keyword %r (line %d)' % (k.arg, call.lineno))
            kw[k.arg] = k.value
        noexp = False
        if 'do_expand' in kw:
            _need(isinstance(kw['do_expand'], ast.Constant) and kw['do_expand'].value is False,
                  'do_expand is not the literal False (line %d)' % call.lineno)
            noexp = True
        for key in keys:
            self.out.append((key, conv, d, noexp, call.lineno))

    def visit_Call(self, node):
        f = node.func
        if isinstance(f, ast.Name) and f.id == 'get':
            self._record(node, '')
        elif isinstance(f, ast.Name) and len(node.args) == 1 and isinstance(node.args[0], ast.Call) \
                and isinstance(node.args[0].func, ast.Name) and node.args[0].func.id == 'get' and not node.keywords:
            self._record(node.args[0], f.id)
        self.generic_visit(node)


def _collect(fn, nbefore, allowed):
    c = _GetCollector(nbefore, allowed)
    for stmt in fn.body:
        c.visit(stmt)
    return c.out


def _table(entries):
    """[(opt, conv, dflt, noexp, line)] -> Coq list; an option read twice with
    different defaults/converters is rejected."""
    seen = {}
    order = []
    for opt, conv, d, noexp, line in entries:
        if opt in seen:
            _need(seen[opt] == (conv, d, noexp), 'option %r is read twice with different default/converter (line %d)' % (opt, line))
            continue
        seen[opt] = (conv, d, noexp)
        order.append(opt)
    rows = ['(%s, (%s, %s, %s))' % (_cstr(o), _cstr(seen[o][0]), seen[o][1], 'true' if seen[o][2] else 'false')
            for o in order]
    return '[ ' + '\n  ; '.join(rows) + ' ]', order, seen


def code_tables():
    mod = _parse('supervisor/options.py')
    so = _find_class(mod, 'ServerOptions')
    tables = {}
    # ---- _processes_from_section
    fn = _find_method(so, '_processes_from_section')
    ent = _collect(fn, 1, {'Automatic', 'stopasgroup'})
    tables['program'] = ent
    # ---- read_config ([supervisord])
    fn = _find_method(so, 'read_config')
    tables['supervisord'] = _collect(fn, 0, {'tempdir'})
    # ---- process_groups_from_parser: one table per loop, keyed by the prefix tested
    fn = _find_method(so, 'process_groups_from_parser')
    loops = [s for s in fn.body if isinstance(s, ast.For)]
    prefixes = []
    for lp in loops:
        _need(isinstance(lp.target, ast.Name) and lp.target.id == 'section'
              and isinstance(lp.iter, ast.Name) and lp.iter.id == 'all_sections',
              'process_groups_from_parser: unexpected loop header at line %d' % lp.lineno)
        first = lp.body[0]
        _need(isinstance(first, ast.If), 'loop at line %d does not start with the prefix test' % lp.lineno)
        pref = [n.args[0].value for n in ast.walk(first.test)
                if isinstance(n, ast.Call) and isinstance(n.func, ast.Attribute) and n.func.attr == 'startswith'
                and isinstance(n.func.value, ast.Name) and n.func.value.id == 'section'
                and len(n.args) == 1 and isinstance(n.args[0], ast.Constant)]
        _need(len(pref) == 1, 'loop at line %d: cannot find the section prefix' % lp.lineno)
        _need(isinstance(first.body[0], ast.Continue), 'loop at line %d: prefix test does not `continue`' % lp.lineno)
        # exclusion of programs that are members of a [group:x]
        excl = any(isinstance(n, ast.Name) and n.id == 'homogeneous_exclude' for n in ast.walk(first.test))
        prefixes.append((pref[0], excl))
        c = _GetCollector(1, set())
        for stmt in lp.body[1:]:
            c.visit(stmt)
        key = {'program:': 'programgroup'}.get(pref[0], pref[0].rstrip(':'))
        _need(key not in tables, 'two loops over the prefix %r' % pref[0])
        tables[key] = c.out
    _need(prefixes == [('group:', False), ('program:', True), ('eventlistener:', False), ('fcgi-program:', True)],
          'process_groups_from_parser: loops are %r, expected group:, program: (with exclusion), eventlistener:, '
          'fcgi-program: (with exclusion)' % (prefixes,))
    # the last statements: groups.sort(); return groups
    tail = fn.body[-2:]
    ok = (isinstance(tail[0], ast.Expr) and isinstance(tail[0].value, ast.Call)
          and isinstance(tail[0].value.func, ast.Attribute) and tail[0].value.func.attr == 'sort'
          and isinstance(tail[0].value.func.value, ast.Name) and tail[0].value.func.value.id == 'groups'
          and not tail[0].value.args and not tail[0].value.keywords
          and isinstance(tail[1], ast.Return) and isinstance(tail[1].value, ast.Name) and tail[1].value.id == 'groups')
    _need(ok, 'process_groups_from_parser no longer ends with `groups.sort(); return groups`')
    # param names
    pc = _find_class(mod, 'ProcessConfig')
    names = {}
    for n in pc.body:
        if isinstance(n, ast.Assign) and len(n.targets) == 1 and isinstance(n.targets[0], ast.Name) \
                and n.targets[0].id in ('req_param_names', 'optional_param_names'):
            _need(isinstance(n.value, ast.List) and all(isinstance(e, ast.Constant) for e in n.value.elts),
                  'ProcessConfig.%s is not a literal list' % n.targets[0].id)
            names[n.targets[0].id] = [e.value for e in n.value.elts]
    _need(set(names) == {'req_param_names', 'optional_param_names'}, 'ProcessConfig param name lists not found')
    # Config.__lt__: priority, then name
    cfg = _find_class(mod, 'Config')
    lt = _find_method(cfg, '__lt__')
    src = ast.dump(lt)
    want = ast.dump(ast.parse(
        'def __lt__(self, other):\n'
        '    if self.priority == other.priority:\n'
        '        return self.name < other.name\n'
        '    return self.priority < other.priority\n').body[0])
    _need(src == want, 'Config.__lt__ is no longer the (priority, name) comparison the model transcribes')
    return tables, names


def effective_options():
    """[(attribute, config key)] of ServerOptions.__init__: self.add(name, "supervisord.<key>", ...):
    the attributes Options.process_config copies from the [supervisord] section
    (configured value wins; the add() default only fills an attribute that is still None)."""
    mod = _parse('supervisor/options.py')
    init = _find_method(_find_class(mod, 'ServerOptions'), '__init__')
    out = []
    for n in ast.walk(init):
        if isinstance(n, ast.Call) and isinstance(n.func, ast.Attribute) and n.func.attr == 'add' \
                and isinstance(n.func.value, ast.Name) and n.func.value.id == 'self' and len(n.args) >= 2:
            a0, a1 = n.args[0], n.args[1]
            if isinstance(a0, ast.Constant) and a0.value is None:
                continue
            _need(isinstance(a0, ast.Constant) and isinstance(a0.value, str) and isinstance(a1, ast.Constant)
                  and isinstance(a1.value, str) and a1.value.startswith('supervisord.'),
                  'ServerOptions.__init__: unexpected self.add(...) at line %d' % n.lineno)
            out.append((n.lineno, a0.value, a1.value[len('supervisord.'):]))
    out.sort()
    _need(len(out) >= 10, 'ServerOptions.__init__: too few self.add(name, "supervisord.x") calls')
    # the "Process defaults" loop of Options.process_config must test `is None`
    pc = _find_method(_find_class(mod, 'Options'), 'process_config')
    tests = [ast.dump(n.test) for n in ast.walk(pc) if isinstance(n, ast.If)]
    want = ast.dump(ast.parse('getattr(self, name) is None').body[0].value)
    _need(tests.count(want) == 2, 'Options.process_config: the defaults / required loops no longer test '
                                  '`getattr(self, name) is None` (a configured falsy value would be replaced)')
    return [(a, k) for _, a, k in out]


def event_names():
    mod = _parse('supervisor/events.py')
    cls = _find_class(mod, 'EventTypes')
    out = []
    for n in cls.body:
        _need(isinstance(n, ast.Assign) and len(n.targets) == 1 and isinstance(n.targets[0], ast.Name)
              and isinstance(n.value, ast.Name), 'EventTypes: unexpected statement at line %d' % n.lineno)
        out.append(n.targets[0].id)
    _need(len(out) >= 5 and len(set(out)) == len(out), 'EventTypes: suspicious name list')
    return out


def log_levels():
    mod = _parse('supervisor/loggers.py')
    byname = {}
    for n in _find_class(mod, 'LevelsByName').body:
        _need(isinstance(n, ast.Assign) and isinstance(n.value, ast.Constant) and isinstance(n.value.value, int),
              'LevelsByName: unexpected statement')
        byname[n.targets[0].id] = n.value.value
    out = []
    for n in _find_class(mod, 'LevelsByDescription').body:
        _need(isinstance(n, ast.Assign) and isinstance(n.value, ast.Attribute) and isinstance(n.value.value, ast.Name)
              and n.value.value.id == 'LevelsByName' and n.value.attr in byname, 'LevelsByDescription: unexpected statement')
        out.append((n.targets[0].id, byname[n.value.attr]))
    return out


def datatype_tables():
    mod = _parse('supervisor/datatypes.py')
    out = {}
    for n in mod.body:
        if isinstance(n, ast.Assign) and len(n.targets) == 1 and isinstance(n.targets[0], ast.Name):
            nm = n.targets[0].id
            if nm in ('TRUTHY_STRINGS', 'FALSY_STRINGS'):
                _need(isinstance(n.value, ast.Tuple) and all(isinstance(e, ast.Constant) and isinstance(e.value, str)
                                                             for e in n.value.elts), '%s is not a tuple of strings' % nm)
                out[nm] = [e.value for e in n.value.elts]
            if nm in ('LOGFILE_NONES', 'LOGFILE_AUTOS', 'LOGFILE_SYSLOGS'):
                _need(isinstance(n.value, ast.Tuple), '%s is not a tuple' % nm)
                vals = []
                for e in n.value.elts:
                    if isinstance(e, ast.Constant) and isinstance(e.value, str):
                        vals.append(e.value)
                    elif isinstance(e, ast.Constant) and e.value is None:
                        pass
                    elif isinstance(e, ast.Name) and e.id in ('Automatic', 'Syslog'):
                        pass
                    else:
                        raise Reject('%s has an unexpected member' % nm)
                out[nm] = vals
            if nm == 'byte_size':
                v = n.value
                _need(isinstance(v, ast.Call) and isinstance(v.func, ast.Name) and v.func.id == 'SuffixMultiplier'
                      and len(v.args) == 1 and isinstance(v.args[0], ast.Dict) and not v.keywords,
                      'byte_size is not SuffixMultiplier({...})')
                tab = []
                for k, val in zip(v.args[0].keys, v.args[0].values):
                    _need(isinstance(k, ast.Constant) and isinstance(k.value, str) and len(k.value) == 2,
                          'byte_size suffix is not a 2-character literal')
                    # evaluate a product of integer literals / long(literal)
                    tab.append((k.value, _int_product(val)))
                out['byte_size'] = tab
    for nm in ('TRUTHY_STRINGS', 'FALSY_STRINGS', 'LOGFILE_NONES', 'LOGFILE_AUTOS', 'LOGFILE_SYSLOGS', 'byte_size'):
        _need(nm in out, 'datatypes.%s not found' % nm)
    # forbidden name characters: `for character in ' :/':` in process_or_group_name
    fn = [n for n in mod.body if isinstance(n, ast.FunctionDef) and n.name == 'process_or_group_name']
    _need(len(fn) == 1, 'process_or_group_name not found')
    loops = [n for n in ast.walk(fn[0]) if isinstance(n, ast.For)]
    _need(len(loops) == 1 and isinstance(loops[0].iter, ast.Constant) and isinstance(loops[0].iter.value, str),
          'process_or_group_name: forbidden-character loop not found')
    out['name_forbidden'] = loops[0].iter.value
    return out


def _int_product(node):
    if isinstance(node, ast.Constant) and isinstance(node.value, int):
        return node.value
    if isinstance(node, ast.BinOp) and isinstance(node.op, ast.Mult):
        return _int_product(node.left) * _int_product(node.right)
    if isinstance(node, ast.Call) and isinstance(node.func, ast.Name) and node.func.id == 'long' and len(node.args) == 1:
        return _int_product(node.args[0])
    raise Reject('byte_size multiplier is not a product of integer literals')


def doc_defaults():
    """{section: [(option, default text)]} from docs/configuration.rst."""
    path = os.path.join(vlib.REPO, 'docs', 'configuration.rst')
    with open(path) as f:
        lines = f.read().split('\n')
    out = {}
    order = []
    sec = None
    opt = None
    for i, line in enumerate(lines):
        m = re.match(r'^``\[([^\]]+)\]`` Section Values\s*$', line)
        if m:
            sec = m.group(1)
            _need(sec not in out, 'docs: section %s documented twice' % sec)
            out[sec] = []
            order.append(sec)
            opt = None
            continue
        if re.match(r'^``\[([^\]]+)\]`` Section (Example|Settings)\s*$', line):
            sec = None
            opt = None
            continue
        if sec is None:
            continue
        m = re.match(r'^``([A-Za-z_][\w.]*)``\s*$', line)
        if m:
            opt = m.group(1)
            continue
        m = re.match(r'^\s+\*Default\*:\s*(.*?)\s*$', line)
        if m:
            _need(opt is not None, 'docs: *Default* line %d outside an option' % (i + 1))
            text = m.group(1)
            # strip rst markup
            text = re.sub(r':\w+:`([^`]*)`', r'\1', text)
            text = text.replace('``', '')
            text = text.rstrip('.')
            _need(all(o != opt for o, _ in out[sec]), 'docs: option %s.%s has two *Default* lines' % (sec, opt))
            out[sec].append((opt, text))
    for need in ('supervisord', 'program:x', 'group:x', 'fcgi-program:x', 'eventlistener:x'):
        _need(need in out, 'docs: section [%s] not found' % need)
    _need(len(out['program:x']) >= 25 and len(out['supervisord']) >= 12, 'docs: too few documented defaults parsed')
    return out, order


def _startswith_const(node, var):
    """`<var>.startswith('<const>')` -> const, else None."""
    if isinstance(node, ast.Call) and isinstance(node.func, ast.Attribute) and node.func.attr == 'startswith' \
            and isinstance(node.func.value, ast.Name) and node.func.value.id == var and len(node.args) == 1 \
            and isinstance(node.args[0], ast.Constant) and isinstance(node.args[0].value, str) and not node.keywords:
        return node.args[0].value
    return None


def signal_rules():
    """How datatypes.py decides what a signal is.

    SIGNUMS = [getattr(signal, k) for k in dir(signal) if COND], COND being
    k.startswith(P) optionally `and not k.startswith(Q)`; and the guard of
    signal_number(): `if num is None [or name.startswith(G)]`.
    Returns (P, Q or None, G or None)."""
    mod = _parse('supervisor/datatypes.py')
    rule = None
    for n in mod.body:
        if isinstance(n, ast.Assign) and len(n.targets) == 1 and isinstance(n.targets[0], ast.Name) \
                and n.targets[0].id == 'SIGNUMS':
            v = n.value
            _need(isinstance(v, ast.ListComp) and len(v.generators) == 1, 'SIGNUMS is not a single list comprehension')
            g = v.generators[0]
            _need(isinstance(g.target, ast.Name) and ast.dump(g.iter) == ast.dump(ast.parse('dir(signal)').body[0].value)
                  and ast.dump(v.elt) == ast.dump(ast.parse('getattr(signal, %s)' % g.target.id).body[0].value)
                  and len(g.ifs) == 1, 'SIGNUMS: unexpected comprehension')
            var = g.target.id
            cond = g.ifs[0]
            if _startswith_const(cond, var) is not None:
                rule = (_startswith_const(cond, var), None)
            else:
                _need(isinstance(cond, ast.BoolOp) and isinstance(cond.op, ast.And) and len(cond.values) == 2
                      and _startswith_const(cond.values[0], var) is not None
                      and isinstance(cond.values[1], ast.UnaryOp) and isinstance(cond.values[1].op, ast.Not)
                      and _startswith_const(cond.values[1].operand, var) is not None,
                      'SIGNUMS: unexpected filter condition')
                rule = (_startswith_const(cond.values[0], var), _startswith_const(cond.values[1].operand, var))
    _need(rule is not None, 'datatypes.SIGNUMS not found')
    fn = [n for n in mod.body if isinstance(n, ast.FunctionDef) and n.name == 'signal_number']
    _need(len(fn) == 1, 'signal_number not found')
    guard = 'absent'
    for n in ast.walk(fn[0]):
        if isinstance(n, ast.If):
            t = n.test
            isnone = ast.dump(ast.parse('num is None').body[0].value)
            if ast.dump(t) == isnone:
                guard = None
            elif isinstance(t, ast.BoolOp) and isinstance(t.op, ast.Or) and len(t.values) == 2 \
                    and ast.dump(t.values[0]) == isnone and _startswith_const(t.values[1], 'name') is not None:
                guard = _startswith_const(t.values[1], 'name')
    _need(guard != 'absent', 'signal_number: the `num is None` test was not found')
    return rule[0], rule[1], guard


def signal_table():
    """(names, signums): name -> number for every int attribute of the running
    CPython's signal module whose name starts with SIG (what getattr(signal, name)
    can return: platform data), and the numbers datatypes.SIGNUMS holds
    according to the filter read from the source."""
    import signal
    pref, excl, guard = signal_rules()
    _need(pref == 'SIG', 'SIGNUMS: unexpected prefix %r' % pref)
    names, nums = [], []
    for k in sorted(dir(signal)):
        if k.startswith('SIG'):
            v = getattr(signal, k)
            if isinstance(v, int):
                names.append((k, int(v)))
        if k.startswith(pref) and not (excl is not None and k.startswith(excl)):
            v = getattr(signal, k)
            if isinstance(v, int):
                nums.append(int(v))
    return names, sorted(set(nums)), guard


def generate():
    tables, names = code_tables()
    evs = event_names()
    lv = log_levels()
    dt = datatype_tables()
    docs, order = doc_defaults()
    sig = signal_table()
    o = []
    o.append('(* GENERATED by gen/c14_defaults.py from supervisor/options.py, events.py, loggers.py,\n'
             '   datatypes.py and docs/configuration.rst - do not edit. *)')
    o.append('From Coq Require Import ZArith List String.\nImport ListNotations.\nOpen Scope string_scope.\nOpen Scope Z_scope.\n')
    o.append('Inductive dflt := DNone | DRequired | DStr (s : string) | DInt (z : Z) | DBool (b : bool) | DName (s : string).\n')
    o.append('(* option -> (converter applied to the value, literal default, do_expand=False) *)')
    o.append('Definition opt_table := list (string * (string * dflt * bool)).\n')
    for key in ('program', 'supervisord', 'group', 'programgroup', 'eventlistener', 'fcgi-program'):
        _need(key in tables, 'no get() table for %s' % key)
        body, order_, seen = _table(tables[key])
        _need(len(order_) >= 1, 'empty get() table for %s' % key)
        o.append('Definition code_%s : opt_table :=\n  %s.\n' % (key.replace('-', '_'), body))
    o.append('Definition req_param_names : list string := [%s].' % '; '.join(_cstr(x) for x in names['req_param_names']))
    o.append('Definition optional_param_names : list string := [%s].\n' % '; '.join(_cstr(x) for x in names['optional_param_names']))
    o.append('Definition event_type_names : list string :=\n  [%s].\n' % '; '.join(_cstr(x) for x in evs))
    o.append('(* attributes of ServerOptions filled from the [supervisord] section: (attribute, key) *)')
    o.append('Definition effective_options : list (string * string) :=\n  [%s].\n' % '; '.join('(%s, %s)' % (_cstr(x), _cstr(y)) for x, y in effective_options()))
    o.append('Definition log_levels : list (string * Z) := [%s].\n' % '; '.join('(%s, %d)' % (_cstr(a), b) for a, b in lv))
    o.append('Definition truthy_strings : list string := [%s].' % '; '.join(_cstr(x) for x in dt['TRUTHY_STRINGS']))
    o.append('Definition falsy_strings : list string := [%s].' % '; '.join(_cstr(x) for x in dt['FALSY_STRINGS']))
    o.append('Definition logfile_nones : list string := [%s].' % '; '.join(_cstr(x) for x in dt['LOGFILE_NONES']))
    o.append('Definition logfile_autos : list string := [%s].' % '; '.join(_cstr(x) for x in dt['LOGFILE_AUTOS']))
    o.append('Definition logfile_syslogs : list string := [%s].' % '; '.join(_cstr(x) for x in dt['LOGFILE_SYSLOGS']))
    o.append('Definition byte_size_suffixes : list (string * Z) := [%s].' % '; '.join('(%s, %d)' % (_cstr(a), b) for a, b in dt['byte_size']))
    o.append('Definition name_forbidden_chars : string := %s.\n' % _cstr(dt['name_forbidden']))
    o.append('(* signal names of the running CPython (platform data) *)')
    o.append('Definition signal_names : list (string * Z) :=\n  [%s].\n' % '; '.join('(%s, %d)' % (_cstr(a), b) for a, b in sig[0]))
    o.append('(* the numbers in datatypes.SIGNUMS, by the filter read from the source *)')
    o.append('Definition signal_numbers : list Z := [%s].' % '; '.join(str(x) for x in sig[1]))
    o.append('(* signal_number() rejects resolved names with this prefix (None: no such guard) *)')
    o.append('Definition signal_name_guard : option string := %s.\n' % ('None' if sig[2] is None else 'Some %s' % _cstr(sig[2])))
    o.append('(* docs/configuration.rst: section -> option -> text of the *Default* line (markup stripped) *)')
    rows = []
    for sec in order:
        inner = '; '.join('(%s, %s)' % (_cstr(a), _cstr(b)) for a, b in docs[sec])
        rows.append('(%s,\n     [%s])' % (_cstr(sec), inner))
    o.append('Definition doc_defaults : list (string * list (string * string)) :=\n  [ %s ].\n' % '\n  ; '.join(rows))
    vlib.write_if_changed(OUT, '\n'.join(o))
    return OUT


if __name__ == '__main__':
    import sys
    sys.path.insert(0, os.path.join(os.path.dirname(os.path.dirname(os.path.abspath(__file__))), 'lib'))
    print(generate())
