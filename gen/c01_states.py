"""Translator for the lifecycle cluster (C01-C06, C13): facts read from the
current source with `ast`, written to coq/C01/Gen_states.v.  Fail closed.

  * ProcessStates / SupervisorStates / EventListenerStates numeric codes and
    the three state tuples of supervisor/states.py
  * Subprocess.event_map (state -> event class) of supervisor/process.py
  * syntactic fact: the attribute `state` of a Subprocess is assigned only in
    Subprocess.__init__ and Subprocess.change_state (scan of every Assign /
    AugAssign / AnnAssign / setattr target named `.state` in supervisor/*.py,
    tests excluded); any other writer aborts the run
  * the _assertInState argument lists, per enclosing method, in source order
  * the signal numbers handle_signal turns into SHUTDOWN / RESTARTING
"""
import ast
import os
import sys

sys.path.insert(0, os.path.join(os.path.dirname(os.path.abspath(__file__)), '..', 'lib'))
import vlib


def _parse(rel):
    path = os.path.join(vlib.REPO, 'supervisor', rel)
    with open(path) as f:
        return ast.parse(f.read(), path)


def _class(mod, name):
    for n in mod.body:
        if isinstance(n, ast.ClassDef) and n.name == name:
            return n
    raise ValueError('class %s not found' % name)


def _int_consts(cls):
    out = []
    for st in cls.body:
        if isinstance(st, ast.Assign) and len(st.targets) == 1 and isinstance(st.targets[0], ast.Name):
            v = st.value
            if isinstance(v, ast.UnaryOp) and isinstance(v.op, ast.USub) and isinstance(v.operand, ast.Constant):
                out.append((st.targets[0].id, -v.operand.value))
            elif isinstance(v, ast.Constant) and isinstance(v.value, int):
                out.append((st.targets[0].id, v.value))
            else:
                raise ValueError('unexpected constant shape in class %s' % cls.name)
        elif isinstance(st, ast.Expr) and isinstance(st.value, ast.Constant):
            continue
        else:
            raise ValueError('unexpected statement in class %s: %s' % (cls.name, ast.dump(st)[:80]))
    return out


def _tuple_of_attrs(mod, name, owner):
    for n in mod.body:
        if isinstance(n, ast.Assign) and len(n.targets) == 1 and isinstance(n.targets[0], ast.Name) \
                and n.targets[0].id == name:
            if not isinstance(n.value, ast.Tuple):
                raise ValueError('%s is not a tuple' % name)
            out = []
            for e in n.value.elts:
                if not (isinstance(e, ast.Attribute) and isinstance(e.value, ast.Name) and e.value.id == owner):
                    raise ValueError('unexpected element in %s' % name)
                out.append(e.attr)
            return out
    raise ValueError('%s not found' % name)


def _state_writers():
    writers = []
    d = os.path.join(vlib.REPO, 'supervisor')
    for fn in sorted(os.listdir(d)):
        if not fn.endswith('.py'):
            continue
        mod = _parse(fn)
        for cls in [n for n in ast.walk(mod) if isinstance(n, ast.ClassDef)]:
            for fun in [n for n in cls.body if isinstance(n, ast.FunctionDef)]:
                for node in ast.walk(fun):
                    targets = []
                    if isinstance(node, ast.Assign):
                        targets = node.targets
                    elif isinstance(node, (ast.AugAssign, ast.AnnAssign)):
                        targets = [node.target]
                    elif isinstance(node, ast.Call) and isinstance(node.func, ast.Name) and node.func.id == 'setattr':
                        if len(node.args) >= 2 and isinstance(node.args[1], ast.Constant) and node.args[1].value == 'state':
                            writers.append((fn, cls.name, fun.name, 'setattr'))
                        continue
                    for t in targets:
                        for sub in ast.walk(t):
                            if isinstance(sub, ast.Attribute) and sub.attr == 'state' and isinstance(sub.ctx, ast.Store):
                                writers.append((fn, cls.name, fun.name, ast.unparse(sub)))
    return writers


def _asserts(cls):
    out = []
    for fun in [n for n in cls.body if isinstance(n, ast.FunctionDef)]:
        for node in ast.walk(fun):
            if isinstance(node, ast.Call) and isinstance(node.func, ast.Attribute) and node.func.attr == '_assertInState':
                names = []
                for a in node.args:
                    if not (isinstance(a, ast.Attribute) and isinstance(a.value, ast.Name) and a.value.id == 'ProcessStates'):
                        raise ValueError('unexpected _assertInState argument')
                    names.append(a.attr)
                out.append((fun.name, node.lineno, names))
    out.sort(key=lambda x: x[1])
    return [(f, names) for f, _, names in out]


def _signals():
    mod = _parse('supervisord.py')
    cls = _class(mod, 'Supervisor')
    fun = [n for n in cls.body if isinstance(n, ast.FunctionDef) and n.name == 'handle_signal'][0]
    shutdown, restart = [], []
    for node in ast.walk(fun):
        if isinstance(node, ast.If):
            test = node.test
            moods = [ast.unparse(s.value) for s in node.body if isinstance(s, ast.Assign)
                     and ast.unparse(s.targets[0]) == 'self.options.mood']
            if isinstance(test, ast.Compare) and isinstance(test.left, ast.Name) and test.left.id == 'sig':
                cmp = test.comparators[0]
                names = [ast.unparse(e) for e in cmp.elts] if isinstance(cmp, ast.Tuple) else [ast.unparse(cmp)]
                if 'SupervisorStates.SHUTDOWN' in moods:
                    shutdown += names
    import signal
    return sorted(getattr(signal, n.split('.')[-1]) for n in shutdown)


def collect():
    st = _parse('states.py')
    pcodes = _int_consts(_class(st, 'ProcessStates'))
    scodes = _int_consts(_class(st, 'SupervisorStates'))
    lcodes = _int_consts(_class(st, 'EventListenerStates'))
    stopped = _tuple_of_attrs(st, 'STOPPED_STATES', 'ProcessStates')
    running = _tuple_of_attrs(st, 'RUNNING_STATES', 'ProcessStates')
    signallable = _tuple_of_attrs(st, 'SIGNALLABLE_STATES', 'ProcessStates')
    pr = _parse('process.py')
    sub = _class(pr, 'Subprocess')
    emap = None
    for n in sub.body:
        if isinstance(n, ast.Assign) and isinstance(n.targets[0], ast.Name) and n.targets[0].id == 'event_map':
            emap = []
            for k, v in zip(n.value.keys, n.value.values):
                if not (isinstance(k, ast.Attribute) and k.value.id == 'ProcessStates'):
                    raise ValueError('unexpected event_map key')
                emap.append((k.attr, v.attr))
    if emap is None:
        raise ValueError('event_map not found')
    writers = _state_writers()
    bad = [w for w in writers if not (w[0] == 'process.py' and w[1] == 'Subprocess' and w[2] in ('__init__', 'change_state')
                                      and w[3] == 'self.state')]
    # other classes may have their own `state` attribute; only writers to a Subprocess matter:
    # anything in process.py outside __init__/change_state, and anything elsewhere writing `<x>.state` on a process
    suspicious = [w for w in bad if w[0] == 'process.py' or 'process' in w[3] or 'proc' in w[3]]
    if suspicious:
        raise ValueError('the process state has a writer other than Subprocess.__init__/change_state: %r' % (suspicious,))
    asserts = _asserts(sub)
    return dict(pcodes=pcodes, scodes=scodes, lcodes=lcodes, stopped=stopped, running=running,
                signallable=signallable, emap=emap, asserts=asserts, shutdown_signals=_signals())


def coq_str(s):
    return '"%s"' % s


def generate():
    d = collect()
    L = ['(* GENERATED by gen/c01_states.py from supervisor/states.py, process.py, supervisord.py - do not edit *)',
         'From Coq Require Import ZArith List String.', 'Import ListNotations.', 'Open Scope Z_scope.', 'Open Scope string_scope.', '']

    def table(name, pairs):
        L.append('Definition %s : list (string * Z) :=\n  [%s].' % (
            name, '; '.join('(%s, %s)' % (coq_str(k), ('(%d)' % v) if v < 0 else str(v)) for k, v in pairs)))

    table('gen_process_states', d['pcodes'])
    table('gen_supervisor_states', d['scodes'])
    table('gen_listener_states', d['lcodes'])
    for nm in ('stopped', 'running', 'signallable'):
        L.append('Definition gen_%s_states : list string := [%s].' % (nm, '; '.join(coq_str(x) for x in d[nm])))
    L.append('Definition gen_event_map : list (string * string) :=\n  [%s].' % '; '.join(
        '(%s, %s)' % (coq_str(k), coq_str(v)) for k, v in d['emap']))
    L.append('Definition gen_asserts : list (string * list string) :=\n  [%s].' % ';\n   '.join(
        '(%s, [%s])' % (coq_str(f), '; '.join(coq_str(x) for x in names)) for f, names in d['asserts']))
    L.append('Definition gen_shutdown_signals : list Z := [%s].' % '; '.join(str(x) for x in d['shutdown_signals']))
    vlib.write_if_changed(os.path.join(vlib.COQ, 'C01', 'Gen_states.v'), '\n'.join(L) + '\n')


if __name__ == '__main__':
    generate()
    print(open(os.path.join(vlib.COQ, 'C01', 'Gen_states.v')).read())
