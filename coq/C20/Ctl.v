(* C20: executable model of supervisorctl's Controller.onecmd and of the actions
   of DefaultControllerPlugin (supervisor/supervisorctl.py), non-interactive
   mode (options.interactive false: what `supervisorctl <action> <args>` runs
   before main() exits with Controller.exitstatus).

   Text is Coq `string` (one ascii per byte; the harness drives ASCII command
   lines only).  The server is an ORACLE: a list of responses consumed one per
   XML-RPC call, in call order.  A response is a value, an xmlrpclib.Fault, a
   socket.error or an xmlrpclib.ProtocolError.  Python exceptions are values
   (type exn); onecmd's exception net turns them into an `error: ...` line.

   The model returns the printed messages (one `line` per Controller.output
   call), Controller.exitstatus and the list of XML-RPC calls made (method name
   and arguments), so that target selection (all / group:* / group:name / name)
   is observable.

   Tables and constants come from Gen_ctl.v (regenerated from the source on
   every run).  Nothing is proved in this file. *)
From Coq Require Import ZArith List Bool String Ascii Lia.
Import ListNotations.
Require Import SV.C20.Gen_ctl.
Open Scope string_scope.
Open Scope Z_scope.
(* Z_scope is innermost: =? <? <=? are the Z tests; strings are compared with =s
   and appended with ++ (string_scope) *)
Notation "a =s b" := (String.eqb a b) (at level 70, no associativity).

(* ------------------------------------------------------------------ text *)
Definition chr (n : Z) : ascii := ascii_of_N (Z.to_N (Z.min (Z.max n 0) 255)).
Fixpoint sb (l : list Z) : string :=
  match l with [] => "" | x :: r => String (chr x) (sb r) end.
Definition code (c : ascii) : Z := Z.of_N (N_of_ascii c).

(* str.split() / str.strip() whitespace, ASCII part *)
Definition is_ws (c : ascii) : bool :=
  let n := code c in ((9 <=? n) && (n <=? 13)) || ((28 <=? n) && (n <=? 32)).

Definition starts_ws (s : string) : bool :=
  match s with "" => true | String c _ => is_ws c end.

(* str.split() with no argument *)
Fixpoint py_split (s : string) : list string :=
  match s with
  | "" => []
  | String c r =>
    if is_ws c then py_split r
    else if starts_ws r then String c "" :: py_split r
    else match py_split r with
         | w :: ws => String c w :: ws
         | [] => [String c ""]
         end
  end.

Fixpoint lstrip (s : string) : string :=
  match s with
  | "" => ""
  | String c r => if is_ws c then lstrip r else s
  end.
Fixpoint rstrip (s : string) : string :=
  match s with
  | "" => ""
  | String c r => let r' := rstrip r in
                  if is_ws c && (r' =s "") then "" else String c r'
  end.
Definition strip (s : string) : string := lstrip (rstrip s).

Definition lower_c (c : ascii) : ascii :=
  let n := code c in if (65 <=? n) && (n <=? 90) then chr (n + 32) else c.
Fixpoint lower (s : string) : string :=
  match s with "" => "" | String c r => String (lower_c c) (lower r) end.

Definition is_digit (c : ascii) : bool := let n := code c in (48 <=? n) && (n <=? 57).
Definition is_alpha (c : ascii) : bool :=
  let n := code c in ((65 <=? n) && (n <=? 90)) || ((97 <=? n) && (n <=? 122)).
(* cmd.IDENTCHARS *)
Definition is_ident (c : ascii) : bool := is_alpha c || is_digit c || (code c =? 95).

Definition mem_str (x : string) (l : list string) : bool := existsb (String.eqb x) l.
Definition mem_z (x : Z) (l : list Z) : bool := existsb (Z.eqb x) l.

(* str(int) *)
Fixpoint dec_fuel (fuel : nat) (n : Z) (acc : string) : string :=
  match fuel with
  | O => acc
  | S f => let acc' := String (chr (48 + n mod 10)) acc in
           if n <? 10 then acc' else dec_fuel f (n / 10) acc'
  end.
Definition dec (n : Z) : string :=
  if n <? 0 then "-" ++ dec_fuel (S (Z.to_nat (Z.log2 (- n)))) (- n) ""
  else dec_fuel (S (Z.to_nat (Z.log2 n))) n "".

(* int(s) for [+-]?[0-9]+ ; anything else is None (ValueError) *)
Fixpoint digits_val (s : string) (acc : Z) : option Z :=
  match s with
  | "" => Some acc
  | String c r => if is_digit c then digits_val r (acc * 10 + (code c - 48)) else None
  end.
Definition py_int (s : string) : option Z :=
  match s with
  | "" => None
  | String c r =>
    if code c =? 45 then match r with "" => None | _ => option_map Z.opp (digits_val r 0) end
    else if code c =? 43 then match r with "" => None | _ => digits_val r 0 end
    else digits_val s 0
  end.

Fixpoint spaces (n : nat) : string := match n with O => "" | S k => String " " (spaces k) end.
(* '%-Ns' % s *)
Definition ljust (s : string) (w : nat) : string := s ++ spaces (w - String.length s).

(* lexicographic order on byte strings, insertion sort, dedupe of a sorted list *)
Fixpoint str_leb (a b : string) : bool :=
  match a, b with
  | "", _ => true
  | String _ _, "" => false
  | String x a', String y b' =>
    if code x <? code y then true else if code y <? code x then false else str_leb a' b'
  end.
Fixpoint insert_sorted (x : string) (l : list string) : list string :=
  match l with
  | [] => [x]
  | y :: r => if str_leb x y then x :: l else y :: insert_sorted x r
  end.
Definition sort_str (l : list string) : list string := fold_right insert_sorted [] l.
Fixpoint dedupe_sorted (l : list string) : list string :=
  match l with
  | x :: ((y :: _) as r) => if x =s y then dedupe_sorted r else x :: dedupe_sorted r
  | _ => l
  end.
Definition sorted_set (l : list string) : list string := dedupe_sorted (sort_str l).

(* ------------------------------------------------- options.py: namespecs *)
(* split at the first ':' *)
Fixpoint split_colon (s : string) : option (string * string) :=
  match s with
  | "" => None
  | String c r =>
    if code c =? 58 then Some ("", r)
    else match split_colon r with
         | Some (a, b) => Some (String c a, b)
         | None => None
         end
  end.

(* options.split_namespec: (group_name, process_name or None) *)
Definition split_namespec (n : string) : string * option string :=
  match split_colon n with
  | Some (g, p) => (g, if (p =s "") || (p =s "*") then None else Some p)
  | None => (n, Some n)
  end.

(* options.make_namespec *)
Definition make_namespec (g p : string) : string :=
  if g =s p then p else g ++ ":" ++ p.
(* ... when process_name may be None (do_clear on a group namespec): '%s:%s' % (g, None) *)
Definition make_namespec_o (g : string) (po : option string) : string :=
  match po with Some p => make_namespec g p | None => g ++ ":None" end.

(* ------------------------------------------------- server values / oracle *)
Record presult := { r_name : string; r_group : string; r_status : Z; r_desc : string }.
Record pinfo := { i_name : string; i_group : string; i_state : Z; i_statename : string;
                  i_desc : string; i_pid : Z }.
Record cinfo := { c_name : string; c_group : string; c_inuse : bool; c_autostart : bool;
                  c_gprio : Z; c_pprio : Z }.

Inductive value :=
| VUnit                                   (* True / anything the client ignores *)
| VStr (s : string)
| VInt (z : Z)
| VResults (rs : list presult)
| VInfos (is : list pinfo)
| VInfo (i : pinfo)
| VCInfos (cs : list cinfo)
| VReload (added changed removed : list string).   (* [[added, changed, removed]] *)

Inductive resp :=
| RVal (v : value)
| RFault (c : Z) (fs : string)                     (* xmlrpclib.Fault(c, fs) *)
| RSock (errno : Z) (cls : string) (text : string) (* socket.error(errno, text); cls = its class name *)
| RProto (errcode : Z) (url : string) (msg : string). (* xmlrpclib.ProtocolError *)

Inductive arg := AS (s : string) | AZ (z : Z).
Definition call := (string * list arg)%type.

Inductive line :=
| LText (t : string)                  (* one Controller.output(t) *)
| LErr (cls : string) (v : string)    (* the exception net: 'error: <class cls>, v: file: .. line: ..' *)
| LHelp (topic : string)              (* the messages of help_<topic>() *)
| LUnmodelled.                        (* interactive / streaming parts (tail -f, fg, help) *)

Inductive exn :=
| XFault (c : Z) (fs : string)
| XSock (errno : Z) (cls : string) (text : string)
| XProto (errcode : Z) (url : string) (msg : string)
| XValue (msg : string)               (* ValueError *)
| XType.                              (* ill-typed server value; never generated *)

Definition exn_cls (e : exn) : string :=
  match e with
  | XFault _ _ => "xmlrpc.client.Fault"
  | XSock _ cls _ => cls
  | XProto _ _ _ => "xmlrpc.client.ProtocolError"
  | XValue _ => "ValueError"
  | XType => "TypeError"
  end.
Definition exn_str (e : exn) : string :=
  match e with
  | XFault c fs => "<Fault " ++ dec c ++ ": '" ++ fs ++ "'>"
  | XSock n _ t => "[Errno " ++ dec n ++ "] " ++ t
  | XProto c url m => "<ProtocolError for " ++ url ++ ": " ++ dec c ++ " " ++ m ++ ">"
  | XValue m => m
  | XType => ""
  end.

(* out and calls are kept in reverse order *)
Record st := mkst { orc : list resp; out : list line; ex : Z; calls : list call }.
Definition outp (l : line) (s : st) : st := mkst (orc s) (l :: out s) (ex s) (calls s).
Definition say (t : string) (s : st) : st := outp (LText t) s.
Definition setex (e : Z) (s : st) : st := mkst (orc s) (out s) e (calls s).

Inductive res (A : Type) := Ok (a : A) (s : st) | Exn (e : exn) (s : st).
Arguments Ok {A} _ _.
Arguments Exn {A} _ _.

(* one XML-RPC call: consumes one oracle entry; an exhausted oracle behaves as
   socket.error(0, 'script exhausted') (the harness proxy does the same) *)
Definition rpc (m : string) (a : list arg) (s : st) : res value :=
  let s0 := mkst (tl (orc s)) (out s) (ex s) ((m, a) :: calls s) in
  match orc s with
  | [] => Exn (XSock 0 "OSError" "script exhausted") s0
  | RVal v :: _ => Ok v s0
  | RFault c fs :: _ => Exn (XFault c fs) s0
  | RSock n cls t :: _ => Exn (XSock n cls t) s0
  | RProto c u m' :: _ => Exn (XProto c u m') s0
  end.

(* environment: options.serverurl and what not_all_langs() returns *)
Record env := { e_url : string; e_enc : option string }.

(* ----------------------------------------------------------------- upcheck *)
Definition msg_api (api : string) : string :=
  "Sorry, this version of supervisorctl expects to talk to a server with API version " ++
  API_VERSION ++ ", but the remote version is " ++ api ++ ".".
Definition msg_unknown_method : string :=
  "Sorry, supervisord responded but did not recognize the supervisor namespace commands that supervisorctl uses to control it.  Please check that the [rpcinterface:supervisor] section is enabled in the configuration file (see sample.conf).".

Definition upcheck (url : string) (s : st) : res bool :=
  match rpc "getVersion" [] s with
  | Ok (VStr api) s1 =>
    if api =s API_VERSION then Ok true s1
    else Ok false (setex LSBInit_NOT_INSTALLED (say (msg_api api) s1))
  | Ok _ s1 => Exn XType s1
  | Exn (XFault c fs) s1 =>
    if c =? F_UNKNOWN_METHOD
    then Ok false (setex LSBInit_UNIMPLEMENTED_FEATURE (say msg_unknown_method s1))
    else Exn (XFault c fs) (setex LSBInit_GENERIC s1)
  | Exn (XSock n cls t) s1 =>
    if n =? ECONNREFUSED
    then Ok false (setex LSBInit_INSUFFICIENT_PRIVILEGES (say (url ++ " refused connection") s1))
    else if n =? ENOENT
    then Ok false (setex LSBInit_NOT_RUNNING (say (url ++ " no such file") s1))
    else Exn (XSock n cls t) (setex LSBInit_GENERIC s1)
  | Exn e s1 => Exn e s1
  end.

(* ------------------------------------------- set_exitstatus_from_xmlrpc_fault *)
Definition opt_is (o : option Z) (c : Z) : bool :=
  match o with Some x => c =? x | None => false end.
Definition exit_from_fault (c : Z) (ign : option Z) (e : Z) : Z :=
  if opt_is ign c || (c =? F_SUCCESS) then e
  else if mem_z c DEAD_PROGRAM_FAULTS then setexit_dead
  else setexit_other.
Definition set_exit_fault (c : Z) (ign : option Z) (s : st) : st :=
  setex (exit_from_fault c ign (ex s)) s.

(* ------------- start / stop / signal / clear: one parametrised transcription *)
Fixpoint lookup {A : Type} (c : Z) (t : list (Z * A)) : option A :=
  match t with
  | [] => None
  | (k, v) :: r => if c =? k then Some v else lookup c r
  end.

Record tcfg := {
  t_all : string; t_group : string; t_single : string;   (* RPC method names *)
  t_extra : list arg;                                     (* signal: the signal name *)
  t_table : list (Z * wording);                           (* _startresult/_signalresult/_clearresult *)
  t_default : string * string * string;                   (* the chain's fall-through wording *)
  t_success : string;                                     (* `success` of _signalresult *)
  t_single_ok : string;                                   (* '%s: <word>' printed when the single call returns *)
  t_ign_all : option Z; t_ign_group : option Z; t_ign_single : option Z;
  t_has_group : bool;                                     (* do_clear has no group form *)
  t_gbad_exit : Z                                         (* group call faults with BAD_NAME; any other
                                                             fault of a group call: GENERIC *)
}.

Definition nth_ign (l : list (option Z)) (i : nat) : option Z := nth i l None.

Definition cfg_start : tcfg := {|
  t_all := "startAllProcesses"; t_group := "startProcessGroup"; t_single := "startProcess";
  t_extra := []; t_table := startresult_table; t_default := startresult_default; t_success := ""; t_single_ok := "started";
  t_ign_all := nth_ign ignored_start 0; t_ign_group := nth_ign ignored_start 1;
  t_ign_single := nth_ign ignored_start 2; t_has_group := true;
  t_gbad_exit := LSBInit_INVALID_ARGS |}.
Definition cfg_stop : tcfg := {|
  t_all := "stopAllProcesses"; t_group := "stopProcessGroup"; t_single := "stopProcess";
  t_extra := []; t_table := signalresult_table; t_default := signalresult_default; t_success := stop_success; t_single_ok := "stopped";
  t_ign_all := nth_ign ignored_stop 0; t_ign_group := nth_ign ignored_stop 1;
  t_ign_single := nth_ign ignored_stop 2; t_has_group := true;
  t_gbad_exit := LSBInit_GENERIC |}.
Definition cfg_signal (sig : string) : tcfg := {|
  t_all := "signalAllProcesses"; t_group := "signalProcessGroup"; t_single := "signalProcess";
  t_extra := [AS sig]; t_table := signalresult_table; t_default := signalresult_default;
  t_success := signal_success;
  t_single_ok := "signalled";
  t_ign_all := nth_ign ignored_signal 0; t_ign_group := nth_ign ignored_signal 1;
  t_ign_single := nth_ign ignored_signal 2; t_has_group := true;
  t_gbad_exit := LSBInit_GENERIC |}.
Definition cfg_clear : tcfg := {|
  t_all := "clearAllProcessLogs"; t_group := ""; t_single := "clearProcessLogs";
  t_extra := []; t_table := clearresult_table; t_default := clearresult_default; t_success := ""; t_single_ok := "cleared";
  t_ign_all := nth_ign ignored_clear 0; t_ign_group := None;
  t_ign_single := nth_ign ignored_clear 1; t_has_group := false;
  t_gbad_exit := LSBInit_GENERIC |}.

(* _startresult / _signalresult / _clearresult on (namespec, status, description) *)
Definition result_text (c : tcfg) (name : string) (code : Z) (desc : string) : string :=
  match lookup code (t_table c) with
  | Some (WErr what) => name ++ ": ERROR (" ++ what ++ ")"
  | Some (WOk word) => name ++ ": " ++ word
  | Some WSuccessArg => name ++ ": " ++ t_success c
  | Some WFaultString => desc
  | None => let '(p0, p1, p2) := t_default c in
            name ++ ": ERROR (" ++ (p0 ++ dec code ++ p1 ++ desc ++ p2) ++ ")"
  end.

(* for result in results: output(_xresult(result)); set_exitstatus_from_xmlrpc_fault(...) *)
Fixpoint results_loop (c : tcfg) (ign : option Z) (rs : list presult) (s : st) : res unit :=
  match rs with
  | [] => Ok tt s
  | r :: rs' =>
    results_loop c ign rs'
      (set_exit_fault (r_status r) ign
         (say (result_text c (make_namespec (r_group r) (r_name r)) (r_status r) (r_desc r)) s))
  end.

Definition is_none {A} (o : option A) : bool := match o with None => true | Some _ => false end.

(* the body of `for name in names:` *)
Definition target_step (c : tcfg) (n : string) (s : st) : res unit :=
  let '(g, po) := split_namespec n in
  if t_has_group c && is_none po then
    match rpc (t_group c) (AS g :: t_extra c) s with
    | Ok (VResults rs) s1 => results_loop c (t_ign_group c) rs s1
    | Ok _ s1 => Exn XType s1
    | Exn (XFault code fs) s1 =>
      if code =? F_BAD_NAME
      then Ok tt (setex (t_gbad_exit c) (say (g ++ ": ERROR (no such group)") s1))
      else Ok tt (setex LSBInit_GENERIC (say (g ++ ": ERROR (" ++ fs ++ ")") s1))
    | Exn e s1 => Exn e s1
    end
  else
    match rpc (t_single c) (AS n :: t_extra c) s with
    | Ok _ s1 => Ok tt (say (make_namespec_o g po ++ ": " ++ t_single_ok c) s1)
    | Exn (XFault code fs) s1 =>
      Ok tt (set_exit_fault code (t_ign_single c) (say (result_text c (make_namespec_o g po) code fs) s1))
    | Exn e s1 => Exn e s1
    end.

Fixpoint names_loop (c : tcfg) (names : list string) (s : st) : res unit :=
  match names with
  | [] => Ok tt s
  | n :: ns =>
    match target_step c n s with
    | Ok _ s1 => names_loop c ns s1
    | Exn e s1 => Exn e s1
    end
  end.

(* the part of do_start/do_stop/do_signal/do_clear after the argument check *)
Definition targets_action (c : tcfg) (names : list string) (s : st) : res unit :=
  if mem_str "all" names then
    match rpc (t_all c) (t_extra c) s with
    | Ok (VResults rs) s1 => results_loop c (t_ign_all c) rs s1
    | Ok _ s1 => Exn XType s1
    | Exn e s1 => Exn e s1
    end
  else names_loop c names s.

Definition with_upcheck (url : string) (k : st -> res unit) (s : st) : res unit :=
  match upcheck url s with
  | Ok true s1 => k s1
  | Ok false s1 => Ok tt s1
  | Exn e s1 => Exn e s1
  end.

Definition usage_error (msg : string) (status : Z) (topic : string) (s : st) : res unit :=
  Ok tt (outp (LHelp topic) (setex status (say msg s))).

Definition act_start (names : list string) (s : st) : res unit :=
  match names with
  | [] => usage_error "Error: start requires a process name" LSBInit_INVALID_ARGS "start" s
  | _ => targets_action cfg_start names s
  end.
Definition act_stop (names : list string) (s : st) : res unit :=
  match names with
  | [] => usage_error "Error: stop requires a process name" LSBInit_GENERIC "stop" s
  | _ => targets_action cfg_stop names s
  end.
Definition act_signal (args : list string) (s : st) : res unit :=
  match args with
  | sig :: ((_ :: _) as names) => targets_action (cfg_signal sig) names s
  | _ => usage_error "Error: signal requires a signal name and a process name" LSBInit_GENERIC "signal" s
  end.
Definition act_clear (names : list string) (s : st) : res unit :=
  match names with
  | [] => usage_error "Error: clear requires a process name" LSBInit_GENERIC "clear" s
  | _ => targets_action cfg_clear names s
  end.

Definition do_start (e : env) (a : string) := with_upcheck (e_url e) (act_start (py_split a)).
Definition do_stop (e : env) (a : string) := with_upcheck (e_url e) (act_stop (py_split a)).
Definition do_signal (e : env) (a : string) := with_upcheck (e_url e) (act_signal (py_split a)).
Definition do_clear (e : env) (a : string) := with_upcheck (e_url e) (act_clear (py_split a)).

Definition do_restart (e : env) (a : string) : st -> res unit :=
  with_upcheck (e_url e) (fun s =>
    match py_split a with
    | [] => usage_error "Error: restart requires a process name" LSBInit_GENERIC "restart" s
    | _ => match do_stop e a s with
           | Ok _ s1 => do_start e a s1
           | Exn x s1 => Exn x s1
           end
    end).

(* ------------------------------------------------------------------ status *)
Definition show_statuses (infos : list pinfo) : list string :=
  let specs := map (fun i => make_namespec (i_group i) (i_name i)) infos in
  let maxlen := fold_left (fun m sp => Nat.max m (String.length sp)) specs 30%nat in
  map (fun i => ljust (make_namespec (i_group i) (i_name i)) (maxlen + 3) ++
                ljust (i_statename i) 10 ++ i_desc i) infos.

Definition info_matches (g : string) (po : option string) (i : pinfo) : bool :=
  (i_group i =s g) && match po with Some p => i_name i =s p | None => true end.

(* the `for name in names` loop of do_status: (matching infos, state) *)
Fixpoint status_select (all_infos : list pinfo) (names : list string) (s : st) : list pinfo * st :=
  match names with
  | [] => ([], s)
  | n :: ns =>
    let '(g, po) := split_namespec n in
    let ms := filter (info_matches g po) all_infos in
    let s1 := match ms with
              | [] => setex LSBStatus_UNKNOWN
                        (say (match po with
                              | None => g ++ ": ERROR (no such group)"
                              | Some _ => n ++ ": ERROR (no such process)"
                              end) s)
              | _ => s
              end in
    let '(rest, s2) := status_select all_infos ns s1 in
    ((ms ++ rest)%list, s2)
  end.

Definition status_body (names : list string) (s : st) : res unit :=
  match rpc "getAllProcessInfo" [] s with
  | Ok (VInfos all_infos) s1 =>
    let '(shown, s2) :=
        if match names with [] => true | _ => mem_str "all" names end
        then (all_infos, s1) else status_select all_infos names s1 in
    let s3 := fold_left (fun st t => say t st) (show_statuses shown) s2 in
    Ok tt (if existsb (fun i => mem_z (i_state i) STOPPED_STATES) shown
           then setex LSBStatus_NOT_RUNNING s3 else s3)
  | Ok _ s1 => Exn XType s1
  | Exn e s1 => Exn e s1
  end.

Definition do_status (e : env) (a : string) (s : st) : res unit :=
  match upcheck (e_url e) s with
  | Ok true s1 => status_body (py_split a) s1
  | Ok false s1 => Ok tt (setex LSBStatus_UNKNOWN s1)
  | Exn x s1 => Exn x s1
  end.

(* --------------------------------------------------------------------- pid *)
Fixpoint pid_names (names : list string) (s : st) : res unit :=
  match names with
  | [] => Ok tt s
  | n :: ns =>
    match rpc "getProcessInfo" [AS n] s with
    | Ok (VInfo i) s1 =>
      let s2 := say (dec (i_pid i)) s1 in
      pid_names ns (if i_pid i =? 0 then setex LSBInit_NOT_RUNNING s2 else s2)
    | Ok _ s1 => Exn XType s1
    | Exn (XFault c fs) s1 =>
      if c =? F_BAD_NAME
      then pid_names ns (say ("No such process " ++ n) (setex LSBInit_GENERIC s1))
      else Exn (XFault c fs) (setex LSBInit_GENERIC s1)
    | Exn e s1 => Exn e s1
    end
  end.

Definition act_pid (names : list string) (s : st) : res unit :=
  match names with
  | [] => match rpc "getPID" [] s with
          | Ok (VInt p) s1 => Ok tt (say (dec p) s1)
          | Ok _ s1 => Exn XType s1
          | Exn e s1 => Exn e s1
          end
  | _ => if mem_str "all" names then
           match rpc "getAllProcessInfo" [] s with
           | Ok (VInfos is) s1 => Ok tt (fold_left (fun st i => say (dec (i_pid i)) st) is s1)
           | Ok _ s1 => Exn XType s1
           | Exn e s1 => Exn e s1
           end
         else pid_names names s
  end.
Definition do_pid (e : env) (a : string) := with_upcheck (e_url e) (act_pid (py_split a)).

(* ------------------------------------------------------------ add / remove *)
Fixpoint add_names (names : list string) (s : st) : res unit :=
  match names with
  | [] => Ok tt s
  | n :: ns =>
    match rpc "addProcessGroup" [AS n] s with
    | Ok _ s1 => add_names ns (say (n ++ ": added process group") s1)
    | Exn (XFault c fs) s1 =>
      if c =? F_SHUTDOWN_STATE then add_names ns (setex LSBInit_GENERIC (say "ERROR: shutting down" s1))
      else if c =? F_ALREADY_ADDED then add_names ns (say "ERROR: process group already active" s1)
      else if c =? F_BAD_NAME
      then add_names ns (setex LSBInit_GENERIC (say ("ERROR: no such process/group: " ++ n) s1))
      else Exn (XFault c fs) (setex LSBInit_GENERIC s1)
    | Exn e s1 => Exn e s1
    end
  end.
Definition do_add (e : env) (a : string) : st -> res unit := add_names (py_split a).

Fixpoint remove_names (names : list string) (s : st) : res unit :=
  match names with
  | [] => Ok tt s
  | n :: ns =>
    match rpc "removeProcessGroup" [AS n] s with
    | Ok _ s1 => remove_names ns (say (n ++ ": removed process group") s1)
    | Exn (XFault c fs) s1 =>
      let s2 := setex LSBInit_GENERIC s1 in
      if c =? F_STILL_RUNNING then remove_names ns (say ("ERROR: process/group still running: " ++ n) s2)
      else if c =? F_BAD_NAME then remove_names ns (say ("ERROR: no such process/group: " ++ n) s2)
      else Exn (XFault c fs) s2
    | Exn e s1 => Exn e s1
    end
  end.
Definition do_remove (e : env) (a : string) : st -> res unit := remove_names (py_split a).

(* ------------------------------------------------------- shutdown / reload *)
Definition no_args (a : string) (what topic : string) (k : st -> res unit) (s : st) : res unit :=
  if a =s "" then k s
  else usage_error ("Error: " ++ what ++ " accepts no arguments") LSBInit_GENERIC topic s.

Definition do_shutdown (e : env) (a : string) : st -> res unit :=
  no_args a "shutdown" "shutdown" (fun s =>
    match rpc "shutdown" [] s with
    | Ok _ s1 => Ok tt (say "Shut down" s1)
    | Exn (XFault c fs) s1 =>
      if c =? F_SHUTDOWN_STATE then Ok tt (say "ERROR: already shutting down" s1)
      else Exn (XFault c fs) (setex LSBInit_GENERIC s1)
    | Exn (XSock n cls t) s1 =>
      let s2 := setex LSBInit_GENERIC s1 in
      if n =? ECONNREFUSED
      then Ok tt (say ("ERROR: " ++ e_url e ++ " refused connection (already shut down?)") s2)
      else if n =? ENOENT
      then Ok tt (say ("ERROR: " ++ e_url e ++ " no such file (already shut down?)") s2)
      else Exn (XSock n cls t) s2
    | Exn x s1 => Exn x s1
    end).

Definition do_reload (e : env) (a : string) : st -> res unit :=
  no_args a "reload" "reload" (fun s =>
    match rpc "restart" [] s with
    | Ok _ s1 => Ok tt (say "Restarted supervisord" s1)
    | Exn (XFault c fs) s1 =>
      let s2 := setex LSBInit_GENERIC s1 in
      if c =? F_SHUTDOWN_STATE then Ok tt (say "ERROR: already shutting down" s2)
      else Exn (XFault c fs) s2
    | Exn x s1 => Exn x s1
    end).

(* ----------------------------------------------------------- avail / reread *)
Definition format_config_info (c : cinfo) : string :=
  ljust (make_namespec (c_group c) (c_name c)) 32 ++ " " ++
  ljust (if c_inuse c then "in use" else "avail") 9 ++ " " ++
  ljust (if c_autostart c then "auto" else "manual") 9 ++ " " ++
  dec (c_gprio c) ++ ":" ++ dec (c_pprio c).

Definition do_avail (e : env) (a : string) : st -> res unit :=
  no_args a "avail" "avail" (fun s =>
    match rpc "getAllConfigInfo" [] s with
    | Ok (VCInfos cs) s1 => Ok tt (fold_left (fun st c => say (format_config_info c) st) cs s1)
    | Ok _ s1 => Exn XType s1
    | Exn (XFault c fs) s1 =>
      let s2 := setex LSBInit_GENERIC s1 in
      if c =? F_SHUTDOWN_STATE then Ok tt (say "ERROR: supervisor shutting down" s2)
      else Exn (XFault c fs) s2
    | Exn x s1 => Exn x s1
    end).

Fixpoint last_assoc (k : string) (l : list (string * string)) (d : string) : string :=
  match l with
  | [] => d
  | (k', v) :: r => last_assoc k r (if k =s k' then v else d)
  end.

(* _formatChanges *)
Definition format_changes (added changed dropped : list string) (s : st) : st :=
  let entries := (map (fun n => (n, "available")) added ++
                  map (fun n => (n, "changed")) changed ++
                  map (fun n => (n, "disappeared")) dropped)%list in
  match entries with
  | [] => say "No config updates to processes" s
  | _ => fold_left (fun st n => say (n ++ ": " ++ last_assoc n entries "") st)
                   (sorted_set (map fst entries)) s
  end.

Definition do_reread (e : env) (a : string) : st -> res unit :=
  no_args a "reread" "reread" (fun s =>
    match rpc "reloadConfig" [] s with
    | Ok (VReload ad ch rm) s1 => Ok tt (format_changes ad ch rm s1)
    | Ok _ s1 => Exn XType s1
    | Exn (XFault c fs) s1 =>
      let s2 := setex LSBInit_GENERIC s1 in
      if c =? F_SHUTDOWN_STATE then Ok tt (say "ERROR: supervisor shutting down" s2)
      else if c =? F_CANT_REREAD then Ok tt (say ("ERROR: " ++ fs) s2)
      else Exn (XFault c fs) s2
    | Exn x s1 => Exn x s1
    end).

(* ------------------------------------------------------------------ update *)
Definition wanted (valid : list string) (g : string) : bool :=
  match valid with [] => true | _ => mem_str g valid end.

Fixpoint update_removed (valid gs : list string) (s : st) : res unit :=
  match gs with
  | [] => Ok tt s
  | g :: r =>
    if negb (wanted valid g) then update_removed valid r s else
    match rpc "stopProcessGroup" [AS g] s with
    | Ok (VResults rs) s1 =>
      let s2 := say (g ++ ": stopped") s1 in
      if existsb (fun x => r_status x =? F_FAILED) rs
      then update_removed valid r (setex LSBInit_GENERIC (say (g ++ ": has problems; not removing") s2))
      else match rpc "removeProcessGroup" [AS g] s2 with
           | Ok _ s3 => update_removed valid r (say (g ++ ": removed process group") s3)
           | Exn x s3 => Exn x s3
           end
    | Ok _ s1 => Exn XType s1
    | Exn x s1 => Exn x s1
    end
  end.

Fixpoint update_changed (valid gs : list string) (s : st) : res unit :=
  match gs with
  | [] => Ok tt s
  | g :: r =>
    if negb (wanted valid g) then update_changed valid r s else
    match rpc "stopProcessGroup" [AS g] s with
    | Ok _ s1 =>
      let s2 := say (g ++ ": stopped") s1 in
      match rpc "removeProcessGroup" [AS g] s2 with
      | Ok _ s3 =>
        match rpc "addProcessGroup" [AS g] s3 with
        | Ok _ s4 => update_changed valid r (say (g ++ ": updated process group") s4)
        | Exn x s4 => Exn x s4
        end
      | Exn x s3 => Exn x s3
      end
    | Exn x s1 => Exn x s1
    end
  end.

Fixpoint update_added (valid gs : list string) (s : st) : res unit :=
  match gs with
  | [] => Ok tt s
  | g :: r =>
    if negb (wanted valid g) then update_added valid r s else
    match rpc "addProcessGroup" [AS g] s with
    | Ok _ s1 => update_added valid r (say (g ++ ": added process group") s1)
    | Exn x s1 => Exn x s1
    end
  end.

(* valid_gnames is a Python set: its iteration order is not modelled; the
   'no such group' messages are produced in sorted order and the harness sorts
   the corresponding run of lines of the implementation *)
Definition do_update (e : env) (a : string) (s : st) : res unit :=
  match rpc "reloadConfig" [] s with
  | Ok (VReload added changed removed) s1 =>
    let names := py_split a in
    let valid := if mem_str "all" names then [] else sorted_set names in
    let after_check : res unit :=
      match valid with
      | [] => Ok tt s1
      | _ =>
        match rpc "getAllProcessInfo" [] s1 with
        | Ok (VInfos is) s2 =>
          let groups := (map i_group is ++ added)%list in
          Ok tt (fold_left (fun st g => if mem_str g groups then st
                                         else setex LSBInit_GENERIC (say ("ERROR: no such group: " ++ g) st))
                           valid s2)
        | Ok _ s2 => Exn XType s2
        | Exn x s2 => Exn x s2
        end
      end in
    match after_check with
    | Exn x s2 => Exn x s2
    | Ok _ s2 =>
      match update_removed valid removed s2 with
      | Exn x s3 => Exn x s3
      | Ok _ s3 =>
        match update_changed valid changed s3 with
        | Exn x s4 => Exn x s4
        | Ok _ s4 => update_added valid added s4
        end
      end
    end
  | Ok _ s1 => Exn XType s1
  | Exn (XFault c fs) s1 =>
    let s2 := setex LSBInit_GENERIC s1 in
    if c =? F_SHUTDOWN_STATE then Ok tt (say "ERROR: already shutting down" s2)
    else Exn (XFault c fs) s2
  | Exn x s1 => Exn x s1
  end.

(* ----------------------------------------------------------- tail / maintail *)
Definition enc_warning (e : env) (s : st) : st :=
  match e_enc e with
  | Some enc => say ("Warning: sys.stdout.encoding is set to " ++ enc ++
                     ", so Unicode output may fail. Check your LANG and PYTHONIOENCODING environment settings.") s
  | None => s
  end.

(* _tailf: check_encoding, banner, then the HTTP streaming request (the harness
   replaces http_client by a recorder: the request shows up as the pseudo call
   "_http_get" and consumes no oracle entry); nothing else is printed and the exit
   status is not touched *)
Definition tailf (e : env) (path : string) (s : st) : res unit :=
  let s1 := say "==> Press Ctrl-C to exit <==" (enc_warning e s) in
  Ok tt (mkst (orc s1) (out s1) (ex s1) (("_http_get", [AS path]) :: calls s1)).

Definition err1 (msg : string) (s : st) : res unit := Ok tt (setex LSBInit_GENERIC (say msg s)).

Definition str_tail (s : string) : string := match s with "" => "" | String _ r => r end.
Definition starts_dash (s : string) : bool := match s with String c _ => code c =? 45 | "" => false end.

Definition do_tail (e : env) (a : string) : st -> res unit :=
  with_upcheck (e_url e) (fun s =>
    let args := py_split a in
    if (List.length args <? 1)%nat then usage_error "Error: too few arguments" LSBInit_GENERIC "tail" s
    else if (3 <? List.length args)%nat then usage_error "Error: too many arguments" LSBInit_GENERIC "tail" s
    else
      let '(modifier, args) :=
          match args with
          | x :: r => if starts_dash x then (Some x, r) else (None, args)
          | [] => (None, args)
          end in
      let target : (string * string) + string :=
          match args with
          | [x] => inl (x, "stdout")
          | x :: _ => let ch := lower (last args "") in
                      if mem_str ch ["stderr"; "stdout"] then inl (x, ch)
                      else inr ("Error: bad channel '" ++ ch ++ "'")
          | [] => inr "Error: tail requires process name"
          end in
      match target with
      | inr msg => err1 msg s
      | inl (name, channel) =>
        let nbytes : option (option Z) :=
            match modifier with
            | None => Some (Some 1600)
            | Some m => let what := str_tail m in
                        if what =s "f" then Some None
                        else match py_int what with Some n => Some (Some n) | None => None end
            end in
        match nbytes with
        | None => err1 ("Error: bad argument " ++ match modifier with Some m => m | None => "" end) s
        | Some None => tailf e ("/logtail/" ++ name ++ "/" ++ channel) s
        | Some (Some n) =>
          let s0 := enc_warning e s in
          match rpc (if channel =s "stdout" then "readProcessStdoutLog" else "readProcessStderrLog")
                    [AS name; AZ (- n); AZ 0] s0 with
          | Ok (VStr o) s1 => Ok tt (say o s1)
          | Ok _ s1 => Exn XType s1
          | Exn (XFault c fs) s1 =>
            let s2 := setex LSBInit_GENERIC s1 in
            if c =? F_NO_FILE then Ok tt (say (name ++ ": ERROR (no log file)") s2)
            else if c =? F_FAILED then Ok tt (say (name ++ ": ERROR (unknown error reading log)") s2)
            else if c =? F_BAD_NAME then Ok tt (say (name ++ ": ERROR (no such process name)") s2)
            else Exn (XFault c fs) s2
          | Exn x s1 => Exn x s1
          end
        end
      end).

Definition do_maintail (e : env) (a : string) : st -> res unit :=
  with_upcheck (e_url e) (fun s =>
    let args := py_split a in
    let read (n : Z) : res unit :=
        match rpc "readLog" [AZ (- n); AZ 0] s with
        | Ok (VStr o) s1 => Ok tt (say o s1)
        | Ok _ s1 => Exn XType s1
        | Exn (XFault c fs) s1 =>
          let s2 := setex LSBInit_GENERIC s1 in
          if c =? F_NO_FILE then Ok tt (say "supervisord: ERROR (no log file)" s2)
          else if c =? F_FAILED then Ok tt (say "supervisord: ERROR (unknown error reading log)" s2)
          else Exn (XFault c fs) s2
        | Exn x s1 => Exn x s1
        end in
    match args with
    | [] => read 1600
    | [x] =>
      if starts_dash x then
        let what := str_tail x in
        if what =s "f" then tailf e "/mainlogtail" s
        else match py_int what with
             | Some n => read n
             | None => err1 ("Error: bad argument " ++ x) s
             end
      else err1 ("Error: bad argument " ++ x) s
    | _ => usage_error "Error: too many arguments" LSBInit_GENERIC "maintail" s
    end).

(* ----------------------------------------------------------- version / open *)
Definition do_version (e : env) (a : string) : st -> res unit :=
  no_args a "version" "version" (with_upcheck (e_url e) (fun s =>
    match rpc "getSupervisorVersion" [] s with
    | Ok (VStr v) s1 => Ok tt (say v s1)
    | Ok _ s1 => Exn XType s1
    | Exn x s1 => Exn x s1
    end)).

(* urlparse(url)[0] for the simple urls the harness uses: the text before the
   first ':' when it starts with a letter and consists of scheme characters *)
Definition is_scheme_char (c : ascii) : bool :=
  is_alpha c || is_digit c || mem_z (code c) [43; 45; 46].
Fixpoint all_chars (p : ascii -> bool) (s : string) : bool :=
  match s with "" => true | String c r => p c && all_chars p r end.
Definition url_scheme (u : string) : string :=
  match split_colon u with
  | Some (String c r, _) => if is_alpha c && all_chars is_scheme_char r then lower (String c r) else ""
  | _ => ""
  end.

Definition do_open (e : env) (a : string) (s : st) : res unit :=
  let url := strip a in
  if mem_str (url_scheme url) ["unix"; "http"] then
    let old := ex s in
    match do_status {| e_url := url; e_enc := e_enc e |} "" s with
    | Ok _ s1 => Ok tt (setex old s1)
    | Exn x s1 => Exn x s1
    end
  else err1 "ERROR: url must be http:// or unix://" s.

(* do_fg up to the point where it becomes interactive *)
Definition do_fg (e : env) (a : string) : st -> res unit :=
  with_upcheck (e_url e) (fun s =>
    match py_split a with
    | [] => usage_error "ERROR: no process name supplied" LSBInit_GENERIC "fg" s
    | [n] =>
      match rpc "getProcessInfo" [AS n] s with
      | Ok (VInfo i) s1 =>
        if i_state i =? PS_RUNNING then Ok tt (outp LUnmodelled s1)
        else err1 "ERROR: process not running" s1
      | Ok _ s1 => Exn XType s1
      | Exn (XFault c fs) s1 =>
        if c =? F_BAD_NAME then err1 "ERROR: bad process name supplied" s1
        else Ok tt (say ("ERROR: " ++ exn_str (XFault c fs)) s1)     (* exit status left alone *)
      | Exn x s1 => Exn x s1
      end
    | _ => err1 "ERROR: too many process names supplied" s
    end).

Definition do_quit (e : env) (a : string) (s : st) : res unit := Ok tt (say "" s).

(* ------------------------------------------------------------------- onecmd *)
(* _get_do_func: do_<cmd> on the Controller (help, EOF) or on the default plugin *)
Definition action_of (e : env) (cmd : string) : option (string -> st -> res unit) :=
  if cmd =s "start" then Some (do_start e) else
  if cmd =s "stop" then Some (do_stop e) else
  if cmd =s "restart" then Some (do_restart e) else
  if cmd =s "signal" then Some (do_signal e) else
  if cmd =s "clear" then Some (do_clear e) else
  if cmd =s "status" then Some (do_status e) else
  if cmd =s "pid" then Some (do_pid e) else
  if cmd =s "add" then Some (do_add e) else
  if cmd =s "remove" then Some (do_remove e) else
  if cmd =s "update" then Some (do_update e) else
  if cmd =s "reread" then Some (do_reread e) else
  if cmd =s "avail" then Some (do_avail e) else
  if cmd =s "tail" then Some (do_tail e) else
  if cmd =s "maintail" then Some (do_maintail e) else
  if cmd =s "shutdown" then Some (do_shutdown e) else
  if cmd =s "reload" then Some (do_reload e) else
  if cmd =s "version" then Some (do_version e) else
  if cmd =s "open" then Some (do_open e) else
  if mem_str cmd ["quit"; "exit"; "EOF"] then Some (do_quit e) else
  if cmd =s "fg" then Some (do_fg e) else
  if cmd =s "help" then Some (fun _ s => Ok tt (outp LUnmodelled s)) else
  None.

(* _get_do_func with further plugins ([ctlplugin:*] sections of the client configuration,
   appended after the default plugin in configuration order): do_<cmd> of the Controller
   itself (help, EOF - part of action_of here), else of the FIRST plugin that defines it *)
Fixpoint first_plugin {A : Type} (plugins : list (string -> option A)) (cmd : string) : option A :=
  match plugins with
  | [] => None
  | p :: r => match p cmd with Some f => Some f | None => first_plugin r cmd end
  end.
Definition get_do_func (e : env) (extra : list (string -> option (string -> st -> res unit))) (cmd : string) :=
  first_plugin (action_of e :: extra) cmd.

(* `except Exception:` of onecmd *)
Definition net (r : res unit) : st :=
  match r with
  | Ok _ s => s
  | Exn x s => setex LSBInit_GENERIC (outp (LErr (exn_cls x) (exn_str x)) s)
  end.

(* try: try: return do_func(arg) except ProtocolError as e: (401: notice, GENERIC;
   otherwise GENERIC and re-raise) except Exception: ...   with options.interactive false *)
Definition guarded (f : st -> res unit) (s : st) : st :=
  match f s with
  | Ok _ s1 => s1
  | Exn (XProto c u m) s1 =>
    if c =? 401
    then setex LSBInit_GENERIC (say "Server requires authentication" s1)
    else net (Exn (XProto c u m) (setex LSBInit_GENERIC s1))
  | Exn x s1 => net (Exn x s1)
  end.

Definition default_line (l : string) (s : st) : st :=
  setex LSBInit_GENERIC (say ("*** Unknown syntax: " ++ l) s).

Fixpoint span_ident (s : string) : string * string :=
  match s with
  | "" => ("", "")
  | String c r => if is_ident c then let '(a, b) := span_ident r in (String c a, b) else ("", s)
  end.

(* cmd.Cmd.parseline + Controller.onecmd *)
Definition onecmd_st (e : env) (l : string) (s : st) : st :=
  let l1 := strip l in
  match l1 with
  | "" => s
  | String c r =>
    if code c =? 33 (* '!' and no do_shell *) then default_line l1 s else
    let l2 := if code c =? 63 (* '?' *) then "help " ++ r else l1 in
    let '(cmd, rest) := span_ident l2 in
    if cmd =s "" then default_line l2 s else
    match action_of e cmd with
    | None => default_line l2 s
    | Some f => guarded (f (strip rest)) s
    end
  end.

Definition init (o : list resp) : st := mkst o [] LSBInit_SUCCESS [].

(* the observable outcome of `supervisorctl <line>`: printed messages,
   exit status, RPC calls *)
Definition run_line (e : env) (l : string) (o : list resp) : list line * Z * list call :=
  let s := onecmd_st e l (init o) in (rev (out s), ex s, rev (calls s)).

(* ---------------------------------------------------------------------- main() *)
(* main(): options.realize(argv); c = Controller(options);
     if options.args: c.onecmd(" ".join(options.args)); sys.exit(c.exitstatus)
     if options.interactive: c.exec_cmdloop(...); sys.exit(0)
   With an action on the command line - with or without -i/--interactive - the action
   is run once by onecmd and the process exits with Controller.exitstatus; the
   interactive loop (whose exit status is always 0) starts only when no action is
   given.  (onecmd itself is modelled for options.interactive false; with -i it differs
   only in the 401 retry and the shutdown/reload confirmation prompts.) *)
Fixpoint join_sp (ws : list string) : string :=
  match ws with
  | [] => ""
  | [w] => w
  | w :: r => w ++ " " ++ join_sp r
  end.
Inductive main_outcome :=
| MainExit (ls : list line) (status : Z) (cs : list call)   (* sys.exit(status) after one onecmd *)
| MainLoop.                                                  (* the interactive shell; exits 0 *)
Definition main_run (e : env) (words : list string) (o : list resp) : main_outcome :=
  match words with
  | [] => MainLoop
  | _ => let '(ls, status, cs) := run_line e (join_sp words) o in MainExit ls status cs
  end.

(* ---------------------------------------------------- correspondence checks *)
Definition arg_eqb (a b : arg) : bool :=
  match a, b with
  | AS x, AS y => x =s y
  | AZ x, AZ y => Z.eqb x y
  | _, _ => false
  end.
Fixpoint list_eqb' {A} (eqb : A -> A -> bool) (a b : list A) : bool :=
  match a, b with
  | [], [] => true
  | x :: a', y :: b' => eqb x y && list_eqb' eqb a' b'
  | _, _ => false
  end.
Definition call_eqb (a b : call) : bool := (fst a =s fst b) && list_eqb' arg_eqb (snd a) (snd b).
Definition line_eqb (a b : line) : bool :=
  match a, b with
  | LText x, LText y => x =s y
  | LErr c v, LErr c' v' => (c =s c') && (v =s v')
  | LHelp x, LHelp y => x =s y
  | LUnmodelled, LUnmodelled => true
  | _, _ => false
  end.

(* case: (url, encoding warning, command line, server script, what the implementation
   printed, its exit status, the calls it made) *)
Definition ctl_case := (string * option string * string * list resp * list line * Z * list call)%type.
Definition mkcase (u : string) (e : option string) (l : string) (o : list resp) (ls : list line)
           (z : Z) (c : list call) : ctl_case := (u, e, l, o, ls, z, c).
Definition mkcall (m : string) (a : list arg) : call := (m, a).
Definition check_case (c : ctl_case) : bool :=
  let '(url, enc, l, o, lines, status, cs) := c in
  let '(ml, ms, mc) := run_line {| e_url := url; e_enc := enc |} l o in
  list_eqb' line_eqb ml lines && (ms =? status) && list_eqb' call_eqb mc cs.

(* main(argv) of the implementation: (url, words after the options, script, printed, the code
   passed to sys.exit, calls) *)
Definition main_case := (string * list string * list resp * list line * Z * list call)%type.
Definition mkmain (u : string) (w : list string) (o : list resp) (ls : list line) (z : Z) (c : list call)
  : main_case := (u, w, o, ls, z, c).
Definition check_main_case (c : main_case) : bool :=
  let '(url, words, o, lines, status, cs) := c in
  match main_run {| e_url := url; e_enc := None |} words o with
  | MainExit ml ms mc => list_eqb' line_eqb ml lines && (ms =? status) && list_eqb' call_eqb mc cs
  | MainLoop => false
  end.
