(* C20: theorems about the model Ctl.v against the specification CtlSpec.v. *)
From Coq Require Import ZArith List Bool String Ascii Lia.
Import ListNotations.
Require Import SV.C20.Gen_ctl SV.C20.Ctl SV.C20.CtlSpec.
Open Scope string_scope.
Open Scope Z_scope.

Definition cfg_of (a : action) (sig : string) : tcfg :=
  match a with
  | Start => cfg_start | Stop => cfg_stop | Signal => cfg_signal sig | Clear => cfg_clear
  end.

Definition state_of {A} (r : res A) : st := match r with Ok _ s => s | Exn _ s => s end.

(* ------------------------------------------------------------ small facts *)
Lemma mem_str_In x l : In x l -> mem_str x l = true.
Proof.
  unfold mem_str. intro H. apply existsb_exists. exists x. split; auto. apply String.eqb_refl.
Qed.

Lemma mem_z_In x l : mem_z x l = true <-> In x l.
Proof.
  unfold mem_z. rewrite existsb_exists. split.
  - intros [y [Hy E]]. apply Z.eqb_eq in E. subst. auto.
  - intro H. exists x. split; auto. apply Z.eqb_refl.
Qed.

Lemma lookup_not_in {A} (t : list (Z * A)) c : ~ In c (map fst t) -> lookup c t = None.
Proof.
  induction t as [|[k v] t IH]; simpl; intro H; auto.
  destruct (c =? k) eqn:E.
  - apply Z.eqb_eq in E. subst. exfalso. apply H. auto.
  - apply IH. intro. apply H. auto.
Qed.

Lemma lookup_In {A} (t : list (Z * A)) c w : lookup c t = Some w -> In (c, w) t.
Proof.
  induction t as [|[k v] t IH]; simpl; intro H; try discriminate.
  destruct (c =? k) eqn:E.
  - apply Z.eqb_eq in E. inversion H. subst. auto.
  - right. auto.
Qed.

(* ------------------------------------- generated tables meet the specification *)
Definition wording_eqb (x y : wording) : bool :=
  match x, y with
  | WErr a, WErr b => a =s b
  | WOk a, WOk b => a =s b
  | WSuccessArg, WSuccessArg => true
  | WFaultString, WFaultString => true
  | _, _ => false
  end.
Lemma wording_eqb_eq x y : wording_eqb x y = true -> x = y.
Proof.
  destruct x, y; simpl; intro H; try discriminate; try reflexivity;
    apply String.eqb_eq in H; subst; reflexivity.
Qed.
Definition ow_eqb (x y : option wording) : bool :=
  match x, y with
  | None, None => true
  | Some a, Some b => wording_eqb a b
  | _, _ => false
  end.
Definition tables_agree (f : wording -> wording) (t1 t2 : list (Z * wording)) : bool :=
  forallb (fun k => ow_eqb (option_map f (lookup k t1)) (lookup k t2)) (map fst t1 ++ map fst t2)%list.

Lemma tables_agree_sound f t1 t2 :
  tables_agree f t1 t2 = true -> forall c, option_map f (lookup c t1) = lookup c t2.
Proof.
  unfold tables_agree. intros H c.
  destruct (in_dec Z.eq_dec c (map fst t1 ++ map fst t2)%list) as [I|N].
  - rewrite forallb_forall in H. specialize (H c I).
    destruct (lookup c t1), (lookup c t2); simpl in *; try discriminate; auto.
    apply wording_eqb_eq in H. subst. reflexivity.
  - rewrite (lookup_not_in t1), (lookup_not_in t2); auto;
      intro X; apply N; apply in_or_app; auto.
Qed.

(* `success` substituted into the chain of _signalresult *)
Definition norm (c : tcfg) (w : wording) : wording :=
  match w with WSuccessArg => WOk (t_success c) | _ => w end.

(* The if/elif chains read from the source give every fault code the wording
   the specification prescribes, and cover exactly the codes it covers.  A
   changed, added or removed entry in supervisorctl.py breaks this lemma. *)
Lemma table_agrees a sig c :
  option_map (norm (cfg_of a sig)) (lookup c (t_table (cfg_of a sig))) = lookup c (spec_wording a).
Proof.
  apply tables_agree_sound. destruct a; vm_compute; reflexivity.
Qed.

Lemma append_assoc' (x y z : string) : (x ++ y) ++ z = x ++ (y ++ z).
Proof. induction x as [|c x IH]; cbn [append]; auto. rewrite IH. reflexivity. Qed.
Lemma cfg_default a sig : t_default (cfg_of a sig) = ("unexpected result code ", ": ", "").
Proof. destruct a; reflexivity. Qed.

(* the chain plus its fall-through words every code as the specification prescribes *)
Lemma result_text_spec a sig name c desc :
  result_text (cfg_of a sig) name c desc = spec_line a name c desc.
Proof.
  unfold result_text, spec_line.
  rewrite <- (table_agrees a sig c).
  destruct (lookup c (t_table (cfg_of a sig))) as [w|]; simpl.
  - destruct w; simpl; reflexivity.
  - rewrite cfg_default. rewrite !append_assoc'. reflexivity.
Qed.

Lemma cfg_has_group a sig : t_has_group (cfg_of a sig) = has_group_form a.
Proof. destruct a; reflexivity. Qed.
Lemma cfg_single_ok a sig : t_single_ok (cfg_of a sig) = ok_word a.
Proof. destruct a; reflexivity. Qed.
Lemma cfg_gbad_nz a sig : t_gbad_exit (cfg_of a sig) <> 0.
Proof. destruct a; vm_compute; discriminate. Qed.

(* the ignored_faultcode at each call site is the action's idempotent fault *)
Definition ign_ok (a : action) (ign : option Z) : Prop :=
  forall c, opt_is ign c || (c =? F_SUCCESS) = in_success a c.

Lemma ign_sites a sig :
  ign_ok a (t_ign_all (cfg_of a sig)) /\ ign_ok a (t_ign_single (cfg_of a sig)) /\
  (has_group_form a = true -> ign_ok a (t_ign_group (cfg_of a sig))).
Proof.
  unfold ign_ok, in_success, mem_z.
  destruct a; cbn; unfold F_SUCCESS, F_ALREADY_STARTED, F_NOT_RUNNING; repeat split; intros;
    try discriminate;
    repeat match goal with |- context [?c =? ?k] => destruct (c =? k) end; reflexivity.
Qed.

Lemma exit_from_fault_zero a ign c e :
  ign_ok a ign -> (exit_from_fault c ign e = 0 <-> e = 0 /\ in_success a c = true).
Proof.
  intro H. unfold exit_from_fault. rewrite H.
  destruct (in_success a c).
  - tauto.
  - destruct (mem_z c DEAD_PROGRAM_FAULTS); vm_compute; split; intro X;
      try discriminate; destruct X; discriminate.
Qed.

Lemma exit_from_fault_nz ign c e : e <> 0 -> exit_from_fault c ign e <> 0.
Proof.
  intro H. unfold exit_from_fault.
  destruct (opt_is ign c || (c =? F_SUCCESS)); auto.
  destruct (mem_z c DEAD_PROGRAM_FAULTS); vm_compute; discriminate.
Qed.

(* codes in the success class are covered by the wording rules *)
Lemma success_has_key a c : in_success a c = true -> has_key c (spec_wording a) = true.
Proof.
  unfold in_success. rewrite mem_z_In.
  destruct a; simpl; intros H;
    repeat (destruct H as [H|H]; [subst; reflexivity|]); contradiction.
Qed.

(* only SUCCESS is worded as a plain success; every other covered code is worded
   as an ERROR line or by the server's own text *)
Definition wording_class_ok (a : action) : bool :=
  forallb (fun kw => match snd kw with
                     | WOk _ => in_success a (fst kw)
                     | WSuccessArg => false
                     | _ => true
                     end) (spec_wording a).
Lemma wording_class a : wording_class_ok a = true.
Proof. destruct a; vm_compute; reflexivity. Qed.


(* ------------------------------------------------- exit status of the loops *)
Definition rs_success (a : action) (rs : list presult) : bool :=
  forallb (fun r => in_success a (r_status r)) rs.

Lemma results_loop_exit a sig ign rs : ign_ok a ign -> forall s,
  match results_loop (cfg_of a sig) ign rs s with
  | Ok _ s' => orc s' = orc s /\ (ex s' = 0 <-> ex s = 0 /\ rs_success a rs = true)
  | Exn e s' => rs_success a rs = false
  end.
Proof.
  intro Hign. induction rs as [|r rs IH]; intro s; cbn [results_loop rs_success forallb].
  - split; auto. tauto.
  - match goal with |- context [results_loop ?c ?i ?l ?s1] =>
      specialize (IH s1); destruct (results_loop c i l s1) end.
    + destruct IH as [O E]. cbn in O, E. split; auto.
      rewrite E. rewrite (exit_from_fault_zero a ign _ _ Hign).
      unfold rs_success. rewrite andb_true_iff. tauto.
    + unfold rs_success in IH. rewrite IH. apply andb_false_r.
Qed.

Lemma target_step_exit a sig n x rest s :
  orc s = resp_of x :: rest ->
  match target_step (cfg_of a sig) n s with
  | Ok _ s' => orc s' = rest /\ (ex s' = 0 <-> ex s = 0 /\ ans_success a n x = true)
  | Exn e s' => ans_success a n x = false
  end.
Proof.
  intro Ho. destruct (ign_sites a sig) as [_ [Hs Hg]].
  unfold target_step, ans_success, is_group_target.
  destruct (split_namespec n) as [g po]. rewrite cfg_has_group. cbn [snd fst].
  destruct (has_group_form a && is_none po) eqn:G.
  - assert (HG : has_group_form a = true) by (apply andb_true_iff in G; tauto).
    specialize (Hg HG).
    unfold rpc. rewrite Ho. destruct x; cbn [resp_of tl]; auto.
    + pose proof (cfg_gbad_nz a sig). assert (G1 : LSBInit_GENERIC <> 0) by (vm_compute; discriminate).
      destruct (c =? F_BAD_NAME); cbn; split; auto;
        (split; intro X; [contradiction | destruct X; discriminate]).
    + match goal with |- context [results_loop ?c ?i ?l ?s1] =>
        pose proof (results_loop_exit a sig i l Hg s1) as R; destruct (results_loop c i l s1) end; auto.
  - unfold rpc. rewrite Ho. destruct x; cbn [resp_of tl]; auto.
    + cbn. split; auto. tauto.
    + cbn. split; auto. apply (exit_from_fault_zero a _ _ _ Hs).
    + cbn. split; auto. tauto.
Qed.


Lemma names_loop_exit a sig names : forall answers rest s,
  List.length names = List.length answers ->
  orc s = (map resp_of answers ++ rest)%list ->
  match names_loop (cfg_of a sig) names s with
  | Ok _ s' => orc s' = rest /\ (ex s' = 0 <-> ex s = 0 /\ all_success a names answers = true)
  | Exn e s' => all_success a names answers = false
  end.
Proof.
  induction names as [|n ns IH]; intros [|x xs] rest s L Ho; try discriminate;
    cbn [names_loop all_success].
  - split; auto. tauto.
  - cbn in Ho. pose proof (target_step_exit a sig n x _ s Ho) as T.
    destruct (target_step (cfg_of a sig) n s) as [u s1|e s1].
    + destruct T as [O E]. assert (L' : List.length ns = List.length xs) by (inversion L; auto).
      specialize (IH xs rest s1 L' O).
      destruct (names_loop (cfg_of a sig) ns s1).
      * destruct IH as [O2 E2]. split; auto. rewrite E2, E, andb_true_iff. tauto.
      * rewrite IH. apply andb_false_r.
    + rewrite T. reflexivity.
Qed.

(* ---------------- monotonicity: a non-zero status stays non-zero, output only grows *)
Definition suffix {A} (l l' : list A) : Prop := exists l0, l' = (l0 ++ l)%list.
Lemma suffix_refl {A} (l : list A) : suffix l l.
Proof. exists []. reflexivity. Qed.
Lemma suffix_cons {A} (x : A) l l' : suffix l l' -> suffix l (x :: l').
Proof. intros [l0 E]. exists (x :: l0). subst. reflexivity. Qed.
Lemma suffix_trans {A} (l1 l2 l3 : list A) : suffix l1 l2 -> suffix l2 l3 -> suffix l1 l3.
Proof. intros [a E1] [b E2]. exists (b ++ a)%list. subst. apply app_assoc. Qed.

Definition mono (s s' : st) : Prop := (ex s <> 0 -> ex s' <> 0) /\ suffix (out s) (out s').
Lemma mono_refl s : mono s s.
Proof. split; auto. apply suffix_refl. Qed.
Lemma mono_trans s1 s2 s3 : mono s1 s2 -> mono s2 s3 -> mono s1 s3.
Proof. intros [A B] [C D]. split; auto. eapply suffix_trans; eauto. Qed.

Lemma lsb_nz : LSBInit_GENERIC <> 0 /\ LSBInit_INVALID_ARGS <> 0 /\ LSBInit_UNIMPLEMENTED_FEATURE <> 0 /\
               LSBInit_INSUFFICIENT_PRIVILEGES <> 0 /\ LSBInit_NOT_INSTALLED <> 0 /\ LSBInit_NOT_RUNNING <> 0 /\
               LSBStatus_NOT_RUNNING <> 0 /\ LSBStatus_UNKNOWN <> 0.
Proof. vm_compute. repeat split; discriminate. Qed.

Ltac nz := try solve [ auto | apply exit_from_fault_nz; auto | apply lsb_nz ].
Ltac sfx := repeat first [ apply suffix_refl | apply suffix_cons ].
Ltac mono_now := split; [ cbn; intro; nz | cbn; sfx ].

Lemma results_loop_mono c ign rs : forall s, mono s (state_of (results_loop c ign rs s)).
Proof.
  induction rs as [|r rs IH]; intro s; cbn [results_loop state_of].
  - apply mono_refl.
  - eapply mono_trans; [|apply IH]. mono_now.
Qed.

Definition cfg_nz (c : tcfg) : Prop :=
  t_gbad_exit c <> 0 /\ True.
Lemma cfg_of_nz a sig : cfg_nz (cfg_of a sig).
Proof. destruct a; vm_compute; split; auto; discriminate. Qed.

Lemma target_step_mono c n s : cfg_nz c -> mono s (state_of (target_step c n s)).
Proof.
  intros [N1 N2]. unfold target_step. destruct (split_namespec n) as [g po].
  destruct (t_has_group c && is_none po).
  - unfold rpc. destruct (orc s) as [|[v|k fs|k cls t|k u m] o]; cbn [state_of]; try solve [mono_now].
    + destruct v; cbn [state_of]; try solve [mono_now].
      eapply mono_trans; [|apply results_loop_mono]. mono_now.
    + destruct (k =? F_BAD_NAME); cbn [state_of]; mono_now.
  - unfold rpc. destruct (orc s) as [|[v|k fs|k cls t|k u m] o]; cbn [state_of]; mono_now.
Qed.

Lemma names_loop_mono c names : cfg_nz c -> forall s, mono s (state_of (names_loop c names s)).
Proof.
  intro N. induction names as [|n ns IH]; intro s; cbn [names_loop state_of].
  - apply mono_refl.
  - pose proof (target_step_mono c n s N) as T.
    destruct (target_step c n s) as [u s1|e s1]; cbn [state_of] in *; auto.
    eapply mono_trans; eauto.
Qed.

Lemma targets_action_mono c names s : cfg_nz c -> mono s (state_of (targets_action c names s)).
Proof.
  intro N. unfold targets_action. destruct (mem_str "all" names).
  - unfold rpc. destruct (orc s) as [|[v|k fs|k cls t|k u m] o]; cbn [state_of]; try solve [mono_now].
    destruct v; cbn [state_of]; try solve [mono_now].
    eapply mono_trans; [|apply results_loop_mono]. mono_now.
  - apply names_loop_mono; auto.
Qed.

Lemma upcheck_mono url s : mono s (state_of (upcheck url s)).
Proof.
  unfold upcheck, rpc. destruct (orc s) as [|[v|k fs|k cls t|k u m] o]; cbn [state_of]; try solve [mono_now].
  - destruct v; cbn [state_of]; try solve [mono_now].
    destruct (s0 =s API_VERSION); cbn [state_of]; mono_now.
  - destruct (k =? F_UNKNOWN_METHOD); cbn [state_of]; mono_now.
  - destruct (k =? ECONNREFUSED); [|destruct (k =? ENOENT)]; cbn [state_of]; mono_now.
Qed.

Lemma with_upcheck_mono url k s :
  (forall s1, mono s1 (state_of (k s1))) -> mono s (state_of (with_upcheck url k s)).
Proof.
  intro K. unfold with_upcheck. pose proof (upcheck_mono url s) as U.
  destruct (upcheck url s) as [[|] s1|e s1]; cbn [state_of] in *; auto.
  eapply mono_trans; eauto.
Qed.

Lemma net_mono r : mono (state_of r) (net r).
Proof. destruct r as [u s|e s]; cbn [state_of net]; [apply mono_refl | mono_now]. Qed.


(* ----------------------------------------------- the whole command, via onecmd *)
Definition up_ok : resp := RVal (VStr API_VERSION).

(* `<action> names` run through onecmd's dispatch and exception net against a
   server that passes the version check and then gives `answers` *)
Definition targets_cmd (a : action) (sig url : string) (names : list string) : st -> res unit :=
  with_upcheck url (targets_action (cfg_of a sig) names).
Definition run_targets (a : action) (sig url : string) (names : list string) (answers : list answer) : st :=
  guarded (targets_cmd a sig url names) (init (up_ok :: map resp_of answers)).

Lemma upcheck_ok url s rest :
  orc s = up_ok :: rest ->
  upcheck url s = Ok true (mkst rest (out s) (ex s) (("getVersion", []) :: calls s)).
Proof.
  intro H. unfold upcheck, rpc. rewrite H. cbn [up_ok tl]. rewrite String.eqb_refl. reflexivity.
Qed.

Lemma targets_cmd_mono a sig url names s : mono s (state_of (targets_cmd a sig url names s)).
Proof.
  apply with_upcheck_mono. intro s1. apply targets_action_mono. apply cfg_of_nz.
Qed.

Lemma guarded_exn_nz f s e s1 :
  (forall s0, mono s0 (state_of (f s0))) -> f s = Exn e s1 -> ex (guarded f s) <> 0.
Proof.
  intros M E. unfold guarded. rewrite E.
  assert (G : LSBInit_GENERIC <> 0) by apply lsb_nz.
  destruct e; try (cbn; exact G).
  destruct (errcode =? 401); cbn; exact G.
Qed.

Lemma guarded_ok f s u s1 : f s = Ok u s1 -> guarded f s = s1.
Proof. intro E. unfold guarded. rewrite E. reflexivity. Qed.

Definition after_up (o : list resp) : st := mkst o [] LSBInit_SUCCESS [("getVersion", [])].

Lemma targets_cmd_names a sig url names o :
  mem_str "all" names = false ->
  targets_cmd a sig url names (init (up_ok :: o)) = names_loop (cfg_of a sig) names (after_up o).
Proof.
  intro NA. unfold targets_cmd, with_upcheck.
  rewrite (upcheck_ok url (init (up_ok :: o)) o) by reflexivity.
  unfold targets_action. rewrite NA. reflexivity.
Qed.

Lemma targets_cmd_all a sig url names o :
  mem_str "all" names = true ->
  targets_cmd a sig url names (init (up_ok :: o)) =
  match rpc (t_all (cfg_of a sig)) (t_extra (cfg_of a sig)) (after_up o) with
  | Ok (VResults rs) s1 => results_loop (cfg_of a sig) (t_ign_all (cfg_of a sig)) rs s1
  | Ok _ s1 => Exn XType s1
  | Exn e s1 => Exn e s1
  end.
Proof.
  intro A. unfold targets_cmd, with_upcheck.
  rewrite (upcheck_ok url (init (up_ok :: o)) o) by reflexivity.
  unfold targets_action. rewrite A. reflexivity.
Qed.

Theorem exit_zero_iff a sig url names answers :
  mem_str "all" names = false ->
  List.length names = List.length answers ->
  (ex (run_targets a sig url names answers) = 0 <-> all_success a names answers = true).
Proof.
  intros NA L. unfold run_targets.
  pose proof (targets_cmd_names a sig url names (map resp_of answers) NA) as TE.
  assert (Ho : orc (after_up (map resp_of answers)) = (map resp_of answers ++ [])%list)
    by (rewrite app_nil_r; reflexivity).
  pose proof (names_loop_exit a sig names answers [] _ L Ho) as NL.
  destruct (names_loop (cfg_of a sig) names (after_up (map resp_of answers))) as [u s'|e s'].
  - rewrite (guarded_ok _ _ _ _ TE). destruct NL as [_ E]. rewrite E. cbn.
    split; [tauto|]. intro X. split; auto.
  - rewrite NL. split; [|discriminate]. intro X. exfalso.
    refine (guarded_exn_nz _ _ _ _ _ TE X). intro s0. apply targets_cmd_mono.
Qed.

(* the `all` form: one call, one per-process result list *)
Theorem exit_zero_iff_all a sig url names rs :
  mem_str "all" names = true ->
  (ex (guarded (targets_cmd a sig url names) (init [up_ok; RVal (VResults rs)])) = 0
   <-> rs_success a rs = true).
Proof.
  intro A.
  pose proof (targets_cmd_all a sig url names [RVal (VResults rs)] A) as TE.
  unfold rpc in TE. cbn [orc after_up tl] in TE.
  destruct (ign_sites a sig) as [Ha _].
  match type of TE with _ = results_loop ?c ?i ?l ?s1 =>
    pose proof (results_loop_exit a sig i l Ha s1) as R; destruct (results_loop c i l s1) as [u s'|e s'] end.
  - rewrite (guarded_ok _ _ _ _ TE). destruct R as [_ E]. rewrite E. cbn.
    split; [tauto|]. intro X; split; auto.
  - rewrite R. split; [|discriminate]. intro X. exfalso.
    refine (guarded_exn_nz _ _ _ _ _ TE X). intro s0. apply targets_cmd_mono.
Qed.


(* ----------------------------------------- result lines and RPC calls, under the guard *)
Definition call_for (a : action) (sig n : string) : call :=
  if is_group_target a n
  then (t_group (cfg_of a sig), AS (fst (split_namespec n)) :: t_extra (cfg_of a sig))
  else (t_single (cfg_of a sig), AS n :: t_extra (cfg_of a sig)).

Definition rs_lines (a : action) (rs : list presult) : list string :=
  map (fun r => spec_line a (make_namespec (r_group r) (r_name r)) (r_status r) (r_desc r)) rs.

Lemma call_for_spec a sig n : call_for a sig n = spec_call a sig n.
Proof. unfold call_for, spec_call. destruct (is_group_target a n); destruct a; reflexivity. Qed.

Lemma results_loop_lines a sig ign rs : forall s,
  exists s', results_loop (cfg_of a sig) ign rs s = Ok tt s' /\
             out s' = (rev (map LText (rs_lines a rs)) ++ out s)%list /\
             orc s' = orc s /\ calls s' = calls s.
Proof.
  induction rs as [|r rs IH]; intros s; cbn [results_loop rs_lines map rev].
  - exists s. auto.
  - rewrite result_text_spec.
    match goal with |- context [results_loop ?c ?i ?l ?s1] => destruct (IH s1) as [s' [E [O [R Cs]]]] end.
    exists s'. split; auto. split; [|split; auto].
    rewrite O. cbn. rewrite <- app_assoc. reflexivity.
Qed.

Lemma target_step_lines a sig n x rest s :
  answered a n x = true -> orc s = resp_of x :: rest ->
  exists s', target_step (cfg_of a sig) n s = Ok tt s' /\
             out s' = (rev (map LText (expected_lines a n x)) ++ out s)%list /\
             orc s' = rest /\ calls s' = call_for a sig n :: calls s.
Proof.
  intros C Ho. unfold target_step, answered, expected_lines, call_for, target_name, is_group_target in *.
  destruct (split_namespec n) as [g po]. rewrite cfg_has_group. cbn [snd fst] in *.
  destruct (has_group_form a && is_none po) eqn:G.
  - unfold rpc. rewrite Ho. destruct x; cbn [resp_of tl]; try discriminate.
    + destruct (c =? F_BAD_NAME); (eexists; split; [reflexivity|]; cbn; auto).
    + match goal with |- context [results_loop ?c ?i ?l ?s1] =>
        destruct (results_loop_lines a sig i l s1) as [s' [E [O [R Cs]]]] end.
      exists s'. split; auto.
  - unfold rpc. rewrite Ho. rewrite cfg_single_ok.
    destruct x; cbn [resp_of tl]; try discriminate.
    + eexists. split; [reflexivity|]. cbn. auto.
    + rewrite result_text_spec. eexists. split; [reflexivity|]. cbn. auto.
    + eexists. split; [reflexivity|]. cbn. auto.
Qed.

Lemma names_loop_lines a sig names : forall answers rest s,
  all_answered a names answers = true ->
  orc s = (map resp_of answers ++ rest)%list ->
  exists s', names_loop (cfg_of a sig) names s = Ok tt s' /\
             out s' = (rev (map LText (all_expected a names answers)) ++ out s)%list /\
             orc s' = rest /\ calls s' = (rev (map (call_for a sig) names) ++ calls s)%list.
Proof.
  induction names as [|n ns IH]; intros [|x xs] rest s C Ho; try discriminate;
    cbn [names_loop all_expected map rev].
  - exists s. cbn in Ho. auto.
  - cbn [all_answered] in C. apply andb_true_iff in C as [C1 C2]. cbn in Ho.
    destruct (target_step_lines a sig n x _ s C1 Ho) as [s1 [E [O [R Cs]]]]. rewrite E.
    destruct (IH xs rest s1 C2 R) as [s' [E' [O' [R' Cs']]]].
    exists s'. split; auto. split; [|split; auto].
    + rewrite O', O, map_app, rev_app_distr, app_assoc. reflexivity.
    + rewrite Cs', Cs, <- app_assoc. reflexivity.
Qed.

Lemma expected_count a n x : answered a n x = true ->
  List.length (expected_lines a n x) = target_count a n x.
Proof.
  unfold answered, expected_lines, target_count. destruct (is_group_target a n); destruct x;
    intro; try discriminate; cbn; auto. apply map_length.
Qed.
Lemma all_expected_count a names : forall answers, all_answered a names answers = true ->
  List.length (all_expected a names answers) = total_targets a names answers.
Proof.
  induction names as [|n ns IH]; intros [|x xs] C; try discriminate; auto.
  cbn [all_answered] in C. apply andb_true_iff in C as [C1 C2].
  cbn [all_expected total_targets]. rewrite app_length, (expected_count _ _ _ C1), (IH _ C2). reflexivity.
Qed.

(* Under the guard, the printed messages are exactly the expected result lines, in
   order, one per targeted process; and the calls made are exactly one per name,
   the method and argument chosen by split_namespec. *)
Theorem one_line_per_target a sig url names answers :
  mem_str "all" names = false ->
  all_answered a names answers = true ->
  let s := run_targets a sig url names answers in
  rev (out s) = map LText (all_expected a names answers) /\
  List.length (all_expected a names answers) = total_targets a names answers /\
  rev (calls s) = ("getVersion", []) :: map (call_for a sig) names.
Proof.
  intros NA C. cbv zeta. unfold run_targets.
  pose proof (targets_cmd_names a sig url names (map resp_of answers) NA) as TE.
  assert (Ho : orc (after_up (map resp_of answers)) = (map resp_of answers ++ [])%list)
    by (rewrite app_nil_r; reflexivity).
  destruct (names_loop_lines a sig names answers [] _ C Ho) as [s' [E [O [R Cs]]]].
  rewrite E in TE. rewrite (guarded_ok _ _ _ _ TE).
  split; [|split].
  - rewrite O. cbn. rewrite app_nil_r, rev_involutive. reflexivity.
  - apply all_expected_count; auto.
  - rewrite Cs. cbn. rewrite rev_app_distr, rev_involutive. reflexivity.
Qed.

(* What is left outside the hypothesis `all_answered`: a transport error (socket.error,
   ProtocolError) ends the command - the exception net prints an error line, or the
   authentication notice for a 401 - and the targets after it are not processed. *)
Example transport_error_ends_command :
  let s := run_targets Start "" "u" ["a"; "b"; "c"]
             [AnsOk; AnsSock 104 "ConnectionResetError" "reset"; AnsOk] in
  rev (out s) = [LText "a: started"; LErr "ConnectionResetError" "[Errno 104] reset"] /\ ex s = 1 /\
  rev (calls s) = [("getVersion", []); ("startProcess", [AS "a"]); ("startProcess", [AS "b"])].
Proof. vm_compute. auto. Qed.

Lemma prefix_app p r : prefix p (p ++ r) = true.
Proof.
  induction p as [|c p IH]; cbn [append].
  - destruct r; reflexivity.
  - cbn [prefix]. destruct (ascii_dec c c); [auto | contradiction].
Qed.

(* every line other than the server's own text starts with the target's namespec *)
Lemma spec_line_names a name c desc :
  lookup c (spec_wording a) <> Some WFaultString ->
  prefix (name ++ ": ") (spec_line a name c desc) = true.
Proof.
  intro H. unfold spec_line.
  destruct (lookup c (spec_wording a)) as [[w|w| |]|].
  - change (prefix (name ++ ": ") (name ++ (": " ++ ("ERROR (" ++ w ++ ")"))) = true).
    rewrite <- append_assoc'. apply prefix_app.
  - rewrite <- append_assoc'. apply prefix_app.
  - change (prefix (name ++ ": ")
              (name ++ (": " ++ ("ERROR (unexpected result code " ++ dec c ++ ": " ++ desc ++ ")"))) = true).
    rewrite <- append_assoc'. apply prefix_app.
  - exfalso; apply H; reflexivity.
  - change (prefix (name ++ ": ")
              (name ++ (": " ++ ("ERROR (unexpected result code " ++ dec c ++ ": " ++ desc ++ ")"))) = true).
    rewrite <- append_assoc'. apply prefix_app.
Qed.

(* every fault code, covered by the chain or not, yields exactly one line for the
   target - naming it unless it is the server's text - and the status is 0 exactly
   for the success class *)
Theorem wording_total a sig url n c fs :
  is_group_target a n = false -> n <> "all" ->
  let s := run_targets a sig url [n] [AnsFault c fs] in
  out s = [LText (spec_line a (target_name n) c fs)] /\
  (ex s = 0 <-> in_success a c = true) /\
  (lookup c (spec_wording a) <> Some WFaultString ->
   prefix (target_name n ++ ": ") (spec_line a (target_name n) c fs) = true).
Proof.
  intros G NA. cbv zeta.
  assert (NA' : mem_str "all" [n] = false).
  { cbn. rewrite orb_false_r. destruct ("all" =s n) eqn:E; auto. apply String.eqb_eq in E. congruence. }
  split; [|split].
  - assert (C : all_answered a [n] [AnsFault c fs] = true).
    { cbn. unfold answered. rewrite G. reflexivity. }
    destruct (one_line_per_target a sig url [n] [AnsFault c fs] NA' C) as [L _].
    cbn in L. unfold expected_lines in L. rewrite G in L. cbn in L.
    apply (f_equal (@rev line)) in L. rewrite rev_involutive in L. exact L.
  - rewrite (exit_zero_iff a sig url [n] [AnsFault c fs] NA' eq_refl).
    cbn. unfold ans_success. rewrite G, andb_true_r. tauto.
  - apply spec_line_names.
Qed.

(* the value of the exit status after one single-process target *)
Lemma dead_agree c : mem_z c DEAD_PROGRAM_FAULTS = mem_z c spec_dead_faults.
Proof.
  unfold mem_z, DEAD_PROGRAM_FAULTS, spec_dead_faults, F_SPAWN_ERROR, F_ABNORMAL_TERMINATION, F_NOT_RUNNING.
  cbn [existsb]. destruct (c =? 50), (c =? 40), (c =? 70); reflexivity.
Qed.

Theorem exit_value_single a sig url n c fs :
  is_group_target a n = false -> n <> "all" ->
  ex (run_targets a sig url [n] [AnsFault c fs]) = spec_fault_exit a c.
Proof.
  intros G NA.
  assert (NA' : mem_str "all" [n] = false).
  { cbn. rewrite orb_false_r. destruct ("all" =s n) eqn:E; auto. apply String.eqb_eq in E. congruence. }
  unfold run_targets.
  pose proof (targets_cmd_names a sig url [n] [RFault c fs] NA') as TE.
  cbn [map resp_of]. unfold guarded. rewrite TE.
  cbn [names_loop]. unfold target_step. unfold is_group_target in G.
  destruct (split_namespec n) as [g po]. rewrite cfg_has_group. cbn [snd fst] in *. rewrite G.
  unfold rpc. cbn [orc after_up tl].
  cbn [ex set_exit_fault setex say outp after_up]. unfold exit_from_fault, spec_fault_exit.
  destruct (ign_sites a sig) as [_ [Hs _]]. rewrite Hs, dead_agree.
  destruct (in_success a c); [reflexivity|].
  destruct (mem_z c spec_dead_faults); reflexivity.
Qed.

(* ------------------------------------------------------------- never silent *)
Lemma contains_app_r p a b : contains p b = true -> contains p (a ++ b) = true.
Proof.
  intro H. induction a as [|c a IH]; cbn [append]; auto.
  cbn [contains]. rewrite IH. apply orb_true_r.
Qed.

Lemma existsb_suffix {A} (p : A -> bool) l l' : suffix l l' -> existsb p l = true -> existsb p l' = true.
Proof. intros [l0 E] H. subst. rewrite existsb_app, H. apply orb_true_r. Qed.

Lemma spec_line_err a name c desc fws :
  in_success a c = false -> In desc fws ->
  is_error_line fws (LText (spec_line a name c desc)) = true.
Proof.
  unfold spec_line. intros S I.
  destruct (lookup c (spec_wording a)) as [w|] eqn:L.
  - pose proof (wording_class a) as W. unfold wording_class_ok in W. rewrite forallb_forall in W.
    specialize (W _ (lookup_In _ _ _ L)). cbn [fst snd] in W.
    destruct w; cbn [is_error_line].
    + rewrite (contains_app_r "ERROR" name (": ERROR (" ++ what ++ ")")); auto.
    + congruence.
    + discriminate.
    + rewrite (mem_str_In _ _ I). repeat rewrite orb_true_r. reflexivity.
  - cbn [is_error_line].
    rewrite (contains_app_r "ERROR" name (": ERROR (unexpected result code " ++ dec c ++ ": " ++ desc ++ ")")); auto.
Qed.

Lemma results_loop_err a sig ign rs fws : forall s,
  rs_success a rs = false -> (forall r, In r rs -> In (r_desc r) fws) ->
  match results_loop (cfg_of a sig) ign rs s with
  | Ok _ s' => existsb (is_error_line fws) (out s') = true
  | Exn _ _ => True
  end.
Proof.
  induction rs as [|r rs IH]; intros s F I; cbn [results_loop]; try discriminate.
  rewrite result_text_spec.
  cbn [rs_success forallb] in F.
  destruct (in_success a (r_status r)) eqn:S.
  - apply IH; auto. intros; apply I; right; auto.
  - match goal with |- context [results_loop ?c ?i ?l ?s1] =>
      pose proof (results_loop_mono c i l s1) as [_ M]; destruct (results_loop c i l s1) end; auto.
    cbn [state_of] in M. eapply existsb_suffix; eauto. cbn [out set_exit_fault setex say outp existsb].
    rewrite spec_line_err; auto. apply I. left; auto.
Qed.

Definition answer_strings (x : answer) : list string :=
  match x with AnsFault _ fs => [fs] | AnsResults rs => map r_desc rs | _ => [] end.

Lemma target_step_err a sig n x rest s fws :
  orc s = resp_of x :: rest -> ans_success a n x = false ->
  (forall f, In f (answer_strings x) -> In f fws) ->
  match target_step (cfg_of a sig) n s with
  | Ok _ s' => existsb (is_error_line fws) (out s') = true
  | Exn _ _ => True
  end.
Proof.
  intros Ho F I. unfold target_step, ans_success, is_group_target in *.
  destruct (split_namespec n) as [g po]. rewrite cfg_has_group. cbn [snd fst] in *.
  destruct (has_group_form a && is_none po) eqn:G.
  - unfold rpc. rewrite Ho. destruct x; cbn [resp_of tl]; auto.
    + destruct (c =? F_BAD_NAME); cbn [out setex say outp existsb is_error_line].
      * rewrite (contains_app_r "ERROR" g ": ERROR (no such group)"); auto.
      * rewrite (contains_app_r "ERROR" g (": ERROR (" ++ fs ++ ")")); auto.
    + apply results_loop_err; auto. intros r Hr. apply I. cbn. apply in_map. auto.
  - unfold rpc. rewrite Ho. destruct x; cbn [resp_of tl]; auto; try discriminate.
    rewrite result_text_spec.
    cbn [out set_exit_fault setex say outp existsb].
    rewrite spec_line_err; auto. apply I. cbn. auto.
Qed.

Lemma fault_strings_cons x xs : fault_strings (x :: xs) = (answer_strings x ++ fault_strings xs)%list.
Proof. unfold fault_strings. cbn [flat_map]. destruct x; reflexivity. Qed.

Lemma names_loop_err a sig names fws : forall answers rest s,
  List.length names = List.length answers ->
  orc s = (map resp_of answers ++ rest)%list ->
  all_success a names answers = false ->
  (forall f, In f (fault_strings answers) -> In f fws) ->
  match names_loop (cfg_of a sig) names s with
  | Ok _ s' => existsb (is_error_line fws) (out s') = true
  | Exn _ _ => True
  end.
Proof.
  induction names as [|n ns IH]; intros [|x xs] rest s L Ho F I; try discriminate.
  cbn [names_loop]. cbn in Ho. cbn [all_success] in F.
  rewrite fault_strings_cons in I.
  pose proof (target_step_exit a sig n x _ s Ho) as T.
  pose proof (target_step_err a sig n x _ s fws Ho) as TE.
  destruct (target_step (cfg_of a sig) n s) as [u s1|e s1]; auto.
  destruct T as [O _]. assert (L' : List.length ns = List.length xs) by (inversion L; auto).
  destruct (ans_success a n x) eqn:S.
  - apply (IH xs rest s1 L' O); auto. intros; apply I; apply in_or_app; auto.
  - pose proof (names_loop_mono (cfg_of a sig) ns (cfg_of_nz a sig) s1) as [_ M].
    destruct (names_loop (cfg_of a sig) ns s1); auto. cbn [state_of] in M.
    eapply existsb_suffix; eauto. apply TE; auto. intros; apply I; apply in_or_app; auto.
Qed.

Lemma guarded_exn_line f s e s1 fws :
  (forall s0, mono s0 (state_of (f s0))) -> f s = Exn e s1 ->
  existsb (is_error_line fws) (out (guarded f s)) = true.
Proof.
  intros M E. unfold guarded. rewrite E.
  destruct e; try (cbn; reflexivity).
  destruct (errcode =? 401); cbn; reflexivity.
Qed.

(* A fault outside the success class, or a transport error, for any target: the
   status is non-zero and an error line is printed (the net's `error:` line, an
   ERROR line, the authentication notice or the server's fault text). *)
Theorem never_silent a sig url names answers :
  mem_str "all" names = false ->
  List.length names = List.length answers ->
  all_success a names answers = false ->
  let s := run_targets a sig url names answers in
  ex s <> 0 /\ existsb (is_error_line (fault_strings answers)) (out s) = true.
Proof.
  intros NA L F. cbv zeta. split.
  - intro X. apply (exit_zero_iff a sig url names answers NA L) in X. congruence.
  - unfold run_targets.
    pose proof (targets_cmd_names a sig url names (map resp_of answers) NA) as TE.
    assert (Ho : orc (after_up (map resp_of answers)) = (map resp_of answers ++ [])%list)
      by (rewrite app_nil_r; reflexivity).
    pose proof (names_loop_err a sig names (fault_strings answers) answers [] _ L Ho F (fun f H => H)) as NE.
    destruct (names_loop (cfg_of a sig) names (after_up (map resp_of answers))) as [u s'|e s'].
    + rewrite (guarded_ok _ _ _ _ TE). exact NE.
    + eapply guarded_exn_line; eauto. intro s0. apply targets_cmd_mono.
Qed.

(* Whatever an action does and whatever the server answers, an exception leaving
   the action ends in an `error:` line (or the authentication notice) and a
   non-zero status: onecmd's net is total. *)
Theorem net_total f s e s1 :
  (forall s0, mono s0 (state_of (f s0))) -> f s = Exn e s1 ->
  ex (guarded f s) <> 0 /\ existsb (is_error_line []) (out (guarded f s)) = true.
Proof.
  intros M E. split; [eapply guarded_exn_nz | eapply guarded_exn_line]; eauto.
Qed.


(* ---------------------------------------------------------------- namespecs *)
Fixpoint has_colon (s : string) : bool :=
  match s with "" => false | String c r => (code c =? 58) || has_colon r end.

Lemma split_colon_none n : has_colon n = false -> split_colon n = None.
Proof.
  induction n as [|c r IH]; cbn [has_colon split_colon]; auto.
  intro H. apply orb_false_iff in H as [H1 H2]. rewrite H1, (IH H2). reflexivity.
Qed.
Lemma split_colon_app g p : has_colon g = false -> split_colon (g ++ String ":" p) = Some (g, p).
Proof.
  induction g as [|c r IH]; cbn [has_colon split_colon append].
  - reflexivity.
  - intro H. apply orb_false_iff in H as [H1 H2]. rewrite H1, (IH H2). reflexivity.
Qed.

(* options.split_namespec: `name` -> (name, name); `group:name` -> (group, name);
   `group:*` and `group:` -> (group, None); the split is at the first colon *)
Lemma split_plain n : has_colon n = false -> split_namespec n = (n, Some n).
Proof. intro H. unfold split_namespec. rewrite (split_colon_none n H). reflexivity. Qed.
Lemma split_group g p : has_colon g = false ->
  split_namespec (g ++ ":" ++ p) = (g, if (p =s "") || (p =s "*") then None else Some p).
Proof.
  intro H. unfold split_namespec. change (g ++ ":" ++ p) with (g ++ String ":" p).
  rewrite (split_colon_app g p H). reflexivity.
Qed.

Lemma results_loop_calls c ign rs : forall s, calls (state_of (results_loop c ign rs s)) = calls s.
Proof.
  induction rs as [|r rs IH]; intro s; cbn [results_loop state_of]; auto.
  rewrite IH. reflexivity.
Qed.

Theorem namespec_selection a sig :
  (* a plain name: the single-process call with that name *)
  (forall n, has_colon n = false ->
     call_for a sig n = (t_single (cfg_of a sig), AS n :: t_extra (cfg_of a sig))) /\
  (* group:name: the single-process call with the full namespec *)
  (forall g p, has_colon g = false -> (p =s "") || (p =s "*") = false ->
     call_for a sig (g ++ ":" ++ p) = (t_single (cfg_of a sig), AS (g ++ ":" ++ p) :: t_extra (cfg_of a sig))) /\
  (* group:* and group: : the group call with the group name (start/stop/signal) *)
  (forall g p, has_colon g = false -> (p =s "") || (p =s "*") = true -> has_group_form a = true ->
     call_for a sig (g ++ ":" ++ p) = (t_group (cfg_of a sig), AS g :: t_extra (cfg_of a sig))) /\
  (* all: one call of the *All* method, whatever else is on the line *)
  (forall url names o, mem_str "all" names = true ->
     rev (calls (state_of (targets_cmd a sig url names (init (up_ok :: o))))) =
     [("getVersion", []); (t_all (cfg_of a sig), t_extra (cfg_of a sig))]).
Proof.
  repeat split.
  - intros n H. unfold call_for, is_group_target. rewrite (split_plain n H). cbn. rewrite andb_false_r. reflexivity.
  - intros g p H P. unfold call_for, is_group_target. rewrite (split_group g p H), P. cbn. rewrite andb_false_r. reflexivity.
  - intros g p H P G. unfold call_for, is_group_target. rewrite (split_group g p H), P, G. reflexivity.
  - intros url names o A. rewrite (targets_cmd_all a sig url names o A).
    unfold rpc. cbn [orc after_up]. destruct o as [|[v|k fs|k cls t|k u m] o]; cbn [state_of tl]; try reflexivity.
    destruct v; cbn [state_of]; try reflexivity.
    rewrite results_loop_calls. reflexivity.
Qed.


(* ------------------------------------------------------------------- status *)
Definition status_cmd (url : string) (names : list string) (s : st) : res unit :=
  match upcheck url s with
  | Ok true s1 => status_body names s1
  | Ok false s1 => Ok tt (setex LSBStatus_UNKNOWN s1)
  | Exn x s1 => Exn x s1
  end.
Lemma do_status_eq e a : do_status e a = status_cmd (e_url e) (py_split a).
Proof. reflexivity. Qed.

Lemma status_select_spec infos names : forall s,
  fst (status_select infos names s) = flat_map (matches_of infos) names /\
  ex (snd (status_select infos names s)) =
    (if existsb (unknown_name infos) names then LSBStatus_UNKNOWN else ex s).
Proof.
  induction names as [|n ns IH]; intro s; cbn [status_select flat_map existsb].
  - auto.
  - pose proof (eq_refl : matches_of infos n =
        filter (info_matches (fst (split_namespec n)) (snd (split_namespec n))) infos) as HM.
    unfold unknown_name at 1.
    destruct (split_namespec n) as [g po]. cbn [fst snd] in HM. rewrite HM.
    destruct (filter (info_matches g po) infos) as [|m ms].
    + match goal with |- context [status_select infos ns ?s1] =>
        destruct (IH s1) as [A B]; destruct (status_select infos ns s1) as [rest s2] end.
      cbn [fst snd] in *. split; [rewrite A; reflexivity|].
      rewrite B. cbn. destruct (existsb (unknown_name infos) ns); reflexivity.
    + destruct (IH s) as [A B]. destruct (status_select infos ns s) as [rest s2].
      cbn [fst snd] in *. split; [rewrite A; reflexivity|]. rewrite B. reflexivity.
Qed.

Lemma fold_say_ex l : forall s, ex (fold_left (fun st t => say t st) l s) = ex s.
Proof. induction l as [|t l IH]; intro s; cbn [fold_left]; auto. rewrite IH. reflexivity. Qed.

Theorem status_exit url names infos :
  ex (guarded (status_cmd url names) (init [up_ok; RVal (VInfos infos)])) = spec_status_exit infos names.
Proof.
  assert (E : exists s', status_cmd url names (init [up_ok; RVal (VInfos infos)]) = Ok tt s' /\
                         ex s' = spec_status_exit infos names).
  { unfold status_cmd. rewrite (upcheck_ok url _ [RVal (VInfos infos)]) by reflexivity.
    unfold status_body, rpc. cbn [orc tl].
    unfold spec_status_exit, shown_infos, all_form.
    destruct (match names with [] => true | _ :: _ => mem_str "all" names end).
    - eexists. split; [reflexivity|]. cbn [negb andb].
      unfold is_stopped. destruct (existsb _ infos); cbn; [reflexivity|].
      rewrite fold_say_ex. reflexivity.
    - match goal with |- context [status_select infos names ?s1] =>
        destruct (status_select_spec infos names s1) as [A B];
        destruct (status_select infos names s1) as [shown s2] end.
      cbn [fst snd] in *. eexists. split; [reflexivity|]. subst shown. cbn [negb andb].
      unfold is_stopped.
      destruct (existsb (fun i => mem_z (i_state i) STOPPED_STATES) (flat_map (matches_of infos) names));
        cbn; [reflexivity|]. rewrite fold_say_ex, B. reflexivity. }
  destruct E as [s' [E1 E2]]. rewrite (guarded_ok _ _ _ _ E1). exact E2.
Qed.

(* no server: connection refused, socket file missing, wrong API version, namespace not
   registered -> 4 whatever was asked; any other failure of the version check ends in
   the exception net: an error line, status 1 *)
Definition no_server (r : resp) : bool :=
  match r with
  | RSock n _ _ => (n =? ECONNREFUSED) || (n =? ENOENT)
  | RVal (VStr api) => negb (api =s API_VERSION)
  | RFault c _ => c =? F_UNKNOWN_METHOD
  | _ => false
  end.

Theorem status_exit_noserver url names first o :
  no_server first = true ->
  ex (guarded (status_cmd url names) (init (first :: o))) = LSBStatus_UNKNOWN.
Proof.
  intro H. unfold guarded, status_cmd, upcheck, rpc. cbn [orc init tl].
  destruct first as [v|c fs|n cls t|c u m]; cbn [no_server] in H; try discriminate.
  - destruct v; try discriminate. destruct (s =s API_VERSION); try discriminate. reflexivity.
  - rewrite H. reflexivity.
  - destruct (n =? ECONNREFUSED); [reflexivity|]. cbn in H. rewrite H. reflexivity.
Qed.

Theorem status_exit_other_failure url names first o :
  (match first with
   | RSock n _ _ => negb ((n =? ECONNREFUSED) || (n =? ENOENT))
   | RFault c _ => negb (c =? F_UNKNOWN_METHOD)
   | RProto c _ _ => negb (c =? 401)
   | RVal _ => false
   end) = true ->
  let s := guarded (status_cmd url names) (init (first :: o)) in
  ex s = LSBInit_GENERIC /\ exists cls v, out s = [LErr cls v].
Proof.
  intro H. cbv zeta. unfold guarded, status_cmd, upcheck, rpc. cbn [orc init tl].
  destruct first as [v|c fs|n cls t|c u m]; try discriminate.
  - apply negb_true_iff in H. rewrite H. cbn. split; eauto.
  - apply negb_true_iff, orb_false_iff in H as [H1 H2]. rewrite H1, H2. cbn. split; eauto.
  - apply negb_true_iff in H. rewrite H. cbn. split; eauto.
Qed.

(* non-vacuity examples *)
Example status_example :
  let infos := [ Build_pinfo "p" "g" 20 "RUNNING" "" 1; Build_pinfo "q" "g" 100 "EXITED" "" 0;
                 Build_pinfo "a" "a" 20 "RUNNING" "" 2 ] in
  spec_status_exit infos ["g:*"] = 3 /\ spec_status_exit infos ["g:p"; "zz"] = 4 /\
  spec_status_exit infos ["a"; "g:p"] = 0 /\ spec_status_exit infos ["zz"; "g:q"] = 3 /\
  spec_status_exit infos [] = 3.
Proof. vm_compute. repeat split; reflexivity. Qed.


(* ------------------------------------------------ add / remove / shutdown / reload *)
(* add: an already active group counts as success; remove, reload: nothing does *)
Definition simple_success (idem : option Z) (x : answer) : bool :=
  match x with
  | AnsOk | AnsResults _ => true
  | AnsFault c _ => opt_is idem c
  | _ => false
  end.

Lemma add_names_exit names : forall answers rest s,
  List.length names = List.length answers ->
  orc s = (map resp_of answers ++ rest)%list ->
  match add_names names s with
  | Ok _ s' => (ex s' = 0 <-> ex s = 0 /\ forallb (simple_success (Some F_ALREADY_ADDED)) answers = true)
  | Exn _ s' => forallb (simple_success (Some F_ALREADY_ADDED)) answers = false
  end.
Proof.
  induction names as [|n ns IH]; intros [|x xs] rest s L Ho; try discriminate;
    cbn [add_names forallb].
  - tauto.
  - assert (L' : List.length ns = List.length xs) by (inversion L; auto).
    cbn in Ho. unfold rpc. rewrite Ho.
    destruct x; cbn [resp_of tl simple_success opt_is]; auto.
    + match goal with |- context [add_names ns ?s1] =>
        specialize (IH xs rest s1 L' eq_refl); destruct (add_names ns s1) end; cbn in IH |- *; auto.
    + destruct (c =? F_SHUTDOWN_STATE) eqn:E1.
      { apply Z.eqb_eq in E1. subst c. change (F_SHUTDOWN_STATE =? F_ALREADY_ADDED) with false. cbn [andb].
        match goal with |- context [add_names ns ?s1] =>
          specialize (IH xs rest s1 L' eq_refl); destruct (add_names ns s1) end; auto.
        split; [intro X; apply IH in X; destruct X as [X _]; cbn in X; discriminate
               | intros [_ X]; discriminate]. }
      destruct (c =? F_ALREADY_ADDED) eqn:E2.
      { cbn [andb].
        match goal with |- context [add_names ns ?s1] =>
          specialize (IH xs rest s1 L' eq_refl); destruct (add_names ns s1) end; cbn in IH |- *; auto. }
      cbn [andb]. destruct (c =? F_BAD_NAME) eqn:E3; auto.
      match goal with |- context [add_names ns ?s1] =>
        specialize (IH xs rest s1 L' eq_refl); destruct (add_names ns s1) end; auto.
      split; [intro X; apply IH in X; destruct X as [X _]; cbn in X; discriminate
             | intros [_ X]; discriminate].
    + match goal with |- context [add_names ns ?s1] =>
        specialize (IH xs rest s1 L' eq_refl); destruct (add_names ns s1) end; cbn in IH |- *; auto.
Qed.

Lemma add_names_mono names : forall s, mono s (state_of (add_names names s)).
Proof.
  induction names as [|n ns IH]; intro s; cbn [add_names state_of]; [apply mono_refl|].
  unfold rpc. destruct (orc s) as [|[v|k fs|k cls t|k u m] o]; cbn [state_of]; try solve [mono_now];
    try (eapply mono_trans; [|apply IH]; mono_now).
  destruct (k =? F_SHUTDOWN_STATE); [|destruct (k =? F_ALREADY_ADDED); [|destruct (k =? F_BAD_NAME)]];
    cbn [state_of]; try solve [mono_now]; (eapply mono_trans; [|apply IH]; mono_now).
Qed.

Theorem add_exit_zero_iff names answers :
  List.length names = List.length answers ->
  (ex (guarded (add_names names) (init (map resp_of answers))) = 0
   <-> forallb (simple_success (Some F_ALREADY_ADDED)) answers = true).
Proof.
  intro L.
  assert (Ho : orc (init (map resp_of answers)) = (map resp_of answers ++ [])%list)
    by (rewrite app_nil_r; reflexivity).
  pose proof (add_names_exit names answers [] _ L Ho) as A.
  destruct (add_names names (init (map resp_of answers))) as [u s'|x s'] eqn:E.
  - rewrite (guarded_ok _ _ _ _ E). rewrite A. cbn. split; [tauto|]. intro X; split; auto.
  - rewrite A. split; [|discriminate]. intro X. exfalso.
    refine (guarded_exn_nz _ _ _ _ _ E X). apply add_names_mono.
Qed.

(* shutdown: a daemon that is already shutting down counts as success; every other
   fault and every transport error gives a non-zero status *)
Theorem shutdown_exit_zero_iff e x :
  (ex (guarded (do_shutdown e "") (init [resp_of x])) = 0
   <-> simple_success (Some F_SHUTDOWN_STATE) x = true).
Proof.
  unfold guarded, do_shutdown, no_args, rpc. cbn [String.eqb orc init tl].
  destruct x; cbn [resp_of simple_success opt_is].
  - cbn. tauto.
  - destruct (c =? F_SHUTDOWN_STATE); cbn; split; auto; discriminate.
  - cbn. tauto.
  - destruct (n =? ECONNREFUSED); [|destruct (n =? ENOENT)]; cbn; split; discriminate.
  - destruct (c =? 401); cbn; split; discriminate.
Qed.

(* ------------------------------------------------------ non-vacuity examples *)
Example exit_zero_example :
  ex (run_targets Start "" "u" ["a"; "g:*"; "b"]
        [AnsFault F_ALREADY_STARTED "x"; AnsResults [Build_presult "p" "g" F_SUCCESS "OK"]; AnsOk]) = 0 /\
  ex (run_targets Stop "" "u" ["a"; "b"] [AnsFault F_NOT_RUNNING "x"; AnsFault F_BAD_NAME "y"]) = 1 /\
  ex (run_targets Start "" "u" ["a"] [AnsFault F_SPAWN_ERROR "x"]) = 7.
Proof. vm_compute. auto. Qed.

Example one_line_example :
  let names := ["a"; "g:*"; "h:q"] in
  let answers := [AnsFault F_SPAWN_ERROR "x";
                  AnsResults [Build_presult "p" "g" F_SUCCESS "OK"; Build_presult "q" "g" F_ALREADY_STARTED "d"];
                  AnsOk] in
  all_answered Start names answers = true /\
  rev (out (run_targets Start "" "u" names answers)) =
    [LText "a: ERROR (spawn error)"; LText "g:p: started"; LText "g:q: ERROR (already started)";
     LText "h:q: started"] /\
  total_targets Start names answers = 4%nat.
Proof. vm_compute. auto. Qed.

Example group_fault_example :
  let s := run_targets Start "" "u" ["g:*"; "b"] [AnsFault F_SHUTDOWN_STATE "SHUTDOWN_STATE"; AnsOk] in
  rev (out s) = [LText "g: ERROR (SHUTDOWN_STATE)"; LText "b: started"] /\ ex s = 1 /\
  all_answered Start ["g:*"; "b"] [AnsFault F_SHUTDOWN_STATE "SHUTDOWN_STATE"; AnsOk] = true.
Proof. vm_compute. auto. Qed.

Example never_silent_example :
  let s := run_targets Signal "HUP" "u" ["a"; "b"] [AnsSock 104 "ConnectionResetError" "reset"; AnsOk] in
  all_success Signal ["a"; "b"] [AnsSock 104 "ConnectionResetError" "reset"; AnsOk] = false /\
  ex s = 1 /\ out s = [LErr "ConnectionResetError" "[Errno 104] reset"].
Proof. vm_compute. auto. Qed.

Example auth_example :
  let s := guarded (targets_cmd Signal "HUP" "u" ["a"; "b"])
                   (init [up_ok; RVal VUnit; RProto 401 "h" "Unauthorized"; RVal VUnit]) in
  ex s = 1 /\ rev (out s) = [LText "a: signalled"; LText "Server requires authentication"] /\
  rev (calls s) = [("getVersion", []); ("signalProcess", [AS "a"; AS "HUP"]); ("signalProcess", [AS "b"; AS "HUP"])].
Proof. vm_compute. auto. Qed.

(* ----------------------------------------- no usable server, for every action *)
(* Every action that starts with the version check (start stop restart signal clear status
   pid tail maintail version fg): when the server is unreachable (connection refused, socket
   file missing), speaks another API version or does not know the namespace, a message is
   printed, the status is non-zero and nothing else is sent. *)
Theorem unreachable_nonzero url k first o :
  no_server first = true ->
  let s := guarded (with_upcheck url k) (init (first :: o)) in
  ex s <> 0 /\ (exists t, out s = [LText t]) /\ calls s = [("getVersion", [])].
Proof.
  intro H. cbv zeta. unfold guarded, with_upcheck, upcheck, rpc. cbn [orc init tl].
  destruct first as [v|c fs|n cls t|c u m]; cbn [no_server] in H; try discriminate.
  - destruct v; try discriminate. destruct (s =s API_VERSION); try discriminate.
    cbn. repeat split; eauto. vm_compute; discriminate.
  - rewrite H. cbn. repeat split; eauto. vm_compute; discriminate.
  - destruct (n =? ECONNREFUSED).
    + cbn. repeat split; eauto. vm_compute; discriminate.
    + cbn in H. rewrite H. cbn. repeat split; eauto. vm_compute; discriminate.
Qed.

(* add / remove / pid <name> still end the whole command when the server answers a name
   with a fault they have no wording for: known finding C20-names-fault-aborts *)
Example names_fault_aborts :
  let s := guarded (remove_names ["a"; "b"]) (init [RFault F_SHUTDOWN_STATE "SHUTDOWN_STATE"; RVal VUnit]) in
  out s = [LErr "xmlrpc.client.Fault" "<Fault 6: 'SHUTDOWN_STATE'>"] /\ ex s = 1 /\
  calls s = [("removeProcessGroup", [AS "a"])].
Proof. vm_compute. auto. Qed.

(* ------------------------------------------------------------------ plugins *)
(* extra ctlplugins never change a built-in action, and a command two plugins define
   resolves to the first of them *)
Theorem builtin_actions_survive_plugins e extra cmd f :
  action_of e cmd = Some f -> get_do_func e extra cmd = Some f.
Proof. intro H. unfold get_do_func. cbn [first_plugin]. rewrite H. reflexivity. Qed.

Theorem first_plugin_wins {A} (p q : string -> option A) rest cmd f :
  p cmd = Some f -> first_plugin (p :: q :: rest) cmd = Some f.
Proof. intro H. cbn [first_plugin]. rewrite H. reflexivity. Qed.
