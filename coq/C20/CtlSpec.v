(* C20: the specification, written against observables only (what the server
   answered for each target, what was printed, the exit status).  Hand-written
   and independent of supervisorctl.py's tables: the wording each fault must
   get and the success class of each action are stated here; CtlProofs.v shows
   the tables generated from the source agree with them. *)
From Coq Require Import ZArith List Bool String Ascii Lia.
Import ListNotations.
Require Import SV.C20.Gen_ctl SV.C20.Ctl.
Open Scope string_scope.
Open Scope Z_scope.

Inductive action := Start | Stop | Signal | Clear.

(* how each per-process result / fault of an action is to be worded *)
Definition spec_wording (a : action) : list (Z * wording) :=
  match a with
  | Start => [ (F_BAD_NAME, WErr "no such process"); (F_NO_FILE, WErr "no such file");
               (F_NOT_EXECUTABLE, WErr "file is not executable");
               (F_ALREADY_STARTED, WErr "already started"); (F_SPAWN_ERROR, WErr "spawn error");
               (F_ABNORMAL_TERMINATION, WErr "abnormal termination"); (F_SUCCESS, WOk "started") ]
  | Stop => [ (F_BAD_NAME, WErr "no such process"); (F_BAD_SIGNAL, WErr "bad signal name");
              (F_NOT_RUNNING, WErr "not running"); (F_SUCCESS, WOk "stopped");
              (F_FAILED, WFaultString) ]
  | Signal => [ (F_BAD_NAME, WErr "no such process"); (F_BAD_SIGNAL, WErr "bad signal name");
                (F_NOT_RUNNING, WErr "not running"); (F_SUCCESS, WOk "signalled");
                (F_FAILED, WFaultString) ]
  | Clear => [ (F_BAD_NAME, WErr "no such process"); (F_FAILED, WErr "failed");
               (F_SUCCESS, WOk "cleared") ]
  end.

(* the word printed after a successful single call *)
Definition ok_word (a : action) : string :=
  match a with Start => "started" | Stop => "stopped" | Signal => "signalled" | Clear => "cleared" end.

(* answers that count as success for the exit status *)
Definition success_class (a : action) : list Z :=
  match a with
  | Start => [F_SUCCESS; F_ALREADY_STARTED]
  | Stop => [F_SUCCESS; F_NOT_RUNNING]
  | Signal => [F_SUCCESS]
  | Clear => [F_SUCCESS]
  end.
Definition in_success (a : action) (c : Z) : bool := mem_z c (success_class a).

(* start/stop/signal address a whole group with `group:*` (or `group:`); clear
   passes every name to clearProcessLogs *)
Definition has_group_form (a : action) : bool := match a with Clear => false | _ => true end.
Definition is_group_target (a : action) (n : string) : bool :=
  has_group_form a && is_none (snd (split_namespec n)).
Definition target_name (n : string) : string :=
  make_namespec_o (fst (split_namespec n)) (snd (split_namespec n)).

(* what the server answered for one target of the command *)
Inductive answer :=
| AnsOk                                  (* the call returned *)
| AnsFault (c : Z) (fs : string)         (* xmlrpclib.Fault *)
| AnsResults (rs : list presult)         (* a per-process result list *)
| AnsSock (n : Z) (cls text : string)    (* socket.error *)
| AnsProto (c : Z) (url msg : string).   (* ProtocolError *)

Definition resp_of (x : answer) : resp :=
  match x with
  | AnsOk => RVal VUnit
  | AnsFault c fs => RFault c fs
  | AnsResults rs => RVal (VResults rs)
  | AnsSock n c t => RSock n c t
  | AnsProto c u m => RProto c u m
  end.

Definition ans_success (a : action) (n : string) (x : answer) : bool :=
  if is_group_target a n then
    match x with
    | AnsResults rs => forallb (fun r => in_success a (r_status r)) rs
    | _ => false           (* any fault of the group call, a transport error, a non-list *)
    end
  else
    match x with
    | AnsOk | AnsResults _ => true
    | AnsFault c _ => in_success a c
    | _ => false
    end.

Fixpoint all_success (a : action) (names : list string) (answers : list answer) : bool :=
  match names, answers with
  | [], [] => true
  | n :: ns, x :: xs => ans_success a n x && all_success a ns xs
  | _, _ => false
  end.

Definition has_key (c : Z) (t : list (Z * wording)) : bool :=
  match lookup c t with Some _ => true | None => false end.

(* the server answered for this target: a value, a fault (any code, of the
   single-process call or of the group call) or a per-process result list (any
   statuses).  Not answered: a transport error - socket.error or ProtocolError -
   after which the command ends (exception net / authentication notice). *)
Definition answered (a : action) (n : string) (x : answer) : bool :=
  if is_group_target a n then
    match x with
    | AnsFault _ _ | AnsResults _ => true
    | _ => false
    end
  else
    match x with
    | AnsOk | AnsResults _ | AnsFault _ _ => true
    | _ => false
    end.

Fixpoint all_answered (a : action) (names : list string) (answers : list answer) : bool :=
  match names, answers with
  | [], [] => true
  | n :: ns, x :: xs => answered a n x && all_answered a ns xs
  | _, _ => false
  end.

(* the result line for (target, code, description): the prescribed wording, and for
   every code without one an ERROR line naming the target, the code and the
   server's text *)
Definition spec_line (a : action) (name : string) (c : Z) (desc : string) : string :=
  match lookup c (spec_wording a) with
  | Some (WErr w) => name ++ ": ERROR (" ++ w ++ ")"
  | Some (WOk w) => name ++ ": " ++ w
  | Some WFaultString => desc
  | _ => name ++ ": ERROR (unexpected result code " ++ dec c ++ ": " ++ desc ++ ")"
  end.

(* the result lines one target must produce: one per targeted process *)
Definition expected_lines (a : action) (n : string) (x : answer) : list string :=
  if is_group_target a n then
    match x with
    | AnsFault c fs =>
      [fst (split_namespec n) ++
       (if c =? F_BAD_NAME then ": ERROR (no such group)" else ": ERROR (" ++ fs ++ ")")]
    | AnsResults rs =>
      map (fun r => spec_line a (make_namespec (r_group r) (r_name r)) (r_status r) (r_desc r)) rs
    | _ => []
    end
  else
    match x with
    | AnsFault c fs => [spec_line a (target_name n) c fs]
    | _ => [target_name n ++ ": " ++ ok_word a]
    end.

(* the XML-RPC call each name must lead to (method names of the supervisor namespace) *)
Definition spec_method (a : action) (kind : Z) : string :=   (* 0 single, 1 group, 2 all *)
  match a, kind with
  | Start, 0 => "startProcess" | Start, 1 => "startProcessGroup" | Start, _ => "startAllProcesses"
  | Stop, 0 => "stopProcess" | Stop, 1 => "stopProcessGroup" | Stop, _ => "stopAllProcesses"
  | Signal, 0 => "signalProcess" | Signal, 1 => "signalProcessGroup" | Signal, _ => "signalAllProcesses"
  | Clear, 0 => "clearProcessLogs" | Clear, 1 => "" | Clear, _ => "clearAllProcessLogs"
  end.
Definition spec_extra (a : action) (sig : string) : list arg :=
  match a with Signal => [AS sig] | _ => [] end.
Definition spec_call (a : action) (sig n : string) : call :=
  if is_group_target a n
  then (spec_method a 1, AS (fst (split_namespec n)) :: spec_extra a sig)
  else (spec_method a 0, AS n :: spec_extra a sig).
Definition spec_calls (a : action) (sig : string) (names : list string) : list call :=
  ("getVersion", []) :: map (spec_call a sig) names.

(* how many processes (or unknown groups) the answer speaks about *)
Definition target_count (a : action) (n : string) (x : answer) : nat :=
  if is_group_target a n then
    match x with AnsResults rs => List.length rs | _ => 1%nat end
  else 1%nat.

Fixpoint all_expected (a : action) (names : list string) (answers : list answer) : list string :=
  match names, answers with
  | n :: ns, x :: xs => (expected_lines a n x ++ all_expected a ns xs)%list
  | _, _ => []
  end.
Fixpoint total_targets (a : action) (names : list string) (answers : list answer) : nat :=
  match names, answers with
  | n :: ns, x :: xs => (target_count a n x + total_targets a ns xs)%nat
  | _, _ => O
  end.

(* "contains": substring test used to recognise an error line *)
Fixpoint contains (p s : string) : bool :=
  prefix p s || match s with "" => false | String _ r => contains p r end.

Definition fault_strings (answers : list answer) : list string :=
  flat_map (fun x => match x with
                     | AnsFault _ fs => [fs]
                     | AnsResults rs => map r_desc rs
                     | _ => []
                     end) answers.

(* an error line: the exception net's line, a line carrying ERROR/error, the
   authentication notice, or the server's own fault wording printed verbatim *)
Definition is_error_line (fws : list string) (l : line) : bool :=
  match l with
  | LErr _ _ => true
  | LText t => contains "ERROR" t || contains "error" t || contains "requires authentication" t ||
               mem_str t fws
  | _ => false
  end.

(* ------------------------------------------------------------------ monitor *)
(* Judges an observed run (printed lines, exit status) of `<action> names` in
   which the server passed the version check and then gave `answers`, one per
   name in order (later answers are unused if the command stopped early). *)
Definition text_lines (ls : list line) : option (list string) :=
  fold_right (fun l acc => match l, acc with LText t, Some r => Some (t :: r) | _, _ => None end)
             (Some []) ls.

Definition str_list_eqb (a b : list string) : bool := list_eqb' String.eqb a b.

Definition mon_exit (a : action) (names : list string) (answers : list answer) (status : Z) : bool :=
  Bool.eqb (status =? 0) (all_success a names answers).

Definition mon_lines (a : action) (names : list string) (answers : list answer) (ls : list line) : bool :=
  match text_lines ls with
  | Some ts => str_list_eqb ts (all_expected a names answers)
  | None => false
  end.

Definition mon_never_silent (a : action) (names : list string) (answers : list answer)
           (ls : list line) (status : Z) : bool :=
  all_success a names answers ||
  (negb (status =? 0) && existsb (is_error_line (fault_strings answers)) ls).

(* the exit status after a single process target answered with fault c: LSB "program is
   not running" (7) for spawn error / abnormal termination / not running, else 1 *)
Definition spec_dead_faults : list Z := [F_SPAWN_ERROR; F_ABNORMAL_TERMINATION; F_NOT_RUNNING].
Definition spec_fault_exit (a : action) (c : Z) : Z :=
  if in_success a c then 0 else if mem_z c spec_dead_faults then 7 else 1.
Definition mon_exit_value (a : action) (names : list string) (answers : list answer) (status : Z) : bool :=
  match names, answers with
  | [n], [AnsFault c _] =>
    if negb (is_group_target a n) then status =? spec_fault_exit a c else true
  | _, _ => true
  end.

Definition mon_case := (action * list string * list answer * list line * Z * string * list call)%type.
Definition mkmon (a : action) (n : list string) (x : list answer) (l : list line) (z : Z)
           (sig : string) (cs : list call) : mon_case := (a, n, x, l, z, sig, cs).

(* 0 = accepted; 1 = exit status wrong; 5 = wrong non-zero status for a single target;
   2 = silent failure; 3 = lines wrong although the server answered for every target;
   6 = the calls made are not one per name as the namespec rules select *)
Definition monitor_verdict (c : mon_case) : Z :=
  let '(a, names, answers, ls, status, sig, cs) := c in
  if negb (mon_exit a names answers status) then 1
  else if negb (mon_exit_value a names answers status) then 5
  else if negb (mon_never_silent a names answers ls status) then 2
  else if all_answered a names answers then
    (if negb (mon_lines a names answers ls) then 3
     else if negb (list_eqb' call_eqb cs (spec_calls a sig names)) then 6 else 0)
  else 0.

Definition monitor_ok (c : mon_case) : bool :=
  monitor_verdict c =? 0.

(* restart names = stop names, then start names (each after its own version check):
   judged with the stop answers and the start answers *)
Definition restart_mon_case :=
  (list string * list answer * list answer * list line * Z * list call)%type.
Definition mkrestart (n : list string) (x y : list answer) (l : list line) (z : Z) (c : list call)
  : restart_mon_case := (n, x, y, l, z, c).
Definition restart_monitor_ok (c : restart_mon_case) : bool :=
  let '(names, xs, ys, ls, status, cs) := c in
  if all_answered Stop names xs && all_answered Start names ys then
    Bool.eqb (status =? 0) (all_success Stop names xs && all_success Start names ys) &&
    match text_lines ls with
    | Some ts => str_list_eqb ts (all_expected Stop names xs ++ all_expected Start names ys)%list
    | None => false
    end &&
    list_eqb' call_eqb cs
      (("getVersion", []) :: spec_calls Stop "" names ++ spec_calls Start "" names)%list
  else true.

(* ------------------------------------------------------------------- status *)
(* specification of `status names` against the process table the server returned *)
Definition matches_of (infos : list pinfo) (n : string) : list pinfo :=
  filter (info_matches (fst (split_namespec n)) (snd (split_namespec n))) infos.
Definition all_form (names : list string) : bool :=
  match names with [] => true | _ => mem_str "all" names end.
Definition shown_infos (infos : list pinfo) (names : list string) : list pinfo :=
  if all_form names then infos else flat_map (matches_of infos) names.
Definition unknown_name (infos : list pinfo) (n : string) : bool :=
  match matches_of infos n with [] => true | _ => false end.
Definition is_stopped (i : pinfo) : bool := mem_z (i_state i) STOPPED_STATES.
(* 3 when any shown process is in a stopped state; otherwise 4 when a name matched
   nothing; otherwise 0 *)
Definition spec_status_exit (infos : list pinfo) (names : list string) : Z :=
  if existsb is_stopped (shown_infos infos names) then LSBStatus_NOT_RUNNING
  else if negb (all_form names) && existsb (unknown_name infos) names then LSBStatus_UNKNOWN
  else 0.


(* observed: `status names` after a passed version check and the process table `infos` *)
Definition status_mon_case := (list string * list pinfo * Z)%type.
Definition mkstat (n : list string) (i : list pinfo) (z : Z) : status_mon_case := (n, i, z).
Definition status_monitor_ok (c : status_mon_case) : bool :=
  let '(names, infos, status) := c in status =? spec_status_exit infos names.

(* the lines of `status names`: first one ERROR line per name that matched nothing, naming it,
   then one line per shown process, in order, starting with its namespec and carrying the
   state name and description the server gave for THAT process *)
Definition unknown_line_ok (n : string) (t : string) : bool :=
  prefix (fst (split_namespec n)) t && contains "ERROR (no such" t.
Definition info_line_ok (i : pinfo) (t : string) : bool :=
  prefix (make_namespec (i_group i) (i_name i) ++ " ") t && contains (i_statename i) t && contains (i_desc i) t.
Fixpoint zip_ok {A} (f : A -> string -> bool) (l : list A) (ts : list string) : bool :=
  match l, ts with
  | [], [] => true
  | x :: l', t :: ts' => f x t && zip_ok f l' ts'
  | _, _ => false
  end.
Definition status_lines_case := (list string * list pinfo * list line)%type.
Definition mkstatl (n : list string) (i : list pinfo) (l : list line) : status_lines_case := (n, i, l).
Definition status_lines_ok (c : status_lines_case) : bool :=
  let '(names, infos, ls) := c in
  match text_lines ls with
  | None => false
  | Some ts =>
    let unknown := if all_form names then [] else filter (unknown_name infos) names in
    let k := List.length unknown in
    zip_ok unknown_line_ok unknown (firstn k ts) && zip_ok info_line_ok (shown_infos infos names) (skipn k ts)
  end.

(* --------------------------------------------------------------- tail / maintail *)
(* `tail [-N|-f] name [stdout|stderr]` and `maintail [-N|-f]`, given by their meaning
   (what to read, how many bytes: None = follow, Some n = the last n bytes, n = 0 the
   whole log) rather than by the command line, against the answer x to the read call *)
Inductive tail_what := TailProc (name : string) (stderr : bool) | TailMain.

Definition tail_call (w : tail_what) (n : Z) : call :=
  match w with
  | TailProc name se => (if se then "readProcessStderrLog" else "readProcessStdoutLog", [AS name; AZ (- n); AZ 0])
  | TailMain => ("readLog", [AZ (- n); AZ 0])
  end.
Definition tail_path (w : tail_what) : string :=
  match w with
  | TailProc name se => "/logtail/" ++ name ++ "/" ++ (if se then "stderr" else "stdout")
  | TailMain => "/mainlogtail"
  end.
Definition tail_fault_line (w : tail_what) (c : Z) : option string :=
  let nm := match w with TailProc name _ => name | TailMain => "supervisord" end in
  if c =? F_NO_FILE then Some (nm ++ ": ERROR (no log file)")
  else if c =? F_FAILED then Some (nm ++ ": ERROR (unknown error reading log)")
  else match w with
       | TailProc _ _ => if c =? F_BAD_NAME then Some (nm ++ ": ERROR (no such process name)") else None
       | TailMain => None
       end.

Definition spec_tail (w : tail_what) (nbytes : option Z) (x : resp) : list line * Z * list call :=
  let gv : call := ("getVersion", []) in
  match nbytes with
  | None => ([LText "==> Press Ctrl-C to exit <=="], 0, [gv; ("_http_get", [AS (tail_path w)])])
  | Some n =>
    let cl := [gv; tail_call w n] in
    match x with
    | RVal (VStr o) => ([LText o], 0, cl)
    | RVal _ => ([], 0, cl)
    | RFault c fs =>
      match tail_fault_line w c with
      | Some t => ([LText t], 1, cl)
      | None => ([LErr "xmlrpc.client.Fault" (exn_str (XFault c fs))], 1, cl)
      end
    | RSock e cls tx => ([LErr cls (exn_str (XSock e cls tx))], 1, cl)
    | RProto c u m =>
      if c =? 401 then ([LText "Server requires authentication"], 1, cl)
      else ([LErr "xmlrpc.client.ProtocolError" (exn_str (XProto c u m))], 1, cl)
    end
  end.

Definition tail_mon_case := (tail_what * option Z * resp * list line * Z * list call)%type.
Definition mktail (w : tail_what) (n : option Z) (x : resp) (l : list line) (z : Z) (c : list call) : tail_mon_case :=
  (w, n, x, l, z, c).
Definition tail_monitor_ok (c : tail_mon_case) : bool :=
  let '(w, n, x, ls, status, cs) := c in
  let '(el, es, ec) := spec_tail w n x in
  list_eqb' line_eqb el ls && (es =? status) && list_eqb' call_eqb ec cs.
