(* C16, streaming part 1: model of supervisor.http.tail_f_producer
   (supervisor/http.py:640-692) over a history of file-system states.

   A file-system state says which inode the log's path names right now (None:
   the path does not exist) and what every inode contains.  An unlinked file
   that the producer still holds open keeps its inode and content (and may
   still grow), exactly as on POSIX; the kernel never gives the number of an
   inode that is still open to a new file.

   The producer is polled (`more`) once per state of the history.  Within one
   call the file does not change: supervisord writes its logs from the same
   thread that runs the HTTP channel. *)
From Coq Require Import ZArith List Bool Lia.
Import ListNotations.
Open Scope Z_scope.

Definition bytes := list Z.
Definition zlen (c : bytes) : Z := Z.of_nat (length c).

Record fsstate := { path_ino : option Z; content : Z -> bytes }.

(* tail_f_producer: self.ino, self.sz (self.file is the open file of inode ino) *)
Record prod := { ino : Z; sz : Z }.

Inductive out :=
| Data (b : bytes)        (* bytes returned by more() *)
| Notice                  (* "==> File truncated <==\n" *)
| NotDone.                (* NOT_DONE_YET *)

(* "==> File truncated <==" LF *)
Definition notice_text : bytes :=
  [61; 61; 62; 32; 70; 105; 108; 101; 32; 116; 114; 117; 110; 99; 97; 116; 101; 100; 32; 60; 61; 61; 10].

(* __init__: _open (sz := 0), sz = _fsize(); if sz >= head: self.sz = sz - head *)
Definition init (i : Z) (c : bytes) (head : Z) : prod :=
  let s := zlen c in
  {| ino := i; sz := if s >=? head then s - head else 0 |}.

(* _follow: stat the path; a different inode -> _close, _open (sz := 0) *)
Definition follow (fs : fsstate) (p : prod) : prod :=
  match path_ino fs with
  | None => p                                   (* file was unlinked: keep the open one *)
  | Some i => if i =? ino p then p else {| ino := i; sz := 0 |}
  end.

(* self.file.seek(-n, 2); self.file.read(n) for 0 < n <= size *)
Definition read_last (c : bytes) (n : Z) : bytes :=
  let start := Z.to_nat (Z.min (Z.max 0 (zlen c - n)) (zlen c)) in
  firstn (Z.to_nat (Z.min n (zlen c))) (skipn start c).

(* more() *)
Definition more (fs : fsstate) (p : prod) : prod * out :=
  let p := follow fs p in
  let newsz := zlen (content fs (ino p)) in
  let bytes_added := newsz - sz p in
  if bytes_added <? 0 then ({| ino := ino p; sz := 0 |}, Notice)
  else if bytes_added >? 0 then
    ({| ino := ino p; sz := newsz |}, Data (read_last (content fs (ino p)) bytes_added))
  else (p, NotDone).

(* polling through a history *)
Fixpoint run (h : list fsstate) (p : prod) : list out :=
  match h with
  | [] => []
  | fs :: h' => let '(p', o) := more fs p in o :: run h' p'
  end.

Fixpoint final (h : list fsstate) (p : prod) : prod :=
  match h with
  | [] => p
  | fs :: h' => final h' (fst (more fs p))
  end.

(* the bytes that reach the wire (the chunked producer applies as_bytes to the notice) *)
Definition wire (o : out) : bytes :=
  match o with Data b => b | Notice => notice_text | NotDone => [] end.

Definition delivered (os : list out) : bytes := concat (map wire os).

(* ---------------------------------------------- correspondence interface *)
Fixpoint lookup (tbl : list (Z * bytes)) (i : Z) : bytes :=
  match tbl with
  | [] => []
  | (j, c) :: r => if j =? i then c else lookup r i
  end.

Definition mkfs (p : option Z) (tbl : list (Z * bytes)) : fsstate :=
  {| path_ino := p; content := lookup tbl |}.

Fixpoint bytes_eqb (a b : bytes) : bool :=
  match a, b with
  | [], [] => true
  | x :: a', y :: b' => (x =? y) && bytes_eqb a' b'
  | _, _ => false
  end.

Definition out_eqb (a b : out) : bool :=
  match a, b with
  | Data x, Data y => bytes_eqb x y
  | Notice, Notice => true
  | NotDone, NotDone => true
  | _, _ => false
  end.

Fixpoint outs_eqb (a b : list out) : bool :=
  match a, b with
  | [], [] => true
  | x :: a', y :: b' => out_eqb x y && outs_eqb a' b'
  | _, _ => false
  end.

(* (initial inode, initial content table, head, history as (path inode, table), observed outputs) *)
Definition tail_case : Type :=
  Z * list (Z * bytes) * Z * list (option Z * list (Z * bytes)) * list out.

Definition check_tail_case (c : tail_case) : bool :=
  let '(i0, tbl0, head, hist, observed) := c in
  let p0 := init i0 (lookup tbl0 i0) head in
  outs_eqb (run (map (fun st => mkfs (fst st) (snd st)) hist) p0) observed.
