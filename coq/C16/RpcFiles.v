(* C16: which answer the log RPCs give for a channel WITHOUT a readable log -
   supervisor/rpcinterface.py readLog (108-125), clearLog (131-152),
   _readProcessLog (702-718), _tailProcessLog (742-752) - over an explicit
   file-system oracle: the configured log name (None = no log configured:
   stdout_logfile=NONE, or stderr with redirect_stderr) and what that name is
   on disk. *)
From Coq Require Import ZArith List Bool.
Import ListNotations.
Require Import SV.C16.LogRead.
Open Scope Z_scope.

Inductive node := Absent | Dir | File (c : bytes).

Definition fsys := Z -> node.            (* file names are numbers *)

(* readLog / readProcessStdoutLog / readProcessStderrLog:
   `logfile is None or not os.path.exists(logfile)` -> NO_FILE; a directory
   exists, open() fails with OSError -> readFile raises ValueError('FAILED') *)
Definition rpc_read_fs (fs : fsys) (cfg : option Z) (offset length : Z) : rpc_read :=
  match cfg with
  | None => RFault NO_FILE
  | Some n =>
    match fs n with
    | Absent => RFault NO_FILE
    | Dir => RFault FAILED
    | File c => rpc_read_log (Some c) offset length
    end
  end.

(* tailProcessStdoutLog / tailProcessStderrLog: no log -> ['', 0, False]; a
   directory: tailFile catches the OSError and answers ['', offset, False] *)
Definition rpc_tail_fs (fs : fsys) (cfg : option Z) (offset length : Z) : rpc_tail :=
  match cfg with
  | None => TValue [] 0 false
  | Some n =>
    match fs n with
    | Absent => TValue [] 0 false
    | Dir => TValue [] offset false
    | File c => rpc_tail_log (Some c) offset length
    end
  end.

(* clearLog: NO_FILE / FAILED (remove raises) / True and the file is gone *)
Inductive rpc_clear := CTrue | CFault (f : fault).

Definition rpc_clear_main (fs : fsys) (cfg : option Z) : rpc_clear :=
  match cfg with
  | None => CFault NO_FILE
  | Some n =>
    match fs n with
    | Absent => CFault NO_FILE
    | Dir => CFault FAILED
    | File _ => CTrue
    end
  end.

(* ---------------------------------------------- correspondence interface *)
Definition node_of (k : Z) (c : bytes) : node :=
  if k =? 0 then Absent else if k =? 1 then Dir else File c.

(* (configured?, node kind 0/1/2, content, offset, length, observed) *)
Definition check_rpc_read_fs (cs : bool * Z * bytes * Z * Z * rpc_read) : bool :=
  let '(cfg, k, c, off, len, r) := cs in
  rpc_read_eqb (rpc_read_fs (fun _ => node_of k c) (if cfg then Some 1 else None) off len) r.

Definition check_rpc_tail_fs (cs : bool * Z * bytes * Z * Z * rpc_tail) : bool :=
  let '(cfg, k, c, off, len, r) := cs in
  rpc_tail_eqb (rpc_tail_fs (fun _ => node_of k c) (if cfg then Some 1 else None) off len) r.

Definition rpc_clear_eqb (a b : rpc_clear) : bool :=
  match a, b with
  | CTrue, CTrue => true
  | CFault f, CFault g => fault_eqb f g
  | _, _ => false
  end.

Definition check_rpc_clear (cs : bool * Z * rpc_clear) : bool :=
  let '(cfg, k, r) := cs in
  rpc_clear_eqb (rpc_clear_main (fun _ => node_of k []) (if cfg then Some 1 else None)) r.
