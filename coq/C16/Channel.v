(* C16, streaming part 3: the output side of deferring_http_channel for a tail
   response - async_chat.initiate_send / deferring_http_channel.refill_buffer
   (supervisor/medusa/asynchat_25.py:206-222, supervisor/http.py:359-389) with a
   socket that accepts an arbitrary number of bytes per send().

   State: the producer fifo holds the one chain built by done() for HTTP/1.1
   (hooked -> composite [header simple_producer, chunked (composite [tail_f])]);
   it is represented by the header bytes not yet handed over and the tail
   producer's state.  `c_out` is ac_out_buffer, `c_wire` what the socket has
   accepted so far.  `c_polled`/`c_pollfs` are ghost fields: the answers of the
   tail producer so far and the file-system states it saw.

   Operations of a schedule:
     OFs fs    the file system changes (log appended, rotated, ...)
     OPass k   one write event (handle_write -> initiate_send) during which the
               socket accepts at most k bytes (0 = EWOULDBLOCK) *)
From Coq Require Import ZArith List Bool Lia.
Import ListNotations.
Require Import SV.C16.TailF SV.C16.Chunked.
Open Scope Z_scope.

Record chan := {
  c_fs : fsstate;
  c_p : prod;
  c_hdr : bytes;
  c_out : bytes;
  c_wire : bytes;
  c_polled : list out;
  c_pollfs : list fsstate
}.

Inductive cop := OFs (fs : fsstate) | OPass (k : Z).

(* producers.simple_producer(header): buffer_size 1024 *)
Definition hdr_piece : Z := 1024.

(* refill_buffer: one more() of the chain.  While header bytes remain, that
   is the next piece of the header; afterwards the exhausted header producer is
   popped inside the composite and the chunked tail producer is polled:
   NOT_DONE_YET adds nothing (the channel sets its delay), data is APPENDED to
   the output buffer *)
Definition refill (st : chan) : chan :=
  match c_hdr st with
  | _ :: _ =>
    let n := Z.to_nat (if zlen (c_hdr st) >? hdr_piece then hdr_piece else zlen (c_hdr st)) in
    {| c_fs := c_fs st; c_p := c_p st; c_hdr := skipn n (c_hdr st);
       c_out := c_out st ++ firstn n (c_hdr st); c_wire := c_wire st;
       c_polled := c_polled st; c_pollfs := c_pollfs st |}
  | [] =>
    let '(p', o) := more (c_fs st) (c_p st) in
    {| c_fs := c_fs st; c_p := p'; c_hdr := [];
       c_out := c_out st ++ chain_step o; c_wire := c_wire st;
       c_polled := c_polled st ++ [o]; c_pollfs := c_pollfs st ++ [c_fs st] |}
  end.

(* initiate_send with ac_out_buffer_size = obs; the socket accepts k bytes at most *)
Definition pass (obs k : Z) (st : chan) : chan :=
  let st1 := if zlen (c_out st) <? obs then refill st else st in
  match c_out st1 with
  | [] => st1
  | _ =>
    let offered := Z.min obs (zlen (c_out st1)) in
    let n := Z.to_nat (Z.max 0 (Z.min k offered)) in
    {| c_fs := c_fs st1; c_p := c_p st1; c_hdr := c_hdr st1;
       c_out := skipn n (c_out st1); c_wire := c_wire st1 ++ firstn n (c_out st1);
       c_polled := c_polled st1; c_pollfs := c_pollfs st1 |}
  end.

Definition apply_op (obs : Z) (st : chan) (o : cop) : chan :=
  match o with
  | OFs fs => {| c_fs := fs; c_p := c_p st; c_hdr := c_hdr st; c_out := c_out st; c_wire := c_wire st;
                 c_polled := c_polled st; c_pollfs := c_pollfs st |}
  | OPass k => pass obs k st
  end.

Definition exec (obs : Z) (ops : list cop) (st : chan) : chan := fold_left (apply_op obs) ops st.

(* the channel right after handle_request built the producer (tail_f_producer
   constructed on fs0) and before done() pushes the chain *)
Definition chan0 (fs0 : fsstate) (p0 : prod) (header : bytes) : chan :=
  {| c_fs := fs0; c_p := p0; c_hdr := header; c_out := []; c_wire := [];
     c_polled := []; c_pollfs := [] |}.

(* ---------------------------------------------- correspondence interface *)
Inductive cop_lit := LFs (p : option Z) (tbl : list (Z * bytes)) | LPass (k : Z).

Definition cop_of (l : cop_lit) : cop :=
  match l with LFs p tbl => OFs (mkfs p tbl) | LPass k => OPass k end.

(* (initial path inode, initial table, head, obs, response head, schedule,
    bytes the socket accepted, bytes left in ac_out_buffer) *)
Definition chan_case : Type :=
  Z * list (Z * bytes) * Z * Z * bytes * list cop_lit * bytes * bytes.

Definition check_chan_case (c : chan_case) : bool :=
  let '(i0, tbl0, head, obs, header, ops, wire, leftover) := c in
  let fs0 := mkfs (Some i0) tbl0 in
  let st := exec obs (map cop_of ops) (chan0 fs0 (init i0 (lookup tbl0 i0) head) header) in
  bytes_eqb (c_wire st) wire && bytes_eqb (c_out st) leftover.

(* ---- maintenance: http_channel.kill_zombies (medusa/http_server.py) closes a
   channel iff it has not been used (no send, no recv) for more than
   zombie_timeout seconds; last_used is refreshed by every send() *)
Definition survives (now tmo last_used : Z) : bool := negb (now - last_used >? tmo).

(* (now, zombie_timeout, [(last_used of a channel, still in the socket map after maintenance?)]) *)
Definition check_zombie_case (c : Z * Z * list (Z * bool)) : bool :=
  let '(now, tmo, chans) := c in
  forallb (fun ch => Bool.eqb (survives now tmo (fst ch)) (snd ch)) chans.
