(* NO_FILE exactly when no log is configured or the configured name does not
   exist - for every file system, offset and length. *)
From Coq Require Import ZArith List Bool.
Import ListNotations.
Require Import SV.C16.LogRead SV.C16.RpcFiles.
Open Scope Z_scope.

Definition no_log (fs : fsys) (cfg : option Z) : Prop :=
  cfg = None \/ exists n, cfg = Some n /\ fs n = Absent.

Lemma rpc_read_log_not_nofile c off len : rpc_read_log (Some c) off len <> RFault NO_FILE.
Proof.
  unfold rpc_read_log. destruct (read_file c off len); [|discriminate].
  destruct (utf8_valid d); discriminate.
Qed.

Theorem read_nofile_iff fs cfg off len :
  rpc_read_fs fs cfg off len = RFault NO_FILE <-> no_log fs cfg.
Proof.
  unfold rpc_read_fs, no_log. destruct cfg as [n|].
  - destruct (fs n) eqn:E.
    + split; [right; exists n; auto | reflexivity].
    + split; [discriminate | intros [H | [m [Hm Ha]]]; [discriminate | inversion Hm; subst; congruence]].
    + split.
      * intro H. exfalso. revert H. apply rpc_read_log_not_nofile.
      * intros [H | [m [Hm Ha]]]; [discriminate | inversion Hm; subst; congruence].
  - split; [left; reflexivity | reflexivity].
Qed.

(* with a log file in place the answer is the one of the slice theorems *)
Theorem read_with_file fs n c off len :
  fs n = File c -> rpc_read_fs fs (Some n) off len = rpc_read_log (Some c) off len.
Proof. intro H. unfold rpc_read_fs. rewrite H. reflexivity. Qed.

(* a configured name that exists but cannot be opened as a file: FAILED, never success *)
Theorem read_dir_failed fs n off len : fs n = Dir -> rpc_read_fs fs (Some n) off len = RFault FAILED.
Proof. intro H. unfold rpc_read_fs. rewrite H. reflexivity. Qed.

Theorem tail_no_log fs cfg off len : no_log fs cfg -> rpc_tail_fs fs cfg off len = TValue [] 0 false.
Proof.
  unfold no_log, rpc_tail_fs. intros [H | [n [Hn Ha]]]; subst; [reflexivity | rewrite Ha; reflexivity].
Qed.

Theorem tail_with_file fs n c off len :
  fs n = File c -> rpc_tail_fs fs (Some n) off len = rpc_tail_log (Some c) off len.
Proof. intro H. unfold rpc_tail_fs. rewrite H. reflexivity. Qed.

Theorem clear_nofile_iff fs cfg : rpc_clear_main fs cfg = CFault NO_FILE <-> no_log fs cfg.
Proof.
  unfold rpc_clear_main, no_log. destruct cfg as [n|].
  - destruct (fs n) eqn:E; split; try discriminate; try reflexivity.
    + intros _. right. exists n. auto.
    + intros [H | [m [Hm Ha]]]; [discriminate | inversion Hm; subst; congruence].
    + intros [H | [m [Hm Ha]]]; [discriminate | inversion Hm; subst; congruence].
  - split; [left; reflexivity | reflexivity].
Qed.

Example ex_no_log : no_log (fun n => if n =? 7 then File [97] else Absent) (Some 3).
Proof. right. exists 3. split; reflexivity. Qed.

(* ---- "whatever bytes the log contains ... the call succeeds": what holds *)
(* a window that is valid UTF-8 is returned as it is *)
Theorem rpc_read_valid c off len d :
  read_file c off len = RData d -> utf8_valid d = true -> rpc_read_log (Some c) off len = RValue d.
Proof. intros H1 H2. unfold rpc_read_log. rewrite H1, H2. reflexivity. Qed.

Theorem rpc_read_bad_arguments c off len :
  read_file c off len = RBadArgs -> rpc_read_log (Some c) off len = RFault BAD_ARGUMENTS.
Proof. intros H. unfold rpc_read_log. rewrite H. reflexivity. Qed.

(* the only failure of a read on an existing file with good arguments is the
   known finding C16-utf8: the window is not valid UTF-8 *)
Theorem rpc_read_outcomes c off len :
  match rpc_read_log (Some c) off len with
  | RValue d => read_file c off len = RData d /\ utf8_valid d = true
  | RFault f => f = BAD_ARGUMENTS /\ read_file c off len = RBadArgs
  | RUndecodable => exists d, read_file c off len = RData d /\ utf8_valid d = false
  end.
Proof.
  unfold rpc_read_log. destruct (read_file c off len) as [d|] eqn:E; [|split; reflexivity].
  destruct (utf8_valid d) eqn:U; [split; [reflexivity | exact U] | exists d; split; [reflexivity | exact U]].
Qed.

(* KNOWN FINDING C16-utf8: the statement `the call succeeds whatever bytes the
   log contains` is false of the code *)
Theorem rpc_read_succeeds_refuted :
  exists c off len, rpc_read_log (Some c) off len = RUndecodable.
Proof. exists [255], 0, 0. vm_compute. reflexivity. Qed.

Theorem rpc_tail_outcomes c off len :
  let '(d, o, v) := tail_file c off len in
  rpc_tail_log (Some c) off len = if utf8_valid d then TValue d o v else TUndecodable.
Proof. unfold rpc_tail_log. destruct (tail_file c off len) as [[d o] v]. reflexivity. Qed.
