(* C16, part 1: model of supervisor.options.readFile / tailFile and of the
   readLog / readProcess*Log / tailProcess*Log RPC methods built on them
   (supervisor/options.py:2072-2143, supervisor/rpcinterface.py:109-127,704-756).

   File contents are byte lists (list Z, each element 0..255); offsets and
   lengths are unbounded Z exactly as Python ints are.  The definitions
   transcribe the Python statement by statement. *)
From Coq Require Import ZArith List Bool Lia.
Import ListNotations.
Open Scope Z_scope.

Definition bytes := list Z.
Definition zlen (c : bytes) : Z := Z.of_nat (length c).

(* f.seek(pos); f.read(n)  /  f.read()  on a file whose content is c; pos >= 0 *)
(* offsets are clamped to the file size before they become unary numbers, so
   that evaluating the model on 32-bit offsets stays cheap; skipn/firstn beyond
   the end behave identically *)
Definition py_read (c : bytes) (pos : Z) (n : option Z) : bytes :=
  let rest := skipn (Z.to_nat (Z.min pos (zlen c))) c in
  match n with
  | None => rest
  | Some k => firstn (Z.to_nat (Z.min k (zlen c))) rest
  end.

Inductive rres := RData (d : bytes) | RBadArgs.

(* options.readFile, the part inside `with open(...)`; OSError -> 'FAILED' is
   the file-system oracle handled in the RPC layer below *)
Definition read_file (c : bytes) (offset length : Z) : rres :=
  let absoffset := Z.abs offset in
  let abslength := Z.abs length in
  if negb (absoffset =? offset) then
    if negb (length =? 0) then RBadArgs
    else
      let sz := zlen c in
      let pos := sz - absoffset in
      let pos := if pos <? 0 then 0 else pos in
      RData (py_read c pos (Some absoffset))
  else
    if negb (abslength =? length) then RBadArgs
    else if length =? 0 then RData (py_read c offset None)
    else RData (py_read c offset (Some length)).

(* options.tailFile: returns (data, new offset, overflow) *)
Definition tail_file (c : bytes) (offset length : Z) : bytes * Z * bool :=
  let sz := zlen c in
  let overflow := sz >? offset + length in
  let offset := if overflow then sz - 1 else offset in
  let '(offset, length) :=
     if offset + length >? sz then
       let length := if offset >? sz - 1 then 0 else length in
       (sz - length, length)
     else (offset, length) in
  let offset := if offset <? 0 then 0 else offset in
  let length := if length <? 0 then 0 else length in
  let data := if length =? 0 then [] else py_read c offset (Some length) in
  (data, sz, overflow).

(* ---- strict UTF-8 validity, as bytes.decode('utf-8') applies it (RFC 3629) *)
Definition inr (lo hi x : Z) : bool := (lo <=? x) && (x <=? hi).

Fixpoint utf8_valid_fuel (fuel : nat) (s : bytes) : bool :=
  match fuel with
  | O => match s with [] => true | _ => false end
  | S fuel' =>
    match s with
    | [] => true
    | b0 :: r =>
      if inr 0 127 b0 then utf8_valid_fuel fuel' r
      else if inr 194 223 b0 then
        match r with b1 :: r' => inr 128 191 b1 && utf8_valid_fuel fuel' r' | _ => false end
      else if inr 224 239 b0 then
        match r with
        | b1 :: b2 :: r' =>
          (if b0 =? 224 then inr 160 191 b1
           else if b0 =? 237 then inr 128 159 b1
           else inr 128 191 b1) && inr 128 191 b2 && utf8_valid_fuel fuel' r'
        | _ => false end
      else if inr 240 244 b0 then
        match r with
        | b1 :: b2 :: b3 :: r' =>
          (if b0 =? 240 then inr 144 191 b1
           else if b0 =? 244 then inr 128 143 b1
           else inr 128 191 b1) && inr 128 191 b2 && inr 128 191 b3 && utf8_valid_fuel fuel' r'
        | _ => false end
      else false
    end
  end.
Definition utf8_valid (s : bytes) : bool := utf8_valid_fuel (length s) s.

(* ---- the RPC layer.  Answers: a value, a documented fault, or the
   UnicodeDecodeError path (known finding: HTTP 500 / exception). *)
Inductive fault := BAD_ARGUMENTS | NO_FILE | BAD_NAME | FAILED.
Inductive rpc_read := RValue (d : bytes) | RFault (f : fault) | RUndecodable.

(* file = None: logfile is None or does not exist *)
Definition rpc_read_log (file : option bytes) (offset length : Z) : rpc_read :=
  match file with
  | None => RFault NO_FILE
  | Some c =>
    match read_file c offset length with
    | RBadArgs => RFault BAD_ARGUMENTS
    | RData d => if utf8_valid d then RValue d else RUndecodable
    end
  end.

Inductive rpc_tail := TValue (d : bytes) (off : Z) (ov : bool) | TUndecodable.
Definition rpc_tail_log (file : option bytes) (offset length : Z) : rpc_tail :=
  match file with
  | None => TValue [] 0 false
  | Some c =>
    let '(d, off, ov) := tail_file c offset length in
    if utf8_valid d then TValue d off ov else TUndecodable
  end.

(* ---- correspondence entry points (one case = input + what the implementation answered) *)
Require Import SV.Common.

Definition rres_eqb (a b : rres) : bool :=
  match a, b with
  | RBadArgs, RBadArgs => true
  | RData x, RData y => zlist_eqb x y
  | _, _ => false
  end.

Definition check_read (cs : bytes * Z * Z * rres) : bool :=
  let '(c, off, len, r) := cs in rres_eqb (read_file c off len) r.

Definition check_tail (cs : bytes * Z * Z * (bytes * Z * bool)) : bool :=
  let '(c, off, len, (d, o, v)) := cs in
  let '(d', o', v') := tail_file c off len in
  zlist_eqb d d' && (o =? o') && Bool.eqb v v'.

Definition check_utf8 (cs : bytes * bool) : bool :=
  Bool.eqb (utf8_valid (fst cs)) (snd cs).

Definition fault_eqb (a b : fault) : bool :=
  match a, b with
  | BAD_ARGUMENTS, BAD_ARGUMENTS | NO_FILE, NO_FILE | BAD_NAME, BAD_NAME | FAILED, FAILED => true
  | _, _ => false
  end.

Definition rpc_read_eqb (a b : rpc_read) : bool :=
  match a, b with
  | RValue x, RValue y => zlist_eqb x y
  | RFault f, RFault g => fault_eqb f g
  | RUndecodable, RUndecodable => true
  | _, _ => false
  end.

Definition check_rpc_read (cs : option bytes * Z * Z * rpc_read) : bool :=
  let '(f, off, len, r) := cs in rpc_read_eqb (rpc_read_log f off len) r.

Definition rpc_tail_eqb (a b : rpc_tail) : bool :=
  match a, b with
  | TValue d o v, TValue d' o' v' => zlist_eqb d d' && (o =? o') && Bool.eqb v v'
  | TUndecodable, TUndecodable => true
  | _, _ => false
  end.

Definition check_rpc_tail (cs : option bytes * Z * Z * rpc_tail) : bool :=
  let '(f, off, len, r) := cs in rpc_tail_eqb (rpc_tail_log f off len) r.
