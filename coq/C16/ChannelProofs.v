(* C16 streaming: the output side of the channel under ANY schedule of file
   changes and partial sends (Channel.v). *)
From Coq Require Import ZArith List Bool Lia ZifyBool.
Import ListNotations.
Require Import SV.C16.TailF SV.C16.Chunked SV.C16.StreamProofs SV.C16.Channel.
Open Scope Z_scope.

(* ---- run / final over a history extended at the end *)
Lemma run_snoc h : forall p fs, run (h ++ [fs]) p = run h p ++ [snd (more fs (final h p))].
Proof.
  induction h as [|f h IH]; intros p fs; cbn [app run final].
  - destruct (more fs p). reflexivity.
  - destruct (more f p) as [p' o] eqn:E. cbn [fst]. rewrite IH. reflexivity.
Qed.

Lemma final_snoc h : forall p fs, final (h ++ [fs]) p = fst (more fs (final h p)).
Proof.
  induction h as [|f h IH]; intros p fs; cbn [app final]; [reflexivity | apply IH].
Qed.

Section Chan.
  Variable obs : Z.
  Variable header : bytes.
  Variable fs0 : fsstate.
  Variable p0 : prod.

  (* invariant of every reachable channel state *)
  Record inv (st : chan) : Prop := {
    inv_bytes : exists pre, header = pre ++ c_hdr st /\
                  c_wire st ++ c_out st = pre ++ concat (map chain_step (c_polled st));
    inv_hdr : c_hdr st <> [] -> c_polled st = [];
    inv_polled : c_polled st = run (c_pollfs st) p0;
    inv_p : c_p st = final (c_pollfs st) p0
  }.

  Lemma inv_chan0 : inv (chan0 fs0 p0 header).
  Proof.
    constructor; cbn.
    - exists []. split; reflexivity.
    - reflexivity.
    - reflexivity.
    - reflexivity.
  Qed.

  Lemma inv_refill st : inv st -> inv (refill st).
  Proof.
    intros [[pre [Hh Hb]] Hhd Hpo Hp]. unfold refill.
    destruct (c_hdr st) as [|x hd] eqn:Eh.
    - destruct (more (c_fs st) (c_p st)) as [p' o] eqn:Em. constructor; cbn.
      + exists pre. split; [exact Hh|].
        rewrite map_app, concat_app. cbn [map concat]. rewrite app_nil_r.
        rewrite !app_assoc. rewrite Hb. reflexivity.
      + congruence.
      + rewrite run_snoc, <- Hpo, <- Hp, Em. reflexivity.
      + rewrite final_snoc, <- Hp, Em. reflexivity.
    - set (n := Z.to_nat (if zlen (x :: hd) >? hdr_piece then hdr_piece else zlen (x :: hd))).
      assert (Hpol : c_polled st = []) by (apply Hhd; discriminate).
      constructor; cbn.
      + exists (pre ++ firstn n (x :: hd)). split.
        * rewrite <- app_assoc, firstn_skipn. exact Hh.
        * rewrite Hpol in *. cbn [map concat] in *. rewrite app_nil_r in *.
          rewrite app_assoc, Hb. reflexivity.
      + intros _. exact Hpol.
      + exact Hpo.
      + exact Hp.
  Qed.

  Lemma inv_pass k st : inv st -> inv (pass obs k st).
  Proof.
    intros H. unfold pass.
    set (st1 := if zlen (c_out st) <? obs then refill st else st).
    assert (H1 : inv st1) by (unfold st1; destruct (zlen (c_out st) <? obs); [apply inv_refill|]; exact H).
    destruct (c_out st1) as [|y out1] eqn:Eo; [exact H1|].
    destruct H1 as [[pre [Hh Hb]] Hhd Hpo Hp]. constructor; cbn.
    - exists pre. split; [exact Hh|]. rewrite <- app_assoc, firstn_skipn. rewrite <- Eo. exact Hb.
    - exact Hhd.
    - exact Hpo.
    - exact Hp.
  Qed.

  Lemma inv_op st o : inv st -> inv (apply_op obs st o).
  Proof.
    intros H. destruct o as [fs|k]; [|apply inv_pass; exact H].
    destruct H as [Hb Hhd Hpo Hp]. constructor; cbn; assumption.
  Qed.

  Lemma inv_exec ops : forall st, inv st -> inv (exec obs ops st).
  Proof.
    induction ops as [|o ops IH]; intros st H; [exact H|]. cbn. apply IH. apply inv_op. exact H.
  Qed.

  (* c16_channel_wire: whatever the schedule of file changes, write events and
     partial sends, the bytes accepted by the socket, followed by what still
     waits in the output buffer and the part of the response head not yet
     handed over, are exactly the response head followed by the chunk coding
     of the tail producer's answers: nothing dropped, duplicated or reordered *)
  Theorem channel_wire ops :
    let st := exec obs ops (chan0 fs0 p0 header) in
    c_wire st ++ c_out st ++ c_hdr st
      = header ++ concat (map chain_step (run (c_pollfs st) p0)) /\
    (c_hdr st <> [] -> c_pollfs st = []).
  Proof.
    intros st. destruct (inv_exec ops _ inv_chan0) as [[pre [Hh Hb]] Hhd Hpo Hp]. fold st in Hh, Hb, Hhd, Hpo, Hp.
    split.
    - rewrite app_assoc, Hb. rewrite <- Hpo. destruct (c_hdr st) as [|x hd] eqn:Eh.
      + rewrite app_nil_r in *. rewrite Hh. reflexivity.
      + rewrite (Hhd ltac:(discriminate)). cbn [map concat]. rewrite !app_nil_r. symmetry. exact Hh.
    - intros Hne. specialize (Hhd Hne). rewrite Hpo in Hhd.
      destruct (c_pollfs st) as [|f h]; [reflexivity|]. cbn [run] in Hhd. destruct (more f p0). discriminate.
  Qed.

  (* the accepted bytes are a prefix of head + coding *)
  Corollary channel_wire_prefix ops :
    let st := exec obs ops (chan0 fs0 p0 header) in
    exists rest, c_wire st ++ rest = header ++ concat (map chain_step (run (c_pollfs st) p0)).
  Proof.
    intros st. exists (c_out st ++ c_hdr st). apply (channel_wire ops).
  Qed.
End Chan.

(* every Data the producer hands over along a run is non-empty *)
Lemma more_sz_nonneg fs p : 0 <= sz p -> 0 <= sz (fst (more fs p)).
Proof.
  intros H. unfold more.
  assert (Hf : 0 <= sz (follow fs p)).
  { unfold follow. destruct (path_ino fs) as [i|]; [|exact H]. destruct (i =? ino p); [exact H | cbn; lia]. }
  set (q := follow fs p) in *. pose proof (zlen_nonneg (content fs (ino q))) as Hz.
  destruct (zlen (content fs (ino q)) - sz q <? 0); [cbn; lia|].
  destruct (zlen (content fs (ino q)) - sz q >? 0); cbn; lia.
Qed.

Lemma run_data_nonempty h : forall p, 0 <= sz p -> forall b, In (Data b) (run h p) -> b <> [].
Proof.
  induction h as [|fs h IH]; intros p Hp b Hin; [contradiction|].
  cbn [run] in Hin. destruct (more fs p) as [p' o] eqn:Em. destruct Hin as [Ho | Hin].
  - subst o. eapply more_data_nonempty; eauto.
  - apply (IH p'); [|exact Hin]. pose proof (more_sz_nonneg fs p Hp) as H. rewrite Em in H. exact H.
Qed.

(* c16_channel_end_to_end: once the output buffer has drained, the response is
   head ++ body and the bundled client, under any fragmentation of the body,
   receives exactly what the tail producer delivered *)
Theorem channel_drained_end_to_end obs header fs0 p0 ops :
  0 <= sz p0 ->
  let st := exec obs ops (chan0 fs0 p0 header) in
  c_out st = [] -> c_hdr st = [] ->
  exists body, c_wire st = header ++ body /\
    forall segs, concat segs = body ->
      received (client_feed segs) = delivered (run (c_pollfs st) p0).
Proof.
  intros Hp st Ho Hh. destruct (channel_wire obs header fs0 p0 ops) as [Hw _]. fold st in Hw.
  rewrite Ho, Hh in Hw. cbn [app] in Hw. rewrite app_nil_r in Hw.
  exists (concat (map chain_step (run (c_pollfs st) p0))). split; [exact Hw|].
  intros segs Hs. apply stream_end_to_end; [|exact Hs].
  intros b Hin. eapply run_data_nonempty; eauto.
Qed.

(* ---- schedules in which the followed file stays the same file and only grows *)
Inductive ops_grow (i : Z) : bytes -> list cop -> bytes -> Prop :=
| og_nil c : ops_grow i c [] c
| og_pass c k ops c' : ops_grow i c ops c' -> ops_grow i c (OPass k :: ops) c'
| og_fs c a fs ops c' :
    same_file i fs -> content fs i = c ++ a -> ops_grow i (c ++ a) ops c' ->
    ops_grow i c (OFs fs :: ops) c'.

Lemma grows_snoc i c h apps : grows i c h apps -> forall fs a,
  same_file i fs -> content fs i = (c ++ concat apps) ++ a -> grows i c (h ++ [fs]) (apps ++ [a]).
Proof.
  induction 1 as [c | c a0 f h apps Hs Hc Hg IH]; intros fs a Hsf Hcf.
  - cbn in *. rewrite app_nil_r in Hcf. apply (grows_cons i c a); [exact Hsf | exact Hcf | apply grows_nil].
  - cbn [app]. apply (grows_cons i c a0); [exact Hs | exact Hc |].
    apply IH; [exact Hsf|]. rewrite Hcf. cbn [concat]. rewrite !app_assoc. reflexivity.
Qed.

Section Grow.
  Variable obs : Z.
  Variable i : Z.
  Variable c0 : bytes.

  (* the polled states form a growing history of c0; `cur` is the present content *)
  Definition ginv (st : chan) (cur : bytes) : Prop :=
    same_file i (c_fs st) /\ content (c_fs st) i = cur /\
    exists apps a, grows i c0 (c_pollfs st) apps /\ cur = (c0 ++ concat apps) ++ a.

  Lemma ginv_refill st cur : ginv st cur -> ginv (refill st) cur.
  Proof.
    intros [Hs [Hc [apps [a [Hg Hcur]]]]]. unfold refill.
    destruct (c_hdr st) as [|x hd]; [|repeat split; try assumption; exists apps, a; split; assumption].
    destruct (more (c_fs st) (c_p st)) as [p' o]. unfold ginv. cbn.
    split; [exact Hs|]. split; [exact Hc|].
    exists (apps ++ [a]), []. split.
    - apply grows_snoc; [exact Hg | exact Hs | rewrite Hc; exact Hcur].
    - rewrite concat_app. cbn [concat]. rewrite !app_nil_r. rewrite Hcur. rewrite <- !app_assoc. reflexivity.
  Qed.

  Lemma ginv_pass k st cur : ginv st cur -> ginv (pass obs k st) cur.
  Proof.
    intros H. unfold pass.
    set (st1 := if zlen (c_out st) <? obs then refill st else st).
    assert (H1 : ginv st1 cur) by (unfold st1; destruct (zlen (c_out st) <? obs); [apply ginv_refill|]; exact H).
    destruct (c_out st1); exact H1.
  Qed.

  Lemma ginv_exec ops : forall st cur c', ops_grow i cur ops c' -> ginv st cur -> ginv (exec obs ops st) c'.
  Proof.
    induction ops as [|o ops IH]; intros st cur c' Hog Hg.
    - inversion Hog; subst. exact Hg.
    - inversion Hog as [| c k ops' c'' Hog' | c a fs ops' c'' Hsf Hcf Hog']; subst; cbn [exec fold_left apply_op].
      + apply (IH _ cur); [exact Hog' | apply ginv_pass; exact Hg].
      + apply (IH _ (cur ++ a)); [exact Hog'|].
        destruct Hg as [_ [_ [apps [a0 [Hgr Hcur]]]]]. unfold ginv. cbn.
        split; [exact Hsf|]. split; [exact Hcf|].
        exists apps, (a0 ++ a). split; [exact Hgr|]. rewrite Hcur. rewrite <- !app_assoc. reflexivity.
  Qed.
End Grow.

(* c16_channel_stream: a log that stays the same file and only grows, any
   schedule of appends, write events and partial sends.  Once the buffer has
   drained and the producer was polled at least once, the client (any
   fragmentation) has received every byte of the log from the initial offset
   on, except a suffix `a` appended after the last poll - nothing lost, nothing
   twice, in order *)
Theorem channel_stream obs header fs0 i c0 head ops c' :
  0 <= head -> same_file i fs0 -> content fs0 i = c0 -> ops_grow i c0 ops c' ->
  let p0 := init i c0 head in
  let st := exec obs ops (chan0 fs0 p0 header) in
  c_out st = [] -> c_hdr st = [] -> c_pollfs st <> [] ->
  exists body a polledc,
    c_wire st = header ++ body /\ c' = polledc ++ a /\
    forall segs, concat segs = body ->
      received (client_feed segs) = skipn (Z.to_nat (zlen c0 - Z.min head (zlen c0))) polledc.
Proof.
  intros Hh Hsf Hc Hog p0 st Ho Hhd Hne.
  assert (Hsz : sz p0 = zlen c0 - Z.min head (zlen c0)).
  { unfold p0, init. cbn. pose proof (zlen_nonneg c0). destruct (zlen c0 >=? head) eqn:E; lia. }
  assert (Hp0 : 0 <= sz p0 <= zlen c0) by (pose proof (zlen_nonneg c0); lia).
  destruct (channel_drained_end_to_end obs header fs0 p0 ops ltac:(lia) Ho Hhd) as [body [Hw Hrecv]].
  assert (Hg : ginv i c0 (chan0 fs0 p0 header) c0).
  { unfold ginv. cbn. split; [exact Hsf|]. split; [exact Hc|]. exists [], []. split; [apply grows_nil|].
    cbn. rewrite !app_nil_r. reflexivity. }
  destruct (ginv_exec obs i c0 ops _ _ _ Hog Hg) as [_ [_ [apps [a [Hgr Hcur]]]]]. fold st in Hgr.
  destruct (tailf_stream_from i c0 (c_pollfs st) apps Hgr p0 eq_refl Hp0) as [Hd [_ [_ [_ Hf]]]].
  rewrite (Hf Hne) in Hd. rewrite skipn_all2 in Hd by (unfold zlen; lia). rewrite app_nil_r in Hd.
  exists body, a, (c0 ++ concat apps). split; [exact Hw|]. split; [exact Hcur|].
  intros segs Hs. rewrite (Hrecv segs Hs). fold st. rewrite Hd, Hsz. reflexivity.
Qed.

(* hypotheses are satisfiable: a schedule with partial sends *)
Example ex_channel :
  let fsA := fs1 (Some 1) [97; 98] [] in
  let fsB := fs1 (Some 1) [97; 98; 99; 100] [] in
  let st := exec 4096 [OPass 3; OPass 0; OFs fsB; OPass 2; OPass 100; OPass 100; OPass 100]
                 (chan0 fsA (init 1 [97; 98] 1024) [72; 13; 10; 13; 10]) in
  c_wire st = [72; 13; 10; 13; 10] ++ encode_open [[97; 98]; [99; 100]] /\ c_out st = [] /\ c_hdr st = [].
Proof. vm_compute. repeat split. Qed.

(* the response stays open through maintenance: a channel that sent or received
   anything within the timeout survives kill_zombies, however old it is *)
Theorem active_channel_survives now tmo last_used :
  now - last_used <= tmo -> survives now tmo last_used = true.
Proof. unfold survives. intro H. destruct (now - last_used >? tmo) eqn:E; [lia | reflexivity]. Qed.

Theorem idle_channel_closed now tmo last_used :
  now - last_used > tmo -> survives now tmo last_used = false.
Proof. unfold survives. intro H. destruct (now - last_used >? tmo) eqn:E; [reflexivity | lia]. Qed.
