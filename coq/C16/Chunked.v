(* C16, streaming part 2: the chunked transfer coding as supervisor produces and
   consumes it.

   Encoder: supervisor.http.deferring_chunked_producer.more (http.py:46-64) inside
   the producer chain built by deferring_http_request.done() for HTTP/1.1.
   Decoder: supervisor.http_client.HTTPHandler (chunked_size, chunked_body,
   trailer, collect_incoming_data, found_terminator) driven by
   asynchat_25.async_chat.handle_read, transcribed buffer-wise (`hr`), and the
   same machine byte by byte (`step`), which the proofs use. *)
From Coq Require Import ZArith List Bool Lia.
Import ListNotations.
Require Import SV.C16.TailF.
Open Scope Z_scope.

(* ------------------------------------------------------------------ encoder *)

Definition hexdigit (d : Z) : Z := if d <? 10 then 48 + d else 87 + d.

(* '%x' % n *)
Fixpoint hex_fuel (fuel : nat) (n : Z) : bytes :=
  match fuel with
  | O => []
  | S f => if n <? 16 then [hexdigit n] else hex_fuel f (n / 16) ++ [hexdigit (n mod 16)]
  end.

Definition print_hex (n : Z) : bytes := hex_fuel (S (Z.to_nat (Z.log2 n))) n.

Definition crlf : bytes := [13; 10].

(* more() for a non-empty piece of data *)
Definition enc_chunk (d : bytes) : bytes := print_hex (zlen d) ++ crlf ++ d ++ crlf.

(* more() when the wrapped producer is exhausted (no footers) *)
Definition enc_final : bytes := [48; 13; 10; 13; 10].

Definition encode_open (chunks : list bytes) : bytes := concat (map enc_chunk chunks).
Definition encode (chunks : list bytes) : bytes := encode_open chunks ++ enc_final.

(* what one poll of the chain (composite -> chunked -> composite -> hooked)
   sends for one answer of tail_f_producer *)
Definition chain_step (o : out) : bytes :=
  match o with
  | NotDone => []
  | _ => enc_chunk (wire o)
  end.

(* ------------------------------------------------------------------ decoder *)

Inductive term := TStr | TNum (n : Z).        (* terminator: CRLF, or a byte count *)
Inductive part := PSize | PBody | PTrailer | PDead.

Record cstate := {
  acb : bytes;          (* asynchat ac_in_buffer *)
  tm : term;            (* asynchat terminator *)
  pt : part;            (* HTTPHandler.part *)
  buf : bytes;          (* HTTPHandler.buffer *)
  fed : list bytes      (* what listener.feed received, in order *)
}.

(* the client after the blank line that ends the response headers, with
   Transfer-Encoding: chunked *)
Definition init_state : cstate := {| acb := []; tm := TStr; pt := PSize; buf := []; fed := [] |}.

Definition hexval (c : Z) : option Z :=
  if (48 <=? c) && (c <=? 57) then Some (c - 48)
  else if (97 <=? c) && (c <=? 102) then Some (c - 87)
  else if (65 <=? c) && (c <=? 70) then Some (c - 55)
  else None.

Fixpoint parse_hex_acc (s : bytes) (acc : Z) : option Z :=
  match s with
  | [] => Some acc
  | c :: r => match hexval c with
              | None => None
              | Some v => parse_hex_acc r (acc * 16 + v)
              end
  end.

Definition is_space (c : Z) : bool :=
  (c =? 32) || ((9 <=? c) && (c <=? 13)).

Fixpoint drop_spaces (s : bytes) : bytes :=
  match s with
  | c :: r => if is_space c then drop_spaces r else s
  | [] => []
  end.

Fixpoint take_token (s : bytes) : bytes :=
  match s with
  | c :: r => if is_space c then [] else c :: take_token r
  | [] => []
  end.

(* int(line.split()[0], 16); None = IndexError / ValueError.  Only plain hex
   digits are modelled (int() would also take a sign, 0x and underscores). *)
Definition parse_size (line : bytes) : option Z :=
  match take_token (drop_spaces line) with
  | [] => None
  | tok => parse_hex_acc tok 0
  end.

Definition collect (s : cstate) (d : bytes) : cstate :=
  {| acb := acb s; tm := tm s; pt := pt s; buf := buf s ++ d; fed := fed s |}.

Definition with_acb (s : cstate) (a : bytes) : cstate :=
  {| acb := a; tm := tm s; pt := pt s; buf := buf s; fed := fed s |}.

Definition with_tm (s : cstate) (t : term) : cstate :=
  {| acb := acb s; tm := t; pt := pt s; buf := buf s; fed := fed s |}.

(* found_terminator: self.part(); self.buffer = b'' *)
Definition found (s : cstate) : cstate :=
  match pt s with
  | PSize =>
    match buf s with
    | [] => s
    | line =>
      match parse_size line with
      | None => {| acb := acb s; tm := tm s; pt := PDead; buf := []; fed := fed s |}
      | Some n =>
        if n =? 0 then {| acb := acb s; tm := tm s; pt := PTrailer; buf := []; fed := fed s |}
        else {| acb := acb s; tm := TNum n; pt := PBody; buf := []; fed := fed s |}
      end
    end
  | PBody => {| acb := acb s; tm := TStr; pt := PSize; buf := []; fed := fed s ++ [buf s] |}
  | PTrailer => {| acb := acb s; tm := tm s; pt := PTrailer; buf := []; fed := fed s |}
  | PDead => s
  end.

(* index of the first CRLF *)
Fixpoint find_crlf (s : bytes) : option nat :=
  match s with
  | [] => None
  | c :: r =>
    match r with
    | d :: _ => if (c =? 13) && (d =? 10) then Some O
                else match find_crlf r with Some k => Some (S k) | None => None end
    | [] => None
    end
  end.

(* find_prefix_at_end(buffer, CRLF) == 1: the buffer ends with CR *)
Fixpoint ends_with_cr (s : bytes) : bool :=
  match s with
  | [] => false
  | [c] => c =? 13
  | _ :: r => ends_with_cr r
  end.

(* the while loop of async_chat.handle_read *)
Fixpoint loop (fuel : nat) (s : cstate) : cstate :=
  match fuel with
  | O => s
  | S f =>
    match pt s with
    | PDead => with_acb s []             (* an exception left found_terminator: the channel is closed *)
    | _ =>
      match acb s with
      | [] => s
      | _ =>
        let lb := zlen (acb s) in
        match tm s with
        | TNum n =>
          if n <=? 0 then with_acb (collect s (acb s)) []           (* `if not terminator` *)
          else if lb <? n then with_tm (with_acb (collect s (acb s)) []) (TNum (n - lb))
          else
            let k := Z.to_nat (Z.min n lb) in
            loop f (found (with_tm (with_acb (collect s (firstn k (acb s))) (skipn k (acb s))) (TNum 0)))
        | TStr =>
          match find_crlf (acb s) with
          | Some idx =>
            let s1 := match idx with O => s | _ => collect s (firstn idx (acb s)) end in
            loop f (found (with_acb s1 (skipn (idx + 2) (acb s))))
          | None =>
            if ends_with_cr (acb s) then
              match acb s with
              | [_] => s                                             (* index == lb: just wait *)
              | _ => with_acb (collect s (removelast (acb s))) [13]
              end
            else with_acb (collect s (acb s)) []
          end
        end
      end
    end
  end.

(* handle_read with `data` just received *)
Definition hr (s : cstate) (data : bytes) : cstate :=
  match pt s with
  | PDead => s                                                       (* channel closed *)
  | _ => let a := acb s ++ data in loop (S (length a)) (with_acb s a)
  end.

Definition client_feed (segs : list bytes) : cstate := fold_left hr segs init_state.
Definition received (s : cstate) : bytes := concat (fed s).

(* ------------------------------------- the same machine, one byte at a time *)
(* acb is [] or [13] (a CR held back while the terminator is CRLF) *)
Definition step (s : cstate) (b : Z) : cstate :=
  match pt s with
  | PDead => s
  | _ =>
    match tm s with
    | TNum n =>
      if n <=? 0 then collect s [b]
      else if n =? 1 then found (with_tm (collect s [b]) (TNum 0))
      else with_tm (collect s [b]) (TNum (n - 1))
    | TStr =>
      match acb s with
      | [] => if b =? 13 then with_acb s [13] else collect s [b]
      | _ => if b =? 10 then found (with_acb s [])
             else if b =? 13 then collect s [13]
             else with_acb (collect s [13; b]) []
      end
    end
  end.

Definition bfeed (s : cstate) (data : bytes) : cstate := fold_left step data s.

(* ---------------------------------------------- correspondence interface *)
Fixpoint chunks_eqb (a b : list bytes) : bool :=
  match a, b with
  | [], [] => true
  | x :: a', y :: b' => bytes_eqb x y && chunks_eqb a' b'
  | _, _ => false
  end.

Definition part_code (p : part) : Z :=
  match p with PSize => 0 | PBody => 1 | PTrailer => 2 | PDead => 3 end.

(* (segments fed to the real HTTPHandler after the response headers,
    what its listener received (one entry per feed call), dead?) :
   the buffer-wise model must reproduce it, and the byte-wise machine must
   agree with the buffer-wise one on the same input *)
Definition dec_case : Type := list bytes * list bytes * bool.

Definition check_dec_case (c : dec_case) : bool :=
  let '(segs, observed, dead) := c in
  let s := client_feed segs in
  let s' := bfeed init_state (concat segs) in
  chunks_eqb (fed s) observed
  && Bool.eqb (match pt s with PDead => true | _ => false end) dead
  && chunks_eqb (fed s') (fed s) && (part_code (pt s') =? part_code (pt s))
  && bytes_eqb (buf s') (buf s) && bytes_eqb (acb s') (acb s).

(* (tail outputs, bytes the real producer chain sent after the headers) *)
Definition enc_case : Type := list out * bytes.

Definition check_enc_case (c : enc_case) : bool :=
  let '(outs, sent) := c in
  bytes_eqb (concat (map chain_step outs)) sent.

(* The whole HTTP/1.1 stream: after each change of the file system the channel
   polls the chain until the producer answers NOT_DONE_YET (one burst). *)
Fixpoint burst (fuel : nat) (fs : fsstate) (p : prod) : prod * bytes :=
  match fuel with
  | O => (p, [])
  | S f =>
    let '(p', o) := more fs p in
    match o with
    | NotDone => (p', [])
    | _ => let '(p'', b) := burst f fs p' in (p'', chain_step o ++ b)
    end
  end.

Fixpoint bursts (h : list fsstate) (p : prod) : list bytes :=
  match h with
  | [] => []
  | fs :: h' => let '(p', b) := burst 4 fs p in b :: bursts h' p'
  end.

(* (initial inode, initial table, head, states (the first one is the state at
    request time), bytes received in each burst after the response head) *)
Definition stream_case : Type :=
  Z * list (Z * bytes) * Z * list (option Z * list (Z * bytes)) * list bytes.

Definition check_stream_case (c : stream_case) : bool :=
  let '(i0, tbl0, head, hist, observed) := c in
  let p0 := init i0 (lookup tbl0 i0) head in
  chunks_eqb (bursts (map (fun st => mkfs (fst st) (snd st)) hist) p0) observed.

(* (non-empty pieces handed to the real deferring_chunked_producer inside the
    real composite/hooked chain, everything it produced until exhaustion) *)
Definition check_encode (c : list bytes * bytes) : bool :=
  bytes_eqb (encode (fst c)) (snd c).

(* (chunks, the stream ends with the final chunk?, segmentation of the encoded
    stream as positions) - pure model check of the round trip on concrete data,
   complementing the theorem *)
Definition hexline_case : Type := Z * bytes.
Definition check_hexline (c : hexline_case) : bool :=
  let '(n, printed) := c in bytes_eqb (print_hex n) printed.
