(* C16 streaming: proofs about tail_f_producer (TailF.v) and the chunked coding
   (Chunked.v). *)
From Coq Require Import ZArith List Bool Lia ZifyBool.
Import ListNotations.
Require Import SV.C16.TailF SV.C16.Chunked.
Open Scope Z_scope.

(* ====================================================================== *)
(* Part A: the tail stream                                                  *)
(* ====================================================================== *)

Lemma zlen_nonneg c : 0 <= zlen c.
Proof. unfold zlen; lia. Qed.

Lemma zlen_app a b : zlen (a ++ b) = zlen a + zlen b.
Proof. unfold zlen. rewrite app_length. lia. Qed.

Lemma read_last_skip c n : 0 < n <= zlen c -> read_last c n = skipn (Z.to_nat (zlen c - n)) c.
Proof.
  intros H. unfold read_last.
  replace (Z.min (Z.max 0 (zlen c - n)) (zlen c)) with (zlen c - n) by lia.
  replace (Z.min n (zlen c)) with n by lia.
  apply firstn_all2. rewrite skipn_length. unfold zlen in *. lia.
Qed.

(* the file the producer follows stays the same file: the path still names it,
   or the path is gone (unlinked) while the producer keeps it open *)
Definition same_file (i : Z) (fs : fsstate) : Prop :=
  path_ino fs = Some i \/ path_ino fs = None.

(* grows i c h apps: starting from content c of inode i, every state of the
   history h keeps the same file and appends the corresponding element of apps
   (possibly empty) to it *)
Inductive grows (i : Z) : bytes -> list fsstate -> list bytes -> Prop :=
| grows_nil c : grows i c [] []
| grows_cons c a fs h apps :
    same_file i fs -> content fs i = c ++ a -> grows i (c ++ a) h apps ->
    grows i c (fs :: h) (a :: apps).

Lemma follow_same i fs p : same_file i fs -> ino p = i -> follow fs p = p.
Proof.
  intros [H|H] Hi; unfold follow; rewrite H; [|reflexivity].
  subst i. rewrite Z.eqb_refl. reflexivity.
Qed.

(* one poll while the file only grew *)
Lemma more_grow i fs p c a :
  same_file i fs -> ino p = i -> content fs i = c ++ a -> 0 <= sz p <= zlen c ->
  let '(p', o) := more fs p in
  ino p' = i /\ sz p' = zlen (c ++ a) /\ o <> Notice /\
  wire o = skipn (Z.to_nat (sz p)) (c ++ a).
Proof.
  intros Hs Hi Hc Hz. unfold more. rewrite (follow_same i) by assumption. rewrite Hi, Hc.
  pose proof (zlen_nonneg a) as Ha. pose proof (zlen_app c a) as Hl.
  destruct (zlen (c ++ a) - sz p <? 0) eqn:E1; [lia|].
  destruct (zlen (c ++ a) - sz p >? 0) eqn:E2.
  - cbn [ino sz wire]. repeat split; try reflexivity; try discriminate.
    rewrite read_last_skip by lia. f_equal. lia.
  - cbn [wire]. repeat split; try assumption; try discriminate.
    + lia.
    + symmetry. apply skipn_all2. unfold zlen in *. lia.
Qed.

(* c16_tailf_stream, general form: from any position sz within the current
   content, polling through a history in which the file only grows keeps the
   invariant  delivered ++ (what is still to come) = everything after sz,
   never emits the truncation notice, and after at least one poll nothing is
   still to come *)
Lemma skipn_app_le {A} (l1 l2 : list A) n : (n <= length l1)%nat -> skipn n (l1 ++ l2) = skipn n l1 ++ l2.
Proof.
  intro H. rewrite skipn_app. replace (n - length l1)%nat with O by lia. reflexivity.
Qed.

Theorem tailf_stream_from i c h apps :
  grows i c h apps ->
  forall p, ino p = i -> 0 <= sz p <= zlen c ->
    delivered (run h p) ++ skipn (Z.to_nat (sz (final h p))) (c ++ concat apps)
      = skipn (Z.to_nat (sz p)) (c ++ concat apps) /\
    ~ In Notice (run h p) /\
    ino (final h p) = i /\
    0 <= sz (final h p) <= zlen (c ++ concat apps) /\
    (h <> [] -> sz (final h p) = zlen (c ++ concat apps)).
Proof.
  induction 1 as [c | c a fs h apps Hs Hc Hg IH]; intros p Hi Hz.
  - simpl. rewrite app_nil_r. repeat split; auto; try lia. congruence.
  - pose proof (more_grow i fs p c a Hs Hi Hc Hz) as Hm.
    simpl run. simpl final. destruct (more fs p) as [p' o] eqn:Em. destruct Hm as [Hi' [Hz' [Hn Hw]]].
    assert (Hz2 : 0 <= sz p' <= zlen (c ++ a)) by (rewrite Hz'; pose proof (zlen_nonneg (c ++ a)); lia).
    destruct (IH p' Hi' Hz2) as [Hd [Hno [Hfi [Hfr Hfs]]]].
    simpl fst. simpl concat. rewrite app_assoc.
    repeat split.
    + unfold delivered in *. simpl map. simpl concat. rewrite <- app_assoc. rewrite Hd. rewrite Hw.
      assert (L1 : (Z.to_nat (zlen (c ++ a)) <= length (c ++ a))%nat) by (unfold zlen; lia).
      assert (L2 : (Z.to_nat (sz p) <= length (c ++ a))%nat).
      { rewrite app_length. clear - Hz. unfold zlen in Hz. lia. }
      rewrite Hz'. rewrite (skipn_app_le (c ++ a) _ _ L1). rewrite (skipn_app_le (c ++ a) _ _ L2).
      rewrite (@skipn_all2 _ (Z.to_nat (zlen (c ++ a))) (c ++ a)) by (unfold zlen; lia). reflexivity.
    + intros [Ho | Hin]; [congruence | contradiction].
    + exact Hfi.
    + lia.
    + lia.
    + intros _. destruct h as [|fs' h'].
      * inversion Hg; subst. simpl. rewrite app_nil_r. exact Hz'.
      * apply Hfs. discriminate.
Qed.

(* the form of the property text: once the producer has caught up, what it
   delivers is exactly the appended bytes, in order, nothing twice, nothing lost *)
Corollary tailf_stream i c h apps p :
  grows i c h apps -> ino p = i -> sz p = zlen c ->
  delivered (run h p) = concat apps /\ ~ In Notice (run h p).
Proof.
  intros Hg Hi Hz. pose proof (zlen_nonneg c) as Hc.
  destruct (tailf_stream_from i c h apps Hg p Hi ltac:(lia)) as [Hd [Hn [_ [_ Hf]]]].
  split; [|exact Hn]. rewrite Hz in Hd.
  rewrite (skipn_app_le c (concat apps) (Z.to_nat (zlen c))) in Hd by (unfold zlen; lia).
  rewrite (@skipn_all2 _ (Z.to_nat (zlen c)) c) in Hd by (unfold zlen; lia). simpl in Hd.
  destruct h as [|fs h].
  - inversion Hg; subst. reflexivity.
  - rewrite Hf in Hd by discriminate. rewrite skipn_all2 in Hd by (unfold zlen; lia).
    rewrite app_nil_r in Hd. exact Hd.
Qed.

(* including the initial tail: a fresh producer (head bytes of history), polled
   at least once *)
Corollary tailf_initial i c head h apps :
  0 <= head -> grows i c h apps -> h <> [] ->
  delivered (run h (init i c head)) =
  skipn (Z.to_nat (zlen c - Z.min head (zlen c))) c ++ concat apps.
Proof.
  intros Hh Hg Hne. pose proof (zlen_nonneg c) as Hc.
  assert (Hsz : sz (init i c head) = zlen c - Z.min head (zlen c)).
  { unfold init. simpl. destruct (zlen c >=? head) eqn:E; lia. }
  destruct (tailf_stream_from i c h apps Hg (init i c head) eq_refl ltac:(lia)) as [Hd [_ [_ [_ Hf]]]].
  rewrite Hf in Hd by exact Hne. rewrite skipn_all2 in Hd by (unfold zlen; lia).
  rewrite app_nil_r in Hd. rewrite Hd, Hsz. apply skipn_app_le. unfold zlen in *. lia.
Qed.

(* rotation / clear: the path names another inode -> restart at offset 0 of
   the new file, then every byte of the new file while it only grows *)
Lemma more_rotate j fs p :
  path_ino fs = Some j -> j <> ino p ->
  more fs p = if zlen (content fs j) >? 0
              then ({| ino := j; sz := zlen (content fs j) |}, Data (content fs j))
              else ({| ino := j; sz := 0 |}, NotDone).
Proof.
  intros Hp Hj. unfold more, follow. rewrite Hp.
  destruct (j =? ino p) eqn:E; [apply Z.eqb_eq in E; contradiction|]. cbn [ino sz].
  rewrite Z.sub_0_r. pose proof (zlen_nonneg (content fs j)) as Hz.
  destruct (zlen (content fs j) <? 0) eqn:E1; [lia|].
  destruct (zlen (content fs j) >? 0) eqn:E2; [|reflexivity].
  rewrite read_last_skip by lia. rewrite Z.sub_diag. reflexivity.
Qed.

Theorem tailf_rotation j fs p c h apps :
  path_ino fs = Some j -> j <> ino p -> content fs j = c ->
  grows j c h apps ->
  delivered (run (fs :: h) p) = c ++ concat apps /\ ~ In Notice (run (fs :: h) p).
Proof.
  intros Hp Hj Hc Hg. cbn [run]. rewrite (more_rotate j fs p Hp Hj). rewrite Hc. clear Hc.
  pose proof (zlen_nonneg c) as Hz.
  destruct (zlen c >? 0) eqn:E2.
  - destruct (tailf_stream j c h apps {| ino := j; sz := zlen c |} Hg eq_refl eq_refl) as [Hd Hn].
    unfold delivered in *. cbn [map concat wire In]. rewrite Hd. split; [reflexivity|].
    intros [H|H]; [discriminate | contradiction].
  - assert (c = []) by (destruct c; [reflexivity | unfold zlen in *; simpl length in *; lia]). subst c.
    destruct (tailf_stream j [] h apps {| ino := j; sz := 0 |} Hg eq_refl eq_refl) as [Hd Hn].
    unfold delivered in *. cbn [map concat wire In app]. rewrite Hd. split; [reflexivity|].
    intros [H|H]; [discriminate | contradiction].
Qed.

(* truncation seen by a poll (same file, now shorter than sz): the notice, then
   (at the following polls) the new content from offset 0 and everything
   appended afterwards *)
Lemma more_trunc i fs p :
  same_file i fs -> ino p = i -> zlen (content fs i) < sz p ->
  more fs p = ({| ino := i; sz := 0 |}, Notice).
Proof.
  intros Hs Hi Hz. unfold more. rewrite (follow_same i) by assumption. rewrite Hi.
  destruct (zlen (content fs i) - sz p <? 0) eqn:E; [reflexivity | lia].
Qed.

Theorem tailf_truncation i fs p c h apps :
  same_file i fs -> ino p = i -> content fs i = c -> zlen c < sz p ->
  grows i c h apps -> h <> [] ->
  delivered (run (fs :: h) p) = notice_text ++ c ++ concat apps /\
  run (fs :: h) p = Notice :: run h {| ino := i; sz := 0 |}.
Proof.
  intros Hs Hi Hc Hz Hg Hne. cbn [run]. rewrite (more_trunc i fs p Hs Hi) by (rewrite Hc; exact Hz).
  pose proof (zlen_nonneg c) as Hc0.
  destruct (tailf_stream_from i c h apps Hg {| ino := i; sz := 0 |} eq_refl ltac:(simpl; lia)) as [Hd [_ [_ [_ Hf]]]].
  split; [|reflexivity]. unfold delivered in *. cbn [map concat wire]. f_equal.
  cbn [sz] in Hd. change (Z.to_nat 0) with O in Hd. cbn [skipn] in Hd.
  rewrite Hf in Hd by exact Hne. rewrite skipn_all2 in Hd by (unfold zlen; lia).
  rewrite app_nil_r in Hd. exact Hd.
Qed.

(* ---- what does NOT hold (candidate findings, see notes/C16b.md) ---------- *)
Definition fs1 (p : option Z) (c1 c2 : bytes) : fsstate :=
  {| path_ino := p; content := fun i => if i =? 1 then c1 else if i =? 2 then c2 else [] |}.

(* (1) truncated and re-grown to at least the old size between two polls: no
   notice, the first sz bytes of the new content are never delivered *)
Lemma tailf_truncate_regrow_refuted :
  exists p fs, ino p = 1 /\ sz p = 3 /\ same_file 1 fs /\
    content fs 1 = [120; 121; 122; 119] (* new content xyzw, old one was abc *) /\
    run [fs; fs] p = [Data [119]; NotDone].
Proof.
  exists {| ino := 1; sz := 3 |}, (fs1 (Some 1) [120; 121; 122; 119] []).
  repeat split; try reflexivity. left; reflexivity.
Qed.

(* (2) bytes appended to the old file after the last poll and before a
   rotation are never delivered (RotatingFileHandler.emit writes the record
   and renames the file in one step, so the last record before every rotation
   is in this position) *)
Lemma tailf_rotation_loses_tail_refuted :
  exists p fs, ino p = 1 /\ sz p = 3 /\ path_ino fs = Some 2 /\
    content fs 1 = [97; 98; 99; 100; 101; 102] (* abc, then def appended, then renamed *) /\
    content fs 2 = [] /\
    run [fs; fs] p = [NotDone; NotDone] /\ final [fs; fs] p = {| ino := 2; sz := 0 |}.
Proof.
  exists {| ino := 1; sz := 3 |}, (fs1 (Some 2) [97; 98; 99; 100; 101; 102] []).
  repeat split; reflexivity.
Qed.

(* non-trivial instance of the hypotheses of tailf_stream *)
Example ex_grows :
  grows 1 [97] [fs1 (Some 1) [97; 98] []; fs1 None [97; 98] []; fs1 (Some 1) [97; 98; 99; 100] []]
        [[98]; []; [99; 100]].
Proof.
  apply (grows_cons 1 [97] [98]); [left; reflexivity | reflexivity |].
  apply (grows_cons 1 [97; 98] []); [right; reflexivity | reflexivity |].
  apply (grows_cons 1 [97; 98] [99; 100]); [left; reflexivity | reflexivity |].
  apply grows_nil.
Qed.

Example ex_run :
  run [fs1 (Some 1) [97; 98] []; fs1 None [97; 98] []; fs1 (Some 1) [97; 98; 99; 100] []] {| ino := 1; sz := 1 |}
  = [Data [98]; NotDone; Data [99; 100]].
Proof. reflexivity. Qed.

(* ====================================================================== *)
(* Part B: chunked coding                                                   *)
(* ====================================================================== *)

(* ---- hex printer / parser round trip *)
Lemma hexval_hexdigit d : 0 <= d < 16 -> hexval (hexdigit d) = Some d.
Proof.
  intros H. unfold hexdigit, hexval.
  destruct (d <? 10) eqn:E.
  - replace ((48 <=? 48 + d) && (48 + d <=? 57)) with true by lia. f_equal. lia.
  - replace ((48 <=? 87 + d) && (87 + d <=? 57)) with false by lia.
    replace ((97 <=? 87 + d) && (87 + d <=? 102)) with true by lia. f_equal. lia.
Qed.

Lemma parse_hex_acc_app a b acc :
  parse_hex_acc (a ++ b) acc =
  match parse_hex_acc a acc with Some v => parse_hex_acc b v | None => None end.
Proof.
  revert acc; induction a as [|c a IH]; intro acc; simpl; [reflexivity|].
  destruct (hexval c); [apply IH | reflexivity].
Qed.

Lemma hex_fuel_parse fuel : forall n, 0 <= n < 16 ^ Z.of_nat fuel -> (0 < fuel)%nat ->
  parse_hex_acc (hex_fuel fuel n) 0 = Some n.
Proof.
  induction fuel as [|f IH]; intros n Hn Hf; [lia|].
  simpl hex_fuel. destruct (n <? 16) eqn:E.
  - simpl. rewrite hexval_hexdigit by lia. f_equal.
  - assert (Hf' : (0 < f)%nat).
    { destruct f; [|lia]. simpl in Hn. lia. }
    rewrite parse_hex_acc_app. rewrite IH; try assumption.
    + simpl. rewrite hexval_hexdigit by (apply Z.mod_pos_bound; lia).
      f_equal. pose proof (Z.div_mod n 16). lia.
    + rewrite Nat2Z.inj_succ, Z.pow_succ_r in Hn by lia.
      split; [apply Z.div_pos; lia | apply Z.div_lt_upper_bound; lia].
Qed.

Lemma print_hex_parse n : 0 <= n -> parse_hex_acc (print_hex n) 0 = Some n.
Proof.
  intros Hn. unfold print_hex. apply hex_fuel_parse; [|lia].
  split; [lia|]. rewrite Nat2Z.inj_succ.
  destruct (Z.eq_dec n 0) as [->|Hz]; [simpl; lia|].
  rewrite Z2Nat.id by (apply Z.log2_nonneg).
  pose proof (Z.log2_spec n ltac:(lia)) as [_ Hlt].
  eapply Z.lt_le_trans; [exact Hlt|].
  apply Z.pow_le_mono_l. lia.
Qed.

Definition is_hexchar (c : Z) : Prop := hexval c <> None.

Lemma hexdigit_is_hex d : 0 <= d < 16 -> is_hexchar (hexdigit d).
Proof. intros H. unfold is_hexchar. rewrite hexval_hexdigit by exact H. discriminate. Qed.

Lemma hex_fuel_chars fuel : forall n, 0 <= n -> Forall is_hexchar (hex_fuel fuel n).
Proof.
  induction fuel as [|f IH]; intros n Hn; simpl; [constructor|].
  destruct (n <? 16) eqn:E.
  - constructor; [apply hexdigit_is_hex; lia | constructor].
  - apply Forall_app. split; [apply IH; apply Z.div_pos; lia|].
    constructor; [apply hexdigit_is_hex; apply Z.mod_pos_bound; lia | constructor].
Qed.

Lemma hex_fuel_nonempty fuel n : hex_fuel (S fuel) n <> [].
Proof.
  simpl. destruct (n <? 16); [discriminate|]. destruct (hex_fuel fuel (n / 16)); discriminate.
Qed.

Lemma hexchar_props c : is_hexchar c -> is_space c = false /\ c <> 13.
Proof.
  unfold is_hexchar, hexval, is_space. intros H.
  destruct ((48 <=? c) && (c <=? 57)) eqn:E1; [lia|].
  destruct ((97 <=? c) && (c <=? 102)) eqn:E2; [lia|].
  destruct ((65 <=? c) && (c <=? 70)) eqn:E3; [lia|]. congruence.
Qed.

Lemma take_token_hex s : Forall is_hexchar s -> take_token s = s.
Proof.
  induction 1 as [|c r Hc Hr IH]; [reflexivity|].
  simpl. destruct (hexchar_props c Hc) as [-> _]. f_equal. exact IH.
Qed.

Lemma token_of_hex s : Forall is_hexchar s -> take_token (drop_spaces s) = s.
Proof.
  intros H. assert (Hd : drop_spaces s = s).
  { destruct H as [|c r Hc Hr]; [reflexivity|]. simpl. destruct (hexchar_props c Hc) as [-> _]. reflexivity. }
  rewrite Hd. apply take_token_hex. exact H.
Qed.

Lemma parse_size_print n : 0 <= n -> parse_size (print_hex n) = Some n.
Proof.
  intros Hn. unfold parse_size. rewrite token_of_hex by (apply hex_fuel_chars; exact Hn).
  pose proof (hex_fuel_nonempty (Z.to_nat (Z.log2 n)) n) as Hne.
  unfold print_hex in *. destruct (hex_fuel (S (Z.to_nat (Z.log2 n))) n) eqn:E; [congruence|].
  rewrite <- E. apply print_hex_parse. exact Hn.
Qed.

(* ---- the byte-wise machine on an encoded stream *)
Definition idle (f : list bytes) : cstate :=
  {| acb := []; tm := TStr; pt := PSize; buf := []; fed := f |}.

Lemma bfeed_app s a b : bfeed s (a ++ b) = bfeed (bfeed s a) b.
Proof. unfold bfeed. apply fold_left_app. Qed.

Lemma bfeed_cons s c l : bfeed s (c :: l) = bfeed (step s c) l.
Proof. reflexivity. Qed.

(* a run of bytes other than CR while waiting for CRLF is just collected *)
Lemma step_line c b f : c <> 13 ->
  step {| acb := []; tm := TStr; pt := PSize; buf := b; fed := f |} c
  = {| acb := []; tm := TStr; pt := PSize; buf := b ++ [c]; fed := f |}.
Proof.
  intro H. unfold step. cbn [pt tm acb]. destruct (c =? 13) eqn:E; [lia|]. reflexivity.
Qed.

Lemma bfeed_collect_line l : Forall (fun c => c <> 13) l -> forall b f,
  bfeed {| acb := []; tm := TStr; pt := PSize; buf := b; fed := f |} l
  = {| acb := []; tm := TStr; pt := PSize; buf := b ++ l; fed := f |}.
Proof.
  induction 1 as [|c l Hc Hl IH]; intros b f.
  - rewrite app_nil_r. reflexivity.
  - rewrite bfeed_cons, step_line by exact Hc. rewrite IH. rewrite <- app_assoc. reflexivity.
Qed.

(* exactly n data bytes complete the chunk body *)
Lemma step_body_last c b f :
  step {| acb := []; tm := TNum 1; pt := PBody; buf := b; fed := f |} c = idle (f ++ [b ++ [c]]).
Proof. reflexivity. Qed.

Lemma step_body_more c n b f : 1 < n ->
  step {| acb := []; tm := TNum n; pt := PBody; buf := b; fed := f |} c
  = {| acb := []; tm := TNum (n - 1); pt := PBody; buf := b ++ [c]; fed := f |}.
Proof.
  intro H. unfold step. cbn [pt tm]. destruct (n <=? 0) eqn:E1; [lia|]. destruct (n =? 1) eqn:E2; [lia|].
  reflexivity.
Qed.

Lemma bfeed_body d : d <> [] -> forall b f,
  bfeed {| acb := []; tm := TNum (zlen d); pt := PBody; buf := b; fed := f |} d
  = idle (f ++ [b ++ d]).
Proof.
  induction d as [|c d IH]; intros Hne b f; [congruence|].
  destruct d as [|c' d'].
  - rewrite bfeed_cons. change (zlen [c]) with 1. rewrite step_body_last. reflexivity.
  - rewrite bfeed_cons.
    assert (Hl : zlen (c :: c' :: d') = zlen (c' :: d') + 1) by (unfold zlen; cbn [length]; lia).
    pose proof (zlen_nonneg d') as Hp.
    assert (Hl2 : zlen (c' :: d') = zlen d' + 1) by (unfold zlen; cbn [length]; lia).
    rewrite step_body_more by lia.
    replace (zlen (c :: c' :: d') - 1) with (zlen (c' :: d')) by lia.
    rewrite IH by discriminate. rewrite <- app_assoc. reflexivity.
Qed.

Lemma step_cr s : pt s = PSize -> tm s = TStr -> acb s = [] -> step s 13 = with_acb s [13].
Proof. intros H1 H2 H3. unfold step. rewrite H1, H2, H3. reflexivity. Qed.

Lemma bfeed_size_line n f : 0 < n ->
  bfeed {| acb := []; tm := TStr; pt := PSize; buf := print_hex n; fed := f |} crlf
  = {| acb := []; tm := TNum n; pt := PBody; buf := []; fed := f |}.
Proof.
  intros Hn. unfold crlf. rewrite !bfeed_cons. unfold bfeed. cbn [fold_left].
  unfold step at 2. cbn [pt tm acb]. change (13 =? 13) with true. cbv iota.
  unfold step. cbn [with_acb pt tm acb buf fed]. change (10 =? 10) with true. cbv iota.
  unfold found. cbn [with_acb pt tm acb buf fed].
  pose proof (hex_fuel_nonempty (Z.to_nat (Z.log2 n)) n) as Hn0.
  pose proof (parse_size_print n ltac:(lia)) as Hp.
  unfold print_hex in *.
  destruct (hex_fuel (S (Z.to_nat (Z.log2 n))) n) as [|h t] eqn:E; [congruence|].
  rewrite Hp. destruct (n =? 0) eqn:E0; [lia|]. reflexivity.
Qed.

Lemma bfeed_crlf_idle f : bfeed (idle f) crlf = idle f.
Proof. reflexivity. Qed.

Lemma bfeed_chunk d f : d <> [] -> bfeed (idle f) (enc_chunk d) = idle (f ++ [d]).
Proof.
  intros Hne. unfold enc_chunk. rewrite !bfeed_app.
  assert (Hz : 0 < zlen d) by (destruct d; [congruence | unfold zlen; cbn [length]; lia]).
  unfold idle at 1. rewrite bfeed_collect_line.
  2:{ eapply Forall_impl; [|apply hex_fuel_chars; lia]. intros c Hc. apply (hexchar_props c Hc). }
  cbn [app]. rewrite bfeed_size_line by exact Hz.
  rewrite (bfeed_body d Hne [] f). cbn [app]. apply bfeed_crlf_idle.
Qed.

Lemma bfeed_open chunks : Forall (fun d => d <> []) chunks -> forall f,
  bfeed (idle f) (encode_open chunks) = idle (f ++ chunks).
Proof.
  induction 1 as [|d chunks Hd Hc IH]; intro f; unfold encode_open; simpl.
  - rewrite app_nil_r. reflexivity.
  - rewrite bfeed_app, bfeed_chunk by exact Hd. unfold encode_open in IH. rewrite IH.
    rewrite <- app_assoc. reflexivity.
Qed.

Lemma bfeed_final f :
  bfeed (idle f) enc_final = {| acb := []; tm := TStr; pt := PTrailer; buf := []; fed := f |}.
Proof. reflexivity. Qed.

(* round trip on the unsegmented stream, byte-wise machine *)
Theorem roundtrip_bytewise chunks :
  Forall (fun d => d <> []) chunks ->
  received (bfeed init_state (encode chunks)) = concat chunks /\
  fed (bfeed init_state (encode chunks)) = chunks /\
  received (bfeed init_state (encode_open chunks)) = concat chunks.
Proof.
  intros H. unfold encode. rewrite bfeed_app. change init_state with (idle []).
  rewrite bfeed_open by exact H. rewrite bfeed_final. simpl. auto.
Qed.

(* ====================================================================== *)
(* Part C: the buffer-wise asynchat loop IS the byte-wise machine           *)
(* ====================================================================== *)

Lemma bfeed_dead s l : pt s = PDead -> bfeed s l = s.
Proof.
  intro H. induction l as [|c l IH]; [reflexivity|].
  rewrite bfeed_cons. replace (step s c) with s; [exact IH|]. unfold step. rewrite H. reflexivity.
Qed.

Lemma found_with_acb s a : found (with_acb s a) = with_acb (found s) a.
Proof.
  destruct s as [a0 t p b f]. unfold found, with_acb. cbn [pt buf acb tm fed].
  destruct p; try reflexivity.
  destruct b as [|x b]; [reflexivity|].
  destruct (parse_size (x :: b)) as [n|]; [|reflexivity].
  destruct (n =? 0); reflexivity.
Qed.

Lemma found_acb s : acb (found s) = acb s.
Proof.
  destruct s as [a0 t p b f]. unfold found. cbn [pt buf acb tm fed].
  destruct p; try reflexivity.
  destruct b as [|x b]; [reflexivity|].
  destruct (parse_size (x :: b)) as [n|]; [|reflexivity].
  destruct (n =? 0); reflexivity.
Qed.

(* ---- numeric terminator *)
Lemma bfeed_num0 l : forall n p b f, n <= 0 -> p <> PDead ->
  bfeed {| acb := []; tm := TNum n; pt := p; buf := b; fed := f |} l
  = {| acb := []; tm := TNum n; pt := p; buf := b ++ l; fed := f |}.
Proof.
  induction l as [|c l IH]; intros n p b f Hn Hp.
  - rewrite app_nil_r. reflexivity.
  - rewrite bfeed_cons.
    replace (step {| acb := []; tm := TNum n; pt := p; buf := b; fed := f |} c)
      with {| acb := []; tm := TNum n; pt := p; buf := b ++ [c]; fed := f |}.
    + rewrite IH by assumption. rewrite <- app_assoc. reflexivity.
    + unfold step. cbn [pt tm]. destruct p; try congruence;
        (destruct (n <=? 0) eqn:E; [reflexivity | lia]).
Qed.

Lemma step_num_more c n p b f : 1 < n -> p <> PDead ->
  step {| acb := []; tm := TNum n; pt := p; buf := b; fed := f |} c
  = {| acb := []; tm := TNum (n - 1); pt := p; buf := b ++ [c]; fed := f |}.
Proof.
  intros H Hp. unfold step. cbn [pt tm].
  destruct p; try congruence;
    (destruct (n <=? 0) eqn:E1; [lia|]; destruct (n =? 1) eqn:E2; [lia|]; reflexivity).
Qed.

Lemma step_num_last c p b f : p <> PDead ->
  step {| acb := []; tm := TNum 1; pt := p; buf := b; fed := f |} c
  = found {| acb := []; tm := TNum 0; pt := p; buf := b ++ [c]; fed := f |}.
Proof. intros Hp. unfold step. cbn [pt tm]. destruct p; try congruence; reflexivity. Qed.

Lemma bfeed_num_partial l : forall n p b f, zlen l < n -> p <> PDead ->
  bfeed {| acb := []; tm := TNum n; pt := p; buf := b; fed := f |} l
  = {| acb := []; tm := TNum (n - zlen l); pt := p; buf := b ++ l; fed := f |}.
Proof.
  induction l as [|c l IH]; intros n p b f Hn Hp.
  - rewrite app_nil_r. change (zlen []) with 0. rewrite Z.sub_0_r. reflexivity.
  - assert (Hl : zlen (c :: l) = zlen l + 1) by (unfold zlen; cbn [length]; lia).
    pose proof (zlen_nonneg l) as H0.
    rewrite bfeed_cons, step_num_more by (assumption || lia).
    rewrite IH by (assumption || lia). rewrite <- app_assoc. cbn [app].
    f_equal. f_equal. lia.
Qed.

Lemma bfeed_num_complete l : forall p b f, l <> [] -> p <> PDead ->
  bfeed {| acb := []; tm := TNum (zlen l); pt := p; buf := b; fed := f |} l
  = found {| acb := []; tm := TNum 0; pt := p; buf := b ++ l; fed := f |}.
Proof.
  induction l as [|c l IH]; intros p b f Hne Hp; [congruence|].
  destruct l as [|c' l'].
  - rewrite bfeed_cons. change (zlen [c]) with 1. rewrite step_num_last by assumption. reflexivity.
  - assert (Hl : zlen (c :: c' :: l') = zlen (c' :: l') + 1) by (unfold zlen; cbn [length]; lia).
    assert (Hl2 : zlen (c' :: l') = zlen l' + 1) by (unfold zlen; cbn [length]; lia).
    pose proof (zlen_nonneg l') as H0.
    rewrite bfeed_cons, step_num_more by (assumption || lia).
    replace (zlen (c :: c' :: l') - 1) with (zlen (c' :: l')) by lia.
    rewrite IH by (assumption || discriminate). rewrite <- app_assoc. reflexivity.
Qed.

(* ---- CRLF terminator *)
Lemma ends_with_cr_cons x y l : ends_with_cr (x :: y :: l) = ends_with_cr (y :: l).
Proof. reflexivity. Qed.

Lemma removelast_cons x y (l : bytes) : removelast (x :: y :: l) = x :: removelast (y :: l).
Proof. reflexivity. Qed.

Lemma find_crlf_cons_none c d r :
  find_crlf (c :: d :: r) = None -> ((c =? 13) && (d =? 10) = false) /\ find_crlf (d :: r) = None.
Proof.
  cbn [find_crlf]. destruct ((c =? 13) && (d =? 10)); [discriminate|].
  intro H. split; [reflexivity|]. destruct r as [|e r']; [reflexivity|].
  cbn [find_crlf] in *. destruct ((d =? 13) && (e =? 10)); [discriminate|].
  destruct (match r' with [] => None | _ :: _ => _ end); [discriminate | reflexivity].
Qed.

(* the state reached on a CRLF-free input v: everything collected, except a
   final CR, which is held back *)
Definition crlf_free_result (p : part) (b : bytes) (f : list bytes) (v : bytes) : cstate :=
  if ends_with_cr v then {| acb := [13]; tm := TStr; pt := p; buf := b ++ removelast v; fed := f |}
  else {| acb := []; tm := TStr; pt := p; buf := b ++ v; fed := f |}.

Lemma step_str_idle c p b f : p <> PDead ->
  step {| acb := []; tm := TStr; pt := p; buf := b; fed := f |} c
  = if c =? 13 then {| acb := [13]; tm := TStr; pt := p; buf := b; fed := f |}
    else {| acb := []; tm := TStr; pt := p; buf := b ++ [c]; fed := f |}.
Proof. intro Hp. unfold step. cbn [pt tm acb]. destruct p; try congruence; destruct (c =? 13); reflexivity. Qed.

Lemma step_str_pend c p b f : p <> PDead ->
  step {| acb := [13]; tm := TStr; pt := p; buf := b; fed := f |} c
  = if c =? 10 then found {| acb := []; tm := TStr; pt := p; buf := b; fed := f |}
    else if c =? 13 then {| acb := [13]; tm := TStr; pt := p; buf := b ++ [13]; fed := f |}
    else {| acb := []; tm := TStr; pt := p; buf := b ++ [13; c]; fed := f |}.
Proof.
  intro Hp. unfold step. cbn [pt tm acb].
  destruct p; try congruence; destruct (c =? 10); try reflexivity; destruct (c =? 13); reflexivity.
Qed.

Lemma bfeed_crlf_free w : forall (pend : bool) p b f, p <> PDead ->
  find_crlf (if pend then 13 :: w else w) = None ->
  bfeed {| acb := if pend then [13] else []; tm := TStr; pt := p; buf := b; fed := f |} w
  = crlf_free_result p b f (if pend then 13 :: w else w).
Proof.
  induction w as [|c w IH]; intros pend p b f Hp Hf.
  - destruct pend; unfold crlf_free_result; cbn [ends_with_cr removelast bfeed fold_left];
      rewrite ?Z.eqb_refl, app_nil_r; reflexivity.
  - rewrite bfeed_cons. destruct pend.
    + (* a CR is held back *)
      apply find_crlf_cons_none in Hf. destruct Hf as [Hc Hf].
      rewrite Z.eqb_refl in Hc. cbn [andb] in Hc.
      rewrite step_str_pend by exact Hp. rewrite Hc.
      destruct (c =? 13) eqn:E13.
      * apply Z.eqb_eq in E13. subst c.
        rewrite (IH true p (b ++ [13]) f Hp Hf).
        unfold crlf_free_result. rewrite ends_with_cr_cons, removelast_cons.
        destruct (ends_with_cr (13 :: w)); rewrite <- app_assoc; reflexivity.
      * assert (Hw : find_crlf w = None).
        { destruct w as [|d w']; [reflexivity|]. apply find_crlf_cons_none in Hf. apply Hf. }
        rewrite (IH false p (b ++ [13; c]) f Hp Hw).
        unfold crlf_free_result. destruct w as [|d w'].
        -- cbn [ends_with_cr]. rewrite E13. rewrite app_nil_r. reflexivity.
        -- rewrite !ends_with_cr_cons, !removelast_cons.
           destruct (ends_with_cr (d :: w')); rewrite <- app_assoc; reflexivity.
    + rewrite step_str_idle by exact Hp. destruct (c =? 13) eqn:E13.
      * apply Z.eqb_eq in E13. subst c. exact (IH true p b f Hp Hf).
      * assert (Hw : find_crlf w = None).
        { destruct w as [|d w']; [reflexivity|]. apply find_crlf_cons_none in Hf. apply Hf. }
        rewrite (IH false p (b ++ [c]) f Hp Hw).
        unfold crlf_free_result. destruct w as [|d w'].
        -- cbn [ends_with_cr]. rewrite E13. rewrite app_nil_r. reflexivity.
        -- rewrite ends_with_cr_cons, removelast_cons.
           destruct (ends_with_cr (d :: w')); rewrite <- app_assoc; reflexivity.
Qed.

Lemma find_crlf_some a : forall idx, find_crlf a = Some idx ->
  exists pre rest, a = pre ++ 13 :: 10 :: rest /\ length pre = idx /\ find_crlf (pre ++ [13]) = None.
Proof.
  induction a as [|c r IH]; intros idx H; [discriminate|].
  destruct r as [|d r']; [discriminate|].
  cbn [find_crlf] in H. destruct ((c =? 13) && (d =? 10)) eqn:E.
  - inversion H; subst. apply andb_true_iff in E. destruct E as [E1 E2].
    apply Z.eqb_eq in E1. apply Z.eqb_eq in E2. subst. exists [], r'. repeat split; reflexivity.
  - change (match r' with [] => None | d0 :: l => _ end) with (find_crlf (d :: r')) in H.
    destruct (find_crlf (d :: r')) as [k|] eqn:Ek; [|discriminate]. inversion H; subst.
    destruct (IH k eq_refl) as [pre [rest [Ha [Hl Hn]]]].
    exists (c :: pre), rest. split; [cbn [app]; rewrite <- Ha; reflexivity|]. split; [cbn [length]; lia|].
    destruct pre as [|e pre'].
    + cbn [app] in *. inversion Ha; subst. cbn [find_crlf].
      destruct (c =? 13); reflexivity.
    + cbn [app] in *. inversion Ha; subst. cbn [find_crlf] in *. rewrite E. rewrite Hn. reflexivity.
Qed.

(* ---- the main lemma: the while loop on a buffer = the byte-wise machine on
        the same bytes *)
Lemma loop_bytewise fuel : forall s, (length (acb s) < fuel)%nat ->
  loop fuel s = bfeed (with_acb s []) (acb s).
Proof.
  induction fuel as [|fuel IH]; intros s Hlen; [lia|].
  destruct s as [a t p b f]. cbn [acb] in Hlen. unfold with_acb. cbn [acb tm pt buf fed].
  cbn [loop]. cbn [acb tm pt buf fed].
  destruct p eqn:Ep.
  4:{ rewrite bfeed_dead by reflexivity. reflexivity. }
  all: (destruct a as [|x a']; [reflexivity|]).
  all: set (a := x :: a') in *.
  all: assert (Hp : p <> PDead) by (rewrite Ep; discriminate).
  all: rewrite <- Ep in *; clear Ep.
  all: destruct t as [|n].
  (* the three live parts are handled alike; first CRLF mode, then numeric *)
  all: try (
    destruct (find_crlf a) as [idx|] eqn:Ef;
    [ destruct (find_crlf_some a idx Ef) as [pre [rest [Ha [Hl Hn]]]];
      assert (Hfirst : firstn idx a = pre)
        by (rewrite Ha, <- Hl; rewrite firstn_app, Nat.sub_diag, firstn_all; cbn [firstn]; apply app_nil_r);
      assert (Hskip : skipn (idx + 2) a = rest)
        by (rewrite Ha, <- Hl; rewrite skipn_app, skipn_all2 by lia;
            replace (length pre + 2 - length pre)%nat with 2%nat by lia; reflexivity);
      rewrite Hskip;
      assert (Hs1 : (match idx with O => {| acb := a; tm := TStr; pt := p; buf := b; fed := f |}
                     | S _ => collect {| acb := a; tm := TStr; pt := p; buf := b; fed := f |} (firstn idx a) end)
                    = {| acb := a; tm := TStr; pt := p; buf := b ++ pre; fed := f |})
        by (destruct idx; [destruct pre; [rewrite app_nil_r; reflexivity | discriminate]
                          | rewrite Hfirst; reflexivity]);
      rewrite Hs1; unfold with_acb; cbn [acb tm pt buf fed];
      rewrite IH by (rewrite found_acb; cbn [acb]; rewrite Ha in Hlen; rewrite app_length in Hlen; cbn [length] in Hlen; lia);
      rewrite found_acb; cbn [acb];
      rewrite <- found_with_acb; unfold with_acb; cbn [acb tm pt buf fed];
      rewrite Ha; replace (pre ++ 13 :: 10 :: rest) with ((pre ++ [13]) ++ 10 :: rest)
        by (rewrite <- app_assoc; reflexivity);
      rewrite bfeed_app;
      rewrite (bfeed_crlf_free (pre ++ [13]) false p b f Hp Hn);
      unfold crlf_free_result;
      assert (He : ends_with_cr (pre ++ [13]) = true)
        by (clear; induction pre as [|y pre IHp]; [reflexivity | destruct pre; [reflexivity | exact IHp]]);
      assert (Hr : removelast (pre ++ [13]) = pre) by (apply removelast_last);
      rewrite He, Hr; rewrite bfeed_cons, step_str_pend by exact Hp; reflexivity
    | rewrite (bfeed_crlf_free a false p b f Hp Ef); unfold crlf_free_result;
      destruct (ends_with_cr a) eqn:Ee;
      [ unfold a in *; destruct a' as [|y a''];
        [ cbn [ends_with_cr] in Ee; apply Z.eqb_eq in Ee; subst x; cbn [removelast]; rewrite app_nil_r; reflexivity
        | reflexivity ]
      | reflexivity ] ]).
  (* numeric terminator *)
  all: destruct (n <=? 0) eqn:En0;
    [ rewrite bfeed_num0 by (assumption || lia); reflexivity |].
  all: destruct (zlen a <? n) eqn:Elt;
    [ rewrite bfeed_num_partial by (assumption || lia); reflexivity |].
  all: assert (Hk : Z.min n (zlen a) = n) by lia; rewrite Hk.
  all: assert (Hsplit : a = firstn (Z.to_nat n) a ++ skipn (Z.to_nat n) a) by (symmetry; apply firstn_skipn).
  all: assert (Hfl : zlen (firstn (Z.to_nat n) a) = n)
         by (unfold zlen in *; rewrite firstn_length; lia).
  all: assert (Hfne : firstn (Z.to_nat n) a <> [])
         by (intro Hx; rewrite Hx in Hfl; change (zlen []) with 0 in Hfl; lia).
  all: unfold with_tm, with_acb, collect; cbn [acb tm pt buf fed].
  all: rewrite IH by (rewrite found_acb; cbn [acb]; rewrite skipn_length; unfold zlen in *; lia).
  all: rewrite found_acb; cbn [acb].
  all: rewrite <- found_with_acb; unfold with_acb; cbn [acb tm pt buf fed].
  all: rewrite Hsplit at 3; rewrite bfeed_app.
  all: replace (TNum n) with (TNum (zlen (firstn (Z.to_nat n) a))) by (rewrite Hfl; reflexivity).
  all: rewrite bfeed_num_complete by assumption; reflexivity.
Qed.

(* well-formed client states: between two reads ac_in_buffer is empty, or it
   is a single CR held back while the terminator is CRLF *)
Definition wfs (s : cstate) : Prop := acb s = [] \/ (acb s = [13] /\ tm s = TStr).

Lemma wfs_init : wfs init_state.
Proof. left. reflexivity. Qed.

Lemma step_wfs s c : wfs s -> wfs (step s c).
Proof.
  intros H. destruct s as [a t p b f]. unfold wfs in *. cbn [acb tm] in H.
  unfold step. cbn [pt tm acb].
  destruct p; try exact H.
  all: destruct t as [|n].
  all: try (destruct H as [H | [H1 H2]]; [|discriminate]; subst a;
            destruct (n <=? 0); [left; reflexivity|];
            destruct (n =? 1); [left; rewrite found_acb; reflexivity | left; reflexivity]).
  all: destruct H as [H | [H1 _]]; subst a.
  all: try (destruct (c =? 13); [right; split; reflexivity | left; reflexivity]).
  all: destruct (c =? 10); [left; rewrite found_acb; reflexivity|].
  all: destruct (c =? 13); [right; split; reflexivity | left; reflexivity].
Qed.

Lemma bfeed_wfs l : forall s, wfs s -> wfs (bfeed s l).
Proof.
  induction l as [|c l IH]; intros s H; [exact H|]. rewrite bfeed_cons. apply IH. apply step_wfs. exact H.
Qed.

(* handle_read on any received segment = the byte-wise machine on its bytes *)
Theorem hr_bytewise s data : wfs s -> hr s data = bfeed s data.
Proof.
  intros H. unfold hr. destruct (pt s) eqn:Ep.
  4:{ rewrite bfeed_dead by exact Ep. reflexivity. }
  all: rewrite loop_bytewise by (destruct s as [a0 t0 p0 b0 f0]; unfold with_acb; cbn [acb]; lia).
  all: destruct s as [a t p b f]; cbn [with_acb acb tm pt buf fed] in *; subst p.
  all: rewrite bfeed_app; f_equal.
  all: destruct H as [H | [H1 H2]]; cbn [acb tm] in *; subst; reflexivity.
Qed.

(* c16 decoder fragmentation invariance: feeding a then b = feeding a ++ b *)
Theorem hr_fragmentation s a b : wfs s -> hr (hr s a) b = hr s (a ++ b).
Proof.
  intros H. rewrite (hr_bytewise s a H). rewrite hr_bytewise by (apply bfeed_wfs; exact H).
  rewrite (hr_bytewise s (a ++ b) H). symmetry. apply bfeed_app.
Qed.

Lemma fold_hr_bytewise segs : forall s, wfs s -> fold_left hr segs s = bfeed s (concat segs).
Proof.
  induction segs as [|seg segs IH]; intros s H; [reflexivity|].
  cbn [fold_left concat]. rewrite hr_bytewise by exact H. rewrite IH by (apply bfeed_wfs; exact H).
  symmetry. apply bfeed_app.
Qed.

Theorem client_feed_bytewise segs : client_feed segs = bfeed init_state (concat segs).
Proof. apply fold_hr_bytewise. exact wfs_init. Qed.

(* any two segmentations of the same byte stream leave the client in the same state *)
Corollary client_feed_segmentation segs segs' :
  concat segs = concat segs' -> client_feed segs = client_feed segs'.
Proof. intro H. rewrite !client_feed_bytewise. rewrite H. reflexivity. Qed.

(* c16_chunk_roundtrip *)
Theorem chunk_roundtrip chunks segs :
  Forall (fun d => d <> []) chunks ->
  concat segs = encode chunks ->
  received (client_feed segs) = concat chunks /\ fed (client_feed segs) = chunks.
Proof.
  intros Hc Hs. rewrite client_feed_bytewise, Hs.
  destruct (roundtrip_bytewise chunks Hc) as [H1 [H2 _]]. split; assumption.
Qed.

(* the stream that stays open (no terminating chunk), as /logtail produces it *)
Theorem chunk_roundtrip_open chunks segs :
  Forall (fun d => d <> []) chunks ->
  concat segs = encode_open chunks ->
  received (client_feed segs) = concat chunks /\ fed (client_feed segs) = chunks.
Proof.
  intros Hc Hs. rewrite client_feed_bytewise, Hs. change init_state with (idle []).
  rewrite bfeed_open by exact Hc. split; reflexivity.
Qed.

(* ---- the whole stream: tail outputs -> producer chain -> any segmentation -> client *)
Definition live (o : out) : bool := match o with NotDone => false | _ => true end.
Definition wires (outs : list out) : list bytes := map wire (filter live outs).

Lemma chain_encode outs : concat (map chain_step outs) = encode_open (wires outs).
Proof.
  unfold encode_open, wires. induction outs as [|o outs IH]; [reflexivity|].
  cbn [map concat filter]. rewrite IH. destruct o; reflexivity.
Qed.

Lemma wires_delivered outs : concat (wires outs) = delivered outs.
Proof.
  unfold wires, delivered. induction outs as [|o outs IH]; [reflexivity|].
  cbn [map concat filter]. destruct o; cbn [live map concat wire]; rewrite IH; reflexivity.
Qed.

Theorem stream_end_to_end outs segs :
  (forall b, In (Data b) outs -> b <> []) ->
  concat segs = concat (map chain_step outs) ->
  received (client_feed segs) = delivered outs.
Proof.
  intros Hne Hs. rewrite chain_encode in Hs.
  destruct (chunk_roundtrip_open (wires outs) segs) as [H _]; [|exact Hs|].
  - unfold wires. apply Forall_forall. intros d Hd. apply in_map_iff in Hd.
    destruct Hd as [o [Ho Hin]]. apply filter_In in Hin. destruct Hin as [Hin Hl].
    destruct o; cbn [wire] in Ho; subst d.
    + apply Hne. exact Hin.
    + discriminate.
    + discriminate.
  - rewrite H. apply wires_delivered.
Qed.

(* the producer never hands an empty Data to the chain *)
Lemma more_data_nonempty fs p p' b : 0 <= sz p -> more fs p = (p', Data b) -> b <> [].
Proof.
  intros Hsz. unfold more.
  assert (Hf : 0 <= sz (follow fs p)).
  { unfold follow. destruct (path_ino fs) as [i|]; [|exact Hsz]. destruct (i =? ino p); [exact Hsz | cbn; lia]. }
  set (q := follow fs p) in *. set (c := content fs (ino q)).
  destruct (zlen c - sz q <? 0); [discriminate|].
  destruct (zlen c - sz q >? 0) eqn:E; [|discriminate].
  intro H. inversion H; subst. intro Hb.
  assert (Hlen : length (read_last c (zlen c - sz q)) = O) by (rewrite Hb; reflexivity).
  unfold read_last in Hlen. rewrite firstn_length, skipn_length in Hlen. unfold zlen in *. lia.
Qed.

Example ex_roundtrip :
  received (client_feed [[49; 13]; [10; 97; 13; 10; 50]; [13; 10; 13]; [10; 13; 10; 48; 13; 10; 13; 10]])
  = [97; 13; 10].
Proof. reflexivity. Qed.

Example ex_encode : encode [[97]; [13; 10]] = [49; 13; 10; 97; 13; 10; 50; 13; 10; 13; 10; 13; 10; 48; 13; 10; 13; 10].
Proof. reflexivity. Qed.

(* the stream stays open: after any fragmentation of the coding of non-empty
   chunks the client is back at "expect a chunk-size line" - it has seen no
   terminating chunk, it is not inside a chunk, nothing is held back *)
Theorem stream_stays_open chunks segs :
  Forall (fun d => d <> []) chunks ->
  concat segs = encode_open chunks ->
  client_feed segs = idle chunks.
Proof.
  intros Hc Hs. rewrite client_feed_bytewise, Hs. change init_state with (idle []).
  rewrite bfeed_open by exact Hc. reflexivity.
Qed.

(* whereas the terminating chunk moves the client to the trailer state *)
Theorem stream_terminated chunks segs :
  Forall (fun d => d <> []) chunks ->
  concat segs = encode chunks ->
  pt (client_feed segs) = PTrailer.
Proof.
  intros Hc Hs. rewrite client_feed_bytewise, Hs. unfold encode. rewrite bfeed_app.
  change init_state with (idle []). rewrite bfeed_open by exact Hc. rewrite bfeed_final. reflexivity.
Qed.
