(* Proofs about the readFile / tailFile model: the result is exactly the
   requested window of the file, for every content, offset and length. *)
From Coq Require Import ZArith List Bool Lia ZifyBool.
Import ListNotations.
Require Import SV.C16.LogRead.
Open Scope Z_scope.

(* The specification, independent of the implementation: d is the window of c
   that starts at byte `start` and has `n` bytes. *)
Definition window (c d : bytes) (start n : Z) : Prop :=
  zlen d = n /\
  forall i, 0 <= i < n -> nth_error d (Z.to_nat i) = nth_error c (Z.to_nat (start + i)).

Lemma zlen_nonneg c : 0 <= zlen c.
Proof. unfold zlen; lia. Qed.

Lemma nth_error_skipn {A} (l : list A) k i :
  nth_error (skipn k l) i = nth_error l (k + i).
Proof.
  revert l; induction k as [|k IH]; intros l; simpl; [reflexivity|].
  destruct l as [|x l]; simpl; [destruct i; reflexivity | apply IH].
Qed.

Lemma nth_error_firstn {A} (l : list A) k i :
  (i < k)%nat -> nth_error (firstn k l) i = nth_error l i.
Proof.
  revert l i; induction k as [|k IH]; intros l i H; [lia|].
  destruct l as [|x l]; simpl; [destruct i; reflexivity|].
  destruct i as [|i]; simpl; [reflexivity | apply IH; lia].
Qed.

Lemma py_read_some c pos k :
  0 <= pos -> 0 <= k ->
  window c (py_read c pos (Some k)) pos (Z.max 0 (Z.min (pos + k) (zlen c) - Z.min pos (zlen c))).
Proof.
  intros Hp Hk. unfold window, py_read, zlen. split.
  - rewrite firstn_length, skipn_length. lia.
  - intros i Hi. rewrite nth_error_firstn by lia.
    rewrite nth_error_skipn. f_equal. lia.
Qed.

Lemma py_read_none c pos :
  0 <= pos ->
  window c (py_read c pos None) pos (Z.max 0 (zlen c - pos)).
Proof.
  intros Hp. unfold window, py_read, zlen. split.
  - rewrite skipn_length. lia.
  - intros i Hi. rewrite nth_error_skipn. f_equal. lia.
Qed.

Lemma window_read c pos k s n :
  0 <= pos -> 0 <= k -> s = pos ->
  n = Z.max 0 (Z.min (pos + k) (zlen c) - Z.min pos (zlen c)) ->
  window c (py_read c pos (Some k)) s n.
Proof. intros Hp Hk -> ->. apply py_read_some; assumption. Qed.

Lemma window_nil c s n : n = 0 -> window c [] s n.
Proof. intros ->. split; [reflexivity | intros; lia]. Qed.

(* readFile: the four documented sign cases *)
Lemma read_pos_len c off len :
  0 <= off -> 0 < len ->
  exists d, read_file c off len = RData d /\
            window c d off (Z.max 0 (Z.min (off + len) (zlen c) - Z.min off (zlen c))).
Proof.
  intros Ho Hl. unfold read_file.
  replace (Z.abs off =? off) with true by lia.
  replace (Z.abs len =? len) with true by lia.
  replace (len =? 0) with false by lia.
  simpl. eexists; split; [reflexivity|]. apply py_read_some; lia.
Qed.

Lemma read_pos_zero c off :
  0 <= off ->
  exists d, read_file c off 0 = RData d /\ window c d off (Z.max 0 (zlen c - off)).
Proof.
  intros Ho. unfold read_file.
  replace (Z.abs off =? off) with true by lia.
  simpl. eexists; split; [reflexivity|]. apply py_read_none; lia.
Qed.

Lemma read_neg_zero c off :
  off < 0 ->
  exists d, read_file c off 0 = RData d /\
            window c d (Z.max 0 (zlen c + off)) (Z.min (- off) (zlen c)).
Proof.
  intros Ho. unfold read_file.
  replace (Z.abs off =? off) with false by lia.
  simpl. pose proof (zlen_nonneg c) as Hz.
  destruct (zlen c - Z.abs off <? 0) eqn:E.
  - idtac. eexists; split; [reflexivity|].
    apply window_read; lia.
  - idtac. eexists; split; [reflexivity|].
    apply window_read; lia.
Qed.

Lemma read_bad_args c off len :
  (off < 0 /\ len <> 0) \/ (0 <= off /\ len < 0) ->
  read_file c off len = RBadArgs.
Proof.
  intros [[Ho Hl]|[Ho Hl]]; unfold read_file.
  - replace (Z.abs off =? off) with false by lia.
    replace (len =? 0) with false by lia. reflexivity.
  - replace (Z.abs off =? off) with true by lia.
    replace (Z.abs len =? len) with false by lia. reflexivity.
Qed.

(* tailFile *)
Lemma tail_offset_overflow c off len :
  let '(_, o, v) := tail_file c off len in
  o = zlen c /\ (v = true <-> zlen c > off + len).
Proof.
  unfold tail_file.
  destruct ((if zlen c >? off + len then zlen c - 1 else off) + len >? zlen c).
  - split. reflexivity. rewrite Z.gtb_lt. lia.
  - split. reflexivity. rewrite Z.gtb_lt. lia.
Qed.

Lemma tail_data c off len :
  0 <= off -> 0 <= len ->
  let '(d, _, _) := tail_file c off len in
  if off >=? zlen c then d = []
  else window c d (zlen c - Z.min len (zlen c)) (Z.min len (zlen c)).
Proof.
  intros Ho Hl. pose proof (zlen_nonneg c) as Hz. unfold tail_file.
  destruct (zlen c >? off + len) eqn:Ov.
  - (* overflow: offset := sz - 1 *)
    idtac.
    replace (off >=? zlen c) with false by lia.
    destruct (zlen c - 1 + len >? zlen c) eqn:E1.
    + idtac.
      replace (zlen c - 1 >? zlen c - 1) with false by lia.
      replace (zlen c - len <? 0) with false by lia.
      replace (len <? 0) with false by lia.
      replace (len =? 0) with false by lia.
      apply window_read; lia.
    + idtac.
      replace (zlen c - 1 <? 0) with false by lia.
      replace (len <? 0) with false by lia.
      destruct (len =? 0) eqn:L0.
      * assert (len = 0) by lia. subst len. apply window_nil; lia.
      * idtac. assert (len = 1) by lia. subst len.
        apply window_read; lia.
  - idtac.
    destruct (off + len >? zlen c) eqn:E1.
    + idtac.
      destruct (off >? zlen c - 1) eqn:E2.
      * idtac.
        replace (off >=? zlen c) with true by lia.
        replace (zlen c - 0 <? 0) with false by lia.
        reflexivity.
      * idtac.
        replace (off >=? zlen c) with false by lia.
        replace (len <? 0) with false by lia.
        replace (len =? 0) with false by lia.
        destruct (zlen c - len <? 0) eqn:E3.
        -- idtac.
           apply window_read; lia.
        -- idtac.
           apply window_read; lia.
    + idtac. assert (off + len = zlen c) by lia.
      replace (off <? 0) with false by lia.
      replace (len <? 0) with false by lia.
      destruct (len =? 0) eqn:L0.
      * assert (len = 0) by lia. subst len.
        replace (off >=? zlen c) with true by lia. reflexivity.
      * idtac.
        replace (off >=? zlen c) with false by lia.
        apply window_read; lia.
Qed.

(* For arguments of any sign the call is total and returns a window of the
   file that ends at its end (possibly empty): never an error. *)
Lemma tail_total c off len :
  let '(d, _, _) := tail_file c off len in
  exists n, 0 <= n <= zlen c /\ window c d (zlen c - n) n.
Proof.
  pose proof (zlen_nonneg c) as Hz. unfold tail_file.
  set (o1 := if zlen c >? off + len then zlen c - 1 else off).
  destruct (o1 + len >? zlen c) eqn:E1.
  - idtac.
    set (l2 := if o1 >? zlen c - 1 then 0 else len).
    destruct (l2 <? 0) eqn:E2.
    + simpl. exists 0. split; [lia|]. apply window_nil; lia.
    + idtac.
      destruct (l2 =? 0) eqn:E3.
      * exists 0. split; [lia|]. apply window_nil; lia.
      * idtac.
        destruct (zlen c - l2 <? 0) eqn:E4.
        -- idtac. exists (zlen c). split; [lia|].
           apply window_read; lia.
        -- idtac. exists l2. split; [lia|].
           apply window_read; lia.
  - idtac.
    destruct (len <? 0) eqn:E2.
    + simpl. exists 0. split; [lia|]. apply window_nil; lia.
    + idtac.
      destruct (len =? 0) eqn:E3.
      * exists 0. split; [lia|]. apply window_nil; lia.
      * idtac.
        assert (Ho1: o1 + len <= zlen c) by lia.
        destruct (o1 <? 0) eqn:E4.
        -- (* impossible unless off < 0 and no overflow, so off+len >= sz, with o1 = off: then data = c[0:len], len <= sz - off ... *)
           idtac. subst o1.
           destruct (zlen c >? off + len) eqn:Ov.
           { (* empty file, negative offset *)
             exists 0. split; [lia|]. apply window_read; lia. }
           (* off + len = sz, off < 0 hence len > sz: reads the whole file *)
           exists (zlen c). split; [lia|].
           apply window_read; lia.
        -- idtac. subst o1.
           destruct (zlen c >? off + len) eqn:Ov.
           ++ idtac. assert (len = 1) by lia. subst len.
              exists 1. split; [lia|].
              apply window_read; lia.
           ++ idtac. assert (off + len = zlen c) by lia.
              exists len. split; [lia|].
              apply window_read; lia.
Qed.
