(* C15 - proofs about reloadConfig and supervisorctl update over the abstract daemon. *)
From Coq Require Import ZArith List Bool String Lia.
Import ListNotations.
Require Import SV.Common SV.C15.Gen_fields SV.C15.Diff SV.C15.DiffProofs SV.C15.Update.
Open Scope list_scope.
Open Scope Z_scope.

(* ------------------------------------------------------------ reread: frame *)

(* c15_reread_no_process_change *)
Theorem reread_no_process_change : forall p d,
  let (d', _) := reload_config p d in d_groups d' = d_groups d /\ d_live d' = d_live d.
Proof.
  intros [new|] d; simpl; [|split; reflexivity].
  destruct (reload_answer new (active_configs d)) as [[a c] r]. simpl. split; reflexivity.
Qed.

(* c15_cant_reread_frame *)
Theorem cant_reread_frame : forall d,
  reload_config ParseErr d = (d, AFault F_CANT_REREAD) /\
  forall kf args, do_update kf args ParseErr d =
                  ({| s_d := d; s_log := [(CReload, AFault F_CANT_REREAD)] |}, Escaped F_CANT_REREAD).
Proof. intro d. split; [reflexivity|]. intros. reflexivity. Qed.

(* what reloadConfig answers is the diff against the active configs, and the file is remembered *)
Theorem reread_answer : forall new d,
  let '(a, c, r) := reload_answer new (active_configs d) in
  reload_config (ParseOk new) d =
  ({| d_file := new; d_groups := d_groups d; d_live := d_live d |}, AReload a c r).
Proof.
  intros new d. unfold reload_config. destruct (reload_answer new (active_configs d)) as [[a c] r]. reflexivity.
Qed.

(* ------------------------------------------------------------ activation keeps a config "unchanged" *)

Lemma assoc_map_keys {V} (h : string -> V -> V) : forall (l : list (string * V)) n,
  assoc n (map (fun kv => (fst kv, h (fst kv) (snd kv))) l) = option_map (h n) (assoc n l).
Proof.
  induction l as [|[k v] l IH]; intro n; simpl; [reflexivity|].
  destruct (String.eqb k n) eqn:E; [|apply IH].
  apply String.eqb_eq in E. subst. reflexivity.
Qed.

Definition conc_val (nm : string -> bytes) (k : string) (v : fval) : fval :=
  if String.eqb k "stdout_logfile" || String.eqb k "stderr_logfile"
  then match v with FAuto => FVal (nm k) | FVal _ => v end
  else v.

Lemma concretize_attr_eq : forall nm kv, concretize_attr nm kv = (fst kv, conc_val nm (fst kv) (snd kv)).
Proof.
  intros nm [k v]. unfold concretize_attr, conc_val. simpl.
  destruct (String.eqb k "stdout_logfile" || String.eqb k "stderr_logfile"); [destruct v|]; reflexivity.
Qed.

Lemma pc_get_after_setuid : forall nm p n,
  pc_get (pc_after_setuid nm p) n = option_map (conc_val (nm p) n) (pc_get p n).
Proof.
  intros nm p n. unfold pc_get, pc_after_setuid. simpl.
  rewrite (map_ext _ (fun kv => (fst kv, conc_val (nm p) (fst kv) (snd kv)))) by (intro; apply concretize_attr_eq).
  apply assoc_map_keys.
Qed.

Lemma pc_after_setuid_instance : forall nm p, pc_wf p -> pc_instance p (pc_after_setuid nm p).
Proof.
  intros nm p [C W]. split; [reflexivity|].
  intros n Hn. specialize (W n (eq_fields_are_init n Hn)).
  destruct (pc_get p n) as [x|] eqn:E; [|contradiction].
  exists x, (conc_val (nm p) n x). rewrite pc_get_after_setuid, E. repeat split.
  unfold conc_val. destruct (String.eqb n "stdout_logfile" || String.eqb n "stderr_logfile"); [destruct x|]; auto.
Qed.

Definition gconc_val (nm : pconf -> string -> bytes) (k : string) (v : gval) : gval :=
  match v with GProcs ps => GProcs (map (pc_after_setuid nm) ps) | _ => v end.

Lemma gattr_after_setuid_eq : forall nm kv, gattr_after_setuid nm kv = (fst kv, gconc_val nm (fst kv) (snd kv)).
Proof. intros nm [k v]. destruct v; reflexivity. Qed.

Lemma g_get_after_setuid : forall nm g n,
  g_get (g_after_setuid nm g) n = option_map (gconc_val nm n) (g_get g n).
Proof.
  intros nm g n. unfold g_get, g_after_setuid. simpl.
  destruct (String.eqb n "name"); [reflexivity|].
  rewrite (map_ext _ (fun kv => (fst kv, gconc_val nm (fst kv) (snd kv)))) by (intro; apply gattr_after_setuid_eq).
  apply assoc_map_keys.
Qed.

Lemma g_after_setuid_instance : forall nm g, g_wf g -> g_instance g (g_after_setuid nm g).
Proof.
  intros nm g [C W]. split; [reflexivity|]. split; [reflexivity|].
  intros n Hn. destruct (W n Hn) as [v [E Wv]].
  exists v, (gconc_val nm n v). rewrite g_get_after_setuid, E. repeat split.
  destruct v as [e|ps|s]; simpl in *.
  - reflexivity.
  - split; [exact Wv|]. clear E. induction ps as [|p ps IH]; constructor.
    + apply pc_after_setuid_instance. inversion Wv; assumption.
    + apply IH. inversion Wv; assumption.
  - split; [reflexivity|exact Wv].
Qed.

(* c15_unchanged_empty: the file is parsed, its groups are activated (Automatic log files get
   names), the same file is parsed again: nothing is reported *)
Theorem unchanged_file_empty : forall nm file, NoDup (names file) -> Forall g_wf file ->
  diff_to_active file (map (g_after_setuid nm) file) = ([], [], []).
Proof.
  intros nm file ND W. apply unchanged_empty; try assumption.
  induction file as [|g l IH]; constructor.
  - apply g_after_setuid_instance. inversion W; assumption.
  - apply IH; [inversion ND; assumption|inversion W; assumption].
Qed.

(* ------------------------------------------------------------ lists of groups *)

Definition gnames (l : list group) : list bytes := map gr_name l.

Lemma mem_b_In : forall x l, mem_b x l = true <-> In x l.
Proof.
  intros x l. unfold mem_b. rewrite existsb_exists. split.
  - intros [y [Hy E]]. apply zlist_eqb_eq in E. subst. exact Hy.
  - intro H. exists x. split; [exact H|apply zlist_eqb_refl].
Qed.

Lemma mem_b_false : forall x l, mem_b x l = false <-> ~ In x l.
Proof.
  intros x l. split.
  - intros H Hin. apply mem_b_In in Hin. rewrite Hin in H. discriminate.
  - intro H. destruct (mem_b x l) eqn:E; [|reflexivity]. apply mem_b_In in E. contradiction.
Qed.

Lemma name_is_true : forall n g, name_is n g = true <-> gr_name g = n.
Proof. intros. unfold name_is. apply zlist_eqb_eq. Qed.

Lemma name_is_false : forall n g, name_is n g = false <-> gr_name g <> n.
Proof.
  intros n g. split.
  - intros H E. apply name_is_true in E. rewrite E in H. discriminate.
  - intro H. destruct (name_is n g) eqn:E; [|reflexivity]. apply name_is_true in E. contradiction.
Qed.

Lemma find_group_some : forall n l g, find_group n l = Some g -> In g l /\ gr_name g = n.
Proof.
  induction l as [|h l IH]; intros g H; simpl in H; [discriminate|].
  destruct (name_is n h) eqn:E.
  - inversion H; subst. split; [left; reflexivity|apply name_is_true; exact E].
  - destruct (IH g H) as [H1 H2]. split; [right; exact H1|exact H2].
Qed.

Lemma find_group_none : forall n l, find_group n l = None <-> ~ In n (gnames l).
Proof.
  induction l as [|h l IH]; simpl; [split; [intros _ []|reflexivity]|].
  destruct (name_is n h) eqn:E.
  - split; [discriminate|]. intro H. exfalso. apply H. left. apply name_is_true. exact E.
  - rewrite IH. apply name_is_false in E. split; [intros H [H'|H']; [contradiction|apply H; exact H']|].
    intros H H'. apply H. right. exact H'.
Qed.

Lemma find_group_in : forall n l, In n (gnames l) -> exists g, find_group n l = Some g.
Proof.
  intros n l H. destruct (find_group n l) as [g|] eqn:E; [exists g; reflexivity|].
  apply find_group_none in E. contradiction.
Qed.

Lemma find_group_unique : forall n l g g', NoDup (gnames l) ->
  find_group n l = Some g -> In g' l -> gr_name g' = n -> g' = g.
Proof.
  induction l as [|h l IH]; intros g g' ND F Hin Hn; [destruct Hin|].
  simpl in ND. inversion ND as [|? ? Hnin ND']; subst. simpl in F.
  destruct (name_is (gr_name g') h) eqn:E.
  - inversion F; subst. destruct Hin as [Hin|Hin]; [symmetry; exact Hin|].
    exfalso. apply Hnin. apply name_is_true in E. rewrite E. apply in_map. exact Hin.
  - destruct Hin as [Hin|Hin].
    + subst. apply name_is_false in E. contradiction.
    + apply (IH g g' ND' F Hin eq_refl).
Qed.

Lemma find_cfg_some : forall n l c, find_cfg n l = Some c -> In c l /\ g_name c = n.
Proof.
  induction l as [|h l IH]; intros c H; simpl in H; [discriminate|].
  destruct (zlist_eqb (g_name h) n) eqn:E.
  - inversion H; subst. split; [left; reflexivity|apply zlist_eqb_eq; exact E].
  - destruct (IH c H) as [H1 H2]. split; [right; exact H1|exact H2].
Qed.

Lemma find_cfg_in : forall n l, In n (names l) -> exists c, find_cfg n l = Some c.
Proof.
  induction l as [|h l IH]; intro H; [destruct H|]. simpl.
  destruct (zlist_eqb (g_name h) n) eqn:E; [exists h; reflexivity|].
  apply IH. destruct H as [H|H]; [|exact H]. subst. rewrite zlist_eqb_refl in E. discriminate.
Qed.

Lemma del_group_In : forall n l g, In g (del_group n l) <-> In g l /\ gr_name g <> n.
Proof.
  intros n l g. unfold del_group. rewrite filter_In, negb_true_iff, name_is_false. tauto.
Qed.

Lemma NoDup_map_filter {A B} (f : A -> B) (p : A -> bool) : forall l, NoDup (map f l) -> NoDup (map f (filter p l)).
Proof.
  induction l as [|x l IH]; intro ND; [constructor|]. simpl in *. inversion ND as [|? ? Hnin ND']; subst.
  destruct (p x); [|apply IH; exact ND']. simpl. constructor; [|apply IH; exact ND'].
  intro H. apply Hnin. apply in_map_iff in H. destruct H as [y [E Hy]]. apply filter_In in Hy.
  rewrite <- E. apply in_map. tauto.
Qed.

Lemma gnames_del : forall n l m, In m (gnames (del_group n l)) -> In m (gnames l) /\ m <> n.
Proof.
  intros n l m H. apply in_map_iff in H. destruct H as [g [E Hg]]. apply del_group_In in Hg.
  subst. split; [apply in_map; tauto|tauto].
Qed.

Lemma del_set_procs : forall n ps l, del_group n (set_procs n ps l) = del_group n l.
Proof.
  induction l as [|g l IH]; [reflexivity|]. unfold del_group, set_procs in *. simpl.
  destruct (name_is n g) eqn:E.
  - unfold name_is, gr_name in *. simpl. rewrite E. simpl. exact IH.
  - rewrite E. simpl. f_equal. exact IH.
Qed.

Lemma find_set_procs : forall n ps l g, find_group n l = Some g ->
  find_group n (set_procs n ps l) = Some {| gr_cfg := gr_cfg g; gr_procs := ps; gr_fresh := gr_fresh g |}.
Proof.
  induction l as [|h l IH]; intros g H; simpl in *; [discriminate|].
  destruct (name_is n h) eqn:E.
  - inversion H; subst. unfold name_is, gr_name in *. simpl. rewrite E. reflexivity.
  - rewrite E. apply IH. exact H.
Qed.

Lemma filter_filter {A} (f g : A -> bool) : forall l, filter f (filter g l) = filter (fun x => g x && f x) l.
Proof.
  induction l as [|x l IH]; [reflexivity|]. simpl. destruct (g x); simpl; [destruct (f x)|]; rewrite ?IH; reflexivity.
Qed.

Lemma filter_del : forall n r l,
  filter (fun g => negb (mem_b (gr_name g) r)) (del_group n l) = filter (fun g => negb (mem_b (gr_name g) (n :: r))) l.
Proof.
  intros. unfold del_group. rewrite filter_filter. apply filter_ext. intro g.
  simpl. unfold name_is. rewrite negb_orb. reflexivity.
Qed.

(* ------------------------------------------------------------ stopping a group *)

(* a process that stopProcessGroup will bring to a stopped state: its state is one of the
   seven other than STOPPING *)
Definition settles (p : proc) : Prop := In (p_state p) (RUNNING_STATES ++ STOPPED_STATES).
Definition stoppable (g : group) : Prop := forall p, In p (gr_procs g) -> settles p.

(* signature predicate of known finding C15-update-stopping *)
Definition has_stopping (g : group) : bool := existsb (fun p => Z.eqb (p_state p) PS_STOPPING) (gr_procs g).

Definition has_child (p : proc) : Prop := In (p_state p) [PS_STARTING; PS_RUNNING].

Lemma stop_proc_ok : forall kf p, (forall n, kf n = false) -> settles p ->
  let '(p', res, dead) := stop_proc kf p in
  unstopped p' = false /\ any_failed res = false /\ (has_child p -> In (p_pid p) dead).
Proof.
  intros kf [nm pid st] K Sp. unfold settles in Sp. cbn in Sp.
  destruct Sp as [S|[S|[S|[S|[S|[S|[S|[]]]]]]]]; subst st; unfold stop_proc; cbn; rewrite ?K; cbn;
    (split; [reflexivity|]); (split; [reflexivity|]); intro Hc; unfold has_child in Hc; cbn in Hc;
    try (destruct Hc as [Hc|[Hc|[]]]; discriminate); left; reflexivity.
Qed.

Lemma stop_procs_ok : forall kf l, (forall n, kf n = false) -> (forall p, In p l -> settles p) ->
  let '(ps, res, dead) := stop_procs kf l in
  existsb unstopped ps = false /\ any_failed res = false /\
  (forall p, In p l -> has_child p -> In (p_pid p) dead).
Proof.
  intros kf l K. induction l as [|p l IH]; intro H; simpl; [repeat split; intros ? []|].
  assert (forall q, In q l -> settles q) as Hl by (intros q Hq; apply H; right; exact Hq).
  specialize (IH Hl). destruct (stop_procs kf l) as [[ps res] dead]. destruct IH as [I1 [I2 I3]].
  pose proof (stop_proc_ok kf p K (H p (or_introl eq_refl))) as P.
  destruct (stop_proc kf p) as [[p' res'] dead']. destruct P as [P1 [P2 P3]].
  simpl. rewrite P1, I1. split; [reflexivity|]. split.
  - unfold any_failed in *. rewrite existsb_app, P2, I2. reflexivity.
  - intros q [Hq|Hq] Hc; apply in_or_app; [left; subst; apply P3; exact Hc|right; apply I3; assumption].
Qed.

Lemma live_filter_incl : forall dead live pid, In pid (filter (fun x => negb (mem_z x dead)) live) -> In pid live /\ ~ In pid dead.
Proof.
  intros dead live pid H. apply filter_In in H. destruct H as [H1 H2]. split; [exact H1|].
  intro Hd. apply negb_true_iff in H2. unfold mem_z in H2.
  assert (existsb (Z.eqb pid) dead = true) as E.
  { apply existsb_exists. exists pid. split; [exact Hd|apply Z.eqb_refl]. }
  rewrite E in H2. discriminate.
Qed.

(* ------------------------------------------------------------ what one RPC may touch *)

Definition keeps (n : bytes) (d d' : daemon) : Prop :=
  d_file d' = d_file d /\
  (forall g, In g (d_groups d) -> gr_name g <> n -> In g (d_groups d')) /\
  (forall pid, In pid (d_live d') -> In pid (d_live d)).

Lemma keeps_refl : forall n d, keeps n d d.
Proof. intros. repeat split; auto. Qed.

Lemma stop_group_keeps : forall kf n d, keeps n d (fst (stop_group kf n d)).
Proof.
  intros kf n d. unfold stop_group. destruct (find_group n (d_groups d)) as [g|]; [|apply keeps_refl].
  destruct (stop_procs (kf n) (gr_procs g)) as [[ps res] dead]. simpl. repeat split; simpl.
  - intros g' Hin Hn. unfold set_procs. apply in_map_iff. exists g'. split; [|exact Hin].
    apply name_is_false in Hn. rewrite Hn. reflexivity.
  - intros pid H. apply live_filter_incl in H. tauto.
Qed.

Lemma remove_group_keeps : forall n d, keeps n d (fst (remove_group n d)).
Proof.
  intros n d. unfold remove_group. destruct (find_group n (d_groups d)) as [g|]; [|apply keeps_refl].
  destruct (existsb unstopped (gr_procs g)); [apply keeps_refl|]. simpl. repeat split; simpl; auto.
  intros g' Hin Hn. apply del_group_In. tauto.
Qed.

Lemma add_group_keeps_all : forall n d,
  d_file (fst (add_group n d)) = d_file d /\
  (forall g, In g (d_groups d) -> In g (d_groups (fst (add_group n d)))) /\
  d_live (fst (add_group n d)) = d_live d.
Proof.
  intros n d. unfold add_group. destruct (find_cfg n (d_file d)) as [c|]; [|repeat split; auto].
  destruct (find_group n (d_groups d)); simpl; repeat split; auto.
  intros g H. apply in_or_app. left. exact H.
Qed.

Lemma add_group_keeps : forall n d, keeps n d (fst (add_group n d)).
Proof.
  intros n d. destruct (add_group_keeps_all n d) as [H1 [H2 H3]]. repeat split; auto.
  rewrite H3. auto.
Qed.

Lemma keeps_trans : forall n d1 d2 d3, keeps n d1 d2 -> keeps n d2 d3 -> keeps n d1 d3.
Proof.
  intros n d1 d2 d3 [A1 [A2 A3]] [B1 [B2 B3]]. repeat split.
  - rewrite B1. exact A1.
  - intros g H Hn. apply B2; [apply A2; assumption|exact Hn].
  - intros pid H. apply A3. apply B3. exact H.
Qed.

(* the frame of a whole loop: groups whose name the loop does not process are kept *)
Definition frame (untouched : bytes -> Prop) (d d' : daemon) : Prop :=
  d_file d' = d_file d /\
  (forall g, In g (d_groups d) -> untouched (gr_name g) -> In g (d_groups d')) /\
  (forall pid, In pid (d_live d') -> In pid (d_live d)).

Lemma frame_refl : forall u d, frame u d d.
Proof. intros. repeat split; auto. Qed.

Lemma frame_step : forall (u : bytes -> Prop) n d1 d2 d3,
  (forall m, u m -> m <> n) -> keeps n d1 d2 -> frame u d2 d3 -> frame u d1 d3.
Proof.
  intros u n d1 d2 d3 Hu [A1 [A2 A3]] [B1 [B2 B3]]. repeat split.
  - rewrite B1. exact A1.
  - intros g H Hg. apply B2; [|exact Hg]. apply A2; [exact H|]. apply Hu. exact Hg.
  - intros pid H. apply A3. apply B3. exact H.
Qed.

Definition passes (valid ns : list bytes) (m : bytes) : Prop := skip valid m = true \/ ~ In m ns.

Lemma passes_tail : forall valid n r m, passes valid (n :: r) m -> passes valid r m.
Proof. intros valid n r m [H|H]; [left; exact H|right; intro H'; apply H; right; exact H']. Qed.

Lemma passes_neq : forall valid n r m, skip valid n = false -> passes valid (n :: r) m -> m <> n.
Proof.
  intros valid n r m Hs [H|H] E; subst.
  - rewrite H in Hs. discriminate.
  - apply H. left. reflexivity.
Qed.

Lemma passes_weaken : forall valid n r, (forall m, passes valid (n :: r) m -> passes valid r m).
Proof. intros. eapply passes_tail. eassumption. Qed.

Lemma frame_weaken : forall (u u' : bytes -> Prop) d d', (forall m, u' m -> u m) -> frame u d d' -> frame u' d d'.
Proof. intros u u' d d' H [A1 [A2 A3]]. repeat split; auto. Qed.

Lemma rpc_d : forall c f s, s_d (fst (rpc c f s)) = fst (f (s_d s)).
Proof. intros. unfold rpc. destruct (f (s_d s)). reflexivity. Qed.

Lemma loop_removed_frame : forall kf valid ns s,
  frame (passes valid ns) (s_d s) (s_d (fst (loop_removed kf valid ns s))).
Proof.
  intros kf valid. induction ns as [|n r IH]; intro s; simpl; [apply frame_refl|].
  destruct (skip valid n) eqn:Sk.
  { eapply frame_weaken; [apply passes_weaken|apply IH]. }
  pose proof (rpc_d (CStop n) (stop_group kf n) s) as E1.
  destruct (rpc (CStop n) (stop_group kf n) s) as [s1 a1]. simpl in E1.
  assert (keeps n (s_d s) (s_d s1)) as K1 by (rewrite E1; apply stop_group_keeps).
  assert (forall m, passes valid (n :: r) m -> m <> n) as Hne by (intros m; apply passes_neq; exact Sk).
  destruct a1 as [|c0|? ? ?|res|]; simpl;
    try (eapply frame_step; [exact Hne|exact K1|apply frame_refl]).
  destruct (any_failed res).
  { eapply frame_step; [exact Hne|exact K1|]. eapply frame_weaken; [apply passes_weaken|apply IH]. }
  pose proof (rpc_d (CRemove n) (remove_group n) s1) as E2.
  destruct (rpc (CRemove n) (remove_group n) s1) as [s2 a2]. simpl in E2.
  assert (keeps n (s_d s1) (s_d s2)) as K2 by (rewrite E2; apply remove_group_keeps).
  destruct (fault_of a2); simpl.
  - eapply frame_step; [exact Hne|eapply keeps_trans; eassumption|apply frame_refl].
  - eapply frame_step; [exact Hne|eapply keeps_trans; eassumption|].
    eapply frame_weaken; [apply passes_weaken|apply IH].
Qed.

Lemma loop_changed_frame : forall kf valid ns s,
  frame (passes valid ns) (s_d s) (s_d (fst (loop_changed kf valid ns s))).
Proof.
  intros kf valid. induction ns as [|n r IH]; intro s; simpl; [apply frame_refl|].
  destruct (skip valid n) eqn:Sk.
  { eapply frame_weaken; [apply passes_weaken|apply IH]. }
  pose proof (rpc_d (CStop n) (stop_group kf n) s) as E1.
  destruct (rpc (CStop n) (stop_group kf n) s) as [s1 a1]. simpl in E1.
  assert (keeps n (s_d s) (s_d s1)) as K1 by (rewrite E1; apply stop_group_keeps).
  assert (forall m, passes valid (n :: r) m -> m <> n) as Hne by (intros m; apply passes_neq; exact Sk).
  destruct (fault_of a1); simpl.
  { eapply frame_step; [exact Hne|exact K1|apply frame_refl]. }
  pose proof (rpc_d (CRemove n) (remove_group n) s1) as E2.
  destruct (rpc (CRemove n) (remove_group n) s1) as [s2 a2]. simpl in E2.
  assert (keeps n (s_d s1) (s_d s2)) as K2 by (rewrite E2; apply remove_group_keeps).
  destruct (fault_of a2); simpl.
  { eapply frame_step; [exact Hne|eapply keeps_trans; eassumption|apply frame_refl]. }
  pose proof (rpc_d (CAdd n) (add_group n) s2) as E3.
  destruct (rpc (CAdd n) (add_group n) s2) as [s3 a3]. simpl in E3.
  assert (keeps n (s_d s2) (s_d s3)) as K3 by (rewrite E3; apply add_group_keeps).
  assert (keeps n (s_d s) (s_d s3)) as K by (eapply keeps_trans; [eapply keeps_trans|]; eassumption).
  destruct (fault_of a3); simpl.
  - eapply frame_step; [exact Hne|exact K|apply frame_refl].
  - eapply frame_step; [exact Hne|exact K|]. eapply frame_weaken; [apply passes_weaken|apply IH].
Qed.

Lemma loop_added_frame : forall valid ns s,
  frame (fun _ => True) (s_d s) (s_d (fst (loop_added valid ns s))).
Proof.
  intros valid. induction ns as [|n r IH]; intro s; simpl; [apply frame_refl|].
  destruct (skip valid n); [apply IH|].
  pose proof (rpc_d (CAdd n) (add_group n) s) as E1.
  destruct (rpc (CAdd n) (add_group n) s) as [s1 a1]. simpl in E1.
  destruct (add_group_keeps_all n (s_d s)) as [A1 [A2 A3]]. rewrite <- E1 in A1, A2, A3.
  assert (frame (fun _ => True) (s_d s) (s_d s1)) as F1.
  { repeat split; auto. intros pid H. rewrite <- A3. exact H. }
  destruct (fault_of a1); simpl; [exact F1|].
  specialize (IH s1). destruct F1 as [B1 [B2 B3]]. destruct IH as [C1 [C2 C3]]. repeat split.
  - rewrite C1. exact B1.
  - intros g H _. apply C2; [apply B2; auto|exact I].
  - intros pid H. apply B3. apply C3. exact H.
Qed.

Definition after_reload (kf : bytes -> bytes -> bool) (args : list bytes) (new : list gconf) (d : daemon)
           (a c r : list bytes) : st * outcome :=
  let s0 := {| s_d := {| d_file := new; d_groups := d_groups d; d_live := d_live d |};
               s_log := [(CReload, AReload a c r)] |} in
  let valid := valid_names args in
  let s1 := match valid with
            | [] => s0
            | _ => fst (rpc CInfo (fun d => (d, AInfo)) s0)
            end in
  let (s2, o2) := loop_removed kf valid r s1 in
  match o2 with
  | Escaped _ => (s2, o2)
  | Done =>
      let (s3, o3) := loop_changed kf valid c s2 in
      match o3 with
      | Escaped _ => (s3, o3)
      | Done => loop_added valid a s3
      end
  end.

Lemma do_update_unfold : forall kf args new d a c r,
  reload_answer new (active_configs d) = (a, c, r) ->
  do_update kf args (ParseOk new) d = after_reload kf args new d a c r.
Proof.
  intros kf args new d a c r H. unfold do_update. unfold rpc at 1. unfold reload_config.
  cbn [s_d s_log]. rewrite H. reflexivity.
Qed.

(* c15_update_named / frame of update: whatever happens (any stop outcome, any process states,
   a fault escaping), a group that reread did not report as changed or removed, or that the
   command line does not name, keeps its record (config, process records, pids), and update
   never makes a new live child appear in the model's live set *)
Theorem update_frame : forall kf args p d g,
  In g (d_groups d) ->
  match p with
  | ParseErr => True
  | ParseOk new =>
      let '(_, c, r) := reload_answer new (active_configs d) in
      skip (valid_names args) (gr_name g) = true \/ (~ In (gr_name g) c /\ ~ In (gr_name g) r)
  end ->
  In g (d_groups (s_d (fst (do_update kf args p d)))) /\
  (forall pid, In pid (d_live (s_d (fst (do_update kf args p d)))) -> In pid (d_live d)).
Proof.
  intros kf args p d g Hg Hc.
  destruct p as [new|]; [|simpl; auto].
  destruct (reload_answer new (active_configs d)) as [[a c] r] eqn:RA.
  rewrite (do_update_unfold kf args new d a c r RA). unfold after_reload.
  set (d1 := {| d_file := new; d_groups := d_groups d; d_live := d_live d |}).
  set (s0 := {| s_d := d1; s_log := [(CReload, AReload a c r)] |}).
  set (valid := valid_names args) in *.
  set (s1 := match valid with [] => s0 | _ :: _ => fst (rpc CInfo (fun d0 => (d0, AInfo)) s0) end).
  assert (s_d s1 = d1) as E1 by (unfold s1; destruct valid; reflexivity).
  assert (passes valid r (gr_name g) /\ passes valid c (gr_name g)) as [Pr Pc].
  { destruct Hc as [Hc|[Hc1 Hc2]]; split; try (left; exact Hc); right; assumption. }
  pose proof (loop_removed_frame kf valid r s1) as F2.
  destruct (loop_removed kf valid r s1) as [s2 o2]. simpl in F2. rewrite E1 in F2.
  destruct F2 as [_ [F2 L2]].
  assert (In g (d_groups (s_d s2))) as G2 by (apply F2; [exact Hg|exact Pr]).
  destruct o2; [|simpl; split; [exact G2|exact L2]].
  pose proof (loop_changed_frame kf valid c s2) as F3.
  destruct (loop_changed kf valid c s2) as [s3 o3]. simpl in F3. destruct F3 as [_ [F3 L3]].
  assert (In g (d_groups (s_d s3))) as G3 by (apply F3; [exact G2|exact Pc]).
  destruct o3; [|simpl; split; [exact G3|intros pid H; apply L2; apply L3; exact H]].
  pose proof (loop_added_frame valid a s3) as F4. destruct F4 as [_ [F4 L4]].
  split; [apply F4; [exact G3|exact I]|].
  intros pid H. apply L2. apply L3. apply L4. exact H.
Qed.

(* ------------------------------------------------------------ convergence *)

Lemma filter_true {A} (f : A -> bool) : forall l, (forall x, f x = true) -> filter f l = l.
Proof. induction l as [|x l IH]; intro H; [reflexivity|]. simpl. rewrite H, IH; auto. Qed.

Lemma stop_remove_ok : forall kf n d g,
  (forall a b, kf a b = false) -> NoDup (gnames (d_groups d)) ->
  In g (d_groups d) -> gr_name g = n -> stoppable g ->
  exists d1 res d2,
    stop_group kf n d = (d1, AResults res) /\ any_failed res = false /\
    remove_group n d1 = (d2, AOk) /\
    d_file d2 = d_file d /\ d_groups d2 = del_group n (d_groups d) /\
    (forall pid, In pid (d_live d2) -> In pid (d_live d)) /\
    (forall p, In p (gr_procs g) -> has_child p -> ~ In (p_pid p) (d_live d2)).
Proof.
  intros kf n d g K ND Hg Hn St.
  destruct (find_group_in n (d_groups d)) as [g' F]; [rewrite <- Hn; apply in_map; exact Hg|].
  assert (g = g') by (apply (find_group_unique n (d_groups d) g' g ND F Hg Hn)). subst g'.
  unfold stop_group. rewrite F.
  pose proof (stop_procs_ok (kf n) (gr_procs g) (K n) St) as P.
  destruct (stop_procs (kf n) (gr_procs g)) as [[ps res] dead]. destruct P as [P1 [P2 P3]].
  eexists. exists res. eexists. split; [reflexivity|]. split; [exact P2|].
  unfold remove_group. simpl. rewrite (find_set_procs n ps _ g F). simpl. rewrite P1.
  split; [reflexivity|]. simpl. split; [reflexivity|]. split; [apply del_set_procs|]. split.
  - intros pid H. apply live_filter_incl in H. tauto.
  - intros p Hp Hc H. apply live_filter_incl in H. destruct H as [_ H]. apply H. apply P3; assumption.
Qed.

Lemma gnames_filter_sub {f : group -> bool} : forall l m, In m (gnames (filter f l)) -> In m (gnames l).
Proof.
  intros l m H. apply in_map_iff in H. destruct H as [g [E Hg]]. apply filter_In in Hg. subst. apply in_map. tauto.
Qed.

Lemma loop_removed_ok : forall kf ns s,
  (forall a b, kf a b = false) -> NoDup ns -> NoDup (gnames (d_groups (s_d s))) ->
  (forall n, In n ns -> In n (gnames (d_groups (s_d s)))) ->
  (forall g, In g (d_groups (s_d s)) -> In (gr_name g) ns -> stoppable g) ->
  let (s', o) := loop_removed kf [] ns s in
  o = Done /\ d_file (s_d s') = d_file (s_d s) /\
  d_groups (s_d s') = filter (fun g => negb (mem_b (gr_name g) ns)) (d_groups (s_d s)) /\
  (forall pid, In pid (d_live (s_d s')) -> In pid (d_live (s_d s))) /\
  (forall g, In g (d_groups (s_d s)) -> In (gr_name g) ns ->
             forall p, In p (gr_procs g) -> has_child p -> ~ In (p_pid p) (d_live (s_d s'))).
Proof.
  intros kf ns. induction ns as [|n r IH]; intros s K NDn NDg Hex Hst.
  - simpl. repeat split; auto. symmetry. apply filter_true. reflexivity.
  - simpl. inversion NDn as [|? ? Hnr NDr]; subst.
    assert (In n (gnames (d_groups (s_d s)))) as Hn by (apply Hex; left; reflexivity).
    apply in_map_iff in Hn. destruct Hn as [g [Hgn Hg]].
    destruct (stop_remove_ok kf n (s_d s) g K NDg Hg Hgn (Hst g Hg (or_introl (eq_sym Hgn))))
      as [d1 [res [d2 [E1 [Fl [E2 [Ef [Eg [Li Lc]]]]]]]]].
    unfold rpc at 1. rewrite E1. cbv iota beta. rewrite Fl.
    unfold rpc at 1. cbn [s_d]. rewrite E2. cbn [fault_of].
    set (s2 := {| s_d := d2; s_log := _ |}).
    assert (NoDup (gnames (d_groups (s_d s2)))) as ND2.
    { simpl. rewrite Eg. apply NoDup_map_filter. exact NDg. }
    assert (forall m, In m r -> In m (gnames (d_groups (s_d s2)))) as Hex2.
    { intros m Hm. simpl. rewrite Eg. specialize (Hex m (or_intror Hm)).
      apply in_map_iff in Hex. destruct Hex as [g' [E' Hg']]. apply in_map_iff. exists g'. split; [exact E'|].
      apply del_group_In. split; [exact Hg'|]. rewrite E'. intro Emn. apply Hnr. rewrite <- Emn. exact Hm. }
    assert (forall g', In g' (d_groups (s_d s2)) -> In (gr_name g') r -> stoppable g') as Hst2.
    { intros g' Hg' Hr. simpl in Hg'. rewrite Eg in Hg'. apply del_group_In in Hg'. apply Hst; [tauto|right; exact Hr]. }
    specialize (IH s2 K NDr ND2 Hex2 Hst2).
    destruct (loop_removed kf [] r s2) as [s' o]. destruct IH as [I1 [I2 [I3 [I4 I5]]]].
    split; [exact I1|]. split; [rewrite I2; exact Ef|]. split; [rewrite I3; simpl; rewrite Eg; apply filter_del|].
    split; [intros pid H; apply Li; apply I4; exact H|].
    intros g' Hg' [Hm|Hm] p Hp Hc.
    + assert (g' = g).
      { destruct (find_group_in n (d_groups (s_d s))) as [g0 F]; [rewrite <- Hgn; apply in_map; exact Hg|].
        rewrite (find_group_unique n _ g0 g' NDg F Hg' (eq_sym Hm)).
        rewrite (find_group_unique n _ g0 g NDg F Hg Hgn). reflexivity. }
      subst g'. intro H. apply (Lc p Hp Hc). apply I4. exact H.
    + apply (I5 g'); try assumption. simpl. rewrite Eg. apply del_group_In. split; [exact Hg'|].
      intro E. rewrite E in Hm. contradiction.
Qed.

Lemma add_ok : forall n d c, find_cfg n (d_file d) = Some c -> ~ In n (gnames (d_groups d)) ->
  add_group n d = ({| d_file := d_file d; d_groups := d_groups d ++ [fresh_group c]; d_live := d_live d |}, AOk).
Proof.
  intros n d c F H. unfold add_group. rewrite F. apply find_group_none in H. rewrite H. reflexivity.
Qed.

Lemma fresh_name : forall c, gr_name (fresh_group c) = g_name c.
Proof. reflexivity. Qed.

Lemma NoDup_snoc {A} : forall (l : list A) x, NoDup l -> ~ In x l -> NoDup (l ++ [x]).
Proof.
  induction l as [|y l IH]; intros x ND H; simpl; [constructor; [intros []|constructor]|].
  inversion ND as [|? ? Hn ND']; subst. constructor.
  - intro Hin. apply in_app_or in Hin. destruct Hin as [Hin|[Hin|[]]]; [contradiction|]. subst. apply H. left. reflexivity.
  - apply IH; [exact ND'|]. intro Hx. apply H. right. exact Hx.
Qed.

Definition fresh_for (file : list gconf) (n : bytes) (g' : group) : Prop :=
  exists c, find_cfg n file = Some c /\ g' = fresh_group c.

Lemma fresh_for_names : forall file ns F, Forall2 (fresh_for file) ns F -> gnames F = ns.
Proof.
  induction 1 as [|n g' ns F [c [Hc Hg]] H IH]; [reflexivity|]. simpl. rewrite IH. f_equal.
  subst g'. rewrite fresh_name. apply find_cfg_some in Hc. tauto.
Qed.

Lemma loop_changed_ok : forall kf ns s,
  (forall a b, kf a b = false) -> NoDup ns -> NoDup (gnames (d_groups (s_d s))) ->
  (forall n, In n ns -> In n (gnames (d_groups (s_d s)))) ->
  (forall g, In g (d_groups (s_d s)) -> In (gr_name g) ns -> stoppable g) ->
  (forall n, In n ns -> In n (names (d_file (s_d s)))) ->
  let (s', o) := loop_changed kf [] ns s in
  o = Done /\ d_file (s_d s') = d_file (s_d s) /\
  (exists F, Forall2 (fresh_for (d_file (s_d s))) ns F /\
             d_groups (s_d s') = filter (fun g => negb (mem_b (gr_name g) ns)) (d_groups (s_d s)) ++ F) /\
  NoDup (gnames (d_groups (s_d s'))) /\
  (forall pid, In pid (d_live (s_d s')) -> In pid (d_live (s_d s))) /\
  (forall g, In g (d_groups (s_d s)) -> In (gr_name g) ns ->
             forall p, In p (gr_procs g) -> has_child p -> ~ In (p_pid p) (d_live (s_d s'))).
Proof.
  intros kf ns. induction ns as [|n r IH]; intros s K NDn NDg Hex Hst Hfile.
  - simpl. repeat split; auto. exists []. split; [constructor|]. rewrite app_nil_r. symmetry. apply filter_true. reflexivity.
  - simpl. inversion NDn as [|? ? Hnr NDr]; subst.
    assert (In n (gnames (d_groups (s_d s)))) as Hn by (apply Hex; left; reflexivity).
    apply in_map_iff in Hn. destruct Hn as [g [Hgn Hg]].
    destruct (stop_remove_ok kf n (s_d s) g K NDg Hg Hgn (Hst g Hg (or_introl (eq_sym Hgn))))
      as [d1 [res [d2 [E1 [Fl [E2 [Ef [Eg [Li Lc]]]]]]]]].
    destruct (find_cfg_in n (d_file (s_d s)) (Hfile n (or_introl eq_refl))) as [c Hc].
    assert (~ In n (gnames (d_groups d2))) as Hnot.
    { rewrite Eg. intro H. apply gnames_del in H. destruct H as [_ H]. apply H. reflexivity. }
    assert (find_cfg n (d_file d2) = Some c) as Hc2 by (rewrite Ef; exact Hc).
    pose proof (add_ok n d2 c Hc2 Hnot) as E3.
    unfold rpc at 1. rewrite E1. cbn [fault_of].
    unfold rpc at 1. cbn [s_d]. rewrite E2. cbn [fault_of].
    unfold rpc at 1. cbn [s_d]. rewrite E3. cbn [fault_of].
    set (s3 := {| s_d := _; s_log := _ |}).
    assert (d_groups (s_d s3) = del_group n (d_groups (s_d s)) ++ [fresh_group c]) as G3 by (simpl; rewrite Eg; reflexivity).
    assert (d_file (s_d s3) = d_file (s_d s)) as F3 by (simpl; exact Ef).
    assert (d_live (s_d s3) = d_live d2) as L3 by reflexivity.
    assert (g_name c = n) as Cn by (apply find_cfg_some in Hc; tauto).
    assert (NoDup (gnames (d_groups (s_d s3)))) as ND3.
    { rewrite G3. unfold gnames. rewrite map_app. simpl. apply NoDup_snoc.
      - apply NoDup_map_filter. exact NDg.
      - rewrite fresh_name, Cn. intro H. apply gnames_del in H. destruct H as [_ H]. apply H. reflexivity. }
    assert (forall m, In m r -> In m (gnames (d_groups (s_d s3)))) as Hex3.
    { intros m Hm. rewrite G3. unfold gnames. rewrite map_app. apply in_or_app. left.
      specialize (Hex m (or_intror Hm)).
      apply in_map_iff in Hex. destruct Hex as [g' [E' Hg']]. apply in_map_iff. exists g'. split; [exact E'|].
      apply del_group_In. split; [exact Hg'|]. rewrite E'. intro Emn. apply Hnr. rewrite <- Emn. exact Hm. }
    assert (forall g', In g' (d_groups (s_d s3)) -> In (gr_name g') r -> stoppable g') as Hst3.
    { intros g' Hg' Hr. rewrite G3 in Hg'. apply in_app_or in Hg'. destruct Hg' as [Hg'|[Hg'|[]]].
      - apply del_group_In in Hg'. apply Hst; [tauto|right; exact Hr].
      - subst g'. rewrite fresh_name, Cn in Hr. contradiction. }
    assert (forall m, In m r -> In m (names (d_file (s_d s3)))) as Hfile3.
    { intros m Hm. rewrite F3. apply Hfile. right. exact Hm. }
    specialize (IH s3 K NDr ND3 Hex3 Hst3 Hfile3).
    destruct (loop_changed kf [] r s3) as [s' o]. destruct IH as [I1 [I2 [[F [IF IG]] [I4 [I5 I6]]]]].
    split; [exact I1|]. split; [rewrite I2; exact F3|]. split.
    { exists (fresh_group c :: F). split.
      - constructor; [exists c; split; [exact Hc|reflexivity]|]. rewrite F3 in IF. exact IF.
      - rewrite IG, G3, filter_app, filter_del, <- app_assoc. f_equal. simpl.
        rewrite fresh_name, Cn. apply mem_b_false in Hnr. rewrite Hnr. reflexivity. }
    split; [exact I4|]. split; [intros pid H; apply Li; rewrite <- L3; apply I5; exact H|].
    intros g' Hg' [Hm|Hm] p Hp Hcld.
    + assert (g' = g).
      { destruct (find_group_in n (d_groups (s_d s))) as [g0 Fg]; [rewrite <- Hgn; apply in_map; exact Hg|].
        rewrite (find_group_unique n _ g0 g' NDg Fg Hg' (eq_sym Hm)).
        rewrite (find_group_unique n _ g0 g NDg Fg Hg Hgn). reflexivity. }
      subst g'. intro H. apply (Lc p Hp Hcld). rewrite <- L3. apply I5. exact H.
    + apply (I6 g'); try assumption. rewrite G3. apply in_or_app. left. apply del_group_In. split; [exact Hg'|].
      intro E. rewrite E in Hm. contradiction.
Qed.

Lemma loop_added_ok : forall ns s,
  NoDup ns -> NoDup (gnames (d_groups (s_d s))) ->
  (forall n, In n ns -> ~ In n (gnames (d_groups (s_d s)))) ->
  (forall n, In n ns -> In n (names (d_file (s_d s)))) ->
  let (s', o) := loop_added [] ns s in
  o = Done /\ d_file (s_d s') = d_file (s_d s) /\ d_live (s_d s') = d_live (s_d s) /\
  (exists F, Forall2 (fresh_for (d_file (s_d s))) ns F /\ d_groups (s_d s') = d_groups (s_d s) ++ F) /\
  NoDup (gnames (d_groups (s_d s'))).
Proof.
  induction ns as [|n r IH]; intros s NDn NDg Hnot Hfile.
  - simpl. repeat split; auto. exists []. split; [constructor|]. rewrite app_nil_r. reflexivity.
  - simpl. inversion NDn as [|? ? Hnr NDr]; subst.
    destruct (find_cfg_in n (d_file (s_d s)) (Hfile n (or_introl eq_refl))) as [c Hc].
    pose proof (add_ok n (s_d s) c Hc (Hnot n (or_introl eq_refl))) as E1.
    unfold rpc at 1. rewrite E1. cbn [fault_of].
    set (s1 := {| s_d := _; s_log := _ |}).
    assert (g_name c = n) as Cn by (apply find_cfg_some in Hc; tauto).
    assert (NoDup (gnames (d_groups (s_d s1)))) as ND1.
    { simpl. unfold gnames. rewrite map_app. simpl. apply NoDup_snoc; [exact NDg|].
      rewrite fresh_name, Cn. apply Hnot. left. reflexivity. }
    assert (forall m, In m r -> ~ In m (gnames (d_groups (s_d s1)))) as Hnot1.
    { intros m Hm H. simpl in H. unfold gnames in H. rewrite map_app in H. apply in_app_or in H.
      destruct H as [H|[H|[]]]; [apply (Hnot m (or_intror Hm)); exact H|].
      rewrite fresh_name, Cn in H. subst. contradiction. }
    assert (forall m, In m r -> In m (names (d_file (s_d s1)))) as Hfile1.
    { intros m Hm. simpl. apply Hfile. right. exact Hm. }
    specialize (IH s1 NDr ND1 Hnot1 Hfile1).
    destruct (loop_added [] r s1) as [s' o]. destruct IH as [I1 [I2 [I3 [[F [IF IG]] I5]]]].
    split; [exact I1|]. split; [rewrite I2; reflexivity|]. split; [rewrite I3; reflexivity|]. split; [|exact I5].
    exists (fresh_group c :: F). split.
    + constructor; [exists c; split; [exact Hc|reflexivity]|]. exact IF.
    + rewrite IG. simpl. rewrite <- app_assoc. reflexivity.
Qed.

Lemma names_active : forall d, names (active_configs d) = gnames (d_groups d).
Proof. intro d. unfold names, active_configs, gnames. rewrite map_map. reflexivity. Qed.

(* c15_update_converges *)
Theorem update_converges : forall kf new d args,
  (forall a b, kf a b = false) ->
  NoDup (gnames (d_groups d)) -> NoDup (names new) -> Forall g_wf new ->
  valid_names args = [] ->
  (let '(_, c, r) := reload_answer new (active_configs d) in
   forall g, In g (d_groups d) -> In (gr_name g) (c ++ r) -> stoppable g) ->
  let (s', o) := do_update kf args (ParseOk new) d in
  let d' := s_d s' in
  let '(a, c, r) := reload_answer new (active_configs d) in
  o = Done /\ d_file d' = new /\
  NoDup (gnames (d_groups d')) /\
  (forall n, In n (gnames (d_groups d')) <-> In n (names new)) /\
  (forall g', In g' (d_groups d') ->
     (In g' (d_groups d) /\ ~ In (gr_name g') (c ++ r) /\
      forall cf, In cf new -> g_name cf = gr_name g' -> g_py_ne cf (gr_cfg g') = false)
     \/ (exists cf, In cf new /\ In (g_name cf) (c ++ a) /\ g' = fresh_group cf)) /\
  (forall g, In g (d_groups d) -> ~ In (gr_name g) (c ++ r) -> In g (d_groups d')) /\
  (forall g, In g (d_groups d) -> In (gr_name g) (c ++ r) ->
     forall p, In p (gr_procs g) -> has_child p -> ~ In (p_pid p) (d_live d')).
Proof.
  intros kf new d args K NDg NDnew W Hvalid Hstop.
  set (cur := active_configs d) in *. set (gs := d_groups d) in *.
  assert (NoDup (names cur)) as NDcur by (unfold cur; rewrite names_active; exact NDg).
  destruct (reload_answer new cur) as [[a c] r] eqn:RA.
  rewrite (do_update_unfold kf args new d a c r RA). unfold after_reload. rewrite Hvalid.
  unfold reload_answer in RA. rewrite diff_spec in RA by assumption. injection RA as Ea Ec Er.
  (* facts about the three name lists *)
  assert (NoDup r) as NDr by (rewrite <- Er; apply NoDup_map_filter; exact NDcur).
  assert (NoDup c) as NDc by (rewrite <- Ec; apply NoDup_map_filter; exact NDnew).
  assert (NoDup a) as NDa by (rewrite <- Ea; apply NoDup_map_filter; exact NDnew).
  assert (forall n, In n r -> In n (gnames gs) /\ ~ In n (names new)) as Fr.
  { intros n H. rewrite <- Er in H. apply in_map_iff in H. destruct H as [o [E Ho]].
    apply spec_removed_In in Ho. subst n. split; [|tauto].
    unfold gs. rewrite <- names_active. apply in_map. tauto. }
  assert (forall n, In n c -> In n (gnames gs) /\ In n (names new)) as Fc.
  { intros n H. rewrite <- Ec in H. apply in_map_iff in H. destruct H as [g0 [E Hg0]].
    apply spec_changed_In in Hg0. destruct Hg0 as [Hin [o [Ho [En _]]]]. subst n. split.
    - unfold gs. rewrite <- names_active, <- En. apply in_map. exact Ho.
    - apply in_map. exact Hin. }
  assert (forall n, In n a -> ~ In n (gnames gs) /\ In n (names new)) as Fa.
  { intros n H. rewrite <- Ea in H. apply in_map_iff in H. destruct H as [g0 [E Hg0]].
    apply spec_added_In in Hg0. subst n. split; [unfold gs; rewrite <- names_active; tauto|apply in_map; tauto]. }
  cbv zeta. fold gs.
  set (s0 := {| s_d := {| d_file := new; d_groups := gs; d_live := d_live d |}; s_log := _ |}).
  (* removed *)
  pose proof (loop_removed_ok kf r s0 K NDr NDg (fun n H => proj1 (Fr n H))) as P2.
  assert (forall g, In g (d_groups (s_d s0)) -> In (gr_name g) r -> stoppable g) as St0.
  { intros g Hg Hr. apply Hstop; [exact Hg|apply in_or_app; right; exact Hr]. }
  specialize (P2 St0). destruct (loop_removed kf [] r s0) as [s2 o2].
  destruct P2 as [O2 [F2 [G2 [L2 C2]]]]. subst o2. simpl in F2, G2, L2, C2.
  (* changed *)
  assert (NoDup (gnames (d_groups (s_d s2)))) as ND2 by (rewrite G2; apply NoDup_map_filter; exact NDg).
  assert (forall n, In n c -> In n (gnames (d_groups (s_d s2)))) as Hex2.
  { intros n Hn. destruct (Fc n Hn) as [H1 H2]. apply in_map_iff in H1. destruct H1 as [g [E Hg]].
    rewrite G2. apply in_map_iff. exists g. split; [exact E|]. apply filter_In. split; [exact Hg|].
    apply negb_true_iff. apply mem_b_false. rewrite E. intro Hr. apply (proj2 (Fr n Hr)). exact H2. }
  assert (forall g, In g (d_groups (s_d s2)) -> In (gr_name g) c -> stoppable g) as St2.
  { intros g Hg Hc. rewrite G2 in Hg. apply filter_In in Hg. apply Hstop; [tauto|apply in_or_app; left; exact Hc]. }
  assert (forall n, In n c -> In n (names (d_file (s_d s2)))) as Hf2.
  { intros n Hn. rewrite F2. apply (proj2 (Fc n Hn)). }
  pose proof (loop_changed_ok kf c s2 K NDc ND2 Hex2 St2 Hf2) as P3.
  destruct (loop_changed kf [] c s2) as [s3 o3].
  destruct P3 as [O3 [F3 [[FC [FFC G3]] [ND3 [L3 C3]]]]]. subst o3.
  rewrite F2 in F3, FFC.
  pose proof (fresh_for_names _ _ _ FFC) as NFC.
  (* added *)
  assert (forall n, In n a -> ~ In n (gnames (d_groups (s_d s3)))) as Hnot3.
  { intros n Hn H. destruct (Fa n Hn) as [H1 H2]. rewrite G3 in H. unfold gnames in H. rewrite map_app in H.
    apply in_app_or in H. destruct H as [H|H].
    - apply gnames_filter_sub in H. rewrite G2 in H. apply gnames_filter_sub in H. contradiction.
    - fold (gnames FC) in H. rewrite NFC in H. apply H1. apply (proj1 (Fc n H)). }
  assert (forall n, In n a -> In n (names (d_file (s_d s3)))) as Hf3.
  { intros n Hn. rewrite F3. apply (proj2 (Fa n Hn)). }
  pose proof (loop_added_ok a s3 NDa ND3 Hnot3 Hf3) as P4.
  destruct (loop_added [] a s3) as [s4 o4].
  destruct P4 as [O4 [F4 [L4 [[FA [FFA G4]] ND4]]]]. subst o4.
  rewrite F3 in F4, FFA.
  pose proof (fresh_for_names _ _ _ FFA) as NFA.
  cbv zeta.
  (* shape of the final table *)
  set (kept := filter (fun g => negb (mem_b (gr_name g) c)) (filter (fun g => negb (mem_b (gr_name g) r)) gs)) in *.
  assert (d_groups (s_d s4) = (kept ++ FC) ++ FA) as G by (rewrite G4, G3, G2; reflexivity).
  assert (forall g, In g kept <-> In g gs /\ ~ In (gr_name g) r /\ ~ In (gr_name g) c) as Kept.
  { intro g. unfold kept. rewrite !filter_In, !negb_true_iff, !mem_b_false. tauto. }
  split; [reflexivity|]. split; [exact F4|]. split; [exact ND4|]. split.
  { (* names *)
    intro n. rewrite G. unfold gnames. rewrite !map_app. fold (gnames FC) (gnames FA) (gnames kept). rewrite NFC, NFA.
    split.
    - intro H. apply in_app_or in H. destruct H as [H|H]; [apply in_app_or in H; destruct H as [H|H]|].
      + apply in_map_iff in H. destruct H as [g [E Hg]]. apply Kept in Hg. destruct Hg as [Hg [Hr Hc]].
        destruct (has_name new n) eqn:HN; [apply has_name_In; exact HN|]. exfalso. apply Hr.
        rewrite <- Er. rewrite E. replace n with (g_name (gr_cfg g)) by exact E. apply in_map.
        apply spec_removed_In. split; [unfold cur, active_configs; apply in_map; exact Hg|].
        intro H. apply has_name_In in H. change (g_name (gr_cfg g)) with (gr_name g) in H. rewrite E, HN in H. discriminate.
      + apply (proj2 (Fc n H)).
      + apply (proj2 (Fa n H)).
    - intro H. destruct (has_name cur n) eqn:HC.
      + apply has_name_In in HC. unfold cur in HC. rewrite names_active in HC. fold gs in HC.
        destruct (mem_b n c) eqn:MC.
        * apply mem_b_In in MC. apply in_or_app. left. apply in_or_app. right. exact MC.
        * apply mem_b_false in MC. apply in_or_app. left. apply in_or_app. left.
          apply in_map_iff in HC. destruct HC as [g [E Hg]]. apply in_map_iff. exists g. split; [exact E|].
          apply Kept. rewrite E. repeat split; [exact Hg| |exact MC]. intro Hr. apply (proj2 (Fr n Hr)). exact H.
      + apply in_or_app. right. rewrite <- Ea. apply in_map_iff in H. destruct H as [g0 [E Hg0]].
        apply in_map_iff. exists g0. split; [exact E|]. apply spec_added_In. split; [exact Hg0|].
        intro Hn. apply has_name_In in Hn. rewrite E, HC in Hn. discriminate. }
  split.
  { (* every final group is an old untouched one, still equal to the file, or a fresh one of the file *)
    intros g' Hg'. rewrite G in Hg'. apply in_app_or in Hg'. destruct Hg' as [Hg'|Hg']; [apply in_app_or in Hg'; destruct Hg' as [Hg'|Hg']|].
    - left. apply Kept in Hg'. destruct Hg' as [Hg [Hr Hc]]. split; [exact Hg|]. split.
      + intro H. apply in_app_or in H. tauto.
      + intros cf Hcf En. destruct (g_py_ne cf (gr_cfg g')) eqn:NE; [|reflexivity]. exfalso. apply Hc.
        rewrite <- Ec, <- En. apply in_map. apply spec_changed_In. split; [exact Hcf|].
        exists (gr_cfg g'). split; [unfold cur, active_configs; apply in_map; exact Hg|]. split; [symmetry; exact En|exact NE].
    - right. destruct (Forall2_in_r _ _ _ FFC g' Hg') as [n [Hn [cf [Hcf E]]]].
      apply find_cfg_some in Hcf. exists cf. split; [tauto|]. split; [|exact E].
      apply in_or_app. left. destruct Hcf as [_ Hcf]. rewrite Hcf. exact Hn.
    - right. destruct (Forall2_in_r _ _ _ FFA g' Hg') as [n [Hn [cf [Hcf E]]]].
      apply find_cfg_some in Hcf. exists cf. split; [tauto|]. split; [|exact E].
      apply in_or_app. right. destruct Hcf as [_ Hcf]. rewrite Hcf. exact Hn. }
  split.
  { intros g Hg Hn. rewrite G. apply in_or_app. left. apply in_or_app. left. apply Kept.
    split; [exact Hg|]. split; intro H; apply Hn; apply in_or_app; [right|left]; exact H. }
  intros g Hg Hn p Hp Hc Hlive. rewrite L4 in Hlive.
  apply in_app_or in Hn. destruct Hn as [Hn|Hn].
  - apply (C3 g) with (p := p); try assumption. rewrite G2. apply filter_In. split; [exact Hg|].
    apply negb_true_iff. apply mem_b_false. intro Hr. apply (proj2 (Fr _ Hr)). apply (proj2 (Fc _ Hn)).
  - apply (C2 g Hg Hn p Hp Hc). apply L3. exact Hlive.
Qed.

(* c15_update_named: with group names on the command line (and no "all"), a group that is not
   named keeps its record whatever reread reported *)
Corollary update_named : forall kf args p d g,
  args <> [] -> ~ In ALL args ->
  In g (d_groups d) -> ~ In (gr_name g) args ->
  In g (d_groups (s_d (fst (do_update kf args p d)))).
Proof.
  intros kf args p d g Hne Hall Hg Hn.
  apply update_frame; [exact Hg|]. destruct p as [new|]; [|exact I].
  destruct (reload_answer new (active_configs d)) as [[a c] r]. left.
  unfold valid_names. apply mem_b_false in Hall. rewrite Hall.
  unfold skip. destruct args as [|x l]; [contradiction|].
  apply negb_true_iff. apply mem_b_false. exact Hn.
Qed.

(* and only named groups are added *)
Lemma loop_added_named : forall valid ns s g,
  valid <> [] -> In g (d_groups (s_d (fst (loop_added valid ns s)))) ->
  In g (d_groups (s_d s)) \/ In (gr_name g) valid.
Proof.
  intros valid. induction ns as [|n r IH]; intros s g Hv H; simpl in H; [left; exact H|].
  destruct (skip valid n) eqn:Sk; [apply IH; assumption|].
  pose proof (rpc_d (CAdd n) (add_group n) s) as E1.
  destruct (rpc (CAdd n) (add_group n) s) as [s1 a1]. simpl in E1.
  assert (In g (d_groups (s_d s1)) -> In g (d_groups (s_d s)) \/ In (gr_name g) valid) as Step.
  { rewrite E1. unfold add_group. destruct (find_cfg n (d_file (s_d s))) as [c|] eqn:Fc; [|auto].
    destruct (find_group n (d_groups (s_d s))); [auto|]. simpl. intro H1. apply in_app_or in H1.
    destruct H1 as [H1|[H1|[]]]; [left; exact H1|right]. subst g. rewrite fresh_name.
    apply find_cfg_some in Fc. destruct Fc as [_ Fc]. rewrite Fc.
    unfold skip in Sk. destruct valid; [contradiction|]. apply negb_false_iff in Sk. apply mem_b_In. exact Sk. }
  destruct (fault_of a1); simpl in H; [apply Step; exact H|].
  destruct (IH s1 g Hv H) as [H1|H1]; [apply Step; exact H1|right; exact H1].
Qed.

(* Known finding C15-update-stopping: a process of a changed group is STOPPING when update runs *)
Theorem update_converges_stopping_refuted :
  exists new d,
    NoDup (gnames (d_groups d)) /\ NoDup (names new) /\
    existsb has_stopping (d_groups d) = true /\
    let (s', o) := do_update (fun _ _ => false) [] (ParseOk new) d in
    o = Escaped F_STILL_RUNNING /\
    table (s_d s') = [([115], 0, false)] /\            (* the old group, old config, still there *)
    ~ In [110] (gnames (d_groups (s_d s'))).            (* and the added group never was added *)
Proof.
  pose (mk := fun i n v => Build_gconf i PGC n [("priority"%string, GVal v); ("process_configs"%string, GProcs [])]).
  exists [mk 100 [110] [1]; mk 101 [115] [2]],
         {| d_file := [mk 0 [115] [1]];
            d_groups := [{| gr_cfg := mk 0 [115] [1]; gr_procs := [{| p_name := [112]; p_pid := 7; p_state := PS_STOPPING |}];
                            gr_fresh := false |}];
            d_live := [7] |}.
  split; [repeat constructor; intros []|]. split; [repeat constructor; [intros [H|[]]; discriminate|intros []]|].
  split; [reflexivity|]. vm_compute. repeat split; try reflexivity. intros [H|[]]. discriminate.
Qed.

(* a run of update that converges, by computation: a changed (running), b kept (running),
   c removed (starting), n added *)
Example update_converges_ex :
  let mk := fun i n v => Build_gconf i PGC n [("priority"%string, GVal v); ("process_configs"%string, GProcs [])] in
  let grp := fun c pid st => {| gr_cfg := c; gr_procs := [{| p_name := [112]; p_pid := pid; p_state := st |}]; gr_fresh := false |} in
  let d := {| d_file := [mk 0 [97] [1]; mk 1 [98] [1]; mk 2 [99] [1]];
              d_groups := [grp (mk 0 [97] [1]) 5 PS_RUNNING; grp (mk 1 [98] [1]) 6 PS_RUNNING; grp (mk 2 [99] [1]) 7 PS_STARTING];
              d_live := [5; 6; 7] |} in
  let (s', o) := do_update (fun _ _ => false) [] (ParseOk [mk 100 [97] [2]; mk 101 [98] [1]; mk 102 [110] [1]]) d in
  o = Done /\ table (s_d s') = [([98], 1, false); ([97], 100, true); ([110], 102, true)] /\ d_live (s_d s') = [6] /\
  map fst (s_log s') = [CReload; CStop [99]; CRemove [99]; CStop [97]; CRemove [97]; CAdd [97]; CAdd [110]].
Proof. vm_compute. repeat split; reflexivity. Qed.
