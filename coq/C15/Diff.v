(* C15 - model of configuration equality and of Supervisor.diff_to_active.

   Transcribed from the working tree:
     supervisor/options.py    ProcessConfig.__eq__, ProcessGroupConfig.__eq__,
                              EventListenerPoolConfig.__eq__, FastCGIGroupConfig.__eq__,
                              Config.__ne__
     supervisor/datatypes.py  SocketConfig.__eq__/__ne__
     supervisor/supervisord.py diff_to_active
   Which attributes each __eq__ compares, the isinstance guards, the class
   parents and the delegation FastCGIGroupConfig -> ProcessGroupConfig come from
   the generated SV.C15.Gen_fields (translator gen/c15_fields.py), so the model
   follows the source when a field is added to or dropped from a comparison.

   Python values of attributes are canonically serialised byte strings (the
   harness' encoder is injective and respects Python ==: bool/int merged, dict
   items sorted); `FAuto` is the Automatic sentinel.  No proofs in this file. *)
From Coq Require Import ZArith List Bool String.
Import ListNotations.
Require Import SV.Common SV.C15.Gen_fields.
Open Scope Z_scope.

Definition bytes := list Z.

Inductive fval := FAuto | FVal (enc : bytes).

Definition is_auto (v : fval) : bool := match v with FAuto => true | FVal _ => false end.

Definition fval_eqb (a b : fval) : bool :=
  match a, b with
  | FAuto, FAuto => true
  | FVal x, FVal y => zlist_eqb x y
  | _, _ => false
  end.

Fixpoint assoc {V : Type} (n : string) (l : list (string * V)) : option V :=
  match l with
  | [] => None
  | (k, v) :: r => if String.eqb k n then Some v else assoc n r
  end.

(* ---- classes: isinstance through the generated parent table *)
Fixpoint subclass_fuel (fuel : nat) (c target : string) : bool :=
  if String.eqb c target then true
  else match fuel with
       | O => false
       | S f => match assoc c class_parent with
                | Some p => subclass_fuel f p target
                | None => false
                end
       end.

Definition isinstance (c target : string) : bool := subclass_fuel (List.length class_parent) c target.
Definition proper_subclass (c d : string) : bool := negb (String.eqb c d) && isinstance c d.

(* Python's `x == y` / `x != y` on instances: when type(y) is a proper subclass
   of type(x) the reflected method of y is tried first (CPython do_richcompare);
   none of the methods here returns NotImplemented. *)
Definition py_dispatch {A : Type} (cls : A -> string) (meth : A -> A -> bool) (x y : A) : bool :=
  if proper_subclass (cls y) (cls x) then meth y x else meth x y.

(* ---- process configs *)
Record pconf := { pc_class : string; pc_attrs : list (string * fval) }.

Definition pc_get (c : pconf) (n : string) : option fval := assoc n (pc_attrs c).

(* the loop of ProcessConfig.__eq__; a missing attribute (AttributeError in
   Python, impossible for objects built by __init__) counts as unequal *)
Fixpoint pc_fields_eqb (names : list string) (a b : pconf) : bool :=
  match names with
  | [] => true
  | n :: r =>
      match pc_get a n, pc_get b n with
      | Some x, Some y =>
          if is_auto x || is_auto y then pc_fields_eqb r a b
          else if fval_eqb x y then pc_fields_eqb r a b else false
      | _, _ => false
      end
  end.

Definition pc_eq_method (self other : pconf) : bool :=
  isinstance (pc_class other) pc_eq_isinstance && pc_fields_eqb pc_eq_fields self other.

Definition pc_py_eq (x y : pconf) : bool := py_dispatch pc_class pc_eq_method x y.

(* ---- socket configs *)
Record sconf := { s_class : string; s_attrs : list (string * fval) }.

Fixpoint s_attrs_eqb (names : list string) (a b : sconf) : bool :=
  match names with
  | [] => true
  | n :: r =>
      match assoc n (s_attrs a), assoc n (s_attrs b) with
      | Some x, Some y => fval_eqb x y && s_attrs_eqb r a b
      | _, _ => false
      end
  end.

(* serialisation of Python's None (harness/c15_real.py: enc(None) = b'N') *)
Definition enc_none : bytes := [78].

(* getattr(s, n, None) *)
Definition s_val (s : sconf) (n : string) : fval :=
  match assoc n (s_attrs s) with Some v => v | None => FVal enc_none end.

Fixpoint s_dflt_eqb (names : list string) (a b : sconf) : bool :=
  match names with
  | [] => true
  | n :: r => fval_eqb (s_val a n) (s_val b n) && s_dflt_eqb r a b
  end.

Definition s_eq_method (self other : sconf) : bool :=
  isinstance (s_class other) sock_eq_isinstance && s_attrs_eqb sock_eq_attrs self other
  && s_dflt_eqb sock_eq_attrs_dflt self other.

Definition s_py_eq (x y : sconf) : bool := py_dispatch s_class s_eq_method x y.

(* ---- group configs *)
Inductive gval :=
| GVal (enc : bytes)
| GProcs (l : list pconf)
| GSock (s : sconf).

(* `a == b` / `not (a != b)` on attribute values; lists compare elementwise *)
Definition gval_eqb (a b : gval) : bool :=
  match a, b with
  | GVal x, GVal y => zlist_eqb x y
  | GProcs x, GProcs y => list_eqb pc_py_eq x y
  | GSock x, GSock y => s_py_eq x y
  | _, _ => false
  end.

(* g_id is the identity of the Python object (bookkeeping for the update
   correspondence); it takes no part in any comparison *)
Record gconf := { g_id : Z; g_class : string; g_name : bytes; g_attrs : list (string * gval) }.

Definition g_get (g : gconf) (n : string) : option gval :=
  if String.eqb n "name" then Some (GVal (g_name g)) else assoc n (g_attrs g).

Fixpoint g_attrs_eqb (names : list string) (a b : gconf) : bool :=
  match names with
  | [] => true
  | n :: r =>
      match g_get a n, g_get b n with
      | Some x, Some y => gval_eqb x y && g_attrs_eqb r a b
      | _, _ => false
      end
  end.

(* which __eq__ a class defines: (isinstance guard, attributes compared, delegation) *)
Definition eq_table (cls : string) : option (string * list string * option string) :=
  if String.eqb cls "ProcessGroupConfig" then Some (pgc_eq_isinstance, pgc_eq_attrs, pgc_eq_super)
  else if String.eqb cls "EventListenerPoolConfig" then Some (pool_eq_isinstance, pool_eq_attrs, pool_eq_super)
  else if String.eqb cls "FastCGIGroupConfig" then Some (fcgi_eq_isinstance, fcgi_eq_attrs, fcgi_eq_super)
  else None.

Fixpoint g_eq_fuel (fuel : nat) (cls : string) (self other : gconf) : bool :=
  match eq_table cls with
  | None => false
  | Some (inst, attrs, sup) =>
      isinstance (g_class other) inst && g_attrs_eqb attrs self other &&
      match sup with
      | None => true
      | Some s => match fuel with O => false | S f => g_eq_fuel f s self other end
      end
  end.

(* self.__eq__(other), the method found on type(self) *)
Definition g_eq_method (self other : gconf) : bool := g_eq_fuel 3 (g_class self) self other.

(* `a == b` *)
Definition g_py_eq (a b : gconf) : bool := py_dispatch g_class g_eq_method a b.
(* `a != b`: Config.__ne__ is `not self.__eq__(other)`, same dispatch *)
Definition g_py_ne (a b : gconf) : bool := negb (g_py_eq a b).

(* ---- diff_to_active *)

(* dict(zip([c.name for c in l], l)).get(n): a later entry overrides an earlier one *)
Fixpoint dict_get (l : list gconf) (n : bytes) : option gconf :=
  match l with
  | [] => None
  | c :: r => match dict_get r n with
              | Some x => Some x
              | None => if zlist_eqb (g_name c) n then Some c else None
              end
  end.

Definition in_dict (l : list gconf) (n : bytes) : bool :=
  match dict_get l n with Some _ => true | None => false end.

Definition diff_to_active (new cur : list gconf) : list gconf * list gconf * list gconf :=
  let added := filter (fun c => negb (in_dict cur (g_name c))) new in
  let removed := filter (fun c => negb (in_dict new (g_name c))) cur in
  let changed := filter (fun c => g_py_ne c (match dict_get cur (g_name c) with Some o => o | None => c end)) new in
  (added, changed, removed).

Definition names (l : list gconf) : list bytes := map g_name l.

(* the value of reloadConfig after a successful parse *)
Definition reload_answer (new cur : list gconf) : list bytes * list bytes * list bytes :=
  let '(a, c, r) := diff_to_active new cur in (names a, names c, names r).

(* ---- constructors used by the correspondence (compact literals) *)
Definition mkpc (cls : string) (fields : list string) (vals : list fval) : pconf :=
  {| pc_class := cls; pc_attrs := combine fields vals |}.
Definition mksock (cls : string) (fields : list string) (vals : list fval) : sconf :=
  {| s_class := cls; s_attrs := combine fields vals |}.

Definition names3_eqb (x y : list bytes * list bytes * list bytes) : bool :=
  let '(a, b, c) := x in let '(a', b', c') := y in
  list_eqb zlist_eqb a a' && list_eqb zlist_eqb b b' && list_eqb zlist_eqb c c'.

(* case: (new, cur, what the real reloadConfig answered) *)
Definition check_reread (c : list gconf * list gconf * (list bytes * list bytes * list bytes)) : bool :=
  let '(new, cur, ans) := c in names3_eqb (reload_answer new cur) ans.

(* case: (a, b, real `a != b`, real `a.__eq__(b)`) *)
Definition check_ne (c : gconf * gconf * bool * bool) : bool :=
  let '(a, b, ne, eqm) := c in Bool.eqb (g_py_ne a b) ne && Bool.eqb (g_eq_method a b) eqm.

(* case: (p, q, real `p == q`) on process configs *)
Definition check_pc_eq (c : pconf * pconf * bool) : bool :=
  let '(p, q, e) := c in Bool.eqb (pc_py_eq p q) e.
