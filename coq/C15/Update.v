(* C15 - model of reloadConfig / addProcessGroup / removeProcessGroup /
   stopProcessGroup over an abstract daemon state, and of supervisorctl's
   do_update as the sequence of those RPCs.

   Transcribed from the working tree:
     supervisor/rpcinterface.py  reloadConfig, addProcessGroup, removeProcessGroup,
                                 stopProcessGroup (its net effect, see stop_procs)
     supervisor/supervisord.py   add_process_group, remove_process_group
     supervisor/options.py       ServerOptions.process_config (assigns
                                 process_group_configs only after a successful parse),
                                 ProcessConfig.create_autochildlogs (after_setuid)
     supervisor/supervisorctl.py do_update
   Abstractions (stated in notes/C15.md): the process-level machinery behind
   stopProcessGroup (signals, SIGKILL escalation, reaping) is summarised by its
   net effect per process, chosen by an oracle `kf` ("the kill of this process
   fails"); process records are (name, pid, state) in the order
   stopProcessGroup visits them; the names create_autochildlogs invents are a
   fixed placeholder; the supervisor mood test of every RPC (C12) is left out.
   No proofs in this file. *)
From Coq Require Import ZArith List Bool String.
Import ListNotations.
Require Import SV.Common SV.C15.Gen_fields SV.C15.Diff.
Open Scope list_scope.
Open Scope Z_scope.

(* ---- after_setuid: Automatic log files get concrete names, in place *)
Definition concretize_attr (nm : string -> bytes) (kv : string * fval) : string * fval :=
  let (k, v) := kv in
  if String.eqb k "stdout_logfile" || String.eqb k "stderr_logfile"
  then match v with FAuto => (k, FVal (nm k)) | FVal _ => kv end
  else kv.

Definition pc_after_setuid (nm : pconf -> string -> bytes) (p : pconf) : pconf :=
  {| pc_class := pc_class p; pc_attrs := map (concretize_attr (nm p)) (pc_attrs p) |}.

Definition gattr_after_setuid (nm : pconf -> string -> bytes) (kv : string * gval) : string * gval :=
  let (k, v) := kv in
  match v with
  | GProcs ps => (k, GProcs (map (pc_after_setuid nm) ps))
  | _ => kv
  end.

Definition g_after_setuid (nm : pconf -> string -> bytes) (g : gconf) : gconf :=
  {| g_id := g_id g; g_class := g_class g; g_name := g_name g;
     g_attrs := map (gattr_after_setuid nm) (g_attrs g) |}.

(* placeholder for options.get_autochildlog_name (a fresh mkstemp name in reality) *)
Definition autoname (p : pconf) (k : string) : bytes := [65].

(* ---- daemon state *)
Record proc := { p_name : bytes; p_pid : Z; p_state : Z }.
Record group := { gr_cfg : gconf; gr_procs : list proc; gr_fresh : bool }.
Definition gr_name (g : group) : bytes := g_name (gr_cfg g).

Record daemon := {
  d_file : list gconf;      (* options.process_group_configs: the file as last read *)
  d_groups : list group;    (* supervisord.process_groups, insertion order *)
  d_live : list Z           (* pids of live children *)
}.

Inductive parse := ParseOk (l : list gconf) | ParseErr.

Inductive call := CReload | CInfo | CStop (n : bytes) | CRemove (n : bytes) | CAdd (n : bytes).
Inductive answer :=
| AOk
| AFault (code : Z)
| AReload (a c r : list bytes)
| AResults (l : list (bytes * Z))
| AInfo.

Definition mem_z (x : Z) (l : list Z) : bool := existsb (Z.eqb x) l.
Definition mem_b (x : bytes) (l : list bytes) : bool := existsb (zlist_eqb x) l.
Definition name_is (n : bytes) (g : group) : bool := zlist_eqb (gr_name g) n.

Definition active_configs (d : daemon) : list gconf := map gr_cfg (d_groups d).

(* ---- reloadConfig *)
Definition reload_config (p : parse) (d : daemon) : daemon * answer :=
  match p with
  | ParseErr => (d, AFault F_CANT_REREAD)
  | ParseOk new =>
      let '(a, c, r) := reload_answer new (active_configs d) in
      ({| d_file := new; d_groups := d_groups d; d_live := d_live d |}, AReload a c r)
  end.

(* ---- addProcessGroup *)
Fixpoint find_cfg (n : bytes) (l : list gconf) : option gconf :=
  match l with
  | [] => None
  | c :: r => if zlist_eqb (g_name c) n then Some c else find_cfg n r
  end.

Fixpoint find_group (n : bytes) (l : list group) : option group :=
  match l with
  | [] => None
  | g :: r => if name_is n g then Some g else find_group n r
  end.

Definition pc_name (p : pconf) : bytes :=
  match pc_get p "name" with Some (FVal e) => e | _ => [] end.

Definition fresh_procs (c : gconf) : list proc :=
  match g_get c "process_configs" with
  | Some (GProcs ps) => map (fun p => {| p_name := pc_name p; p_pid := 0; p_state := PS_STOPPED |}) ps
  | _ => []
  end.

Definition fresh_group (c : gconf) : group :=
  let c' := g_after_setuid autoname c in
  {| gr_cfg := c'; gr_procs := fresh_procs c'; gr_fresh := true |}.

Definition add_group (n : bytes) (d : daemon) : daemon * answer :=
  match find_cfg n (d_file d) with
  | None => (d, AFault F_BAD_NAME)
  | Some c =>
      match find_group n (d_groups d) with
      | Some _ => (d, AFault F_ALREADY_ADDED)
      | None => ({| d_file := d_file d; d_groups := d_groups d ++ [fresh_group c]; d_live := d_live d |}, AOk)
      end
  end.

(* ---- removeProcessGroup *)
Definition unstopped (p : proc) : bool := negb (mem_z (p_state p) STOPPED_STATES).

Definition del_group (n : bytes) (l : list group) : list group := filter (fun g => negb (name_is n g)) l.

Definition remove_group (n : bytes) (d : daemon) : daemon * answer :=
  match find_group n (d_groups d) with
  | None => (d, AFault F_BAD_NAME)
  | Some g =>
      if existsb unstopped (gr_procs g) then (d, AFault F_STILL_RUNNING)
      else ({| d_file := d_file d; d_groups := del_group n (d_groups d); d_live := d_live d |}, AOk)
  end.

(* ---- stopProcessGroup(name, wait=True), net effect.
   Visited: processes with state in RUNNING_STATES (isRunning).  BACKOFF -> STOPPED
   without a signal.  STARTING/RUNNING: the child is signalled and (SIGKILL after
   stopwaitsecs at the latest) dies and is reaped: STOPPED, pid 0, result SUCCESS;
   if kill() raises (kf): UNKNOWN, pid kept, result FAILED.  A process already
   STOPPING is not visited (and so not waited for). *)
Definition stop_proc (kf : bytes -> bool) (p : proc) : proc * list (bytes * Z) * list Z :=
  if mem_z (p_state p) RUNNING_STATES then
    if Z.eqb (p_state p) PS_BACKOFF then
      ({| p_name := p_name p; p_pid := p_pid p; p_state := PS_STOPPED |}, [(p_name p, F_SUCCESS)], [])
    else if kf (p_name p) then
      ({| p_name := p_name p; p_pid := p_pid p; p_state := PS_UNKNOWN |}, [(p_name p, F_FAILED)], [])
    else
      ({| p_name := p_name p; p_pid := 0; p_state := PS_STOPPED |}, [(p_name p, F_SUCCESS)], [p_pid p])
  else (p, [], []).

Fixpoint stop_procs (kf : bytes -> bool) (l : list proc) : list proc * list (bytes * Z) * list Z :=
  match l with
  | [] => ([], [], [])
  | p :: r =>
      let '(p', res, dead) := stop_proc kf p in
      let '(r', res', dead') := stop_procs kf r in
      (p' :: r', res ++ res', dead ++ dead')
  end.

Definition set_procs (n : bytes) (ps : list proc) (l : list group) : list group :=
  map (fun g => if name_is n g then {| gr_cfg := gr_cfg g; gr_procs := ps; gr_fresh := gr_fresh g |} else g) l.

Definition stop_group (kf : bytes -> bytes -> bool) (n : bytes) (d : daemon) : daemon * answer :=
  match find_group n (d_groups d) with
  | None => (d, AFault F_BAD_NAME)
  | Some g =>
      let '(ps, res, dead) := stop_procs (kf n) (gr_procs g) in
      ({| d_file := d_file d; d_groups := set_procs n ps (d_groups d);
          d_live := filter (fun pid => negb (mem_z pid dead)) (d_live d) |}, AResults res)
  end.

(* ---- supervisorctl do_update *)
Record st := { s_d : daemon; s_log : list (call * answer) }.
Inductive outcome := Done | Escaped (code : Z).   (* Escaped: an xmlrpclib.Fault left do_update *)

Definition rpc (c : call) (f : daemon -> daemon * answer) (s : st) : st * answer :=
  let (d', a) := f (s_d s) in ({| s_d := d'; s_log := s_log s ++ [(c, a)] |}, a).

(* `if valid_gnames and gname not in valid_gnames: continue` *)
Definition skip (valid : list bytes) (n : bytes) : bool :=
  match valid with [] => false | _ => negb (mem_b n valid) end.

Definition any_failed (res : list (bytes * Z)) : bool := existsb (fun x => Z.eqb (snd x) F_FAILED) res.

Definition fault_of (a : answer) : option Z := match a with AFault c => Some c | _ => None end.

Fixpoint loop_removed (kf : bytes -> bytes -> bool) (valid : list bytes) (ns : list bytes) (s : st) : st * outcome :=
  match ns with
  | [] => (s, Done)
  | n :: r =>
      if skip valid n then loop_removed kf valid r s
      else
        let (s1, a1) := rpc (CStop n) (stop_group kf n) s in
        match a1 with
        | AFault c => (s1, Escaped c)
        | AResults res =>
            if any_failed res then loop_removed kf valid r s1      (* "has problems; not removing" *)
            else
              let (s2, a2) := rpc (CRemove n) (remove_group n) s1 in
              match fault_of a2 with
              | Some c => (s2, Escaped c)
              | None => loop_removed kf valid r s2
              end
        | _ => (s1, Done)
        end
  end.

Fixpoint loop_changed (kf : bytes -> bytes -> bool) (valid : list bytes) (ns : list bytes) (s : st) : st * outcome :=
  match ns with
  | [] => (s, Done)
  | n :: r =>
      if skip valid n then loop_changed kf valid r s
      else
        let (s1, a1) := rpc (CStop n) (stop_group kf n) s in
        match fault_of a1 with
        | Some c => (s1, Escaped c)
        | None =>
            let (s2, a2) := rpc (CRemove n) (remove_group n) s1 in
            match fault_of a2 with
            | Some c => (s2, Escaped c)
            | None =>
                let (s3, a3) := rpc (CAdd n) (add_group n) s2 in
                match fault_of a3 with
                | Some c => (s3, Escaped c)
                | None => loop_changed kf valid r s3
                end
            end
        end
  end.

Fixpoint loop_added (valid : list bytes) (ns : list bytes) (s : st) : st * outcome :=
  match ns with
  | [] => (s, Done)
  | n :: r =>
      if skip valid n then loop_added valid r s
      else
        let (s1, a1) := rpc (CAdd n) (add_group n) s in
        match fault_of a1 with
        | Some c => (s1, Escaped c)
        | None => loop_added valid r s1
        end
  end.

Definition ALL : bytes := [97; 108; 108].

Definition valid_names (args : list bytes) : list bytes := if mem_b ALL args then [] else args.

Definition do_update (kf : bytes -> bytes -> bool) (args : list bytes) (p : parse) (d : daemon) : st * outcome :=
  let (s0, a0) := rpc CReload (reload_config p) {| s_d := d; s_log := [] |} in
  match a0 with
  | AReload added changed removed =>
      let valid := valid_names args in
      let s1 := match valid with
                | [] => s0
                | _ => fst (rpc CInfo (fun d => (d, AInfo)) s0)     (* getAllProcessInfo: messages only *)
                end in
      let (s2, o2) := loop_removed kf valid removed s1 in
      match o2 with
      | Escaped c => (s2, o2)
      | Done =>
          let (s3, o3) := loop_changed kf valid changed s2 in
          match o3 with
          | Escaped c => (s3, o3)
          | Done => loop_added valid added s3
          end
      end
  | AFault c => (s0, Escaped c)
  | _ => (s0, Done)
  end.

(* ---- comparison with the real run (correspondence) *)
Definition call_eqb (a b : call) : bool :=
  match a, b with
  | CReload, CReload => true
  | CInfo, CInfo => true
  | CStop x, CStop y => zlist_eqb x y
  | CRemove x, CRemove y => zlist_eqb x y
  | CAdd x, CAdd y => zlist_eqb x y
  | _, _ => false
  end.

Definition res_eqb (x y : bytes * Z) : bool := zlist_eqb (fst x) (fst y) && Z.eqb (snd x) (snd y).

Definition answer_eqb (a b : answer) : bool :=
  match a, b with
  | AOk, AOk => true
  | AInfo, AInfo => true
  | AFault x, AFault y => Z.eqb x y
  | AReload a1 c1 r1, AReload a2 c2 r2 => names3_eqb (a1, c1, r1) (a2, c2, r2)
  | AResults x, AResults y => list_eqb res_eqb x y
  | _, _ => false
  end.

Definition event_eqb (x y : call * answer) : bool := call_eqb (fst x) (fst y) && answer_eqb (snd x) (snd y).

Definition outcome_eqb (a b : outcome) : bool :=
  match a, b with
  | Done, Done => true
  | Escaped x, Escaped y => Z.eqb x y
  | _, _ => false
  end.

(* observed final table: (group name, id of its config object, group object is new) *)
Definition table (d : daemon) : list (bytes * Z * bool) :=
  map (fun g => (gr_name g, g_id (gr_cfg g), gr_fresh g)) (d_groups d).

Definition row_eqb (x y : bytes * Z * bool) : bool :=
  let '(n, i, f) := x in let '(n', i', f') := y in zlist_eqb n n' && Z.eqb i i' && Bool.eqb f f'.

Definition kf_of (l : list (bytes * bytes)) (g p : bytes) : bool :=
  existsb (fun x => zlist_eqb (fst x) g && zlist_eqb (snd x) p) l.

(* case: kill-failure list, command arguments, parse result, initial daemon,
         observed RPC log, observed escape, observed final table *)
Definition check_update
  (c : list (bytes * bytes) * list bytes * parse * daemon *
       list (call * answer) * outcome * list (bytes * Z * bool)) : bool :=
  let '(kfl, args, p, d, log, out, tab) := c in
  let (s, o) := do_update (kf_of kfl) args p d in
  list_eqb event_eqb (s_log s) log && outcome_eqb o out && list_eqb row_eqb (table (s_d s)) tab.
