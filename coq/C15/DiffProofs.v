(* C15 - specification and proofs about configuration equality and diff_to_active. *)
From Coq Require Import ZArith List Bool String Lia.
Import ListNotations.
Require Import SV.Common SV.C15.Gen_fields SV.C15.Diff.
Open Scope list_scope.
Open Scope Z_scope.

(* ------------------------------------------------------------ basics *)

Lemma zlist_eqb_refl : forall a, zlist_eqb a a = true.
Proof. intro a. apply zlist_eqb_eq. reflexivity. Qed.

Lemma zlist_eqb_false : forall a b, a <> b -> zlist_eqb a b = false.
Proof.
  intros a b H. destruct (zlist_eqb a b) eqn:E; [|reflexivity].
  apply zlist_eqb_eq in E. contradiction.
Qed.

Lemma zlist_eqb_sym : forall a b, zlist_eqb a b = zlist_eqb b a.
Proof.
  intros a b. destruct (zlist_eqb a b) eqn:E.
  - apply zlist_eqb_eq in E. subst. symmetry. apply zlist_eqb_refl.
  - destruct (zlist_eqb b a) eqn:E2; [|reflexivity].
    apply zlist_eqb_eq in E2. subst. rewrite zlist_eqb_refl in E. discriminate.
Qed.

Lemma fval_eqb_eq : forall a b, fval_eqb a b = true <-> a = b.
Proof.
  intros [|x] [|y]; simpl; split; intro H; try reflexivity; try discriminate.
  - apply zlist_eqb_eq in H. subst. reflexivity.
  - inversion H. apply zlist_eqb_refl.
Qed.

Lemma fval_eqb_refl : forall a, fval_eqb a a = true.
Proof. intro a. apply fval_eqb_eq. reflexivity. Qed.

Lemma fval_eqb_sym : forall a b, fval_eqb a b = fval_eqb b a.
Proof.
  intros a b. destruct (fval_eqb a b) eqn:E.
  - apply fval_eqb_eq in E. subst. symmetry. apply fval_eqb_refl.
  - destruct (fval_eqb b a) eqn:E2; [|reflexivity].
    apply fval_eqb_eq in E2. subst. rewrite fval_eqb_refl in E. discriminate.
Qed.

Lemma list_eqb_refl {A} (eqb : A -> A -> bool) :
  forall l, (forall x, In x l -> eqb x x = true) -> list_eqb eqb l l = true.
Proof.
  induction l as [|x l IH]; simpl; intro H; [reflexivity|].
  rewrite H by (left; reflexivity). simpl. apply IH. intros y Hy. apply H. right. exact Hy.
Qed.

Lemma list_eqb_length {A} (eqb : A -> A -> bool) :
  forall a b, list_eqb eqb a b = true -> List.length a = List.length b.
Proof.
  induction a as [|x a IH]; destruct b as [|y b]; simpl; intro H; try reflexivity; try discriminate.
  apply andb_true_iff in H. destruct H as [_ H]. f_equal. apply IH. exact H.
Qed.

Lemma list_eqb_Forall2 {A} (eqb : A -> A -> bool) :
  forall a b, list_eqb eqb a b = true <-> Forall2 (fun x y => eqb x y = true) a b.
Proof.
  induction a as [|x a IH]; destruct b as [|y b]; simpl; split; intro H;
    try reflexivity; try discriminate; try constructor; try (inversion H; fail).
  - apply andb_true_iff in H. tauto.
  - apply andb_true_iff in H. apply IH. tauto.
  - inversion H; subst. apply andb_true_iff. split; [assumption|]. apply IH. assumption.
Qed.

(* inclusion of generated string lists, decided by computation *)
Definition str_mem (s : string) (l : list string) : bool := existsb (String.eqb s) l.
Definition str_incl (a b : list string) : bool := forallb (fun s => str_mem s b) a.

Lemma str_mem_In : forall s l, str_mem s l = true -> In s l.
Proof.
  intros s l H. unfold str_mem in H. apply existsb_exists in H. destruct H as [x [Hx E]].
  apply String.eqb_eq in E. subst. exact Hx.
Qed.

Lemma str_incl_In : forall a b, str_incl a b = true -> forall s, In s a -> In s b.
Proof.
  intros a b H s Hs. unfold str_incl in H. rewrite forallb_forall in H.
  apply str_mem_In. apply H. exact Hs.
Qed.

(* ------------------------------------------------------------ process configs *)

(* pointwise meaning of ProcessConfig.__eq__: every compared attribute exists on both
   sides and is equal unless one side is Automatic *)
Definition field_agrees (a b : pconf) (n : string) : Prop :=
  exists x y, pc_get a n = Some x /\ pc_get b n = Some y /\ (x = FAuto \/ y = FAuto \/ x = y).

Lemma pc_fields_eqb_spec : forall names a b,
  pc_fields_eqb names a b = true <-> (forall n, In n names -> field_agrees a b n).
Proof.
  induction names as [|n r IH]; intros a b; simpl.
  - split; [intros _ n []|reflexivity].
  - destruct (pc_get a n) as [x|] eqn:Ea; destruct (pc_get b n) as [y|] eqn:Eb.
    + destruct (is_auto x || is_auto y) eqn:Eau.
      * rewrite IH. split.
        -- intros H m [Hm|Hm]; [subst m|apply H; exact Hm].
           exists x, y. repeat split; try assumption.
           apply orb_true_iff in Eau. destruct Eau as [E|E]; [destruct x|destruct y]; simpl in E; try discriminate; auto.
        -- intros H m Hm. apply H. right. exact Hm.
      * destruct (fval_eqb x y) eqn:Exy.
        -- rewrite IH. split.
           ++ intros H m [Hm|Hm]; [subst m|apply H; exact Hm].
              exists x, y. apply fval_eqb_eq in Exy. auto.
           ++ intros H m Hm. apply H. right. exact Hm.
        -- split; [discriminate|]. intro H.
           destruct (H n (or_introl eq_refl)) as [x' [y' [Hx [Hy Hd]]]].
           rewrite Ea in Hx. rewrite Eb in Hy. inversion Hx; inversion Hy; subst x' y'.
           apply orb_false_iff in Eau. destruct Eau as [E1 E2].
           destruct Hd as [Hd|[Hd|Hd]]; subst; simpl in *; try discriminate.
           rewrite fval_eqb_refl in Exy. discriminate.
    + split; [discriminate|]. intro H. destruct (H n (or_introl eq_refl)) as [x' [y' [_ [Hy _]]]].
      rewrite Eb in Hy. discriminate.
    + split; [discriminate|]. intro H. destruct (H n (or_introl eq_refl)) as [x' [y' [Hx _]]].
      rewrite Ea in Hx. discriminate.
    + split; [discriminate|]. intro H. destruct (H n (or_introl eq_refl)) as [x' [y' [Hx _]]].
      rewrite Ea in Hx. discriminate.
Qed.

Lemma field_agrees_sym : forall a b n, field_agrees a b n -> field_agrees b a n.
Proof.
  intros a b n [x [y [Hx [Hy Hd]]]]. exists y, x. repeat split; try assumption.
  destruct Hd as [H|[H|H]]; auto.
Qed.

Lemma pc_fields_eqb_sym : forall names a b, pc_fields_eqb names a b = pc_fields_eqb names b a.
Proof.
  intros names a b.
  destruct (pc_fields_eqb names a b) eqn:E1; destruct (pc_fields_eqb names b a) eqn:E2; try reflexivity.
  - rewrite pc_fields_eqb_spec in E1. assert (pc_fields_eqb names b a = true) as H.
    { apply pc_fields_eqb_spec. intros n Hn. apply field_agrees_sym. apply E1. exact Hn. }
    rewrite H in E2. discriminate.
  - rewrite pc_fields_eqb_spec in E2. assert (pc_fields_eqb names a b = true) as H.
    { apply pc_fields_eqb_spec. intros n Hn. apply field_agrees_sym. apply E2. exact Hn. }
    rewrite H in E1. discriminate.
Qed.

(* a ProcessConfig object as __init__ builds it *)
Definition is_process_class (c : string) : Prop :=
  c = "ProcessConfig"%string \/ c = "EventListenerConfig"%string \/ c = "FastCGIProcessConfig"%string.

Definition pc_wf (p : pconf) : Prop :=
  is_process_class (pc_class p) /\ forall n, In n pc_init_fields -> pc_get p n <> None.

Lemma process_class_isinstance : forall c, is_process_class c -> isinstance c pc_eq_isinstance = true.
Proof. intros c [H|[H|H]]; subst; vm_compute; reflexivity. Qed.

(* every attribute a process config has is compared (breaks when the comparison drops a list) *)
Lemma init_fields_compared : forall f, In f pc_init_fields -> In f pc_eq_fields.
Proof. apply str_incl_In. vm_compute. reflexivity. Qed.

Lemma eq_fields_are_init : forall f, In f pc_eq_fields -> In f pc_init_fields.
Proof. apply str_incl_In. vm_compute. reflexivity. Qed.

(* the documented per-process options, as attribute names (docs/configuration.rst, [program:x]);
   numprocs/numprocs_start/process_name show up as the number and the names of the configs *)
Definition documented_process_attrs : list string :=
  ["name"; "command"; "directory"; "umask"; "priority"; "autostart"; "autorestart"; "startsecs";
   "startretries"; "exitcodes"; "stopsignal"; "stopwaitsecs"; "stopasgroup"; "killasgroup"; "uid";
   "redirect_stderr"; "stdout_logfile"; "stdout_logfile_maxbytes"; "stdout_logfile_backups";
   "stdout_capture_maxbytes"; "stdout_events_enabled"; "stdout_syslog"; "stderr_logfile";
   "stderr_logfile_maxbytes"; "stderr_logfile_backups"; "stderr_capture_maxbytes";
   "stderr_events_enabled"; "stderr_syslog"; "environment"; "serverurl"]%string.

Lemma documented_attrs_compared : forall f, In f documented_process_attrs -> In f pc_eq_fields.
Proof. apply str_incl_In. vm_compute. reflexivity. Qed.

Lemma pc_py_eq_cases : forall a b,
  pc_py_eq a b = pc_eq_method a b \/ pc_py_eq a b = pc_eq_method b a.
Proof. intros a b. unfold pc_py_eq, py_dispatch. destruct (proper_subclass _ _); auto. Qed.

(* the value of `a == b` for two well-formed process configs, pointwise *)
Lemma pc_py_eq_spec : forall a b, pc_wf a -> pc_wf b ->
  (pc_py_eq a b = true <-> forall n, In n pc_eq_fields -> field_agrees a b n).
Proof.
  intros a b [Ca _] [Cb _].
  assert (pc_eq_method a b = pc_fields_eqb pc_eq_fields a b) as E1.
  { unfold pc_eq_method. rewrite (process_class_isinstance _ Cb). reflexivity. }
  assert (pc_eq_method b a = pc_fields_eqb pc_eq_fields a b) as E2.
  { unfold pc_eq_method. rewrite (process_class_isinstance _ Ca). rewrite andb_true_l. apply pc_fields_eqb_sym. }
  destruct (pc_py_eq_cases a b) as [E|E]; rewrite E; [rewrite E1|rewrite E2]; apply pc_fields_eqb_spec.
Qed.

Lemma pc_py_eq_refl : forall a, pc_wf a -> pc_py_eq a a = true.
Proof.
  intros a Ha. apply pc_py_eq_spec; try assumption.
  intros n Hn. destruct Ha as [_ Ha]. specialize (Ha n (eq_fields_are_init n Hn)).
  destruct (pc_get a n) as [x|] eqn:E; [|contradiction].
  exists x, x. auto.
Qed.

(* c15_any_option_detected, process level *)
Theorem any_option_detected : forall f a b x y,
  In f pc_init_fields ->
  pc_get a f = Some (FVal x) -> pc_get b f = Some (FVal y) -> x <> y ->
  pc_py_eq a b = false.
Proof.
  intros f a b x y Hf Ha Hb Hxy.
  assert (forall p q, pc_get p f = Some (FVal x) -> pc_get q f = Some (FVal y) -> pc_eq_method p q = false
                      /\ pc_eq_method q p = false) as K.
  { intros p q Hp Hq.
    assert (pc_fields_eqb pc_eq_fields p q = false) as F.
    { destruct (pc_fields_eqb pc_eq_fields p q) eqn:E; [|reflexivity].
      rewrite pc_fields_eqb_spec in E. destruct (E f (init_fields_compared f Hf)) as [x' [y' [Hx [Hy Hd]]]].
      rewrite Hp in Hx. rewrite Hq in Hy. inversion Hx; inversion Hy; subst.
      destruct Hd as [Hd|[Hd|Hd]]; try discriminate. inversion Hd. contradiction. }
    unfold pc_eq_method. split.
    - rewrite F. apply andb_false_r.
    - rewrite pc_fields_eqb_sym. rewrite F. apply andb_false_r. }
  destruct (K a b Ha Hb) as [K1 K2].
  destruct (pc_py_eq_cases a b) as [E|E]; rewrite E; assumption.
Qed.

Example any_option_detected_ex :
  let a := mkpc "ProcessConfig" pc_eq_fields (map (fun _ => FVal [78]) pc_eq_fields) in
  let b := mkpc "ProcessConfig" pc_eq_fields
                (map (fun n => if String.eqb n "environment" then FVal [68; 49] else FVal [78]) pc_eq_fields) in
  pc_py_eq a a = true /\ pc_py_eq a b = false.
Proof. vm_compute. split; reflexivity. Qed.

(* __eq__ is not transitive, because of the wildcard *)
Theorem pc_eq_transitive_refuted :
  exists a b c, pc_wf a /\ pc_wf b /\ pc_wf c /\
    pc_py_eq a b = true /\ pc_py_eq b c = true /\ pc_py_eq a c = false.
Proof.
  pose (mk := fun v => mkpc "ProcessConfig" pc_eq_fields
                (map (fun n => if String.eqb n "stdout_logfile" then v else FVal [78]) pc_eq_fields)).
  exists (mk (FVal [1])), (mk FAuto), (mk (FVal [2])).
  assert (forall v, pc_wf (mk v)) as W.
  { intro v. split; [left; reflexivity|].
    intros n Hn. apply init_fields_compared in Hn.
    destruct v; vm_compute in Hn |- *;
      repeat (destruct Hn as [Hn|Hn]; [subst n; discriminate|]); contradiction. }
  repeat split; try apply W; vm_compute; reflexivity.
Qed.

(* what after_setuid may do to a config without it becoming "changed": an attribute that
   was Automatic gets any value *)
Definition pc_instance (new cur : pconf) : Prop :=
  pc_class new = pc_class cur /\
  forall n, In n pc_eq_fields ->
    exists x y, pc_get new n = Some x /\ pc_get cur n = Some y /\ (x = FAuto \/ x = y).

Lemma pc_instance_eq : forall new cur, pc_wf new -> pc_instance new cur -> pc_py_eq new cur = true.
Proof.
  intros new cur Hw [Hc Hf].
  assert (pc_wf cur) as Hw'.
  { destruct Hw as [C W]. split; [rewrite <- Hc; exact C|].
    intros n Hn. destruct (Hf n (init_fields_compared n Hn)) as [x [y [_ [Hy _]]]]. rewrite Hy. discriminate. }
  apply pc_py_eq_spec; try assumption.
  intros n Hn. destruct (Hf n Hn) as [x [y [Hx [Hy Hd]]]]. exists x, y. repeat split; try assumption.
  destruct Hd; auto.
Qed.

(* ------------------------------------------------------------ socket configs *)

Definition is_socket_class (c : string) : Prop :=
  c = "InetStreamSocketConfig"%string \/ c = "UnixStreamSocketConfig"%string.

Definition s_wf (s : sconf) : Prop :=
  is_socket_class (s_class s) /\ forall n, In n sock_eq_attrs -> assoc n (s_attrs s) <> None.

Lemma s_attrs_eqb_refl : forall names s,
  (forall n, In n names -> assoc n (s_attrs s) <> None) -> s_attrs_eqb names s s = true.
Proof.
  induction names as [|n r IH]; intros s H; simpl; [reflexivity|].
  destruct (assoc n (s_attrs s)) eqn:E.
  - rewrite fval_eqb_refl. simpl. apply IH. intros m Hm. apply H. right. exact Hm.
  - exfalso. apply (H n); [left; reflexivity|exact E].
Qed.

Lemma s_dflt_eqb_spec : forall names a b,
  s_dflt_eqb names a b = true <-> (forall n, In n names -> s_val a n = s_val b n).
Proof.
  induction names as [|n r IH]; intros a b; simpl.
  - split; [intros _ n []|reflexivity].
  - rewrite andb_true_iff, IH, fval_eqb_eq. split.
    + intros [H1 H2] m [Hm|Hm]; [subst; exact H1|apply H2; exact Hm].
    + intro H. split; [apply H; left; reflexivity|intros m Hm; apply H; right; exact Hm].
Qed.

Lemma s_attrs_eqb_val : forall names a b, s_attrs_eqb names a b = true ->
  forall n, In n names -> s_val a n = s_val b n.
Proof.
  induction names as [|m r IH]; intros a b H n Hn; [destruct Hn|]. simpl in H.
  destruct (assoc m (s_attrs a)) as [x|] eqn:Ea; [|discriminate].
  destruct (assoc m (s_attrs b)) as [y|] eqn:Eb; [|discriminate].
  apply andb_true_iff in H. destruct H as [H1 H2]. destruct Hn as [Hn|Hn].
  - subst n. unfold s_val. rewrite Ea, Eb. apply fval_eqb_eq. exact H1.
  - apply IH; assumption.
Qed.

Lemma s_py_eq_refl : forall s, s_wf s -> s_py_eq s s = true.
Proof.
  intros s [C W]. unfold s_py_eq, py_dispatch.
  assert (s_eq_method s s = true) as E.
  { unfold s_eq_method. rewrite s_attrs_eqb_refl by exact W.
    assert (s_dflt_eqb sock_eq_attrs_dflt s s = true) as D by (apply s_dflt_eqb_spec; reflexivity).
    rewrite D. destruct C as [C|C]; rewrite C; vm_compute; reflexivity. }
  destruct (proper_subclass _ _); exact E.
Qed.

(* the settings of an fcgi socket that reach the socket: [fcgi-program:x] socket (url),
   socket_backlog, socket_mode, socket_owner *)
Definition documented_socket_attrs : list string := ["url"; "backlog"; "mode"; "owner"]%string.

Lemma documented_socket_attrs_compared :
  forall n, In n documented_socket_attrs -> In n (sock_eq_attrs ++ sock_eq_attrs_dflt).
Proof. apply str_incl_In. vm_compute. reflexivity. Qed.

(* two socket configs that differ in any compared attribute (an attribute an object does not
   have reads as None, as getattr(..., None) does) are unequal *)
Theorem socket_attr_detected : forall s t n,
  In n (sock_eq_attrs ++ sock_eq_attrs_dflt) -> s_val s n <> s_val t n -> s_py_eq s t = false.
Proof.
  assert (forall s t n, In n (sock_eq_attrs ++ sock_eq_attrs_dflt) -> s_val s n <> s_val t n ->
                        s_eq_method s t = false) as K.
  { intros s t n Hn Hd. destruct (s_eq_method s t) eqn:E; [|reflexivity]. exfalso. apply Hd.
    unfold s_eq_method in E. apply andb_true_iff in E. destruct E as [E E3].
    apply andb_true_iff in E. destruct E as [_ E2].
    apply in_app_or in Hn. destruct Hn as [Hn|Hn].
    - apply (s_attrs_eqb_val _ _ _ E2 n Hn).
    - apply (proj1 (s_dflt_eqb_spec _ _ _) E3 n Hn). }
  intros s t n Hn Hd. unfold s_py_eq, py_dispatch. destruct (proper_subclass _ _).
  - apply (K t s n Hn). intro E. apply Hd. symmetry. exact E.
  - apply (K s t n Hn Hd).
Qed.

(* ------------------------------------------------------------ group configs *)

Definition PGC := "ProcessGroupConfig"%string.
Definition POOL := "EventListenerPoolConfig"%string.
Definition FCGI := "FastCGIGroupConfig"%string.

Definition is_group_class (c : string) : Prop := c = PGC \/ c = POOL \/ c = FCGI.

(* the options of a group that the documentation defines, per kind of section, as attributes *)
Definition spec_attrs (cls : string) : list string :=
  if String.eqb cls POOL then ["name"; "priority"; "process_configs"; "buffer_size"; "pool_events"; "result_handler"]%string
  else if String.eqb cls FCGI then ["socket_config"; "name"; "priority"; "process_configs"]%string
  else ["name"; "priority"; "process_configs"]%string.

Definition gattr_agrees (a b : gconf) (n : string) : Prop :=
  exists x y, g_get a n = Some x /\ g_get b n = Some y /\ gval_eqb x y = true.

Lemma g_attrs_eqb_spec : forall names a b,
  g_attrs_eqb names a b = true <-> (forall n, In n names -> gattr_agrees a b n).
Proof.
  induction names as [|n r IH]; intros a b; simpl.
  - split; [intros _ n []|reflexivity].
  - destruct (g_get a n) as [x|] eqn:Ea; destruct (g_get b n) as [y|] eqn:Eb.
    + rewrite andb_true_iff, IH. split.
      * intros [H1 H2] m [Hm|Hm]; [subst m; exists x, y; auto|apply H2; exact Hm].
      * intro H. split.
        -- destruct (H n (or_introl eq_refl)) as [x' [y' [Hx [Hy He]]]].
           rewrite Ea in Hx. rewrite Eb in Hy. inversion Hx; inversion Hy; subst. exact He.
        -- intros m Hm. apply H. right. exact Hm.
    + split; [discriminate|]. intro H. destruct (H n (or_introl eq_refl)) as [x' [y' [_ [Hy _]]]].
      rewrite Eb in Hy. discriminate.
    + split; [discriminate|]. intro H. destruct (H n (or_introl eq_refl)) as [x' [y' [Hx _]]].
      rewrite Ea in Hx. discriminate.
    + split; [discriminate|]. intro H. destruct (H n (or_introl eq_refl)) as [x' [y' [Hx _]]].
      rewrite Ea in Hx. discriminate.
Qed.

Lemma same_elems : forall (l1 l2 : list string) (P : string -> Prop),
  str_incl l1 l2 = true -> str_incl l2 l1 = true ->
  ((forall n, In n l1 -> P n) <-> (forall n, In n l2 -> P n)).
Proof.
  intros l1 l2 P H1 H2. split; intros H n Hn; apply H.
  - eapply str_incl_In; [exact H2|exact Hn].
  - eapply str_incl_In; [exact H1|exact Hn].
Qed.

(* self.__eq__(other) for the three classes, unfolded from the generated tables.  The
   `change` steps are conversions: they fail when a table (guard class, delegation) changes. *)
Lemma pgc_method : forall a b,
  g_eq_fuel 3 PGC a b = true <->
  isinstance (g_class b) PGC = true /\ forall n, In n (spec_attrs PGC) -> gattr_agrees a b n.
Proof.
  intros a b.
  change (g_eq_fuel 3 PGC a b)
    with (isinstance (g_class b) PGC && g_attrs_eqb pgc_eq_attrs a b && true).
  rewrite andb_true_r, andb_true_iff, g_attrs_eqb_spec.
  split; intros [H1 H2]; (split; [exact H1|]); revert H2; apply same_elems; vm_compute; reflexivity.
Qed.

Lemma pool_method : forall a b,
  g_eq_fuel 3 POOL a b = true <->
  isinstance (g_class b) POOL = true /\ forall n, In n (spec_attrs POOL) -> gattr_agrees a b n.
Proof.
  intros a b.
  change (g_eq_fuel 3 POOL a b)
    with (isinstance (g_class b) POOL && g_attrs_eqb pool_eq_attrs a b && true).
  rewrite andb_true_r, andb_true_iff, g_attrs_eqb_spec.
  split; intros [H1 H2]; (split; [exact H1|]); revert H2; apply same_elems; vm_compute; reflexivity.
Qed.

Lemma fcgi_method : forall a b,
  g_eq_fuel 3 FCGI a b = true <->
  isinstance (g_class b) FCGI = true /\ isinstance (g_class b) PGC = true /\
  forall n, In n (spec_attrs FCGI) -> gattr_agrees a b n.
Proof.
  intros a b.
  change (g_eq_fuel 3 FCGI a b)
    with (isinstance (g_class b) FCGI && g_attrs_eqb fcgi_eq_attrs a b &&
          (isinstance (g_class b) PGC && g_attrs_eqb pgc_eq_attrs a b && true)).
  rewrite andb_true_r, !andb_true_iff, !g_attrs_eqb_spec.
  assert ((forall n, In n (fcgi_eq_attrs ++ pgc_eq_attrs) -> gattr_agrees a b n) <->
          (forall n, In n (spec_attrs FCGI) -> gattr_agrees a b n)) as E
    by (apply same_elems; vm_compute; reflexivity).
  split.
  - intros [[H1 H2] [H3 H4]]. repeat split; try assumption. apply (proj1 E). intros n Hn.
    apply in_app_or in Hn. destruct Hn; auto.
  - intros [H1 [H3 H]]. pose proof (proj2 E H) as H'. clear H. rename H' into H. repeat split; try assumption; intros n Hn; apply H; apply in_or_app; auto.
Qed.

Ltac ev_closed :=
  repeat match goal with
         | |- context [proper_subclass ?x ?y] =>
             let v := eval vm_compute in (proper_subclass x y) in change (proper_subclass x y) with v
         | |- context [isinstance ?x ?y] =>
             let v := eval vm_compute in (isinstance x y) in change (isinstance x y) with v
         end.

(* `a == b` between two group configs of known classes: same class and every documented
   attribute of that class agrees.  (A plain group never equals an fcgi group although
   ProcessGroupConfig.__eq__ alone would accept one: the subclass's reflected __eq__ runs first.) *)
Theorem g_py_eq_spec : forall a b, is_group_class (g_class a) -> is_group_class (g_class b) ->
  (g_py_eq a b = true <->
   g_class a = g_class b /\ forall n, In n (spec_attrs (g_class a)) -> gattr_agrees a b n).
Proof.
  intros a b Ha Hb. unfold g_py_eq, py_dispatch, g_eq_method.
  destruct Ha as [Ha|[Ha|Ha]]; destruct Hb as [Hb|[Hb|Hb]]; rewrite Ha, Hb; ev_closed; cbv iota.
  - (* plain, plain *) rewrite pgc_method, Hb. ev_closed. split; intros [_ H]; (split; [reflexivity|exact H]).
  - (* plain, pool *) rewrite pgc_method, Hb. ev_closed. split; intros [H _]; discriminate.
  - (* plain, fcgi: the fcgi side's __eq__ runs *) rewrite fcgi_method, Ha. ev_closed. split; intros [H _]; discriminate.
  - rewrite pool_method, Hb. ev_closed. split; intros [H _]; discriminate.
  - rewrite pool_method, Hb. ev_closed. split; intros [_ H]; (split; [reflexivity|exact H]).
  - rewrite pool_method, Hb. ev_closed. split; intros [H _]; discriminate.
  - rewrite fcgi_method, Hb. ev_closed. split; intros [H _]; discriminate.
  - rewrite fcgi_method, Hb. ev_closed. split; intros [H _]; discriminate.
  - rewrite fcgi_method, Hb. ev_closed. split; [intros [_ [_ H]]|intros [_ H]]; repeat split; exact H.
Qed.

Corollary class_change_detected : forall a b, is_group_class (g_class a) -> is_group_class (g_class b) ->
  g_class a <> g_class b -> g_py_ne a b = true.
Proof.
  intros a b Ha Hb Hne. unfold g_py_ne. destruct (g_py_eq a b) eqn:E; [|reflexivity].
  apply g_py_eq_spec in E; try assumption. destruct E as [E _]. contradiction.
Qed.

Corollary group_attr_detected : forall a b n, is_group_class (g_class a) -> is_group_class (g_class b) ->
  In n (spec_attrs (g_class a)) -> ~ gattr_agrees a b n -> g_py_ne a b = true.
Proof.
  intros a b n Ha Hb Hn Hd. unfold g_py_ne. destruct (g_py_eq a b) eqn:E; [|reflexivity].
  apply g_py_eq_spec in E; try assumption. destruct E as [_ E]. exfalso. apply Hd. apply E. exact Hn.
Qed.

Lemma process_configs_in_spec : forall c, In "process_configs"%string (spec_attrs c).
Proof.
  intro c. unfold spec_attrs. destruct (String.eqb c POOL); [|destruct (String.eqb c FCGI)]; simpl; tauto.
Qed.

Lemma priority_in_spec : forall c, In "priority"%string (spec_attrs c).
Proof.
  intro c. unfold spec_attrs. destruct (String.eqb c POOL); [|destruct (String.eqb c FCGI)]; simpl; tauto.
Qed.

(* group-level consequence of a difference among the process configs *)
Lemma procs_differ_detected : forall a b ps ps', is_group_class (g_class a) -> is_group_class (g_class b) ->
  g_get a "process_configs" = Some (GProcs ps) -> g_get b "process_configs" = Some (GProcs ps') ->
  list_eqb pc_py_eq ps ps' = false -> g_py_ne a b = true.
Proof.
  intros a b ps ps' Ha Hb Ga Gb Hd.
  apply (group_attr_detected a b "process_configs"); try assumption.
  - apply process_configs_in_spec.
  - intros [x [y [Hx [Hy He]]]]. rewrite Ga in Hx. rewrite Gb in Hy. inversion Hx; inversion Hy; subst.
    simpl in He. rewrite Hd in He. discriminate.
Qed.

Lemma list_eqb_nth_false {A} (eqb : A -> A -> bool) : forall a b i x y,
  nth_error a i = Some x -> nth_error b i = Some y -> eqb x y = false -> list_eqb eqb a b = false.
Proof.
  induction a as [|h a IH]; intros b i x y Ha Hb He; destruct i; simpl in Ha; try discriminate.
  - destruct b as [|h' b]; simpl in Hb; try discriminate. inversion Ha; inversion Hb; subst. simpl. rewrite He. reflexivity.
  - destruct b as [|h' b]; simpl in Hb; try discriminate. simpl. rewrite (IH b i x y Ha Hb He). apply andb_false_r.
Qed.

Lemma list_eqb_length_false {A} (eqb : A -> A -> bool) : forall a b,
  List.length a <> List.length b -> list_eqb eqb a b = false.
Proof.
  intros a b H. destruct (list_eqb eqb a b) eqn:E; [|reflexivity]. apply list_eqb_length in E. contradiction.
Qed.

(* ------------------------------------------------------------ well-formed groups, reflexivity *)

Definition gval_wf (v : gval) : Prop :=
  match v with
  | GVal _ => True
  | GProcs l => Forall pc_wf l
  | GSock s => s_wf s
  end.

Definition g_wf (g : gconf) : Prop :=
  is_group_class (g_class g) /\
  forall n, In n (spec_attrs (g_class g)) -> exists v, g_get g n = Some v /\ gval_wf v.

Lemma gval_eqb_refl : forall v, gval_wf v -> gval_eqb v v = true.
Proof.
  intros [e|l|s] H; simpl in *.
  - apply zlist_eqb_refl.
  - apply list_eqb_refl. intros x Hx. apply pc_py_eq_refl. rewrite Forall_forall in H. apply H. exact Hx.
  - apply s_py_eq_refl. exact H.
Qed.

Lemma g_py_eq_refl : forall g, g_wf g -> g_py_eq g g = true.
Proof.
  intros g [C W]. apply g_py_eq_spec; try assumption. split; [reflexivity|].
  intros n Hn. destruct (W n Hn) as [v [E Wv]]. exists v, v. repeat split; try assumption.
  apply gval_eqb_refl. exact Wv.
Qed.

(* ------------------------------------------------------------ diff_to_active *)

Definition has_name (l : list gconf) (n : bytes) : bool := existsb (fun o => zlist_eqb (g_name o) n) l.

(* the specification: by name and by `!=`, in the order of the file / of the active table *)
Definition spec_added (new cur : list gconf) : list gconf :=
  filter (fun g => negb (has_name cur (g_name g))) new.
Definition spec_removed (new cur : list gconf) : list gconf :=
  filter (fun g => negb (has_name new (g_name g))) cur.
Definition spec_changed (new cur : list gconf) : list gconf :=
  filter (fun g => existsb (fun o => zlist_eqb (g_name o) (g_name g) && g_py_ne g o) cur) new.

Lemma has_name_In : forall l n, has_name l n = true <-> In n (names l).
Proof.
  intros l n. unfold has_name, names. rewrite existsb_exists. split.
  - intros [o [Ho E]]. apply zlist_eqb_eq in E. subst. apply in_map. exact Ho.
  - intro H. apply in_map_iff in H. destruct H as [o [E Ho]]. exists o. split; [exact Ho|]. subst. apply zlist_eqb_refl.
Qed.

Lemma in_dict_has_name : forall l n, in_dict l n = has_name l n.
Proof.
  induction l as [|c r IH]; intro n; [reflexivity|].
  specialize (IH n). unfold in_dict in *. simpl.
  destruct (dict_get r n) as [x|].
  - rewrite <- IH. rewrite orb_true_r. reflexivity.
  - rewrite <- IH. rewrite orb_false_r. destruct (zlist_eqb (g_name c) n); reflexivity.
Qed.

Lemma dict_get_existsb : forall (P : gconf -> bool) cur n, NoDup (names cur) ->
  match dict_get cur n with
  | Some o => In o cur /\ g_name o = n /\ existsb (fun o' => zlist_eqb (g_name o') n && P o') cur = P o
  | None => existsb (fun o' => zlist_eqb (g_name o') n && P o') cur = false
  end.
Proof.
  intros P cur n. induction cur as [|c r IH]; intro ND; simpl; [reflexivity|].
  simpl in ND. inversion ND as [|? ? Hnin ND']; subst. specialize (IH ND').
  destruct (dict_get r n) as [x|].
  - destruct IH as [Hin [Hn He]]. repeat split; [right; exact Hin|exact Hn|].
    rewrite He. rewrite zlist_eqb_false; [reflexivity|].
    intro E. apply Hnin. rewrite E, <- Hn. apply in_map. exact Hin.
  - destruct (zlist_eqb (g_name c) n) eqn:E.
    + apply zlist_eqb_eq in E. repeat split; [left; reflexivity|exact E|]. rewrite IH. simpl. apply orb_false_r.
    + rewrite IH. reflexivity.
Qed.

Theorem diff_spec : forall new cur, NoDup (names cur) -> Forall g_wf new ->
  diff_to_active new cur = (spec_added new cur, spec_changed new cur, spec_removed new cur).
Proof.
  intros new cur ND W. unfold diff_to_active, spec_added, spec_changed, spec_removed.
  f_equal; [f_equal|].
  - apply filter_ext. intro g. rewrite in_dict_has_name. reflexivity.
  - apply filter_ext_in. intros g Hg.
    pose proof (dict_get_existsb (g_py_ne g) cur (g_name g) ND) as K.
    destruct (dict_get cur (g_name g)) as [o|].
    + destruct K as [_ [_ K]]. symmetry. exact K.
    + rewrite K. unfold g_py_ne. rewrite g_py_eq_refl; [reflexivity|].
      rewrite Forall_forall in W. apply W. exact Hg.
  - apply filter_ext. intro g. rewrite in_dict_has_name. reflexivity.
Qed.

Lemma spec_added_In : forall new cur g,
  In g (spec_added new cur) <-> In g new /\ ~ In (g_name g) (names cur).
Proof.
  intros. unfold spec_added. rewrite filter_In, negb_true_iff. split; intros [H1 H2]; (split; [exact H1|]).
  - intro H. apply has_name_In in H. rewrite H in H2. discriminate.
  - destruct (has_name cur (g_name g)) eqn:E; [|reflexivity]. apply has_name_In in E. contradiction.
Qed.

Lemma spec_removed_In : forall new cur g,
  In g (spec_removed new cur) <-> In g cur /\ ~ In (g_name g) (names new).
Proof.
  intros. unfold spec_removed. rewrite filter_In, negb_true_iff. split; intros [H1 H2]; (split; [exact H1|]).
  - intro H. apply has_name_In in H. rewrite H in H2. discriminate.
  - destruct (has_name new (g_name g)) eqn:E; [|reflexivity]. apply has_name_In in E. contradiction.
Qed.

Lemma spec_changed_In : forall new cur g,
  In g (spec_changed new cur) <->
  In g new /\ exists o, In o cur /\ g_name o = g_name g /\ g_py_ne g o = true.
Proof.
  intros. unfold spec_changed. rewrite filter_In, existsb_exists. split; intros [H1 [o [Ho H2]]]; (split; [exact H1|]); exists o.
  - apply andb_true_iff in H2. destruct H2 as [E N]. apply zlist_eqb_eq in E. auto.
  - destruct H2 as [E N]. split; [exact Ho|]. rewrite E, zlist_eqb_refl, N. reflexivity.
Qed.

(* c15_added_removed_changed *)
Theorem added_removed_changed : forall new cur, NoDup (names cur) -> Forall g_wf new ->
  exists a c r,
    diff_to_active new cur = (a, c, r) /\
    (* order: sub-sequences of the file (added, changed) and of the active table (removed) *)
    a = filter (fun g => negb (has_name cur (g_name g))) new /\
    r = filter (fun g => negb (has_name new (g_name g))) cur /\
    c = filter (fun g => existsb (fun o => zlist_eqb (g_name o) (g_name g) && g_py_ne g o) cur) new /\
    (* membership *)
    (forall g, In g a <-> In g new /\ ~ In (g_name g) (names cur)) /\
    (forall g, In g r <-> In g cur /\ ~ In (g_name g) (names new)) /\
    (forall g, In g c <-> In g new /\ exists o, In o cur /\ g_name o = g_name g /\ g_py_ne g o = true).
Proof.
  intros new cur ND W. exists (spec_added new cur), (spec_changed new cur), (spec_removed new cur).
  split; [apply diff_spec; assumption|].
  split; [reflexivity|]. split; [reflexivity|]. split; [reflexivity|].
  split; [intro g; apply spec_added_In|]. split; [intro g; apply spec_removed_In|].
  intro g; apply spec_changed_In.
Qed.

Example added_removed_changed_ex :
  let g n v := Build_gconf 0 PGC n [("priority"%string, GVal v); ("process_configs"%string, GProcs [])] in
  reload_answer [g [97] [1]; g [98] [2]; g [100] [1]] [g [98] [1]; g [99] [1]; g [97] [1]]
  = ([[100]], [[98]], [[99]]).
Proof. vm_compute. reflexivity. Qed.

(* ------------------------------------------------------------ unchanged file *)

Definition gval_instance (x y : gval) : Prop :=
  match x, y with
  | GVal a, GVal b => a = b
  | GProcs l, GProcs m => Forall pc_wf l /\ Forall2 pc_instance l m
  | GSock s, GSock t => s = t /\ s_wf s
  | _, _ => False
  end.

(* cur is what activation (after_setuid) may have made of new *)
Definition g_instance (new cur : gconf) : Prop :=
  g_class new = g_class cur /\ g_name new = g_name cur /\
  forall n, In n (spec_attrs (g_class new)) ->
    exists x y, g_get new n = Some x /\ g_get cur n = Some y /\ gval_instance x y.

Lemma gval_instance_eq : forall x y, gval_instance x y -> gval_eqb x y = true.
Proof.
  intros [a|l|s] [b|m|t] H; simpl in *; try contradiction.
  - subst. apply zlist_eqb_refl.
  - destruct H as [W F]. apply list_eqb_Forall2. revert W. induction F as [|p q l m Hpq F IH]; intro W; constructor.
    + apply pc_instance_eq; [inversion W; assumption|exact Hpq].
    + apply IH. inversion W; assumption.
  - destruct H as [E W]. subst. apply s_py_eq_refl. exact W.
Qed.

Lemma g_instance_eq : forall new cur, is_group_class (g_class new) -> g_instance new cur -> g_py_eq new cur = true.
Proof.
  intros new cur C [Hc [_ Hf]]. apply g_py_eq_spec; try assumption.
  - rewrite <- Hc. exact C.
  - split; [exact Hc|]. intros n Hn. destruct (Hf n Hn) as [x [y [Hx [Hy Hi]]]].
    exists x, y. repeat split; try assumption. apply gval_instance_eq. exact Hi.
Qed.

Lemma Forall2_in_r {A B} (R : A -> B -> Prop) : forall l l', Forall2 R l l' ->
  forall y, In y l' -> exists x, In x l /\ R x y.
Proof.
  induction 1 as [|x y' l l' Hxy F IH]; intros y Hy; [destruct Hy|].
  destruct Hy as [Hy|Hy].
  - subst. exists x. split; [left; reflexivity|exact Hxy].
  - destruct (IH y Hy) as [x' [Hx' R']]. exists x'. split; [right; exact Hx'|exact R'].
Qed.

Lemma instance_names : forall new cur, Forall2 g_instance new cur -> names cur = names new.
Proof.
  induction 1 as [|x y l l' Hxy F IH]; [reflexivity|]. simpl. rewrite IH.
  destruct Hxy as [_ [Hn _]]. rewrite Hn. reflexivity.
Qed.

Lemma instance_partner : forall new cur, Forall2 g_instance new cur -> NoDup (names new) ->
  forall g o, In g new -> In o cur -> g_name o = g_name g -> g_instance g o.
Proof.
  induction 1 as [|x y l l' Hxy F IH]; intros ND g o Hg Ho Hn; [destruct Hg|].
  simpl in ND. inversion ND as [|? ? Hnin ND']; subst.
  destruct Hg as [Hg|Hg]; destruct Ho as [Ho|Ho].
  - subst. exact Hxy.
  - subst g. exfalso. destruct (Forall2_in_r _ _ _ F o Ho) as [g' [Hg' [_ [Hn' _]]]].
    apply Hnin. rewrite <- Hn, <- Hn'. apply in_map. exact Hg'.
  - subst o. exfalso. destruct Hxy as [_ [Hn' _]]. apply Hnin. rewrite Hn', Hn. apply in_map. exact Hg.
  - apply IH; assumption.
Qed.

Lemma filter_nil {A} (f : A -> bool) : forall l, (forall x, In x l -> f x = false) -> filter f l = [].
Proof.
  induction l as [|x l IH]; intro H; [reflexivity|]. simpl. rewrite H by (left; reflexivity).
  apply IH. intros y Hy. apply H. right. exact Hy.
Qed.

(* c15_unchanged_empty, general form *)
Theorem unchanged_empty : forall new cur, NoDup (names new) -> Forall g_wf new ->
  Forall2 g_instance new cur -> diff_to_active new cur = ([], [], []).
Proof.
  intros new cur ND W F.
  pose proof (instance_names _ _ F) as EN.
  rewrite diff_spec; [|rewrite EN; exact ND|exact W].
  unfold spec_added, spec_changed, spec_removed.
  rewrite !filter_nil; [reflexivity| | |].
  - intros o Ho. apply negb_false_iff. apply has_name_In. rewrite <- EN. apply in_map. exact Ho.
  - intros g Hg. destruct (existsb _ cur) eqn:E; [|reflexivity]. exfalso.
    apply existsb_exists in E. destruct E as [o [Ho E]]. apply andb_true_iff in E. destruct E as [E1 E2].
    apply zlist_eqb_eq in E1.
    pose proof (instance_partner _ _ F ND g o Hg Ho E1) as I.
    unfold g_py_ne in E2. rewrite g_instance_eq in E2; [discriminate| |exact I].
    rewrite Forall_forall in W. apply W. exact Hg.
  - intros g Hg. apply negb_false_iff. apply has_name_In. rewrite EN. apply in_map. exact Hg.
Qed.

(* ------------------------------------------------------------ any option is detected *)

Theorem group_reported_changed : forall new cur g o, NoDup (names cur) -> Forall g_wf new ->
  In g new -> In o cur -> g_name o = g_name g -> g_py_ne g o = true ->
  let '(_, c, _) := reload_answer new cur in In (g_name g) c.
Proof.
  intros new cur g o ND W Hg Ho Hn Hne. unfold reload_answer. rewrite diff_spec by assumption.
  unfold names. apply in_map. apply spec_changed_In. split; [exact Hg|]. exists o. auto.
Qed.

(* c15_any_option_detected: one attribute of one process differs (neither side Automatic):
   the group is reported as changed *)
Theorem any_option_reported : forall new cur g o ps ps' i p q f x y,
  NoDup (names cur) -> Forall g_wf new ->
  In g new -> In o cur -> g_name o = g_name g -> is_group_class (g_class o) ->
  g_get g "process_configs" = Some (GProcs ps) -> g_get o "process_configs" = Some (GProcs ps') ->
  nth_error ps i = Some p -> nth_error ps' i = Some q ->
  In f pc_init_fields -> pc_get p f = Some (FVal x) -> pc_get q f = Some (FVal y) -> x <> y ->
  let '(_, c, _) := reload_answer new cur in In (g_name g) c.
Proof.
  intros new cur g o ps ps' i p q f x y ND W Hg Ho Hn Co Gg Go Np Nq Hf Hp Hq Hxy.
  apply (group_reported_changed new cur g o); try assumption.
  apply (procs_differ_detected g o ps ps'); try assumption.
  - rewrite Forall_forall in W. destruct (W g Hg) as [C _]. exact C.
  - apply (list_eqb_nth_false pc_py_eq ps ps' i p q Np Nq).
    apply (any_option_detected f p q x y); assumption.
Qed.

(* numprocs grown or shrunk *)
Theorem numprocs_reported : forall new cur g o ps ps',
  NoDup (names cur) -> Forall g_wf new ->
  In g new -> In o cur -> g_name o = g_name g -> is_group_class (g_class o) ->
  g_get g "process_configs" = Some (GProcs ps) -> g_get o "process_configs" = Some (GProcs ps') ->
  List.length ps <> List.length ps' ->
  let '(_, c, _) := reload_answer new cur in In (g_name g) c.
Proof.
  intros new cur g o ps ps' ND W Hg Ho Hn Co Gg Go Hl.
  apply (group_reported_changed new cur g o); try assumption.
  apply (procs_differ_detected g o ps ps'); try assumption.
  - rewrite Forall_forall in W. destruct (W g Hg) as [C _]. exact C.
  - apply list_eqb_length_false. exact Hl.
Qed.

(* a group's own option (priority; buffer_size, pool_events, result_handler of a pool), or its kind *)
Theorem group_option_reported : forall new cur g o n x y,
  NoDup (names cur) -> Forall g_wf new ->
  In g new -> In o cur -> g_name o = g_name g -> is_group_class (g_class o) ->
  In n (spec_attrs (g_class g)) -> g_get g n = Some (GVal x) -> g_get o n = Some (GVal y) -> x <> y ->
  let '(_, c, _) := reload_answer new cur in In (g_name g) c.
Proof.
  intros new cur g o n x y ND W Hg Ho Hn Co Sn Gg Go Hxy.
  apply (group_reported_changed new cur g o); try assumption.
  apply (group_attr_detected g o n); try assumption.
  - rewrite Forall_forall in W. destruct (W g Hg) as [C _]. exact C.
  - intros [x' [y' [Hx [Hy He]]]]. rewrite Gg in Hx. rewrite Go in Hy. inversion Hx; inversion Hy; subst.
    simpl in He. apply zlist_eqb_eq in He. contradiction.
Qed.

Theorem group_kind_reported : forall new cur g o,
  NoDup (names cur) -> Forall g_wf new ->
  In g new -> In o cur -> g_name o = g_name g -> is_group_class (g_class o) -> g_class g <> g_class o ->
  let '(_, c, _) := reload_answer new cur in In (g_name g) c.
Proof.
  intros new cur g o ND W Hg Ho Hn Co Hc.
  apply (group_reported_changed new cur g o); try assumption.
  apply class_change_detected; try assumption.
  rewrite Forall_forall in W. destruct (W g Hg) as [C _]. exact C.
Qed.

Lemma socket_config_in_spec_fcgi : In "socket_config"%string (spec_attrs FCGI).
Proof. vm_compute. tauto. Qed.

(* any change of an fcgi socket's url, backlog, mode or owner is reported
   (was known finding C15-fcgi-socket-options until the comparison was repaired) *)
Theorem socket_option_reported : forall new cur g o s t n,
  NoDup (names cur) -> Forall g_wf new ->
  In g new -> In o cur -> g_name o = g_name g -> g_class g = FCGI -> is_group_class (g_class o) ->
  g_get g "socket_config" = Some (GSock s) -> g_get o "socket_config" = Some (GSock t) ->
  In n (sock_eq_attrs ++ sock_eq_attrs_dflt) -> s_val s n <> s_val t n ->
  let '(_, c, _) := reload_answer new cur in In (g_name g) c.
Proof.
  intros new cur g o s t n ND W Hg Ho Hn Cg Co Gg Go Sn Hd.
  apply (group_reported_changed new cur g o); try assumption.
  apply (group_attr_detected g o "socket_config"); try assumption.
  - rewrite Cg. unfold is_group_class. auto.
  - rewrite Cg. apply socket_config_in_spec_fcgi.
  - intros [x [y [Hx [Hy He]]]]. rewrite Gg in Hx. rewrite Go in Hy. inversion Hx; inversion Hy; subst.
    simpl in He. rewrite (socket_attr_detected s t n Sn Hd) in He. discriminate.
Qed.

Example socket_option_reported_ex :
  let mk := fun m => Build_gconf 0 FCGI [102]
     [("priority"%string, GVal [1]); ("process_configs"%string, GProcs []);
      ("socket_config"%string, GSock (mksock "UnixStreamSocketConfig" ["url"; "backlog"; "mode"]%string
                                              [FVal [1]; FVal [78]; m]))] in
  reload_answer [mk (FVal [7])] [mk (FVal [6])] = ([], [[102]], []) /\
  reload_answer [mk (FVal [7])] [mk (FVal [7])] = ([], [], []).
Proof. vm_compute. split; reflexivity. Qed.
