(* C18: proofs about the model of the child's path to execve, for every
   configuration, world and oracle. *)
From Coq Require Import ZArith List Bool String Lia.
Import ListNotations.
Require Import SV.C18.Child SV.C18.ChildSpec.
Open Scope string_scope.
Open Scope list_scope.
Open Scope Z_scope.

(* ------------------------------------------------------- environments *)

Lemma lookup_app k e1 e2 :
  lookup k (e1 ++ e2) = match lookup k e2 with Some v => Some v | None => lookup k e1 end.
Proof.
  induction e1 as [|[k' v] e1 IH]; simpl.
  - destruct (lookup k e2); reflexivity.
  - rewrite IH. destruct (lookup k e2); reflexivity.
Qed.

(* the lookup law of the right-biased overlay *)
Lemma lookup_update k e1 e2 :
  lookup k (env_update e1 e2) = match lookup k e2 with Some v => Some v | None => lookup k e1 end.
Proof. apply lookup_app. Qed.

Lemma lookup_set k e k' v :
  lookup k (env_set e k' v) = if String.eqb k k' then Some v else lookup k e.
Proof. unfold env_set. rewrite lookup_app. simpl. destruct (String.eqb k k'); reflexivity. Qed.

Lemma child_env_lookup c w k : lookup k (child_env c w) = expected_lookup c w k.
Proof.
  unfold child_env, expected_lookup, known_url, truthy.
  destruct (c_environment c) as [ce|].
  - rewrite lookup_update. destruct (lookup k ce); [reflexivity|].
    destruct (c_group c) as [g|].
    + rewrite lookup_set. destruct (String.eqb k "SUPERVISOR_GROUP_NAME") eqn:E1; [reflexivity|].
      rewrite lookup_set. destruct (String.eqb k "SUPERVISOR_PROCESS_NAME") eqn:E2; [reflexivity|].
      destruct (match c_serverurl c with Some s => Some s | None => o_serverurl c end) as [s|].
      * destruct (String.eqb s ""); simpl.
        -- destruct (String.eqb k "SUPERVISOR_SERVER_URL"); rewrite lookup_set; reflexivity.
        -- rewrite lookup_set. destruct (String.eqb k "SUPERVISOR_SERVER_URL"); [reflexivity|].
           rewrite lookup_set. reflexivity.
      * destruct (String.eqb k "SUPERVISOR_SERVER_URL"); rewrite lookup_set; reflexivity.
    + destruct (String.eqb k "SUPERVISOR_GROUP_NAME") eqn:E1.
      all: rewrite lookup_set; destruct (String.eqb k "SUPERVISOR_PROCESS_NAME") eqn:E2; [reflexivity|].
      all: destruct (match c_serverurl c with Some s => Some s | None => o_serverurl c end) as [s|].
      all: try (destruct (String.eqb s ""); simpl).
      all: repeat rewrite lookup_set; destruct (String.eqb k "SUPERVISOR_SERVER_URL"); reflexivity.
  - destruct (c_group c) as [g|].
    + rewrite lookup_set. destruct (String.eqb k "SUPERVISOR_GROUP_NAME") eqn:E1; [reflexivity|].
      rewrite lookup_set. destruct (String.eqb k "SUPERVISOR_PROCESS_NAME") eqn:E2; [reflexivity|].
      destruct (match c_serverurl c with Some s => Some s | None => o_serverurl c end) as [s|].
      * destruct (String.eqb s ""); simpl.
        -- destruct (String.eqb k "SUPERVISOR_SERVER_URL"); rewrite lookup_set; reflexivity.
        -- rewrite lookup_set. destruct (String.eqb k "SUPERVISOR_SERVER_URL"); [reflexivity|].
           rewrite lookup_set. reflexivity.
      * destruct (String.eqb k "SUPERVISOR_SERVER_URL"); rewrite lookup_set; reflexivity.
    + destruct (String.eqb k "SUPERVISOR_GROUP_NAME") eqn:E1.
      all: rewrite lookup_set; destruct (String.eqb k "SUPERVISOR_PROCESS_NAME") eqn:E2; [reflexivity|].
      all: destruct (match c_serverurl c with Some s => Some s | None => o_serverurl c end) as [s|].
      all: try (destruct (String.eqb s ""); simpl).
      all: repeat rewrite lookup_set; destruct (String.eqb k "SUPERVISOR_SERVER_URL"); reflexivity.
Qed.

(* ----------------------------------------------------- list and monitor lemmas *)

Definition fd_only (e : entry) : bool :=
  match fst e with Setpgrp | Dup2 _ _ | Close _ => true | _ => false end.

Lemma fd_only_not_execve l : forallb fd_only l = true -> forallb not_execve l = true.
Proof.
  induction l as [|[c r] l IH]; simpl; [reflexivity|].
  intro H. apply andb_true_iff in H. destruct H as [H1 H2]. rewrite IH by assumption.
  destruct c; simpl in *; try discriminate; reflexivity.
Qed.

Lemma fd_only_not_exit l : forallb fd_only l = true -> forallb not_exit l = true.
Proof.
  induction l as [|[c r] l IH]; simpl; [reflexivity|].
  intro H. apply andb_true_iff in H. destruct H as [H1 H2]. rewrite IH by assumption.
  destruct c; simpl in *; try discriminate; reflexivity.
Qed.

Lemma split_exec_app_noexec l1 l2 :
  forallb not_execve l1 = true ->
  split_exec (l1 ++ l2) =
  match split_exec l2 with Some (p, e, q) => Some (l1 ++ p, e, q) | None => None end.
Proof.
  induction l1 as [|x l1 IH]; simpl; intro H.
  - destruct (split_exec l2) as [[[p e] q]|]; reflexivity.
  - apply andb_true_iff in H. destruct H as [H1 H2]. unfold not_execve in H1.
    destruct (is_execve x); [discriminate|]. rewrite IH by assumption.
    destruct (split_exec l2) as [[[p e] q]|]; reflexivity.
Qed.

Lemma split_exec_none l : forallb not_execve l = true -> split_exec l = None.
Proof.
  induction l as [|x l IH]; simpl; intro H; [reflexivity|].
  apply andb_true_iff in H. destruct H as [H1 H2]. unfold not_execve in H1.
  destruct (is_execve x); [discriminate|]. rewrite IH by assumption. reflexivity.
Qed.

Lemma split_exec_sound l p e q :
  split_exec l = Some (p, e, q) ->
  l = p ++ e :: q /\ is_execve e = true /\ forallb not_execve p = true.
Proof.
  revert p e q. induction l as [|x l IH]; simpl; intros p e q H; [discriminate|].
  destruct (is_execve x) eqn:E.
  - inversion H; subst. simpl. auto.
  - destruct (split_exec l) as [[[p' e'] q']|]; [|discriminate].
    inversion H; subst. destruct (IH _ _ _ eq_refl) as (A & B & C).
    subst l. simpl. unfold not_execve at 1. rewrite E. simpl. auto.
Qed.

(* no execve attempt once something has failed for good *)
Fixpoint nef (failed : bool) (l : logt) : bool :=
  match l with
  | [] => true
  | x :: r => (if is_execve x then negb failed else true) && nef (failed || negb (benignb x)) r
  end.

Lemma nef_noexec l b : forallb not_execve l = true -> nef b l = true.
Proof.
  revert b. induction l as [|x l IH]; simpl; intros b H; [reflexivity|].
  apply andb_true_iff in H. destruct H as [H1 H2]. unfold not_execve in H1.
  destruct (is_execve x); [discriminate|]. simpl. apply IH. assumption.
Qed.

Lemma nef_app_benign l1 l2 :
  forallb benignb l1 = true -> forallb not_execve l1 = true ->
  nef false (l1 ++ l2) = nef false l2.
Proof.
  induction l1 as [|x l1 IH]; simpl; intros H1 H2; [reflexivity|].
  apply andb_true_iff in H1. destruct H1 as [B1 B2].
  apply andb_true_iff in H2. destruct H2 as [N1 N2].
  unfold not_execve in N1. destruct (is_execve x); [discriminate|].
  rewrite B1. simpl. apply IH; assumption.
Qed.

Lemma nef_true_noexec l : nef true l = true -> forallb not_execve l = true.
Proof.
  induction l as [|x l IH]; simpl; intro H; [reflexivity|].
  apply andb_true_iff in H. destruct H as [H1 H2]. unfold not_execve at 1.
  destruct (is_execve x); [discriminate|]. simpl. apply IH. exact H2.
Qed.

Lemma nef_weaken l : nef true l = true -> nef false l = true.
Proof. intro H. apply nef_noexec. apply nef_true_noexec. exact H. Qed.

Lemma nef_sound l :
  nef false l = true ->
  forall pre x post, l = pre ++ x :: post -> benignb x = false -> forallb not_execve post = true.
Proof.
  intros H pre. revert l H. induction pre as [|y pre IH]; simpl; intros l H x post E B.
  - subst l. simpl in H. apply andb_true_iff in H. destruct H as [_ H]. rewrite B in H. simpl in H.
    apply nef_true_noexec. exact H.
  - subst l. simpl in H. apply andb_true_iff in H. destruct H as [_ H].
    destruct (benignb y); simpl in H.
    + eapply IH; eauto.
    + apply nef_true_noexec in H. rewrite forallb_app in H. apply andb_true_iff in H. destruct H as [_ H].
      simpl in H. apply andb_true_iff in H. apply H.
Qed.

(* the reason of a failed call is the next thing written to descriptor 2 *)
Definition reason_beq (a b : reason) : bool :=
  match a, b with
  | RNoUser, RNoUser | RNoName, RNoName | RNoUid, RNoUid | RNonRoot, RNonRoot
  | RSetgroups, RSetgroups | RSetgid, RSetgid | RSetuid, RSetuid => true
  | _, _ => false
  end.

Definition msg_beq (a b : msg) : bool :=
  match a, b with
  | MSetuid x, MSetuid y => reason_beq x y
  | MChdir x, MChdir y => x =? y
  | MExecOS x, MExecOS y => x =? y
  | MExecOther, MExecOther => true
  | MNotSpawned, MNotSpawned => true
  | _, _ => false
  end.

Lemma msg_beq_eq a b : msg_beq a b = true -> a = b.
Proof.
  destruct a, b; simpl; try discriminate; try reflexivity.
  - destruct r, r0; simpl; try discriminate; reflexivity.
  - intro H. apply Z.eqb_eq in H. subst. reflexivity.
  - intro H. apply Z.eqb_eq in H. subst. reflexivity.
Qed.

Fixpoint rw (l : logt) : bool :=
  match l with
  | [] => true
  | x :: r =>
    match reason_for x with
    | None => rw r
    | Some m =>
      match r with
      | (Write 2 m', _) :: _ => if msg_beq m m' then rw r else false
      | _ => false
      end
    end
  end.

Lemma fd_only_no_reason x : fd_only x = true -> reason_for x = None.
Proof. destruct x as [c r]. destruct c; simpl; try discriminate; destruct r as [[|]|]; reflexivity. Qed.

Lemma rw_app_fd l1 l2 : forallb fd_only l1 = true -> rw (l1 ++ l2) = rw l2.
Proof.
  induction l1 as [|x l1 IH]; simpl; intro H; [reflexivity|].
  apply andb_true_iff in H. destruct H as [H1 H2].
  rewrite (fd_only_no_reason _ H1). apply IH. exact H2.
Qed.

Lemma rw_sound l :
  rw l = true ->
  forall pre x post m, l = pre ++ x :: post -> reason_for x = Some m ->
  exists r post', post = (Write 2 m, r) :: post'.
Proof.
  intros H pre. revert l H. induction pre as [|y pre IH]; simpl; intros l H x post m E R.
  - subst l. simpl in H. rewrite R in H.
    destruct post as [|[c r] post']; [discriminate|].
    destruct c; try discriminate. destruct fd; try discriminate.
    destruct p; try discriminate. destruct p; try discriminate.
    destruct (msg_beq m m0) eqn:EM; [|discriminate]. apply msg_beq_eq in EM. subst. eauto.
  - subst l. simpl in H. destruct (reason_for y).
    + destruct (pre ++ x :: post) as [|[c r] t] eqn:E; [discriminate|].
      destruct c; try discriminate. destruct fd; try discriminate.
      destruct p; try discriminate. destruct p; try discriminate.
      destruct (msg_beq m0 m1); [|discriminate].
      rewrite <- E in H. eapply IH; eauto.
    + eapply IH; eauto.
Qed.

(* ------------------------------------------------------------ monad laws *)

Lemma bind_assoc {A B C} (m : M A) (f : A -> M B) (g : B -> M C) :
  bind (bind m f) g = bind m (fun a => bind (f a) g).
Proof.
  destruct m as [l1 r]. destruct r as [a| |k|gn]; simpl; try reflexivity.
  destruct (f a) as [l2 r2]. destruct r2 as [b| |k|gn]; simpl; try reflexivity.
  destruct (g b) as [l3 r3]. rewrite app_assoc. reflexivity.
Qed.

Lemma try_finally_prefix {A B} (PL : logt) (a : A) (f : A -> M B) (fin : M unit) :
  try_finally (bind (PL, Val a) f) fin =
  (PL ++ fst (try_finally (f a) fin), snd (try_finally (f a) fin)).
Proof.
  simpl. destruct (f a) as [l2 r2]. simpl.
  destruct r2 as [b| |k|gn]; simpl; try reflexivity;
    destruct fin as [l3 r3]; simpl; rewrite app_assoc; reflexivity.
Qed.

(* ------------------------------------------------------ descriptor phase *)

Definition fd_failed (e : entry) : bool := fd_only e && negb (benignb e).

Section Phase.
  Variable er : bool.
  Variable o : oracle.

  Lemma zrange_S start n : zrange start (S n) = start :: zrange (start + 1) n.
  Proof. reflexivity. Qed.

  Lemma closes_cases : forall n i,
    (exists CL, closes er o i n = (CL, Val tt) /\ map fst CL = map Close (zrange i n) /\
                forallb benignb CL = true /\ forallb fd_only CL = true) \/
    (exists CL, closes er o i n = (CL, Exc EOther) /\ forallb fd_only CL = true /\
                existsb fd_failed CL = true).
  Proof.
    induction n as [|n IH]; intro i.
    - left. exists []. simpl. auto.
    - simpl closes. unfold close_fd, try_except_os, sys. simpl.
      destruct (o (SClose i)) as [[e|]|] eqn:E; simpl.
      + destruct (IH (i + 1)) as [(CL & H1 & H2 & H3 & H4) | (CL & H1 & H2 & H5)]; rewrite H1; simpl.
        * left. eexists. split; [reflexivity|]. simpl. rewrite H2, H3, H4. auto.
        * right. eexists. split; [reflexivity|]. simpl. rewrite H2, H5. auto.
      + right. eexists. split; [reflexivity|]. split; reflexivity.
      + destruct (IH (i + 1)) as [(CL & H1 & H2 & H3 & H4) | (CL & H1 & H2 & H5)]; rewrite H1; simpl.
        * left. eexists. split; [reflexivity|]. simpl. rewrite H2, H3, H4. auto.
        * right. eexists. split; [reflexivity|]. simpl. rewrite H2, H5. auto.
  Qed.

  Definition fd_phase (c : config) : M unit := sys er o Setpgrp ;; prepare_child_fds er o c.

  Lemma fd_phase_cases c :
    (exists PL, fd_phase c = (PL, Val tt) /\ map fst PL = expected_fd_calls c /\
                forallb benignb PL = true /\ forallb fd_only PL = true) \/
    (exists PL k, fd_phase c = (PL, Exc k) /\ forallb fd_only PL = true /\ existsb fd_failed PL = true).
  Proof.
    unfold fd_phase, prepare_child_fds, prepare_child_fds_fcgi, prepare_child_fds_plain, expected_fd_calls.
    unfold sys. simpl.
    destruct (o SSetpgrp) as [k|] eqn:E0; simpl; [right; do 2 eexists; split; [reflexivity|]; destruct k; split; reflexivity|].
    destruct (c_fcgi c); simpl.
    all: destruct (o (SDup2 0)) as [k|]; simpl; [right; do 2 eexists; split; [reflexivity|]; destruct k; split; reflexivity|].
    all: destruct (o (SDup2 1)) as [k|]; simpl; [right; do 2 eexists; split; [reflexivity|]; destruct k; split; reflexivity|].
    all: destruct (c_redirect_stderr c); simpl.
    all: destruct (o (SDup2 2)) as [k|]; simpl; [right; do 2 eexists; split; [reflexivity|]; destruct k; split; reflexivity|].
    all: destruct (closes_cases (Z.to_nat (o_minfds c - 3)) 3) as [(CL & H1 & H2 & H3 & H4) | (CL & H1 & H2 & H5)];
          rewrite H1; simpl.
    all: try (left; eexists; split; [reflexivity|]; simpl; rewrite H2, H3, H4; auto).
    all: right; do 2 eexists; split; [reflexivity|]; simpl; rewrite H2, H5; auto.
  Qed.
End Phase.
