(* C18: ServerOptions.drop_privileges by itself, the close range, non-vacuity examples. *)
From Coq Require Import ZArith List Bool String Lia.
Import ListNotations.
Require Import SV.C18.Child SV.C18.ChildSpec SV.C18.ChildProofs SV.C18.ChildTail.
Open Scope string_scope.
Open Scope list_scope.
Open Scope Z_scope.

Ltac drop_cases :=
  unfold drop_privileges, try_except_os, bind, sys, ret, site_of;
  repeat (cbn; tail_step); cbn.

Definition target_uid (u : userspec) (pwuid : Z) : Z :=
  match u with ById n => n | ByName => pwuid end.

(* the calls of a complete switch, all successful, in the order groups, gid, uid *)
Definition full_switch (w : world) (gid uid : Z) : logt :=
  (if w_has_setgroups w then [(Setgroups (gid :: w_groups w), None)] else [])
  ++ [(Setgid gid, None); (Setuid uid, None)].

(* a returned None means: the process now has the configured user's uid, and
   unless it had it already, its gid and groups *)
Theorem drop_none_switches : forall er o w u l,
  drop_privileges er o w (Some u) = (l, Val None) ->
  exists name pwuid gid,
    w_pw w = Some (name, pwuid, gid) /\
    ((w_curuid w = target_uid u pwuid /\ l = []) \/
     (w_curuid w = 0 /\ l = full_switch w gid (target_uid u pwuid))).
Proof.
  intros er o w u l. unfold full_switch, target_uid.
  drop_cases; intro H; inversion H; subst; clear H;
    do 3 eexists; (split; [reflexivity|]);
    first [ left; split; [apply Z.eqb_eq; assumption | reflexivity]
          | right; split; [ match goal with H : negb (_ =? 0) = false |- _ =>
                                apply negb_false_iff in H; apply Z.eqb_eq in H; exact H end
                          | reflexivity ] ].
Qed.

(* not root and not already that user: refuses, changes nothing *)
Theorem drop_nonroot_refuses : forall er o w u name pwuid gid,
  w_pw w = Some (name, pwuid, gid) ->
  w_curuid w <> target_uid u pwuid -> w_curuid w <> 0 ->
  drop_privileges er o w (Some u) = ([], Val (Some RNonRoot)).
Proof.
  intros er o w u name pwuid gid Hpw H1 H2. unfold drop_privileges, target_uid in *. rewrite Hpw.
  destruct (w_curuid w =? match u with ById n => n | ByName => pwuid end) eqn:E1; [apply Z.eqb_eq in E1; contradiction|].
  destruct (w_curuid w =? 0) eqn:E2; [apply Z.eqb_eq in E2; contradiction|].
  reflexivity.
Qed.

(* an unknown user: a message, no call *)
Theorem drop_unknown_user : forall er o w u,
  w_pw w = None ->
  drop_privileges er o w (Some u) =
  ([], Val (Some (match u with ById _ => RNoUid | ByName => RNoName end))).
Proof. intros er o w u H. unfold drop_privileges. rewrite H. reflexivity. Qed.

(* a failing call is the last one, and the result is then not `None` *)
Definition failed (e : entry) : bool := match snd e with Some _ => true | None => false end.

Theorem drop_failure_stops : forall er o w u l r,
  drop_privileges er o w u = (l, r) ->
  existsb failed l = true ->
  forallb (fun e => negb (failed e)) (removelast l) = true /\ r <> Val None.
Proof.
  intros er o w u l r.
  drop_cases; intro H; inversion H; subst; clear H; cbn; intro F; try discriminate;
    (split; [reflexivity | discriminate]).
Qed.

(* OSError from setgroups / setgid is turned into the documented message *)
Theorem drop_oserror_message : forall er o w u l r x e,
  drop_privileges er o w u = (l, r) -> In x l -> snd x = Some (EOS e) ->
  (exists gs, fst x = Setgroups gs /\ r = Val (Some RSetgroups)) \/
  (exists g, fst x = Setgid g /\ r = Val (Some RSetgid)) \/
  (exists n, fst x = Setuid n /\ r = Val (Some RSetuid)).
Proof.
  intros er o w u l r x e.
  drop_cases; intro H; inversion H; subst; clear H; cbn; intros HI HS;
    repeat match goal with
           | H : _ \/ _ |- _ => destruct H
           | H : False |- _ => contradiction
           end; subst; cbn in HS; try discriminate; inversion HS; subst;
    first [ left; eexists; split; reflexivity
          | right; left; eexists; split; reflexivity
          | right; right; eexists; split; reflexivity ].
Qed.

(* ---- Close i for exactly every 3 <= i < minfds *)
Lemma zrange_In : forall n start i, In i (zrange start n) <-> start <= i < start + Z.of_nat n.
Proof.
  induction n as [|n IH]; intros start i.
  - simpl. lia.
  - rewrite zrange_S. simpl In. rewrite IH. lia.
Qed.

Theorem close_range : forall c i,
  In (Close i) (expected_fd_calls c) <-> 3 <= i < o_minfds c.
Proof.
  intros c i. unfold expected_fd_calls. rewrite in_app_iff. split.
  - intros [H | H].
    + simpl in H. repeat destruct H as [H | H]; try discriminate; contradiction.
    + apply in_map_iff in H. destruct H as (j & E & H). inversion E; subst.
      apply zrange_In in H. lia.
  - intro H. right. apply in_map. apply zrange_In. lia.
Qed.

(* ---- os.setuid() raising OSError (repaired in 564b475): reported like the
   setgroups / setgid failures *)
Definition kf_config : config :=
  Build_config "prog" (Some 1000) None None None None None false 3 false None "/bin/prog" ["prog"].
Definition kf_world : world := Build_world [] 0 (Some ("bob", 1000, 100)) [] true.
Definition kf_oracle : oracle := fun s => match s with SSetuid => Some (EOS 1) | _ => None end.

Example ex_setuid_fails :
  run false kf_config kf_world kf_oracle =
  ([(Setpgrp, None); (Dup2 ChildStdin 0, None); (Dup2 ChildStdout 1, None); (Dup2 ChildStderr 2, None);
    (Setgroups [100], None); (Setgid 100, None); (Setuid 1000, Some (EOS 1));
    (Write 2 (MSetuid RSetuid), None); (Write 2 MNotSpawned, None); (Exit 127, None)], EExit).
Proof. vm_compute. reflexivity. Qed.

(* ---- non-vacuity: runs that meet the hypotheses of the theorems *)
Definition ex_config : config :=
  Build_config "prog" (Some 1000) (Some "/d") (Some 23)
               (Some [("A", "1"); ("SUPERVISOR_PROCESS_NAME", "evil")]) None (Some "unix:///o")
               false 6 true (Some "grp") "/bin/prog" ["prog"; "-x"].
Definition ex_world : world := Build_world [("PATH", "/bin"); ("A", "0")] 0 (Some ("bob", 1000, 100)) [7; 8] true.
Definition ok_oracle : oracle := fun s => match s with SClose 4 => Some (EOS 9) | _ => None end.

Example ex_exec :
  run false ex_config ex_world ok_oracle =
  ([(Setpgrp, None); (Dup2 FcgiSock 0, None); (Dup2 ChildStdout 1, None); (Dup2 ChildStderr 2, None);
    (Close 3, None); (Close 4, Some (EOS 9)); (Close 5, None);
    (Setgroups [100; 7; 8], None); (Setgid 100, None); (Setuid 1000, None);
    (Chdir "/d", None); (Umask 23, None);
    (Execve "/bin/prog" ["prog"; "-x"] (child_env ex_config ex_world), None)], EExec).
Proof. vm_compute. reflexivity. Qed.

Example ex_env_lookup :
  map (fun k => lookup k (child_env ex_config ex_world))
      ["A"; "PATH"; "SUPERVISOR_ENABLED"; "SUPERVISOR_SERVER_URL"; "SUPERVISOR_PROCESS_NAME";
       "SUPERVISOR_GROUP_NAME"; "NOPE"] =
  [Some "1"; Some "/bin"; Some "1"; Some "unix:///o"; Some "evil"; Some "grp"; None].
Proof. vm_compute. reflexivity. Qed.

Definition chdir_fails : oracle :=
  fun s => match s with SChdir => Some (EOS 2) | SWriteFinal => Some (EOS 32) | _ => None end.

Example ex_chdir_failure :
  run false ex_config ex_world chdir_fails =
  ([(Setpgrp, None); (Dup2 FcgiSock 0, None); (Dup2 ChildStdout 1, None); (Dup2 ChildStderr 2, None);
    (Close 3, None); (Close 4, None); (Close 5, None);
    (Setgroups [100; 7; 8], None); (Setgid 100, None); (Setuid 1000, None);
    (Chdir "/d", Some (EOS 2)); (Write 2 (MChdir 2), None);
    (Write 2 MNotSpawned, Some (EOS 32)); (Exit 127, None)], EExit).
Proof. vm_compute. reflexivity. Qed.

(* if _exit returned, control would come back into supervisord's code *)
Example ex_exit_returns :
  snd (run true ex_config ex_world chdir_fails) = ERaised (EOS 32).
Proof. vm_compute. reflexivity. Qed.

Example ex_drop_none :
  drop_privileges false ok_oracle ex_world (Some (ById 1000)) =
  ([(Setgroups [100; 7; 8], None); (Setgid 100, None); (Setuid 1000, None)], Val None).
Proof. vm_compute. reflexivity. Qed.

(* ---- the descriptor table behind the symbolic sources of c18_order.
   dup2 copies what the source descriptor refers to at that moment; the order
   0, 1, 2 is right for every numbering in which the stdout and stderr pipe
   ends are not 0 and the stderr end is not 1 - which holds for the numbers
   os.pipe() hands out (child_stdin gets the lowest free number, the others
   come later), whichever of 0/1/2 supervisord had closed. *)
Definition dup2_tab (t : Z -> Z) (src to : Z) : Z -> Z :=
  fun fd => if fd =? to then t src else t fd.

Definition after_fds (a b c : Z) : Z -> Z :=
  dup2_tab (dup2_tab (dup2_tab (fun fd => fd) a 0) b 1) c 2.

Theorem fd_table_ok : forall a b c,
  b <> 0 -> c <> 0 -> c <> 1 ->
  after_fds a b c 0 = a /\ after_fds a b c 1 = b /\ after_fds a b c 2 = c.
Proof.
  intros a b c Hb Hc0 Hc1. unfold after_fds, dup2_tab. cbn.
  assert (E1 : (b =? 0) = false) by (apply Z.eqb_neq; exact Hb).
  assert (E2 : (c =? 0) = false) by (apply Z.eqb_neq; exact Hc0).
  assert (E3 : (c =? 1) = false) by (apply Z.eqb_neq; exact Hc1).
  rewrite E1, E2, E3. auto.
Qed.

(* connecting stderr first is wrong when child_stdin is descriptor 2 *)
Example fd_table_reordered_wrong :
  let t := dup2_tab (dup2_tab (dup2_tab (fun fd => fd) 54 2) 2 0) 53 1 in t 0 = 54.
Proof. reflexivity. Qed.
