(* C18: the property theorems, for every configuration, world and oracle. *)
From Coq Require Import ZArith List Bool String Lia.
Import ListNotations.
Require Import SV.C18.Child SV.C18.ChildSpec SV.C18.ChildProofs SV.C18.ChildTail SV.C18.ChildTailFacts.
Open Scope string_scope.
Open Scope list_scope.
Open Scope Z_scope.

(* ------------------------------------------------------ generic list facts *)

Lemma removelast_app_ne {A} (l1 l2 : list A) : l2 <> [] -> removelast (l1 ++ l2) = l1 ++ removelast l2.
Proof. intro H. apply removelast_app. exact H. Qed.

Lemma last_app_ne {A} (l1 l2 : list A) d : l2 <> [] -> last (l1 ++ l2) d = last l2 d.
Proof.
  intro H. induction l1 as [|x l1 IH]; simpl; [reflexivity|].
  destruct (l1 ++ l2) eqn:E; [|exact IH].
  apply app_eq_nil in E. destruct E as [_ E]. contradiction.
Qed.

Lemma fd_only_not_exec_succeeded l : forallb fd_only l = true -> forallb not_exec_succeeded l = true.
Proof.
  induction l as [|[c r] l IH]; simpl; [reflexivity|].
  intro H. apply andb_true_iff in H. destruct H as [H1 H2]. rewrite IH by assumption.
  destruct c; simpl in *; try discriminate; reflexivity.
Qed.

(* ------------------------------------------------------ the theorems *)

Lemma run_log er c w o : fst (run er c w o) = fst (spawn_as_child er o c w).
Proof. unfold run. destruct (spawn_as_child er o c w). reflexivity. Qed.

Lemma run_end er c w o : snd (run er c w o) = ending_of (snd (spawn_as_child er o c w)).
Proof. unfold run. destruct (spawn_as_child er o c w). reflexivity. Qed.

(* c18_order *)
Theorem order_thm : forall er c w o pre x post,
  split_exec (fst (run er c w o)) = Some (pre, x, post) ->
  exec_ok c w pre x /\ forallb not_execve post = true.
Proof.
  intros er c w o pre x post. rewrite run_log.
  destruct (spawn_decomp er o c w) as [(PL & H1 & H2 & H3 & H4) | (PL & k & H1 & HF & H2)].
  - rewrite H4. simpl fst. rewrite split_exec_app_noexec by (apply fd_only_not_execve; exact H3).
    pose proof (tail_order er o c w) as T. unfold tail_order_goal in T.
    destruct (split_exec (fst (tail er o c w))) as [[[p e] q]|]; [|discriminate].
    intro E. inversion E; subst; clear E.
    destruct (expected_identity_calls c w) as [ids|] eqn:EI; [|contradiction].
    destruct T as (T1 & T2 & T3 & T4). split; [|exact T4].
    exists ids, (child_env c w).
    split; [exact EI|]. split; [rewrite map_app; f_equal; [exact H1 | exact T1]|].
    split; [rewrite forallb_app; apply andb_true_iff; split; [exact H2 | exact T2]|].
    split; [exact T3 | apply child_env_lookup].
  - rewrite H2. simpl fst. rewrite fin_after_log.
    rewrite split_exec_app_noexec by (apply fd_only_not_execve; exact H1).
    simpl. discriminate.
Qed.

(* c18_no_exec_after_failure, part 1 *)
Theorem nef_thm : forall er c w o, nef false (fst (run er c w o)) = true.
Proof.
  intros er c w o. rewrite run_log.
  destruct (spawn_decomp er o c w) as [(PL & H1 & H2 & H3 & H4) | (PL & k & H1 & HF & H2)].
  - rewrite H4. simpl fst. rewrite nef_app_benign; [apply tail_nef | exact H2 | apply fd_only_not_execve; exact H3].
  - rewrite H2. simpl fst. rewrite fin_after_log. apply nef_noexec.
    rewrite forallb_app, (fd_only_not_execve _ H1). reflexivity.
Qed.

Theorem no_exec_after_failure_thm : forall er c w o pre x post,
  fst (run er c w o) = pre ++ x :: post -> benignb x = false -> forallb not_execve post = true.
Proof. intros. eapply nef_sound; eauto. apply nef_thm. Qed.

(* part 2: no execve at all when the user cannot be switched to *)
Theorem no_exec_without_identity_thm : forall er c w o,
  expected_identity_calls c w = None -> forallb not_execve (fst (run er c w o)) = true.
Proof.
  intros er c w o HN.
  destruct (split_exec (fst (run er c w o))) as [[[p e] q]|] eqn:E.
  - destruct (order_thm _ _ _ _ _ _ _ E) as [(ids & e' & A & _) _]. congruence.
  - clear HN. revert E. generalize (fst (run er c w o)). induction l as [|x l IH]; simpl; [reflexivity|].
    unfold not_execve at 1. destruct (is_execve x); [discriminate|].
    destruct (split_exec l) as [[[p e] q]|]; [discriminate|]. intros _. apply IH. reflexivity.
Qed.

(* c18_exit_127_last *)
Theorem exit_last_thm : forall c w o,
  let '(log, e) := run false c w o in
  exists pre,
    forallb not_exit pre = true /\ forallb not_exec_succeeded pre = true /\
    ((e = EExec /\ exists env, log = pre ++ [(Execve (c_file c) (c_argv c) env, None)]) \/
     (e = EExit /\ log = pre ++ [(Exit 127, None)])).
Proof.
  intros c w o. unfold run.
  destruct (spawn_decomp false o c w) as [(PL & H1 & H2 & H3 & H4) | (PL & k & H1 & HF & H2)].
  - rewrite H4. destruct (tail_ends o c w) as (N & A & B & C).
    exists (PL ++ removelast (fst (tail false o c w))).
    split; [rewrite forallb_app; apply andb_true_iff; split; [apply fd_only_not_exit; exact H3 | exact A]|].
    split; [rewrite forallb_app; apply andb_true_iff; split; [apply fd_only_not_exec_succeeded; exact H3 | exact B]|].
    destruct C as [(R & e & L) | (R & L)]; rewrite R; simpl ending_of.
    + left. split; [reflexivity|]. exists e. rewrite <- app_assoc. f_equal.
      etransitivity; [apply (app_removelast_last dflt_entry); exact N | do 2 f_equal; exact L].
    + right. split; [reflexivity|]. rewrite <- app_assoc. f_equal.
      etransitivity; [apply (app_removelast_last dflt_entry); exact N | do 2 f_equal; exact L].
  - rewrite H2. rewrite fin_after_log, fin_after_res. simpl ending_of.
    exists (PL ++ [(Write 2 MNotSpawned, o SWriteFinal)]).
    split; [rewrite forallb_app; apply andb_true_iff; split; [apply fd_only_not_exit; exact H1 | reflexivity]|].
    split; [rewrite forallb_app; apply andb_true_iff; split;
            [apply fd_only_not_exec_succeeded; exact H1 | destruct (o SWriteFinal); reflexivity]|].
    right. split; [reflexivity|]. rewrite <- app_assoc. reflexivity.
Qed.

(* nothing is called after _exit even if it returned *)
Lemma closes_er_indep o : forall n i, closes true o i n = closes false o i n.
Proof. induction n as [|n IH]; intro i; simpl; [reflexivity|]. rewrite IH. reflexivity. Qed.

Lemma fd_phase_er_indep o c : fd_phase true o c = fd_phase false o c.
Proof.
  unfold fd_phase, prepare_child_fds, prepare_child_fds_fcgi, prepare_child_fds_plain.
  rewrite closes_er_indep. reflexivity.
Qed.

Theorem exit_is_last_call_thm : forall c w o, fst (run true c w o) = fst (run false c w o).
Proof.
  intros c w o. rewrite !run_log. unfold spawn_as_child. rewrite !child_body_split.
  rewrite fd_phase_er_indep. destruct (fd_phase false o c) as [PL r].
  destruct r as [[]| |k|g].
  - rewrite (try_finally_prefix PL tt (fun _ => post_phase true o c w)).
    rewrite (try_finally_prefix PL tt (fun _ => post_phase false o c w)).
    simpl fst. fold (tail true o c w). fold (tail false o c w).
    rewrite tail_exit_returns_same_log. reflexivity.
  - simpl. pose proof (child_finally_log true o) as A. pose proof (child_finally_log false o) as B.
    destruct (child_finally true o), (child_finally false o). simpl in *. subst. reflexivity.
  - simpl. pose proof (child_finally_log true o) as A. pose proof (child_finally_log false o) as B.
    destruct (child_finally true o), (child_finally false o). simpl in *. subst. reflexivity.
  - reflexivity.
Qed.

(* c18_msg_before_exit *)
Theorem rw_thm : forall er c w o, rw (fst (run er c w o)) = true.
Proof.
  intros er c w o. rewrite run_log.
  destruct (spawn_decomp er o c w) as [(PL & H1 & H2 & H3 & H4) | (PL & k & H1 & HF & H2)].
  - rewrite H4. simpl fst. rewrite rw_app_fd by exact H3. apply tail_rw.
  - rewrite H2. simpl fst. rewrite rw_app_fd by exact H1. rewrite fin_after_log.
    destruct (o SWriteFinal) as [[|]|]; reflexivity.
Qed.

Theorem reason_written_thm : forall er c w o pre x post m,
  fst (run er c w o) = pre ++ x :: post -> reason_for x = Some m ->
  exists r post', post = (Write 2 m, r) :: post'.
Proof. intros. eapply rw_sound; eauto. apply rw_thm. Qed.

(* a user that does not exist / a switch attempted without being root: the
   reason is written unless the descriptor set-up already failed *)
Theorem world_reason_thm : forall er c w o u,
  c_uid c = Some u ->
  let log := fst (run er c w o) in
  (w_pw w = None ->
     existsb (is_write_of (MSetuid RNoUid)) log = true \/
     existsb fd_failed log = true) /\
  (w_pw w <> None -> w_curuid w <> u -> w_curuid w <> 0 ->
     existsb (is_write_of (MSetuid RNonRoot)) log = true \/
     existsb fd_failed log = true).
Proof.
  intros er c w o u Hu. cbv zeta. rewrite run_log.
  pose proof (tail_world_reason er o c w) as T. unfold world_reason_goal in T. rewrite Hu in T.
  destruct (spawn_decomp er o c w) as [(PL & H1 & H2 & H3 & H4) | (PL & k & H1 & HF & H2)].
  - rewrite H4. simpl fst. split.
    + intro Hpw. rewrite Hpw in T. left. rewrite existsb_app. apply orb_true_iff. right. exact T.
    + intros Hpw Hne H0. destruct (w_pw w); [|congruence].
      destruct (w_curuid w =? u) eqn:E1; [lia|]. destruct (w_curuid w =? 0) eqn:E2; [lia|].
      left. rewrite existsb_app. apply orb_true_iff. right. exact T.
  - rewrite H2. simpl fst.
    split; intros; right; rewrite existsb_app; apply orb_true_iff; left; exact HF.
Qed.
