(* C18: entry points of the correspondence check.  One case pairs an input
   (configuration, world, oracle as a finite table, exit_returns flag) with the
   call log and ending observed on the real _spawn_as_child; Coq re-runs the
   model and compares.  Environments are compared as finite maps. *)
From Coq Require Import ZArith List Bool String Lia.
Import ListNotations.
Require Import SV.Common SV.C18.Child.
Open Scope Z_scope.

Definition errkind_eqb (a b : errkind) : bool :=
  match a, b with
  | EOS x, EOS y => x =? y
  | EOther, EOther => true
  | _, _ => false
  end.

Definition site_eqb (a b : site) : bool :=
  match a, b with
  | SSetpgrp, SSetpgrp | SSetgroups, SSetgroups | SSetgid, SSetgid | SSetuid, SSetuid
  | SChdir, SChdir | SUmask, SUmask | SExecve, SExecve | SWriteMsg, SWriteMsg
  | SWriteFinal, SWriteFinal | SExit, SExit => true
  | SDup2 x, SDup2 y => x =? y
  | SClose x, SClose y => x =? y
  | _, _ => false
  end.

(* the oracle given by a finite table; sites not listed succeed *)
Fixpoint oracle_of (t : list (site * errkind)) (s : site) : option errkind :=
  match t with
  | [] => None
  | (s', k) :: r => if site_eqb s s' then Some k else oracle_of r s
  end.

(* table first, then `dflt` for every site not listed (saturated oracles) *)
Definition oracle_of_dflt (t : list (site * option errkind)) (dflt : option errkind) (s : site)
  : option errkind :=
  (fix go t := match t with
               | [] => dflt
               | (s', k) :: r => if site_eqb s s' then k else go r
               end) t.

Definition fdsrc_eqb (a b : fdsrc) : bool :=
  match a, b with
  | ChildStdin, ChildStdin | ChildStdout, ChildStdout | ChildStderr, ChildStderr
  | FcgiSock, FcgiSock => true
  | _, _ => false
  end.

Definition reason_eqb (a b : reason) : bool :=
  match a, b with
  | RNoUser, RNoUser | RNoName, RNoName | RNoUid, RNoUid | RNonRoot, RNonRoot
  | RSetgroups, RSetgroups | RSetgid, RSetgid | RSetuid, RSetuid => true
  | _, _ => false
  end.

Definition msg_eqb (a b : msg) : bool :=
  match a, b with
  | MSetuid x, MSetuid y => reason_eqb x y
  | MChdir x, MChdir y => x =? y
  | MExecOS x, MExecOS y => x =? y
  | MExecOther, MExecOther => true
  | MNotSpawned, MNotSpawned => true
  | _, _ => false
  end.

Definition ostr_eqb := option_eqb String.eqb.

(* equal as finite maps: same lookup on every key occurring in either *)
Definition env_equivb (a b : envt) : bool :=
  forallb (fun kv => ostr_eqb (lookup (fst kv) a) (lookup (fst kv) b)) (a ++ b).

Definition call_eqb (a b : call) : bool :=
  match a, b with
  | Setpgrp, Setpgrp => true
  | Dup2 s t, Dup2 s' t' => fdsrc_eqb s s' && (t =? t')
  | Close x, Close y => x =? y
  | Setgroups x, Setgroups y => zlist_eqb x y
  | Setgid x, Setgid y => x =? y
  | Setuid x, Setuid y => x =? y
  | Chdir x, Chdir y => String.eqb x y
  | Umask x, Umask y => x =? y
  | Execve f a e, Execve f' a' e' => String.eqb f f' && list_eqb String.eqb a a' && env_equivb e e'
  | Write x m, Write y m' => (x =? y) && msg_eqb m m'
  | Exit x, Exit y => x =? y
  | _, _ => false
  end.

Definition entry_eqb (a b : entry) : bool :=
  call_eqb (fst a) (fst b) && option_eqb errkind_eqb (snd a) (snd b).

Definition ending_eqb (a b : ending) : bool :=
  match a, b with
  | EExec, EExec | EExit, EExit | EReturned, EReturned => true
  | ERaised x, ERaised y => errkind_eqb x y
  | _, _ => false
  end.

Definition result_eqb (a b : logt * ending) : bool :=
  list_eqb entry_eqb (fst a) (fst b) && ending_eqb (snd a) (snd b).

(* a case: exit_returns, config, world, oracle table (the sites the real run
   consulted, with the decisions taken), observed log, observed ending.  The
   model is evaluated three times: every site outside the table succeeding,
   failing with OSError, failing with another exception - the real run never
   consulted them, so the model must not depend on them either. *)
Definition child_case :=
  (bool * config * world * list (site * option errkind) * logt * ending)%type.

Definition check_child (cs : child_case) : bool :=
  let '(er, c, w, t, l, e) := cs in
  result_eqb (run er c w (oracle_of_dflt t None)) (l, e) &&
  result_eqb (run er c w (oracle_of_dflt t (Some (EOS 1)))) (l, e) &&
  result_eqb (run er c w (oracle_of_dflt t (Some EOther))) (l, e).

(* all decision paths of one configuration at once, in a compact notation:
   the configuration, the world and the (unique) observed execve call are
   written once per group; the oracle table is read off the observed log
   (site of each call, outcome observed there). *)
Inductive centry := CE (c : call) (r : option errkind) | CX (r : option errkind).
Definition o (c : call) := CE c None.
Definition f (c : call) (n : Z) := CE c (Some (EOS n)).
Definition x (c : call) := CE c (Some EOther).
Definition xo := CX None.
Definition xf (n : Z) := CX (Some (EOS n)).
Definition xx := CX (Some EOther).

Definition expand (ex : call) (l : list centry) : logt :=
  map (fun e => match e with CE c r => (c, r) | CX r => (ex, r) end) l.

Definition table_of (l : logt) : list (site * option errkind) :=
  map (fun e => (site_of (fst e), snd e)) l.

Definition child_group :=
  (config * world * call * list (bool * list centry * ending))%type.

Definition check_group (g : child_group) : bool :=
  let '(c, w, ex, paths) := g in
  forallb (fun p => let '(er, l, e) := p in
                    let l := expand ex l in
                    check_child (er, c, w, table_of l, l, e)) paths.

(* drop_privileges alone: world, user, oracle table, observed log, observed
   result (Some (Some reason) / Some None for a returned value, None + kind when it raised) *)
Inductive drop_result := DValue (r : option reason) | DRaised (k : errkind).

Definition drop_result_of (r : res (option reason)) : option drop_result :=
  match r with
  | Val v => Some (DValue v)
  | Exc k => Some (DRaised k)
  | _ => None
  end.

Definition drop_result_eqb (a b : drop_result) : bool :=
  match a, b with
  | DValue x, DValue y => option_eqb reason_eqb x y
  | DRaised x, DRaised y => errkind_eqb x y
  | _, _ => false
  end.

Definition drop_case := (world * option userspec * list (site * option errkind) * logt * drop_result)%type.

Definition check_drop (cs : drop_case) : bool :=
  let '(w, u, t, l, r) := cs in
  let '(l', r') := drop_privileges false (oracle_of_dflt t None) w u in
  list_eqb entry_eqb l' l && option_eqb drop_result_eqb (drop_result_of r') (Some r).

(* parse-time merge of [supervisord] and [program:x] environments *)
Definition check_parse_env (cs : envt * envt * envt) : bool :=
  let '(s, p, observed) := cs in env_equivb (parse_time_env s p) observed.
