(* C18: the part of the child's run after the descriptor set-up, analysed by
   exhaustive case distinction on the finitely many decisions it depends on. *)
From Coq Require Import ZArith List Bool String Lia.
Import ListNotations.
Require Import SV.C18.Child SV.C18.ChildSpec SV.C18.ChildProofs.
Open Scope string_scope.
Open Scope list_scope.
Open Scope Z_scope.

Section Tail.
  Variable er : bool.
  Variable o : oracle.

  (* child_body after `self._prepare_child_fds()` *)
  Definition post_phase (c : config) (w : world) : M unit :=
    set_uid er o c w >>= fun setuid_msg =>
    match setuid_msg with
    | Some r => sys er o (Write 2 (MSetuid r)) ;; return_
    | None =>
      let env := child_env c w in
      try_except_os
        (match c_directory c with Some d => sys er o (Chdir d) | None => ret tt end)
        (fun e => sys er o (Write 2 (MChdir e)) ;; return_) ;;
      try_except_os_bare
        ((match c_umask c with Some m => sys er o (Umask m) | None => ret tt end) ;;
         sys er o (Execve (c_file c) (c_argv c) env))
        (fun e => sys er o (Write 2 (MExecOS e)))
        (sys er o (Write 2 MExecOther))
    end.

  Lemma child_body_split c w :
    child_body er o c w = bind (fd_phase er o c) (fun _ => post_phase c w).
  Proof. unfold child_body, fd_phase, post_phase. rewrite bind_assoc. reflexivity. Qed.

  Definition tail (c : config) (w : world) : M unit :=
    try_finally (post_phase c w) (child_finally er o).

  (* what the outer finally does to an exception from the descriptor phase *)
  Definition fin_after (k : errkind) : M unit :=
    try_finally (([], Exc k) : M unit) (child_finally er o).

  Lemma spawn_decomp c w :
    (exists PL, map fst PL = expected_fd_calls c /\ forallb benignb PL = true /\ forallb fd_only PL = true /\
                spawn_as_child er o c w = (PL ++ fst (tail c w), snd (tail c w))) \/
    (exists PL k, forallb fd_only PL = true /\ existsb fd_failed PL = true /\
                  spawn_as_child er o c w = (PL ++ fst (fin_after k), snd (fin_after k))).
  Proof.
    unfold spawn_as_child. rewrite child_body_split.
    destruct (fd_phase_cases er o c) as [(PL & H1 & H2 & H3 & H4) | (PL & k & H1 & H2 & H5)]; rewrite H1.
    - left. exists PL. repeat split; try assumption. apply (try_finally_prefix PL tt (fun _ => post_phase c w)).
    - right. exists PL, k. split; [assumption|]. split; [assumption|].
      unfold fin_after. simpl. destruct (child_finally er o) as [l r].
      simpl. destruct r; reflexivity.
  Qed.
End Tail.

(* the finitely many decisions the tail depends on, taken apart one by one *)
Ltac blocker t :=
  lazymatch t with
  | match ?x with _ => _ end => blocker x
  | ?f ?x =>
    lazymatch x with
    | context [match _ with _ => _ end] => blocker x
    | _ => lazymatch f with
           | context [match _ with _ => _ end] => blocker f
           | _ => t
           end
    end
  | _ => t
  end.

(* destruct only what blocks evaluation right now: the innermost scrutinee of
   the outermost stuck match (so unreachable decisions are never split) *)
Ltac tail_step :=
  match goal with
  | |- context [match ?x with _ => _ end] => let b := blocker x in destruct b eqn:?
  end.

Ltac tail_unfold :=
  unfold tail, fin_after, post_phase, set_uid, drop_privileges, child_finally,
         try_finally, try_except_os, try_except_os_bare, bind, sys, ret, return_, site_of.

Ltac tail_cases :=
  tail_unfold; repeat (cbn -[child_env]; rewrite ?Z.eqb_refl; tail_step); cbn -[child_env]; rewrite ?Z.eqb_refl.

(* a first use: with exit_returns = false the tail always ends in exec or exit *)
Lemma tail_test o c w :
  snd (tail false o c w) = Gone Execd \/ snd (tail false o c w) = Gone Exited.
Proof.
  tail_cases; auto.
Qed.
