(* C18: executable model of the forked child's path to execve.

   Transcribed from the current tree:
     supervisor/process.py   Subprocess._spawn_as_child, Subprocess._prepare_child_fds,
                             FastCGISubprocess._prepare_child_fds, Subprocess.set_uid
     supervisor/options.py   ServerOptions.drop_privileges and the one-line wrappers
                             setpgrp / dup2 / close_fd / chdir / setumask / execve / write / _exit
                             (only close_fd has a handler of its own: `except OSError: pass`)

   The child is a program over an ORACLE  fail : site -> option errkind  deciding,
   for every system call site, whether the call succeeds (None) or raises
   OSError(errno) / some other exception.  Python's control flow (try/except
   OSError, bare except, try/finally, return inside try) is expressed by a few
   combinators with Python's semantics, so that "finally still runs" is a
   theorem about the transcription and not a modelling decision.

   The result of a run is the ordered log of attempted system calls, each with
   its outcome, and the way the function ends. *)
From Coq Require Import ZArith List Bool String Lia.
Import ListNotations.
Open Scope string_scope.
Open Scope list_scope.
Open Scope Z_scope.

(* ------------------------------------------------------------------ data *)

Inductive errkind := EOS (errno : Z) | EOther.

(* where a descriptor passed to dup2 comes from *)
Inductive fdsrc := ChildStdin | ChildStdout | ChildStderr | FcgiSock.

(* the messages drop_privileges can return *)
Inductive reason := RNoUser | RNoName | RNoUid | RNonRoot | RSetgroups | RSetgid | RSetuid.

(* what is written to descriptor 2 *)
Inductive msg :=
| MSetuid (r : reason)      (* "supervisor: couldn't setuid to <uid>: <reason>\n" *)
| MChdir (e : Z)            (* "supervisor: couldn't chdir to <dir>: <errno name>\n" *)
| MExecOS (e : Z)           (* "supervisor: couldn't exec <argv0>: <errno name>\n" *)
| MExecOther                (* "supervisor: couldn't exec <filename>: <traceback summary>\n" *)
| MNotSpawned.              (* "supervisor: child process was not spawned\n" *)

(* environments: association lists, later entries override earlier ones *)
Definition envt := list (string * string).

Fixpoint lookup (k : string) (e : envt) : option string :=
  match e with
  | [] => None
  | (k', v) :: r =>
    match lookup k r with
    | Some v' => Some v'
    | None => if String.eqb k k' then Some v else None
    end
  end.

Definition env_set (e : envt) (k v : string) : envt := e ++ [(k, v)].
Definition env_update (e e2 : envt) : envt := e ++ e2.

Inductive call :=
| Setpgrp
| Dup2 (src : fdsrc) (to : Z)
| Close (fd : Z)
| Setgroups (gs : list Z)
| Setgid (g : Z)
| Setuid (u : Z)
| Chdir (d : string)
| Umask (m : Z)
| Execve (file : string) (argv : list string) (e : envt)
| Write (fd : Z) (m : msg)
| Exit (code : Z).

(* call sites, as far as failures can be told apart *)
Inductive site :=
| SSetpgrp | SDup2 (to : Z) | SClose (fd : Z) | SSetgroups | SSetgid | SSetuid
| SChdir | SUmask | SExecve | SWriteMsg | SWriteFinal | SExit.

Definition site_of (c : call) : site :=
  match c with
  | Setpgrp => SSetpgrp
  | Dup2 _ to => SDup2 to
  | Close fd => SClose fd
  | Setgroups _ => SSetgroups
  | Setgid _ => SSetgid
  | Setuid _ => SSetuid
  | Chdir _ => SChdir
  | Umask _ => SUmask
  | Execve _ _ _ => SExecve
  | Write _ MNotSpawned => SWriteFinal
  | Write _ _ => SWriteMsg
  | Exit _ => SExit
  end.

Definition oracle := site -> option errkind.

Record config := {
  c_name : string;
  c_uid : option Z;                 (* config.uid *)
  c_directory : option string;      (* config.directory *)
  c_umask : option Z;               (* config.umask *)
  c_environment : option envt;      (* config.environment (None: not given) *)
  c_serverurl : option string;      (* config.serverurl *)
  o_serverurl : option string;      (* options.serverurl *)
  c_redirect_stderr : bool;
  o_minfds : Z;                     (* options.minfds *)
  c_fcgi : bool;                    (* FastCGISubprocess *)
  c_group : option string;          (* self.group.config.name when self.group *)
  c_file : string;                  (* filename, argv as resolved by spawn() *)
  c_argv : list string
}.

(* what the child finds around it *)
Record world := {
  w_environ : envt;                       (* os.environ *)
  w_curuid : Z;                           (* os.getuid() *)
  w_pw : option (string * Z * Z);         (* passwd entry found for the user: name, uid, gid *)
  w_groups : list Z;                      (* gids of the groups listing that name *)
  w_has_setgroups : bool                  (* hasattr(os, 'setgroups') *)
}.

(* -------------------------------------------- Python control flow, as values *)

Inductive gone := Execd | Exited.
Inductive res (A : Type) :=
| Val (a : A)            (* fell through with a value *)
| Ret                    (* `return` executed: unwinding to the function boundary *)
| Exc (k : errkind)      (* an exception is propagating *)
| Gone (g : gone).       (* this process no longer runs the program *)
Arguments Val {A}. Arguments Ret {A}. Arguments Exc {A}. Arguments Gone {A}.

Definition entry := (call * option errkind)%type.
Definition logt := list entry.
Definition M (A : Type) := (logt * res A)%type.

Definition ret {A} (a : A) : M A := ([], Val a).
Definition return_ {A} : M A := ([], Ret).

Definition bind {A B} (m : M A) (f : A -> M B) : M B :=
  let '(l1, r) := m in
  match r with
  | Val a => let '(l2, r2) := f a in (l1 ++ l2, r2)
  | Ret => (l1, Ret)
  | Exc k => (l1, Exc k)
  | Gone g => (l1, Gone g)
  end.
Notation "m >>= f" := (bind m f) (at level 62, left associativity).
Notation "m ;; n" := (bind m (fun _ => n)) (at level 62, left associativity).

(* try: m  except OSError as why: h why *)
Definition try_except_os {A} (m : M A) (h : Z -> M A) : M A :=
  let '(l1, r) := m in
  match r with
  | Exc (EOS e) => let '(l2, r2) := h e in (l1 ++ l2, r2)
  | _ => (l1, r)
  end.

(* try: m  except OSError as why: h why  except: g
   (an exception raised inside a handler is not caught by the sibling handler) *)
Definition try_except_os_bare {A} (m : M A) (h : Z -> M A) (g : M A) : M A :=
  let '(l1, r) := m in
  match r with
  | Exc (EOS e) => let '(l2, r2) := h e in (l1 ++ l2, r2)
  | Exc EOther => let '(l2, r2) := g in (l1 ++ l2, r2)
  | _ => (l1, r)
  end.

(* try: m  finally: f
   f runs however m ended, unless the process is gone; if f completes normally
   the pending outcome of m continues, otherwise f's outcome replaces it *)
Definition try_finally {A} (m : M A) (f : M unit) : M A :=
  let '(l1, r) := m in
  match r with
  | Gone g => (l1, Gone g)
  | _ =>
    let '(l2, r2) := f in
    (l1 ++ l2,
     match r2 with
     | Val _ => r
     | Ret => Ret
     | Exc k => Exc k
     | Gone g => Gone g
     end)
  end.

Section Run.
  (* exit_returns = false: os._exit never returns (reality).
     exit_returns = true: the variant used to observe where control would go
     if it did (the seam's _exit returns). *)
  Variable exit_returns : bool.
  Variable o : oracle.

  Definition sys (c : call) : M unit :=
    match c with
    | Exit _ => ([(c, None)], if exit_returns then Val tt else Gone Exited)
    | _ =>
      let r := o (site_of c) in
      ([(c, r)],
       match r with
       | Some k => Exc k
       | None => match c with Execve _ _ _ => Gone Execd | _ => Val tt end
       end)
    end.

  (* options.close_fd:  try: os.close(fd)  except OSError: pass *)
  Definition close_fd (fd : Z) : M unit :=
    try_except_os (sys (Close fd)) (fun _ => ret tt).

  (* for i in range(start, start + n): options.close_fd(i) *)
  Fixpoint closes (start : Z) (n : nat) : M unit :=
    match n with
    | O => ret tt
    | S n' => close_fd start ;; closes (start + 1) n'
    end.

  (* Subprocess._prepare_child_fds *)
  Definition prepare_child_fds_plain (c : config) : M unit :=
    sys (Dup2 ChildStdin 0) ;;
    sys (Dup2 ChildStdout 1) ;;
    (if c_redirect_stderr c then sys (Dup2 ChildStdout 2) else sys (Dup2 ChildStderr 2)) ;;
    closes 3 (Z.to_nat (o_minfds c - 3)).

  (* FastCGISubprocess._prepare_child_fds *)
  Definition prepare_child_fds_fcgi (c : config) : M unit :=
    sys (Dup2 FcgiSock 0) ;;
    sys (Dup2 ChildStdout 1) ;;
    (if c_redirect_stderr c then sys (Dup2 ChildStdout 2) else sys (Dup2 ChildStderr 2)) ;;
    closes 3 (Z.to_nat (o_minfds c - 3)).

  Definition prepare_child_fds (c : config) : M unit :=
    if c_fcgi c then prepare_child_fds_fcgi c else prepare_child_fds_plain c.

  (* ServerOptions.drop_privileges(user).  `user` None | by uid | by name; the
     passwd lookup result is w_pw.  Returns None or the message. *)
  Inductive userspec := ById (uid : Z) | ByName.

  Definition drop_privileges (w : world) (user : option userspec) : M (option reason) :=
    match user with
    | None => ret (Some RNoUser)
    | Some u =>
      match w_pw w with
      | None => ret (Some (match u with ById _ => RNoUid | ByName => RNoName end))
      | Some (name, pwuid, gid) =>
        let uid := match u with ById n => n | ByName => pwuid end in
        if w_curuid w =? uid then ret None
        else if negb (w_curuid w =? 0) then ret (Some RNonRoot)
        else
          (if w_has_setgroups w
           then try_except_os (sys (Setgroups (gid :: w_groups w)) ;; ret None)
                              (fun _ => ret (Some RSetgroups))
           else ret None) >>= fun r1 =>
          match r1 with
          | Some m => ret (Some m)
          | None =>
            try_except_os (sys (Setgid gid) ;; ret None) (fun _ => ret (Some RSetgid)) >>= fun r2 =>
            match r2 with
            | Some m => ret (Some m)
            | None =>
              try_except_os (sys (Setuid uid) ;; ret None) (fun _ => ret (Some RSetuid))
            end
          end
      end
    end.

  (* Subprocess.set_uid *)
  Definition set_uid (c : config) (w : world) : M (option reason) :=
    match c_uid c with
    | None => ret None
    | Some u => drop_privileges w (Some (ById u))
    end.

  (* the environment handed to execve *)
  Definition truthy (s : string) : bool := negb (String.eqb s "").

  Definition child_env (c : config) (w : world) : envt :=
    let env := w_environ w in
    let env := env_set env "SUPERVISOR_ENABLED" "1" in
    let serverurl := match c_serverurl c with None => o_serverurl c | Some s => Some s end in
    let env := match serverurl with
               | Some s => if truthy s then env_set env "SUPERVISOR_SERVER_URL" s else env
               | None => env end in
    let env := env_set env "SUPERVISOR_PROCESS_NAME" (c_name c) in
    let env := match c_group c with Some g => env_set env "SUPERVISOR_GROUP_NAME" g | None => env end in
    match c_environment c with Some e => env_update env e | None => env end.

  (* the body of the outer `try:` of _spawn_as_child *)
  Definition child_body (c : config) (w : world) : M unit :=
    sys Setpgrp ;;
    prepare_child_fds c ;;
    set_uid c w >>= fun setuid_msg =>
    match setuid_msg with
    | Some r => sys (Write 2 (MSetuid r)) ;; return_
    | None =>
      let env := child_env c w in
      try_except_os
        (match c_directory c with Some d => sys (Chdir d) | None => ret tt end)
        (fun e => sys (Write 2 (MChdir e)) ;; return_) ;;
      try_except_os_bare
        ((match c_umask c with Some m => sys (Umask m) | None => ret tt end) ;;
         sys (Execve (c_file c) (c_argv c) env))
        (fun e => sys (Write 2 (MExecOS e)))
        (sys (Write 2 MExecOther))
    end.

  (* finally:  try: write(2, "... not spawned")  finally: _exit(127) *)
  Definition child_finally : M unit :=
    try_finally (sys (Write 2 MNotSpawned)) (sys (Exit 127)).

  Definition spawn_as_child (c : config) (w : world) : M unit :=
    try_finally (child_body c w) child_finally.
End Run.

(* how the function ends, seen from the caller *)
Inductive ending := EExec | EExit | EReturned | ERaised (k : errkind).

Definition ending_of {A} (r : res A) : ending :=
  match r with
  | Val _ => EReturned
  | Ret => EReturned
  | Exc k => ERaised k
  | Gone Execd => EExec
  | Gone Exited => EExit
  end.

Definition run (exit_returns : bool) (c : config) (w : world) (o : oracle) : logt * ending :=
  let '(l, r) := spawn_as_child exit_returns o c w in (l, ending_of r).

(* [supervisord] environment overlaid with [program:x] environment at parse
   time (options.py: env = section.environment.copy(); env.update(proc.environment)) *)
Definition parse_time_env (supervisord_env program_env : envt) : envt :=
  env_update supervisord_env program_env.
