(* C18: facts about the tail of the child's run, each by exhaustive case distinction. *)
From Coq Require Import ZArith List Bool String Lia.
Import ListNotations.
Require Import SV.C18.Child SV.C18.ChildSpec SV.C18.ChildProofs SV.C18.ChildTail.
Open Scope string_scope.
Open Scope list_scope.
Open Scope Z_scope.

Definition dflt_entry : entry := (Setpgrp, None).

Definition is_write_of (m : msg) (e : entry) : bool :=
  match fst e with Write 2 m' => msg_beq m m' | _ => false end.

Definition exec_succeeded (e : entry) : bool :=
  match e with (Execve _ _ _, None) => true | _ => false end.
Definition not_exec_succeeded (e : entry) : bool := negb (exec_succeeded e).

(* ------------------------------------------------ facts about the tail *)

Definition tail_order_goal (c : config) (w : world) (L : logt) : Prop :=
  match split_exec L with
  | None => True
  | Some (pre, x, post) =>
    match expected_identity_calls c w with
    | None => False
    | Some ids =>
      map fst pre = ids ++ dir_calls c ++ umask_calls c /\
      forallb benignb pre = true /\
      fst x = Execve (c_file c) (c_argv c) (child_env c w) /\
      forallb not_execve post = true
    end
  end.

Lemma tail_order er o c w : tail_order_goal c w (fst (tail er o c w)).
Proof.
  unfold tail_order_goal, expected_identity_calls, dir_calls, umask_calls.
  tail_cases; try exact I; repeat split; try reflexivity; try discriminate.
Qed.

Lemma tail_nef er o c w : nef false (fst (tail er o c w)) = true.
Proof. tail_cases; reflexivity. Qed.

Lemma tail_rw er o c w : rw (fst (tail er o c w)) = true.
Proof. tail_cases; rewrite ?Z.eqb_refl; reflexivity. Qed.

Definition ends_well (c : config) (w : world) (L : logt) (R : res unit) : Prop :=
  L <> [] /\
  forallb not_exit (removelast L) = true /\
  forallb not_exec_succeeded (removelast L) = true /\
  ((R = Gone Execd /\ exists e, last L dflt_entry = (Execve (c_file c) (c_argv c) e, None)) \/
   (R = Gone Exited /\ last L dflt_entry = (Exit 127, None))).

Lemma tail_ends o c w : ends_well c w (fst (tail false o c w)) (snd (tail false o c w)).
Proof.
  unfold ends_well.
  tail_cases; (split; [discriminate|]); (split; [reflexivity|]); (split; [reflexivity|]);
    first [ left; split; [reflexivity|]; eexists; reflexivity | right; split; reflexivity ].
Qed.

Lemma fin_after_log er o k :
  fst (fin_after er o k) = [(Write 2 MNotSpawned, o SWriteFinal); (Exit 127, None)].
Proof. tail_cases; reflexivity. Qed.

Lemma fin_after_res o k : snd (fin_after false o k) = Gone Exited.
Proof. tail_cases; reflexivity. Qed.

Lemma tail_exit_returns_same_log o c w : fst (tail true o c w) = fst (tail false o c w).
Proof. tail_cases; reflexivity. Qed.

(* the reasons that depend on the world only *)
Definition world_reason_goal (c : config) (w : world) (L : logt) : Prop :=
  match c_uid c with
  | None => True
  | Some u =>
    match w_pw w with
    | None => existsb (is_write_of (MSetuid RNoUid)) L = true
    | Some _ =>
      if w_curuid w =? u then True
      else if w_curuid w =? 0 then True
           else existsb (is_write_of (MSetuid RNonRoot)) L = true
    end
  end.

Lemma tail_world_reason er o c w : world_reason_goal c w (fst (tail er o c w)).
Proof. unfold world_reason_goal. tail_cases; try exact I; reflexivity. Qed.

Lemma child_finally_log er o :
  fst (child_finally er o) = [(Write 2 MNotSpawned, o SWriteFinal); (Exit 127, None)].
Proof. tail_cases; reflexivity. Qed.

