(* C18: what the property says, stated on the observable call log alone
   (no reference to how the model computes it). *)
From Coq Require Import ZArith List Bool String Lia.
Import ListNotations.
Require Import SV.C18.Child.
Open Scope string_scope.
Open Scope list_scope.
Open Scope Z_scope.

Definition is_execve (e : entry) : bool :=
  match fst e with Execve _ _ _ => true | _ => false end.
Definition is_exit (e : entry) : bool :=
  match fst e with Exit _ => true | _ => false end.
Definition not_execve (e : entry) : bool := negb (is_execve e).
Definition not_exit (e : entry) : bool := negb (is_exit e).

(* an outcome after which the child legitimately carries on: success, or
   close() failing with OSError (EBADF: the descriptor was not open) *)
Definition benignb (e : entry) : bool :=
  match snd e with
  | None => true
  | Some (EOS _) => match fst e with Close _ => true | _ => false end
  | Some EOther => false
  end.

(* the log cut at the first execve attempt *)
Fixpoint split_exec (l : logt) : option (logt * entry * logt) :=
  match l with
  | [] => None
  | x :: r =>
    if is_execve x then Some ([], x, r)
    else match split_exec r with
         | Some (p, e, q) => Some (x :: p, e, q)
         | None => None
         end
  end.

Fixpoint zrange (start : Z) (n : nat) : list Z :=
  match n with O => [] | S n' => start :: zrange (start + 1) n' end.

(* process group, the three standard descriptors, every other descriptor below minfds *)
Definition expected_fd_calls (c : config) : list call :=
  [ Setpgrp;
    Dup2 (if c_fcgi c then FcgiSock else ChildStdin) 0;
    Dup2 ChildStdout 1;
    Dup2 (if c_redirect_stderr c then ChildStdout else ChildStderr) 2 ]
  ++ map Close (zrange 3 (Z.to_nat (o_minfds c - 3))).

(* the calls of a successful switch to the configured user; None when no
   successful switch exists in this world *)
Definition expected_identity_calls (c : config) (w : world) : option (list call) :=
  match c_uid c with
  | None => Some []
  | Some u =>
    match w_pw w with
    | None => None
    | Some (_, _, gid) =>
      if w_curuid w =? u then Some []
      else if w_curuid w =? 0
           then Some ((if w_has_setgroups w then [Setgroups (gid :: w_groups w)] else [])
                      ++ [Setgid gid; Setuid u])
           else None
    end
  end.

Definition dir_calls (c : config) : list call :=
  match c_directory c with Some d => [Chdir d] | None => [] end.
Definition umask_calls (c : config) : list call :=
  match c_umask c with Some m => [Umask m] | None => [] end.

(* the promised environment, key by key: the configured environment wins, then
   the four SUPERVISOR_* variables, then supervisord's own environment *)
Definition known_url (c : config) : option string :=
  match (match c_serverurl c with None => o_serverurl c | Some s => Some s end) with
  | Some s => if String.eqb s "" then None else Some s
  | None => None
  end.

Definition expected_lookup (c : config) (w : world) (k : string) : option string :=
  match (match c_environment c with Some e => lookup k e | None => None end) with
  | Some v => Some v
  | None =>
    match (if String.eqb k "SUPERVISOR_GROUP_NAME" then c_group c else None) with
    | Some g => Some g
    | None =>
      if String.eqb k "SUPERVISOR_PROCESS_NAME" then Some (c_name c)
      else match (if String.eqb k "SUPERVISOR_SERVER_URL" then known_url c else None) with
           | Some u => Some u
           | None =>
             if String.eqb k "SUPERVISOR_ENABLED" then Some "1"
             else lookup k (w_environ w)
           end
    end
  end.

(* c18_order: what must hold of the log before an execve attempt *)
Definition exec_ok (c : config) (w : world) (pre : logt) (x : entry) : Prop :=
  exists ids e,
    expected_identity_calls c w = Some ids /\
    map fst pre = expected_fd_calls c ++ ids ++ dir_calls c ++ umask_calls c /\
    forallb benignb pre = true /\
    fst x = Execve (c_file c) (c_argv c) e /\
    forall k, lookup k e = expected_lookup c w k.

(* the reason that has to be written for a failed call *)
Definition reason_for (x : entry) : option msg :=
  match x with
  | (Setgroups _, Some (EOS _)) => Some (MSetuid RSetgroups)
  | (Setgid _, Some (EOS _)) => Some (MSetuid RSetgid)
  | (Setuid _, Some (EOS _)) => Some (MSetuid RSetuid)
  | (Chdir _, Some (EOS e)) => Some (MChdir e)
  | (Umask _, Some (EOS e)) => Some (MExecOS e)
  | (Execve _ _ _, Some (EOS e)) => Some (MExecOS e)
  | (Umask _, Some EOther) => Some MExecOther
  | (Execve _ _ _, Some EOther) => Some MExecOther
  | _ => None
  end.
