(* C09, part 1: subtyping on the generated event class hierarchy.
   isinstance(event, T) for an event of class t  =  subtype t T, the
   reflexive-transitive closure of the (single) base-class relation. *)
From Coq Require Import ZArith List Bool Lia.
Import ListNotations.
Require Import SV.Common SV.C09.Gen_EvTypes.
Open Scope Z_scope.

Definition etype_eqb (a b : etype) : bool := etype_idx a =? etype_idx b.

Inductive subtype : etype -> etype -> Prop :=
| sub_refl t : subtype t t
| sub_step t p u : parent t = Some p -> subtype p u -> subtype t u.

(* computable version: walk up the base classes (fuel = number of classes) *)
Fixpoint anc (fuel : nat) (t u : etype) : bool :=
  etype_eqb t u ||
  match fuel with
  | O => false
  | S f => match parent t with Some p => anc f p u | None => false end
  end.

Definition subtype_b (t u : etype) : bool := anc (length all_etypes) t u.

(* getEventNameByType: first member of EventTypes bound to the class *)
Fixpoint name_in (tbl : list (list Z * etype)) (t : etype) : option (list Z) :=
  match tbl with
  | [] => None
  | (n, c) :: r => if etype_eqb c t then Some n else name_in r t
  end.
Definition event_name (t : etype) : option (list Z) := name_in event_types_table t.
