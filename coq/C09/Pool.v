(* C09, part 2: model of event distribution.

   supervisor/events.py: callbacks, subscribe, notify (events.py:4-15)
   supervisor/process.py: EventListenerPool.__init__ / _subscribe /
   _subscription_types, _acceptEvent, dispatch, _dispatchEvent,
   handle_rejected (process.py:888-1049), new_serial / GlobalSerial
   (process.py:1051-1061), and the notifications Subprocess emits when a
   listener changes state or dies holding an event (change_state, finish).

   An event object is an identifier (ev); its class, its serial and its
   per-pool serials live in the world's event table, because Python stores
   them as attributes of the one shared object.  Listeners are C10's proc
   records; the envelope written to a listener is represented by four numbers
   [serial; poolserial; pool; class index] (the bytes are C10/C11's concern).
   maxint is a field of the world so that the wrap of new_serial can be
   exercised.  No proofs in this file. *)
From Coq Require Import ZArith List Bool Lia.
Import ListNotations.
Require Import SV.Common SV.C10.Listener SV.C10.Proc SV.C09.Gen_EvTypes SV.C09.EvTypes.
Open Scope Z_scope.

Record evinfo := mkEI {
  ei_id : ev; ei_type : etype;
  ei_serial : option Z;               (* event.serial, if assigned *)
  ei_pserials : list (nat * Z) }.     (* event.pool_serials: pool -> poolserial *)

Record pool := mkPool {
  pl_subs : list etype;               (* config.pool_events *)
  pl_bufsize : Z;                     (* config.buffer_size *)
  pl_buffer : list ev;                (* event_buffer, oldest first *)
  pl_serial : Z;                      (* self.serial *)
  pl_procs : list proc }.             (* listeners, in processes.values() order *)

Inductive cb := CAccept (pi : nat) | CRejected (pi : nat).

Record world := mkW {
  w_pools : list pool;
  w_callbacks : list (etype * cb);    (* events.callbacks *)
  w_gserial : Z;                      (* GlobalSerial.serial *)
  w_events : list evinfo;
  w_maxint : Z }.

(* observable effects *)
Inductive weff :=
| EOffered (pi : nat) (e : ev)                 (* notify called pool pi's _acceptEvent(e) *)
| ERebuffered (pi : nat) (e : ev)              (* _acceptEvent(e, head=True) after a rejection / failed dispatch *)
| EDiscard (pi : nat) (e : ev)                 (* overflow: oldest event dropped, logger.error *)
| ESent (pi i : nat) (e : ev) (serial pserial : Z) (t : etype)   (* envelope written to listener i *)
| EAcked (pi i : nat) (e : ev)                 (* result handler accepted *)
| ERejected (pi i : nat) (e : option ev)       (* notify(EventRejectedEvent(listener, e)) *)
| EEpipe (pi i : nat)
| EWriteError (pi : nat)                       (* dispatch(): OSError from _dispatchEvent, logger.error *)
| ERefused (pi : nat)                          (* remove_process_group answered False: listeners not stopped *)
| ERegroup (pi : nat)                          (* pool pi removed from / added to the process groups *)
| ERaise                                       (* an exception leaves the operation *)
| EInapplicable.

(* ---- new_serial *)
Definition new_serial (maxint cur : Z) : Z := (if cur =? maxint then -1 else cur) + 1.

(* ---- _subscription_types: configured types without repetitions and without
   any type that has another configured type as a supertype *)
Fixpoint mem_et (t : etype) (l : list etype) : bool :=
  match l with [] => false | x :: r => etype_eqb x t || mem_et t r end.

Definition has_other_super (t : etype) (subs : list etype) : bool :=
  existsb (fun u => negb (etype_eqb u t) && subtype_b t u) subs.

Fixpoint sub_types_from (todo acc subs : list etype) : list etype :=
  match todo with
  | [] => acc
  | t :: r =>
    if mem_et t acc then sub_types_from r acc subs
    else if has_other_super t subs then sub_types_from r acc subs
    else sub_types_from r (acc ++ [t]) subs
  end.
Definition subscription_types (subs : list etype) : list etype := sub_types_from subs [] subs.

(* _subscribe of pool pi *)
Definition subscribe_pool (cbs : list (etype * cb)) (pi : nat) (p : pool) : list (etype * cb) :=
  cbs ++ map (fun t => (t, CAccept pi)) (subscription_types (pl_subs p)) ++ [(T_EventRejectedEvent, CRejected pi)].

Fixpoint subscribe_all (cbs : list (etype * cb)) (pi : nat) (ps : list pool) : list (etype * cb) :=
  match ps with [] => cbs | p :: r => subscribe_all (subscribe_pool cbs pi p) (S pi) r end.

(* ---- event table *)
Fixpoint ev_lookup (tbl : list evinfo) (e : ev) : option evinfo :=
  match tbl with [] => None | x :: r => if ei_id x =? e then Some x else ev_lookup r e end.
Fixpoint ev_update (tbl : list evinfo) (x : evinfo) : list evinfo :=
  match tbl with
  | [] => []
  | y :: r => if ei_id y =? ei_id x then x :: r else y :: ev_update r x
  end.
Fixpoint ps_lookup (l : list (nat * Z)) (pi : nat) : option Z :=
  match l with [] => None | (k, v) :: r => if Nat.eqb k pi then Some v else ps_lookup r pi end.

Definition upd_pool (w : world) (pi : nat) (p : pool) : world :=
  mkW (upd (w_pools w) pi p) (w_callbacks w) (w_gserial w) (w_events w) (w_maxint w).

(* ---- _acceptEvent(event, head) of pool pi *)
Definition accept_event (w : world) (pi : nat) (e : ev) (head : bool) : world * list weff :=
  match nth_error (w_pools w) pi, ev_lookup (w_events w) e with
  | Some p, Some x =>
    (* event.serial *)
    let '(gs, ser) := match ei_serial x with
                      | Some s => (w_gserial w, s)
                      | None => let s := new_serial (w_maxint w) (w_gserial w) in (s, s)
                      end in
    (* event.pool_serials[name] *)
    let '(psn, pss) := match ps_lookup (ei_pserials x) pi with
                       | Some _ => (pl_serial p, ei_pserials x)
                       | None => let s := new_serial (w_maxint w) (pl_serial p) in
                                 (s, ei_pserials x ++ [(pi, s)])
                       end in
    let x' := mkEI (ei_id x) (ei_type x) (Some ser) pss in
    (* overflow *)
    let '(buf, eff) :=
       if pl_bufsize p <=? Z.of_nat (length (pl_buffer p)) then
         match pl_buffer p with
         | d :: rest => (rest, [EDiscard pi d])
         | [] => ([], [])
         end
       else (pl_buffer p, []) in
    let buf' := if head then e :: buf else buf ++ [e] in
    let p' := mkPool (pl_subs p) (pl_bufsize p) buf' psn (pl_procs p) in
    (mkW (upd (w_pools w) pi p') (w_callbacks w) gs (ev_update (w_events w) x') (w_maxint w), eff)
  | _, _ => (w, [ERaise])
  end.

(* what is being notified *)
Inductive note :=
| NEvent (e : ev)                               (* an Event instance *)
| NRejected (pi i : nat) (e : option ev).       (* EventRejectedEvent(process, event) *)

Definition note_type (w : world) (n : note) : option etype :=
  match n with
  | NEvent e => match ev_lookup (w_events w) e with Some x => Some (ei_type x) | None => None end
  | NRejected _ _ _ => Some T_EventRejectedEvent
  end.

(* handle_rejected of pool pi: only for one of its own processes *)
Definition handle_rejected (w : world) (pi : nat) (owner : nat) (e : option ev) : world * list weff :=
  if Nat.eqb owner pi then
    match e with
    | Some e' => let '(w', o) := accept_event w pi e' true in (w', ERebuffered pi e' :: o)
    | None => (w, [ERaise])      (* _acceptEvent(None): AttributeError *)
    end
  else (w, []).

(* events.notify *)
Fixpoint notify_cbs (cbs : list (etype * cb)) (w : world) (t : etype) (n : note) : world * list weff :=
  match cbs with
  | [] => (w, [])
  | (T, c) :: r =>
    if subtype_b t T then
      let '(w1, o1) :=
        match c, n with
        | CAccept pi, NEvent e => let '(w', o) := accept_event w pi e false in (w', EOffered pi e :: o)
        | CRejected pi, NRejected owner _ e => handle_rejected w pi owner e
        | _, _ => (w, [ERaise])
        end in
      let '(w2, o2) := notify_cbs r w1 t n in (w2, o1 ++ o2)
    else notify_cbs r w t n
  end.

Definition notify (w : world) (n : note) : world * list weff :=
  match note_type w n with
  | Some t => notify_cbs (w_callbacks w) w t n
  | None => (w, [ERaise])
  end.

(* a new event object of class t is created and notified *)
Definition emit (w : world) (e : ev) (t : etype) : world * list weff :=
  match ev_lookup (w_events w) e with
  | Some _ => (w, [EInapplicable])               (* identifiers are fresh *)
  | None =>
    notify (mkW (w_pools w) (w_callbacks w) (w_gserial w) (w_events w ++ [mkEI e t None []]) (w_maxint w))
           (NEvent e)
  end.

(* ---- _dispatchEvent / dispatch of pool pi *)
Definition envelope (ser pser : Z) (pi : nat) (t : etype) : bytes :=
  [ser; pser; Z.of_nat pi; etype_idx t].

Definition conv_sout (pi : nat) (ser pser : Z) (t : etype) (o : sout) : list weff :=
  match o with
  | SSent i e => [ESent pi i e ser pser t]
  | SEpipe i => [EEpipe pi i]
  | SRaise => [EWriteError pi]    (* caught by dispatch(), which logs it and re-buffers the event *)
  | _ => []
  end.

(* one _dispatchEvent: ws = write oracle per listener *)
Definition dispatch_event (w : world) (pi : nat) (e : ev) (ws : list wres) : world * list weff * option bool :=
  match nth_error (w_pools w) pi, ev_lookup (w_events w) e with
  | Some p, Some x =>
    match ei_serial x, ps_lookup (ei_pserials x) pi with
    | Some ser, Some pser =>
      let '(procs', o, ok) := dispatch_from 0 (pl_procs p) e (envelope ser pser pi (ei_type x)) ws in
      let p' := mkPool (pl_subs p) (pl_bufsize p) (pl_buffer p) (pl_serial p) procs' in
      (* an OSError other than EPIPE/EAGAIN leaves _dispatchEvent (dispatch_from: SRaise, not sent);
         dispatch() catches it, logs it and goes on with ok = False *)
      (upd_pool w pi p', flat_map (conv_sout pi ser pser (ei_type x)) o, Some ok)
    | _, _ => (w, [ERaise], None)                 (* KeyError *)
    end
  | _, _ => (w, [ERaise], None)
  end.

(* dispatch(): wss = one write-oracle list per _dispatchEvent call, in order *)
Fixpoint dispatch_loop (fuel : nat) (w : world) (pi : nat) (wss : list (list wres)) : world * list weff :=
  match fuel with
  | O => (w, [])
  | S f =>
    match nth_error (w_pools w) pi with
    | None => (w, [EInapplicable])
    | Some p =>
      match pl_buffer p with
      | [] => (w, [])
      | e :: rest =>
        let w0 := upd_pool w pi (mkPool (pl_subs p) (pl_bufsize p) rest (pl_serial p) (pl_procs p)) in
        let '(w1, o1, r) := dispatch_event w0 pi e (hd [] wss) in
        match r with
        | None => (w1, o1)                          (* KeyError: not an OSError, propagates *)
        | Some true =>
          let '(w2, o2) := dispatch_loop f w1 pi (tl wss) in (w2, o1 ++ o2)
        | Some false =>
          let '(w2, o2) := accept_event w1 pi e true in (w2, o1 ++ ERebuffered pi e :: o2)
        end
      end
    end
  end.

Definition dispatch (w : world) (pi : nat) (wss : list (list wres)) : world * list weff :=
  match nth_error (w_pools w) pi with
  | None => (w, [EInapplicable])
  | Some p => dispatch_loop (S (length (pl_buffer p))) w pi wss
  end.

(* ---- listener-level operations inside a world *)
Section Model.
Variable h : handler.
Variable maxdig : Z.

(* route the effects of a stdout read of listener (pi, i), in program order *)
Fixpoint route_outs (w : world) (pi i : nat) (o : list out) : world * list weff :=
  match o with
  | [] => (w, [])
  | x :: r =>
    let '(w1, o1) :=
      match x with
      | ORejected e => let '(w', o') := notify w (NRejected pi i e) in (w', ERejected pi i e :: o')
      | OProcessed (Some e) => (w, [EAcked pi i e])
      | OCrash => (w, [ERaise])
      | _ => (w, [])
      end in
    let '(w2, o2) := route_outs w1 pi i r in (w2, o1 ++ o2)
  end.

Definition get_proc (w : world) (pi i : nat) : option (pool * proc) :=
  match nth_error (w_pools w) pi with
  | Some p => match nth_error (pl_procs p) i with Some q => Some (p, q) | None => None end
  | None => None
  end.

Definition set_proc (w : world) (pi i : nat) (q : proc) : world :=
  match nth_error (w_pools w) pi with
  | Some p => upd_pool w pi (mkPool (pl_subs p) (pl_bufsize p) (pl_buffer p) (pl_serial p) (upd (pl_procs p) i q))
  | None => w
  end.

Inductive wop :=
| WEmit (e : ev) (t : etype)                        (* supervisord emits an event *)
| WFeed (pi i : nat) (data : bytes)                 (* listener stdout readable ([] = EOF) *)
| WWritable (pi i : nat) (wr : wres)                (* listener stdin writable *)
| WSpawn (pi i : nat) (pid : Z) (e1 : ev)           (* spawn(): PROCESS_STATE_STARTING is e1 *)
| WRunning (pi i : nat) (e1 : ev)                   (* STARTING -> RUNNING: PROCESS_STATE_RUNNING is e1 *)
| WStop (pi i : nat) (e1 : ev)                      (* stop(): PROCESS_STATE_STOPPING is e1 *)
| WFinish (pi i : nat) (last : bytes) (wr : wres) (e1 e2 : ev)
     (* reaped, not "too quickly": STOPPED is e1 when stopping; otherwise
        (RUNNING is e1 if it was still STARTING and) EXITED is e2 *)
| WStopFail (pi i : nat) (e1 e2 : ev)               (* stop() whose signal fails: STOPPING (e1) then UNKNOWN (e2) *)
| WDispatch (pi : nat) (wss : list (list wres))     (* pool.dispatch() *)
| WTransition (pi : nat) (wss : list (list wres)).  (* pool.transition(): dispatch if a listener is RUNNING+READY *)

Definition dispatch_capable (p : pool) : bool :=
  existsb (fun q => pstate_eqb (p_state q) PS_RUNNING && lstate_eqb (l_state (p_l q)) READY) (pl_procs p).

Definition seq (r : world * list weff) (f : world -> world * list weff) : world * list weff :=
  let '(w1, o1) := r in let '(w2, o2) := f w1 in (w2, o1 ++ o2).

(* finish(): the notifications of change_state, depending on the state the
   process was in.  Process state UNKNOWN (it could not be signalled): no state
   change, no notification. *)
Definition finish_emits (w : world) (st : pstate) (killing : bool) (e1 e2 : ev) : world * list weff :=
  if pstate_eqb st PS_UNKNOWN then (w, [])
  else if killing then emit w e1 T_ProcessStateStoppedEvent
  else if pstate_eqb st PS_STARTING then
    seq (emit w e1 T_ProcessStateRunningEvent) (fun w' => emit w' e2 T_ProcessStateExitedEvent)
  else emit w e2 T_ProcessStateExitedEvent.

Definition finish_state (st : pstate) (killing : bool) : pstate :=
  if pstate_eqb st PS_UNKNOWN then PS_UNKNOWN else if killing then PS_STOPPED else PS_EXITED.

Definition wstep (w : world) (op : wop) : world * list weff :=
  match op with
  | WEmit e t => emit w e t
  | WFeed pi i data =>
    match get_proc w pi i with
    | None => (w, [EInapplicable])
    | Some (_, q) =>
      if l_closed (p_l q) then (w, [EInapplicable])
      else let '(l', o) := read_event h maxdig (p_l q) data in
           route_outs (set_proc w pi i (set_l q l')) pi i o
    end
  | WWritable pi i wr =>
    match get_proc w pi i with
    | None => (w, [EInapplicable])
    | Some (_, q) =>
      match write_event q wr with
      | (q', FErr) => (set_proc w pi i q', [ERaise])
      | (q', _) => (set_proc w pi i q', [])
      end
    end
  | WSpawn pi i pid e1 =>
    match get_proc w pi i with
    | None => (w, [EInapplicable])
    | Some (_, q) =>
      match proc_step h maxdig i q (PSpawn pid) with
      | (_, SInapplicable :: _) => (w, [EInapplicable])
      | (q', _) =>
        (* change_state(STARTING) notifies before the dispatchers are made *)
        let '(w1, o1) := emit w e1 T_ProcessStateStartingEvent in
        (set_proc w1 pi i q', o1)
      end
    end
  | WRunning pi i e1 =>
    match get_proc w pi i with
    | None => (w, [EInapplicable])
    | Some (_, q) =>
      match proc_step h maxdig i q PRunning with
      | (_, SInapplicable :: _) => (w, [EInapplicable])
      | (q', _) => emit (set_proc w pi i q') e1 T_ProcessStateRunningEvent
      end
    end
  | WStop pi i e1 =>
    match get_proc w pi i with
    | None => (w, [EInapplicable])
    | Some (_, q) =>
      match proc_step h maxdig i q PStop with
      | (_, SInapplicable :: _) => (w, [EInapplicable])
      | (q', _) => emit (set_proc w pi i q') e1 T_ProcessStateStoppingEvent
      end
    end
  | WFinish pi i last wr e1 e2 =>
    match get_proc w pi i with
    | None => (w, [EInapplicable])
    | Some (_, q) =>
      let st := p_state q in
      let ok := negb (p_pid q =? 0) &&
                (if pstate_eqb st PS_UNKNOWN then true
                 else if p_killing q then pstate_eqb st PS_STOPPING
                 else pstate_eqb st PS_RUNNING || pstate_eqb st PS_STARTING) in
      if negb ok then (w, [EInapplicable])
      else
        (* drain(): stdout, then stdin *)
        let '(l1, o1) := if l_closed (p_l q) then (p_l q, []) else read_event h maxdig (p_l q) last in
        let q1 := set_l q l1 in
        let '(w1, f1) := route_outs (set_proc w pi i q1) pi i o1 in
        (* a write error at drain() is caught there (handle_error closes the dispatcher) *)
        match write_event q1 wr with
        | (q2, _) =>
          let w2 := set_proc w1 pi i q2 in
          (* change_state: the process object is still alive while it notifies *)
          let '(w3, f3) := finish_emits w2 st (p_killing q) e1 e2 in
          let l2 := p_l q2 in
          let q3 := mkP (finish_state st (p_killing q)) 0 false (mkL (l_state l2) [] None [] None true) false [] true
                        (p_accepted q2) (p_broken q2) (p_envs q2) in
          let w4 := set_proc w3 pi i q3 in
          match l_event l2 with
          | Some e => let '(w5, f5) := notify w4 (NRejected pi i (Some e)) in
                      (w5, f1 ++ f3 ++ ERejected pi i (Some e) :: f5)
          | None => (w4, f1 ++ f3)
          end
        end
    end
  | WStopFail pi i e1 e2 =>
    match get_proc w pi i with
    | None => (w, [EInapplicable])
    | Some (_, q) =>
      match proc_step h maxdig i q PStopFail with
      | (_, SInapplicable :: _) => (w, [EInapplicable])
      | (q', _) =>
        seq (emit (set_proc w pi i q') e1 T_ProcessStateStoppingEvent)
            (fun w' => emit w' e2 T_ProcessStateUnknownEvent)
      end
    end
  | WDispatch pi wss => dispatch w pi wss
  | WTransition pi wss =>
    match nth_error (w_pools w) pi with
    | None => (w, [EInapplicable])
    | Some p => if dispatch_capable p then dispatch w pi wss else (w, [])
    end
  end.

Fixpoint wrun (w : world) (ops : list wop) : world * list weff :=
  match ops with
  | [] => (w, [])
  | op :: r => let '(w1, o1) := wstep w op in
               let '(w2, o2) := wrun w1 r in (w2, o1 ++ o2)
  end.

End Model.

(* a world of freshly constructed pools (EventListenerPool.__init__ in order) *)
Definition new_pool (subs : list etype) (bufsize : Z) (nprocs : nat) : pool :=
  mkPool subs bufsize [] (-1) (repeat proc0 nprocs).

Definition new_world (pools : list pool) (maxint gserial : Z) : world :=
  mkW pools (subscribe_all [] 0 pools) gserial [] maxint.

(* ---- correspondence: compared after every operation *)
Definition weff_eqb (a b : weff) : bool :=
  match a, b with
  | EOffered p e, EOffered q f => Nat.eqb p q && (e =? f)
  | ERebuffered p e, ERebuffered q f => Nat.eqb p q && (e =? f)
  | EDiscard p e, EDiscard q f => Nat.eqb p q && (e =? f)
  | ESent p i e s ps t, ESent q j f s' ps' t' =>
    Nat.eqb p q && Nat.eqb i j && (e =? f) && (s =? s') && (ps =? ps') && etype_eqb t t'
  | EAcked p i e, EAcked q j f => Nat.eqb p q && Nat.eqb i j && (e =? f)
  | ERejected p i e, ERejected q j f => Nat.eqb p q && Nat.eqb i j && option_eqb Z.eqb e f
  | EEpipe p i, EEpipe q j => Nat.eqb p q && Nat.eqb i j
  | EWriteError p, EWriteError q => Nat.eqb p q
  | ERefused p, ERefused q => Nat.eqb p q
  | ERegroup p, ERegroup q => Nat.eqb p q
  | ERaise, ERaise | EInapplicable, EInapplicable => true
  | _, _ => false
  end.

(* per listener: process state, listener state, event slot, bytes waiting in input_buffer *)
Definition lobs := (pstate * lstate * option ev * Z)%type.
(* per pool: event_buffer, self.serial, listeners *)
Definition pobs := (list ev * Z * list lobs)%type.
Definition wobs := (list pobs * Z)%type.          (* pools, GlobalSerial.serial *)

Definition obs_of_proc (q : proc) : lobs :=
  (p_state q, l_state (p_l q), l_event (p_l q), zlen (p_ibuf q)).
Definition obs_of_pool (p : pool) : pobs := (pl_buffer p, pl_serial p, map obs_of_proc (pl_procs p)).
Definition obs_of_world (w : world) : wobs := (map obs_of_pool (w_pools w), w_gserial w).

Definition lobs_eqb (a b : lobs) : bool :=
  let '(s, l, e, n) := a in let '(s', l', e', n') := b in
  pstate_eqb s s' && lstate_eqb l l' && option_eqb Z.eqb e e' && (n =? n').
Definition pobs_eqb (a b : pobs) : bool :=
  let '(bf, s, ls) := a in let '(bf', s', ls') := b in
  zlist_eqb bf bf' && (s =? s') && list_eqb lobs_eqb ls ls'.
Definition wobs_eqb (a b : wobs) : bool :=
  list_eqb pobs_eqb (fst a) (fst b) && (snd a =? snd b).

(* event table entry as observed: id, serial, pool_serials *)
Definition tobs := (ev * option Z * list (nat * Z))%type.
Definition tobs_eqb (a b : tobs) : bool :=
  let '(e, s, ps) := a in let '(e', s', ps') := b in
  (e =? e') && option_eqb Z.eqb s s' &&
  list_eqb (fun x y => Nat.eqb (fst x) (fst y) && (snd x =? snd y)) ps ps'.

Fixpoint check_wsteps (h : handler) (md : Z) (w : world) (ops : list wop)
         (expect : list (wobs * list weff)) : option world :=
  match ops, expect with
  | [], [] => Some w
  | op :: r, (ob, effs) :: er =>
    let '(w', o) := wstep h md w op in
    if wobs_eqb (obs_of_world w') ob && list_eqb weff_eqb o effs then check_wsteps h md w' r er else None
  | _, _ => None
  end.

(* pool configuration: subscriptions, buffer_size, number of listeners, initial self.serial *)
Definition pcfg := (list etype * Z * nat * Z)%type.
Definition pool_of_cfg (c : pcfg) : pool :=
  let '(subs, bs, n, ser) := c in mkPool subs bs [] ser (repeat proc0 n).

Definition check_world (cs : Z * Z * (list pcfg * Z * Z) * list wop * list (wobs * list weff) * list tobs) : bool :=
  let '(hk, md, (cfgs, maxint, gser), ops, expect, table) := cs in
  match check_wsteps (handler_of hk) md (new_world (map pool_of_cfg cfgs) maxint gser) ops expect with
  | Some w => list_eqb tobs_eqb (map (fun x => (ei_id x, ei_serial x, ei_pserials x)) (w_events w)) table
  | None => false
  end.

(* subscription dedupe and event names, checked directly too *)
Definition check_subs (cs : list etype * list etype) : bool :=
  list_eqb etype_eqb (subscription_types (fst cs)) (snd cs).
Definition check_subtype (cs : etype * etype * bool) : bool :=
  let '(a, b, r) := cs in Bool.eqb (subtype_b a b) r.
Definition check_name (cs : etype * option (list Z)) : bool :=
  option_eqb zlist_eqb (event_name (fst cs)) (snd cs).
