(* C09, part 3: pools come and go - Supervisor.remove_process_group /
   add_process_group (supervisor/supervisord.py:113-128) as far as event
   distribution is concerned: EventListenerPool.before_remove = _unsubscribe,
   EventListenerPool.__init__ = _subscribe, and the PROCESS_GROUP_REMOVED /
   PROCESS_GROUP_ADDED notifications.

   A pool that is added (again) is a new EventListenerPool object with new
   listener objects, a fresh queue and counter: it gets the next free index of
   the world (the old object, if any, stays where it was, unreachable and
   unsubscribed). *)
From Coq Require Import ZArith List Bool Lia.
Import ListNotations.
Require Import SV.Common SV.C10.Listener SV.C10.Proc SV.C09.Gen_EvTypes SV.C09.EvTypes SV.C09.Pool.
Open Scope Z_scope.

(* callbacks registered by pool pi *)
Definition is_for (pi : nat) (c : etype * cb) : bool :=
  match snd c with CAccept q | CRejected q => Nat.eqb q pi end.

Definition subscribed (w : world) (pi : nat) : bool := existsb (is_for pi) (w_callbacks w).

(* STOPPED_STATES *)
Definition stopped_state (s : pstate) : bool :=
  match s with PS_STOPPED | PS_EXITED | PS_FATAL | PS_UNKNOWN => true | _ => false end.
Definition all_stopped (p : pool) : bool := forallb (fun q => stopped_state (p_state q)) (pl_procs p).

(* events.unsubscribe of everything pool pi registered *)
Definition unsubscribe_pool (cbs : list (etype * cb)) (pi : nat) : list (etype * cb) :=
  filter (fun c => negb (is_for pi c)) cbs.

(* Supervisor.remove_process_group(name); e1 = the PROCESS_GROUP_REMOVED event object *)
Definition remove_group (w : world) (pi : nat) (e1 : ev) : world * list weff :=
  match nth_error (w_pools w) pi with
  | None => (w, [EInapplicable])
  | Some p =>
    if negb (subscribed w pi) then (w, [EInapplicable])          (* not in process_groups any more *)
    else if negb (all_stopped p) then (w, [ERefused pi])          (* get_unstopped_processes(): return False *)
    else
      let w1 := mkW (w_pools w) (unsubscribe_pool (w_callbacks w) pi) (w_gserial w) (w_events w) (w_maxint w) in
      let '(w2, o) := emit w1 e1 T_ProcessGroupRemovedEvent in (w2, ERegroup pi :: o)
  end.

(* Supervisor.add_process_group(config): a new pool object; e1 = PROCESS_GROUP_ADDED *)
Definition add_group (w : world) (c : pcfg) (e1 : ev) : world * list weff :=
  let pi := length (w_pools w) in
  let p := pool_of_cfg c in
  let w1 := mkW (w_pools w ++ [p]) (subscribe_pool (w_callbacks w) pi p) (w_gserial w) (w_events w) (w_maxint w) in
  let '(w2, o) := emit w1 e1 T_ProcessGroupAddedEvent in (w2, ERegroup pi :: o).

(* Supervisor.run() of a new daemon life (in-process restart): events.clear()
   empties the subscription table, then add_process_group for every configured
   group, in order; es = the PROCESS_GROUP_ADDED event objects *)
Fixpoint add_groups (w : world) (cs : list pcfg) (es : list ev) : world * list weff :=
  match cs with
  | [] => (w, [])
  | c :: r => let '(w1, o1) := add_group w c (hd 0 es) in
              let '(w2, o2) := add_groups w1 r (tl es) in (w2, o1 ++ o2)
  end.

Definition clear_callbacks (w : world) : world :=
  mkW (w_pools w) [] (w_gserial w) (w_events w) (w_maxint w).

Definition restart (w : world) (cs : list pcfg) (es : list ev) : world * list weff :=
  add_groups (clear_callbacks w) cs es.

Inductive gop :=
| GOp (op : wop)
| GRemove (pi : nat) (e1 : ev)
| GAdd (c : pcfg) (e1 : ev)
| GRestart (cs : list pcfg) (es : list ev).

Definition gstep (h : handler) (maxdig : Z) (w : world) (g : gop) : world * list weff :=
  match g with
  | GOp op => wstep h maxdig w op
  | GRemove pi e1 => remove_group w pi e1
  | GAdd c e1 => add_group w c e1
  | GRestart cs es => restart w cs es
  end.

Fixpoint grun (h : handler) (maxdig : Z) (w : world) (gs : list gop) : world * list weff :=
  match gs with
  | [] => (w, [])
  | g :: r => let '(w1, o1) := gstep h maxdig w g in
              let '(w2, o2) := grun h maxdig w1 r in (w2, o1 ++ o2)
  end.

(* ---- correspondence *)
Fixpoint check_gsteps (h : handler) (md : Z) (w : world) (ops : list gop)
         (expect : list (wobs * list weff)) : option world :=
  match ops, expect with
  | [], [] => Some w
  | op :: r, (ob, effs) :: er =>
    let '(w', o) := gstep h md w op in
    if wobs_eqb (obs_of_world w') ob && list_eqb weff_eqb o effs then check_gsteps h md w' r er else None
  | _, _ => None
  end.

Definition check_gworld (cs : Z * Z * (list pcfg * Z * Z) * list gop * list (wobs * list weff) * list tobs) : bool :=
  let '(hk, md, (cfgs, maxint, gser), ops, expect, table) := cs in
  match check_gsteps (handler_of hk) md (new_world (map pool_of_cfg cfgs) maxint gser) ops expect with
  | Some w => list_eqb tobs_eqb (map (fun x => (ei_id x, ei_serial x, ei_pserials x)) (w_events w)) table
  | None => false
  end.
