(* C09: routing when pools are removed and added (Groups.v). *)
From Coq Require Import ZArith List Bool Lia ZifyBool.
Import ListNotations.
Require Import SV.Common SV.C10.Listener SV.C10.Proc SV.C10.ListenerProofs SV.C10.ProcProofs.
Require Import SV.C09.Gen_EvTypes SV.C09.EvTypes SV.C09.EvTypesProofs SV.C09.Pool SV.C09.PoolProofs SV.C09.Groups.
Open Scope Z_scope.

(* what pool pi registers at construction *)
Definition entries (pi : nat) (p : pool) : list (etype * cb) :=
  map (fun t => (t, CAccept pi)) (subscription_types (pl_subs p)) ++ [(T_EventRejectedEvent, CRejected pi)].

(* A refused removal changes nothing at all: in particular the subscription
   table and the pool's membership stay as they were. *)
Theorem refused_removal_identity w pi p e1 :
  nth_error (w_pools w) pi = Some p -> subscribed w pi = true -> all_stopped p = false ->
  remove_group w pi e1 = (w, [ERefused pi]).
Proof. intros N S A. unfold remove_group. rewrite N, S, A. reflexivity. Qed.

(* ---- the subscription table holds, for every pool, either exactly what the
   pool registered (it is one of the process groups) or nothing *)
Definition cb_inv (w : world) : Prop :=
  forall pi,
    filter (is_for pi) (w_callbacks w) = [] \/
    exists p, nth_error (w_pools w) pi = Some p /\ filter (is_for pi) (w_callbacks w) = entries pi p.

Lemma is_for_entries pi q p : filter (is_for pi) (entries q p) = if Nat.eqb q pi then entries q p else [].
Proof.
  unfold entries. rewrite filter_app. simpl. unfold is_for at 2. simpl.
  assert (M : filter (is_for pi) (map (fun t => (t, CAccept q)) (subscription_types (pl_subs p))) =
              if Nat.eqb q pi then map (fun t => (t, CAccept q)) (subscription_types (pl_subs p)) else []).
  { induction (subscription_types (pl_subs p)) as [|t l IH]; simpl; [destruct (Nat.eqb q pi); reflexivity|].
    unfold is_for at 1. simpl. rewrite IH. destruct (Nat.eqb q pi); reflexivity. }
  rewrite M. destruct (Nat.eqb q pi); reflexivity.
Qed.

Lemma subscribe_all_filter pi : forall ps cbs k,
  filter (is_for pi) (subscribe_all cbs k ps) =
  filter (is_for pi) cbs ++
  (if (k <=? pi)%nat then match nth_error ps (pi - k) with Some p => entries pi p | None => [] end else []).
Proof.
  induction ps as [|p ps IH]; intros cbs k; simpl.
  - destruct (k <=? pi)%nat; [destruct (pi - k)%nat|]; simpl; rewrite app_nil_r; reflexivity.
  - rewrite IH. unfold subscribe_pool. fold (entries k p). rewrite filter_app, is_for_entries, <- app_assoc. f_equal.
    destruct (Nat.eqb k pi) eqn:E.
    + apply Nat.eqb_eq in E. subst k. replace (S pi <=? pi)%nat with false by lia.
      replace (pi <=? pi)%nat with true by lia. rewrite Nat.sub_diag. simpl. rewrite app_nil_r. reflexivity.
    + apply Nat.eqb_neq in E. destruct (k <=? pi)%nat eqn:K.
      * replace (S k <=? pi)%nat with true by lia. replace (pi - k)%nat with (S (pi - S k)) by lia. reflexivity.
      * replace (S k <=? pi)%nat with false by lia. reflexivity.
Qed.

Lemma cb_inv_new pools maxint gs : cb_inv (new_world pools maxint gs).
Proof.
  intros pi. unfold new_world. simpl. rewrite subscribe_all_filter. simpl. rewrite Nat.sub_0_r.
  destruct (nth_error pools pi) as [p|] eqn:N; [right; exists p; auto | left; reflexivity].
Qed.

(* operations of Pool.v leave the table and every pool's configured types alone *)
Lemma cb_inv_prims w w' : prims w w' -> cb_inv w -> cb_inv w'.
Proof.
  intros P I pi. pose proof (prims_static w w' P) as S. unfold static in S.
  assert (S1 := f_equal (fun x => fst (fst (fst x))) S). assert (S2 := f_equal (fun x => snd (fst (fst x))) S).
  simpl in S1, S2. rewrite S1. destruct (I pi) as [E|[p [N E]]]; [left; exact E|]. right.
  assert (M : nth_error (map pl_subs (w_pools w')) pi = Some (pl_subs p)) by (rewrite S2; apply map_nth_error; exact N).
  destruct (nth_error (w_pools w') pi) as [p'|] eqn:N'.
  - rewrite (map_nth_error pl_subs _ _ N') in M. inversion M as [M']. exists p'. split; [reflexivity|].
    rewrite E. unfold entries. rewrite M'. reflexivity.
  - apply nth_error_None in N'. assert (nth_error (map pl_subs (w_pools w')) pi = None)
      by (apply nth_error_None; rewrite map_length; exact N'). congruence.
Qed.

Lemma filter_unsub pi pj cbs :
  filter (is_for pj) (unsubscribe_pool cbs pi) = if Nat.eqb pi pj then [] else filter (is_for pj) cbs.
Proof.
  unfold unsubscribe_pool. induction cbs as [|c cbs IH]; simpl; [destruct (Nat.eqb pi pj); reflexivity|].
  destruct (is_for pi c) eqn:A; simpl.
  - rewrite IH. destruct (Nat.eqb pi pj) eqn:E; [reflexivity|].
    assert (is_for pj c = false); [|rewrite H; reflexivity].
    unfold is_for in *. destruct (snd c) as [q|q]; apply Nat.eqb_eq in A; subst q; exact E.
  - rewrite IH. destruct (Nat.eqb pi pj) eqn:E.
    + apply Nat.eqb_eq in E. subst pj. rewrite A. reflexivity.
    + reflexivity.
Qed.

Lemma cb_inv_remove w pi e1 : cb_inv w -> cb_inv (fst (remove_group w pi e1)).
Proof.
  intros I. unfold remove_group. destruct (nth_error (w_pools w) pi) as [p|]; [|exact I].
  destruct (negb (subscribed w pi)); [exact I|]. destruct (negb (all_stopped p)); [exact I|].
  set (w1 := mkW (w_pools w) (unsubscribe_pool (w_callbacks w) pi) (w_gserial w) (w_events w) (w_maxint w)).
  assert (I1 : cb_inv w1).
  { intros pj. unfold w1. simpl. rewrite filter_unsub. destruct (Nat.eqb pi pj); [left; reflexivity | apply I]. }
  pose proof (emit_prims w1 e1 T_ProcessGroupRemovedEvent) as P.
  destruct (emit w1 e1 T_ProcessGroupRemovedEvent) as [w2 o]. simpl in *. eapply cb_inv_prims; eassumption.
Qed.

(* no callback of a pool index that does not exist (yet) *)
Definition cb_range (w : world) : Prop :=
  forall pi, (length (w_pools w) <= pi)%nat -> filter (is_for pi) (w_callbacks w) = [].

Lemma cb_range_prims w w' : prims w w' -> cb_range w -> cb_range w'.
Proof.
  intros P R pi L. pose proof (prims_static w w' P) as S. unfold static in S.
  assert (S1 := f_equal (fun x => fst (fst (fst x))) S). simpl in S1. rewrite S1.
  apply R. rewrite <- (prims_length w w' P). exact L.
Qed.

Lemma cb_inv_add w c e1 : cb_inv w -> cb_range w -> cb_inv (fst (add_group w c e1)) /\ cb_range (fst (add_group w c e1)).
Proof.
  intros I R. unfold add_group.
  set (n := length (w_pools w)). set (p := pool_of_cfg c).
  set (w1 := mkW (w_pools w ++ [p]) (subscribe_pool (w_callbacks w) n p) (w_gserial w) (w_events w) (w_maxint w)).
  assert (F : forall pj, filter (is_for pj) (w_callbacks w1) =
                         filter (is_for pj) (w_callbacks w) ++ (if Nat.eqb n pj then entries n p else [])).
  { intros pj. unfold w1, subscribe_pool. simpl. fold (entries n p). rewrite filter_app, is_for_entries. reflexivity. }
  assert (I1 : cb_inv w1).
  { intros pj. rewrite F. destruct (Nat.eqb n pj) eqn:E.
    - apply Nat.eqb_eq in E. subst pj. right. exists p. split.
      + unfold w1. simpl. rewrite nth_error_app2 by (unfold n; lia). unfold n. rewrite Nat.sub_diag. reflexivity.
      + rewrite (R n) by (unfold n; lia). reflexivity.
    - rewrite app_nil_r. destruct (I pj) as [E0|[q [N E0]]]; [left; exact E0|]. right. exists q. split; [|exact E0].
      unfold w1. simpl. rewrite nth_error_app1; [exact N|]. apply nth_error_Some. congruence. }
  assert (R1 : cb_range w1).
  { intros pj L. rewrite F. unfold w1 in L. simpl in L. rewrite app_length in L. simpl in L.
    rewrite (R pj) by (fold n; lia). replace (Nat.eqb n pj) with false by (unfold n in *; lia). reflexivity. }
  pose proof (emit_prims w1 e1 T_ProcessGroupAddedEvent) as P.
  destruct (emit w1 e1 T_ProcessGroupAddedEvent) as [w2 o]. simpl in *.
  split; [eapply cb_inv_prims | eapply cb_range_prims]; eassumption.
Qed.

Lemma cb_range_remove w pi e1 : cb_range w -> cb_range (fst (remove_group w pi e1)).
Proof.
  intros R. unfold remove_group. destruct (nth_error (w_pools w) pi) as [p|]; [|exact R].
  destruct (negb (subscribed w pi)); [exact R|]. destruct (negb (all_stopped p)); [exact R|].
  set (w1 := mkW (w_pools w) (unsubscribe_pool (w_callbacks w) pi) (w_gserial w) (w_events w) (w_maxint w)).
  assert (R1 : cb_range w1).
  { intros pj L. unfold w1. simpl. rewrite filter_unsub. destruct (Nat.eqb pi pj); [reflexivity | apply R; exact L]. }
  pose proof (emit_prims w1 e1 T_ProcessGroupRemovedEvent) as P.
  destruct (emit w1 e1 T_ProcessGroupRemovedEvent) as [w2 o]. simpl in *. eapply cb_range_prims; eassumption.
Qed.

Lemma cb_range_new pools maxint gs : cb_range (new_world pools maxint gs).
Proof.
  intros pi L. unfold new_world in *. simpl in *. rewrite subscribe_all_filter. simpl. rewrite Nat.sub_0_r.
  destruct (nth_error pools pi) eqn:N; [|reflexivity]. apply nth_error_None in L. congruence.
Qed.

Lemma add_groups_inv : forall cs es w, cb_inv w -> cb_range w ->
  cb_inv (fst (add_groups w cs es)) /\ cb_range (fst (add_groups w cs es)).
Proof.
  induction cs as [|c r IH]; intros es w I R; simpl; [auto|].
  destruct (cb_inv_add w c (hd 0 es) I R) as [I1 R1].
  destruct (add_group w c (hd 0 es)) as [w1 o1]. simpl in I1, R1.
  specialize (IH (tl es) w1 I1 R1). destruct (add_groups w1 r (tl es)) as [w2 o2]. exact IH.
Qed.

(* a new daemon life starts from an empty subscription table *)
Lemma restart_clears w pi : subscribed (clear_callbacks w) pi = false.
Proof. reflexivity. Qed.

Lemma cb_inv_clear w : cb_inv (clear_callbacks w) /\ cb_range (clear_callbacks w).
Proof. split; [intros pi; left; reflexivity | intros pi _; reflexivity]. Qed.

Section Histories.
Variable h : handler.
Variable maxdig : Z.

Lemma grun_inv : forall gs w, cb_inv w -> cb_range w ->
  cb_inv (fst (grun h maxdig w gs)) /\ cb_range (fst (grun h maxdig w gs)).
Proof.
  induction gs as [|g r IH]; intros w I R; simpl; [auto|].
  assert (S : cb_inv (fst (gstep h maxdig w g)) /\ cb_range (fst (gstep h maxdig w g))).
  { destruct g as [op|pi e1|c e1|cs es]; simpl.
    - pose proof (wstep_prims h maxdig w op) as P. split; [eapply cb_inv_prims | eapply cb_range_prims]; eassumption.
    - split; [apply cb_inv_remove | apply cb_range_remove]; assumption.
    - apply cb_inv_add; assumption.
    - destruct (cb_inv_clear w). apply add_groups_inv; assumption. }
  destruct (gstep h maxdig w g) as [w1 o1]. simpl in S. destruct S as [I1 R1].
  specialize (IH w1 I1 R1). destruct (grun h maxdig w1 r) as [w2 o2]. exact IH.
Qed.

(* sel (an accepting callback of pi for class t) only looks at callbacks of pi *)
Lemma filter_sel_is_for pi t cbs : filter (sel pi t) cbs = filter (sel pi t) (filter (is_for pi) cbs).
Proof.
  induction cbs as [|c cbs IH]; simpl; [reflexivity|].
  destruct (is_for pi c) eqn:A; simpl; rewrite IH; [reflexivity|].
  assert (sel pi t c = false); [|rewrite H; reflexivity].
  unfold sel, is_for in *. destruct (snd c) as [q|q]; rewrite ?A, ?andb_false_r; reflexivity.
Qed.

(* Routing with pools coming and going: at every point of every history of
   operations, removals (refused or accepted) and additions, an emitted event
   is offered to pool pi exactly once if pi is one of the process groups and
   its configuration names the event's class or a superclass - otherwise not
   at all; in particular never to a removed pool, and still to a pool whose
   removal was refused. *)
Theorem routing_groups pools maxint gs ops e t pi p :
  let w := fst (grun h maxdig (new_world pools maxint gs) ops) in
  nth_error (w_pools w) pi = Some p ->
  ev_lookup (w_events w) e = None ->
  offered_count pi e (snd (emit w e t)) =
  if subscribed w pi && existsb (fun T => subtype_b t T) (pl_subs p) then 1%nat else 0%nat.
Proof.
  intros w N FR.
  destruct (grun_inv ops _ (cb_inv_new pools maxint gs) (cb_range_new pools maxint gs)) as [I _]. fold w in I.
  unfold emit. rewrite FR. unfold notify, note_type. simpl.
  pose proof (ev_lookup_snoc (w_events w) (mkEI e t None []) FR) as L. simpl in L. rewrite L. simpl.
  rewrite notify_cbs_count, filter_sel_is_for.
  assert (Sb : subscribed w pi = negb (match filter (is_for pi) (w_callbacks w) with [] => true | _ => false end)).
  { unfold subscribed. induction (w_callbacks w) as [|c l IH]; simpl; [reflexivity|].
    destruct (is_for pi c); simpl; [reflexivity | exact IH]. }
  rewrite Sb. destruct (I pi) as [E|[q [Nq E]]]; rewrite E.
  - reflexivity.
  - rewrite N in Nq. inversion Nq; subst q. unfold entries. rewrite filter_app, app_length, filter_sel_map, Nat.eqb_refl.
    simpl. unfold sel at 1. simpl. rewrite andb_false_r. simpl. rewrite Nat.add_0_r.
    rewrite subscription_match_count.
    destruct (map (fun t0 => (t0, CAccept pi)) (subscription_types (pl_subs p)) ++ [(T_EventRejectedEvent, CRejected pi)]) eqn:Z;
      [destruct (map _ _) in Z; discriminate | reflexivity].
Qed.

End Histories.
