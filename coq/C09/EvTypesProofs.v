(* C09: facts about the generated class hierarchy.  Everything that depends
   on the concrete table is established by evaluating a boolean check over all
   classes (vm_compute), so a changed hierarchy is re-checked on every build. *)
From Coq Require Import ZArith List Bool Lia.
Import ListNotations.
Require Import SV.Common SV.C09.Gen_EvTypes SV.C09.EvTypes.
Open Scope Z_scope.

Lemma all_complete : forall t, In t all_etypes.
Proof. destruct t; vm_compute; repeat (first [left; reflexivity | right]). Qed.

Lemma etype_eqb_refl t : etype_eqb t t = true.
Proof. unfold etype_eqb. apply Z.eqb_refl. Qed.

Lemma etype_eqb_eq a b : etype_eqb a b = true -> a = b.
Proof. destruct a, b; vm_compute; intros H; try reflexivity; discriminate H. Qed.

Lemma etype_eqb_neq a b : etype_eqb a b = false -> a <> b.
Proof. intros H E. subst. rewrite etype_eqb_refl in H. discriminate. Qed.

Lemma forall_etypes (P : etype -> bool) : forallb P all_etypes = true -> forall t, P t = true.
Proof. intros H t. rewrite forallb_forall in H. apply H. apply all_complete. Qed.

Lemma anc_sound f : forall t u, anc f t u = true -> subtype t u.
Proof.
  induction f as [|f IH]; intros t u H; simpl in H; apply orb_true_iff in H; destruct H as [H|H].
  - apply etype_eqb_eq in H. subst. constructor.
  - discriminate.
  - apply etype_eqb_eq in H. subst. constructor.
  - destruct (parent t) as [p|] eqn:P; [|discriminate]. eapply sub_step; [exact P | apply IH; exact H].
Qed.

(* closure of the computable relation under one more base-class step *)
Definition step_closed_b : bool :=
  forallb (fun t => match parent t with
                    | None => true
                    | Some p => forallb (fun u => implb (subtype_b p u) (subtype_b t u)) all_etypes
                    end) all_etypes.
Lemma step_closed : step_closed_b = true. Proof. vm_compute. reflexivity. Qed.

Lemma subtype_b_step t p u : parent t = Some p -> subtype_b p u = true -> subtype_b t u = true.
Proof.
  intros P H. pose proof (forall_etypes _ step_closed t) as C. cbv beta in C. rewrite P in C.
  pose proof (forall_etypes _ C u) as D. cbv beta in D. rewrite H in D. exact D.
Qed.

Lemma subtype_b_refl t : subtype_b t t = true.
Proof. unfold subtype_b. simpl. rewrite etype_eqb_refl. reflexivity. Qed.

Theorem subtype_b_spec a b : subtype_b a b = true <-> subtype a b.
Proof.
  split.
  - apply anc_sound.
  - induction 1 as [t|t p u P _ IH]; [apply subtype_b_refl | eapply subtype_b_step; eassumption].
Qed.

(* the classes above a class form a chain (single inheritance) *)
Definition chain_b : bool :=
  forallb (fun t => forallb (fun a => forallb (fun b =>
    implb (subtype_b t a && subtype_b t b) (subtype_b a b || subtype_b b a)) all_etypes) all_etypes) all_etypes.
Lemma chain_ok : chain_b = true. Proof. vm_compute. reflexivity. Qed.
Lemma subtype_chain t a b :
  subtype_b t a = true -> subtype_b t b = true -> subtype_b a b = true \/ subtype_b b a = true.
Proof.
  intros A B. pose proof (forall_etypes _ (forall_etypes _ (forall_etypes _ chain_ok t) a) b) as C.
  cbv beta in C. rewrite A, B in C. simpl in C. apply orb_true_iff in C. exact C.
Qed.

Definition trans_b : bool :=
  forallb (fun a => forallb (fun b => forallb (fun c =>
    implb (subtype_b a b && subtype_b b c) (subtype_b a c)) all_etypes) all_etypes) all_etypes.
Lemma trans_ok : trans_b = true. Proof. vm_compute. reflexivity. Qed.
Lemma subtype_b_trans a b c : subtype_b a b = true -> subtype_b b c = true -> subtype_b a c = true.
Proof.
  intros A B. pose proof (forall_etypes _ (forall_etypes _ (forall_etypes _ trans_ok a) b) c) as C.
  cbv beta in C. rewrite A, B in C. exact C.
Qed.

(* number of proper ancestors; a proper supertype is strictly higher *)
Fixpoint depth_f (f : nat) (t : etype) : nat :=
  match f with O => O | S f' => match parent t with Some p => S (depth_f f' p) | None => O end end.
Definition depth (t : etype) : nat := depth_f (length all_etypes) t.
Definition depth_b : bool :=
  forallb (fun a => forallb (fun b =>
    implb (subtype_b a b && negb (etype_eqb b a)) (Nat.ltb (depth b) (depth a))) all_etypes) all_etypes.
Lemma depth_ok : depth_b = true. Proof. vm_compute. reflexivity. Qed.
Lemma depth_lt a b : subtype_b a b = true -> etype_eqb b a = false -> (depth b < depth a)%nat.
Proof.
  intros A B. pose proof (forall_etypes _ (forall_etypes _ depth_ok a) b) as C.
  cbv beta in C. rewrite A, B in C. simpl in C. apply Nat.ltb_lt. exact C.
Qed.

(* EventRejectedEvent is outside the Event hierarchy: no Event subscription
   receives it and it receives no Event *)
Definition rejected_apart_b : bool :=
  forallb (fun t => implb (subtype_b t T_EventRejectedEvent || subtype_b T_EventRejectedEvent t)
                          (etype_eqb t T_EventRejectedEvent)) all_etypes.
Lemma rejected_apart_ok : rejected_apart_b = true. Proof. vm_compute. reflexivity. Qed.
