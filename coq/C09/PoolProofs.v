(* C09: proofs about the event distribution model (Pool.v). *)
From Coq Require Import ZArith List Bool Lia ZifyBool.
Import ListNotations.
Require Import SV.Common SV.C10.Listener SV.C10.Proc SV.C10.ListenerProofs SV.C10.ProcProofs.
Require Import SV.C09.Gen_EvTypes SV.C09.EvTypes SV.C09.EvTypesProofs SV.C09.Pool.
Open Scope Z_scope.

(* =============================================== _subscription_types *)
Lemma mem_et_In t l : mem_et t l = true <-> In t l.
Proof.
  induction l as [|x l IH]; simpl; [split; [discriminate | tauto]|].
  rewrite orb_true_iff, IH. split; intros [H|H]; auto.
  - left. apply etype_eqb_eq. exact H.
  - left. subst. apply etype_eqb_refl.
Qed.

Lemma NoDup_snoc {A} (l : list A) x : NoDup l -> ~ In x l -> NoDup (l ++ [x]).
Proof.
  induction l as [|y l IH]; intros N K; simpl.
  - constructor; [tauto | constructor].
  - inversion N; subst. constructor.
    + rewrite in_app_iff. simpl. intros [H|[H|[]]]; [tauto|]. subst. apply K. left. reflexivity.
    + apply IH; [assumption|]. intros H. apply K. right. exact H.
Qed.

Lemma sub_types_from_spec subs : forall todo acc,
  NoDup acc ->
  NoDup (sub_types_from todo acc subs) /\
  forall x, In x (sub_types_from todo acc subs) <->
            In x acc \/ (In x todo /\ has_other_super x subs = false).
Proof.
  induction todo as [|t r IH]; intros acc ND; simpl.
  - split; [exact ND|]. intros x. tauto.
  - destruct (mem_et t acc) eqn:M.
    + destruct (IH acc ND) as [N1 S1]. split; [exact N1|]. intros x. rewrite S1.
      apply mem_et_In in M. split; [tauto|]. intros [H|[[H|H] K]]; auto. subst. auto.
    + destruct (has_other_super t subs) eqn:O.
      * destruct (IH acc ND) as [N1 S1]. split; [exact N1|]. intros x. rewrite S1.
        split; [tauto|]. intros [H|[[H|H] K]]; auto. subst. congruence.
      * assert (ND' : NoDup (acc ++ [t])).
        { apply NoDup_snoc; [exact ND|]. intros K. apply mem_et_In in K. congruence. }
        destruct (IH (acc ++ [t]) ND') as [N1 S1]. split; [exact N1|]. intros x. rewrite S1.
        rewrite in_app_iff. simpl. split.
        -- intros [[H|[H|[]]]|[H K]]; auto. subst. right. auto.
        -- intros [H|[[H|H] K]]; auto.
Qed.

Lemma subscription_types_spec subs :
  NoDup (subscription_types subs) /\
  forall x, In x (subscription_types subs) <-> In x subs /\ has_other_super x subs = false.
Proof.
  destruct (sub_types_from_spec subs subs [] (NoDup_nil _)) as [N S]. split; [exact N|].
  intros x. unfold subscription_types. rewrite S. simpl. tauto.
Qed.

(* every configured type is covered by a kept type at or above it *)
Lemma subscription_covers subs t : forall n T,
  (depth T <= n)%nat -> In T subs -> subtype_b t T = true ->
  exists T', In T' (subscription_types subs) /\ subtype_b t T' = true.
Proof.
  induction n as [|n IH]; intros T D I S.
  - destruct (has_other_super T subs) eqn:O.
    + unfold has_other_super in O. apply existsb_exists in O. destruct O as [U [IU HU]].
      apply andb_true_iff in HU. destruct HU as [NE SU]. apply negb_true_iff in NE.
      pose proof (depth_lt T U SU NE). lia.
    + exists T. split; [|exact S]. apply subscription_types_spec. auto.
  - destruct (has_other_super T subs) eqn:O.
    + unfold has_other_super in O. apply existsb_exists in O. destruct O as [U [IU HU]].
      apply andb_true_iff in HU. destruct HU as [NE SU]. apply negb_true_iff in NE.
      pose proof (depth_lt T U SU NE). apply (IH U); [lia | exact IU | eapply subtype_b_trans; eassumption].
    + exists T. split; [|exact S]. apply subscription_types_spec. auto.
Qed.

Lemma length_le_1 {A} (l : list A) :
  NoDup l -> (forall x y, In x l -> In y l -> x = y) -> (length l <= 1)%nat.
Proof.
  intros N E. destruct l as [|a [|b l]]; simpl; try lia.
  inversion N as [|? ? NA _]; subst. exfalso. apply NA. left. symmetry. apply E; simpl; auto.
Qed.

(* exactly one kept type is at or above the event's class iff some configured type is *)
Lemma subscription_match_count subs t :
  length (filter (fun T => subtype_b t T) (subscription_types subs)) =
  if existsb (fun T => subtype_b t T) subs then 1%nat else 0%nat.
Proof.
  destruct (subscription_types_spec subs) as [N S].
  destruct (existsb (fun T => subtype_b t T) subs) eqn:E.
  - apply existsb_exists in E. destruct E as [T [IT ST]].
    destruct (subscription_covers subs t (depth T) T (le_n _) IT ST) as [T' [I' S']].
    assert (L1 : (length (filter (fun T => subtype_b t T) (subscription_types subs)) <= 1)%nat).
    { apply length_le_1; [apply NoDup_filter; exact N|].
      intros x y Hx Hy. apply filter_In in Hx. apply filter_In in Hy.
      destruct Hx as [Ix Sx]. destruct Hy as [Iy Sy].
      apply S in Ix. apply S in Iy. destruct Ix as [Ix Ox]. destruct Iy as [Iy Oy].
      destruct (etype_eqb x y) eqn:Q; [apply etype_eqb_eq; exact Q|]. exfalso.
      destruct (subtype_chain t x y Sx Sy) as [C|C].
      - assert (has_other_super x subs = true); [|congruence].
        unfold has_other_super. apply existsb_exists. exists y. split; [exact Iy|].
        rewrite C, andb_true_r. apply negb_true_iff.
        destruct (etype_eqb y x) eqn:Q'; [|reflexivity]. apply etype_eqb_eq in Q'. subst.
        rewrite etype_eqb_refl in Q. discriminate.
      - assert (has_other_super y subs = true); [|congruence].
        unfold has_other_super. apply existsb_exists. exists x. split; [exact Ix|].
        rewrite C, andb_true_r. apply negb_true_iff. exact Q. }
    assert (L2 : In T' (filter (fun T => subtype_b t T) (subscription_types subs))).
    { apply filter_In. auto. }
    destruct (filter (fun T => subtype_b t T) (subscription_types subs)) as [|a [|b l]]; simpl in *; [tauto | reflexivity | lia].
  - destruct (filter (fun T => subtype_b t T) (subscription_types subs)) as [|a l] eqn:F; [reflexivity|].
    exfalso. assert (I : In a (filter (fun T => subtype_b t T) (subscription_types subs))) by (rewrite F; left; reflexivity).
    apply filter_In in I. destruct I as [I Sa]. apply S in I. destruct I as [I _].
    assert (existsb (fun T => subtype_b t T) subs = true); [|congruence].
    apply existsb_exists. exists a. auto.
Qed.

(* =============================================== routing *)
Definition is_offered (pi : nat) (e : ev) (x : weff) : bool :=
  match x with EOffered q f => Nat.eqb q pi && (f =? e) | _ => false end.
Definition offered_count (pi : nat) (e : ev) (o : list weff) : nat := length (filter (is_offered pi e) o).

Lemma offered_count_app pi e a b : offered_count pi e (a ++ b) = (offered_count pi e a + offered_count pi e b)%nat.
Proof. unfold offered_count. rewrite filter_app, app_length. reflexivity. Qed.

Lemma accept_event_no_offer w pi e head q f : offered_count q f (snd (accept_event w pi e head)) = 0%nat.
Proof.
  unfold accept_event. destruct (nth_error (w_pools w) pi) as [p|]; [|reflexivity].
  destruct (ev_lookup (w_events w) e) as [x|]; [|reflexivity].
  destruct (ei_serial x); destruct (ps_lookup (ei_pserials x) pi);
    destruct (pl_bufsize p <=? Z.of_nat (length (pl_buffer p))); destruct (pl_buffer p); reflexivity.
Qed.

Definition sel (pi : nat) (t : etype) (c : etype * cb) : bool :=
  subtype_b t (fst c) && match snd c with CAccept q => Nat.eqb q pi | _ => false end.

Lemma notify_cbs_count pi e t : forall cbs w,
  offered_count pi e (snd (notify_cbs cbs w t (NEvent e))) = length (filter (sel pi t) cbs).
Proof.
  induction cbs as [|[T c] r IH]; intros w; simpl; [reflexivity|].
  unfold sel at 1. simpl. destruct (subtype_b t T) eqn:S; simpl.
  - destruct c as [q|q].
    + pose proof (accept_event_no_offer w q e false pi e) as A.
      destruct (accept_event w q e false) as [w' o]. simpl in A.
      specialize (IH w'). destruct (notify_cbs r w' t (NEvent e)) as [w2 o2]. simpl in *.
      change (EOffered q e :: o ++ o2) with ([EOffered q e] ++ o ++ o2).
      rewrite !offered_count_app, A, IH. unfold offered_count. simpl.
      rewrite Z.eqb_refl, andb_true_r. destruct (Nat.eqb q pi); simpl; lia.
    + specialize (IH w). destruct (notify_cbs r w t (NEvent e)) as [w2 o2]. simpl in *.
      change (ERaise :: o2) with ([ERaise] ++ o2). rewrite offered_count_app, IH. reflexivity.
  - apply IH.
Qed.

Lemma filter_sel_map pi t q l :
  length (filter (sel pi t) (map (fun T => (T, CAccept q)) l)) =
  if Nat.eqb q pi then length (filter (fun T => subtype_b t T) l) else 0%nat.
Proof.
  induction l as [|T l IH]; simpl; [destruct (Nat.eqb q pi); reflexivity|].
  unfold sel at 1. simpl. destruct (subtype_b t T), (Nat.eqb q pi); simpl; rewrite IH; reflexivity.
Qed.

Lemma subscribe_all_count pi t : forall ps cbs k,
  length (filter (sel pi t) (subscribe_all cbs k ps)) =
  (length (filter (sel pi t) cbs) +
   if (k <=? pi)%nat then
     match nth_error ps (pi - k) with
     | Some p => length (filter (fun T => subtype_b t T) (subscription_types (pl_subs p)))
     | None => 0
     end
   else 0)%nat.
Proof.
  induction ps as [|p ps IH]; intros cbs k; simpl.
  - destruct (k <=? pi)%nat; [destruct (pi - k)%nat|]; simpl; lia.
  - rewrite IH. unfold subscribe_pool. rewrite !filter_app, !app_length, filter_sel_map.
    assert (Z0 : length (filter (sel pi t) [(T_EventRejectedEvent, CRejected k)]) = 0%nat).
    { simpl. unfold sel. simpl. rewrite andb_false_r. reflexivity. }
    rewrite Z0.
    destruct (Nat.eqb k pi) eqn:E.
    + apply Nat.eqb_eq in E. subst k. replace (S pi <=? pi)%nat with false by lia.
      replace (pi <=? pi)%nat with true by lia. rewrite Nat.sub_diag. simpl nth_error. lia.
    + apply Nat.eqb_neq in E. destruct (k <=? pi)%nat eqn:K.
      * replace (S k <=? pi)%nat with true by lia.
        replace (pi - k)%nat with (S (pi - S k)) by lia. simpl nth_error. lia.
      * replace (S k <=? pi)%nat with false by lia. lia.
Qed.

Lemma ev_lookup_snoc tbl x : ev_lookup tbl (ei_id x) = None -> ev_lookup (tbl ++ [x]) (ei_id x) = Some x.
Proof.
  induction tbl as [|y tbl IH]; simpl; intros H.
  - rewrite Z.eqb_refl. reflexivity.
  - destruct (ei_id y =? ei_id x); [discriminate | apply IH; exact H].
Qed.

(* An emitted event is offered to pool pi exactly once if pi's configuration
   names the event's class or one of its superclasses, and not at all
   otherwise - whatever duplicates or type/supertype pairs the configuration has. *)
Theorem routing w e t pi p :
  w_callbacks w = subscribe_all [] 0 (w_pools w) ->
  nth_error (w_pools w) pi = Some p ->
  ev_lookup (w_events w) e = None ->
  offered_count pi e (snd (emit w e t)) =
  if existsb (fun T => subtype_b t T) (pl_subs p) then 1%nat else 0%nat.
Proof.
  intros CB NP FR. unfold emit. rewrite FR. unfold notify, note_type. simpl.
  pose proof (ev_lookup_snoc (w_events w) (mkEI e t None []) FR) as L. simpl in L. rewrite L. simpl.
  rewrite notify_cbs_count, CB, subscribe_all_count. simpl.
  rewrite Nat.sub_0_r, NP. apply subscription_match_count.
Qed.
