(* C09: proofs about the event distribution model (Pool.v). *)
From Coq Require Import ZArith List Bool Lia ZifyBool.
Import ListNotations.
Require Import SV.Common SV.C10.Listener SV.C10.Proc SV.C10.ListenerProofs SV.C10.ProcProofs.
Require Import SV.C09.Gen_EvTypes SV.C09.EvTypes SV.C09.EvTypesProofs SV.C09.Pool.
Open Scope Z_scope.

(* =============================================== _subscription_types *)
Lemma mem_et_In t l : mem_et t l = true <-> In t l.
Proof.
  induction l as [|x l IH]; simpl; [split; [discriminate | tauto]|].
  rewrite orb_true_iff, IH. split; intros [H|H]; auto.
  - left. apply etype_eqb_eq. exact H.
  - left. subst. apply etype_eqb_refl.
Qed.

Lemma NoDup_snoc {A} (l : list A) x : NoDup l -> ~ In x l -> NoDup (l ++ [x]).
Proof.
  induction l as [|y l IH]; intros N K; simpl.
  - constructor; [tauto | constructor].
  - inversion N; subst. constructor.
    + rewrite in_app_iff. simpl. intros [H|[H|[]]]; [tauto|]. subst. apply K. left. reflexivity.
    + apply IH; [assumption|]. intros H. apply K. right. exact H.
Qed.

Lemma sub_types_from_spec subs : forall todo acc,
  NoDup acc ->
  NoDup (sub_types_from todo acc subs) /\
  forall x, In x (sub_types_from todo acc subs) <->
            In x acc \/ (In x todo /\ has_other_super x subs = false).
Proof.
  induction todo as [|t r IH]; intros acc ND; simpl.
  - split; [exact ND|]. intros x. tauto.
  - destruct (mem_et t acc) eqn:M.
    + destruct (IH acc ND) as [N1 S1]. split; [exact N1|]. intros x. rewrite S1.
      apply mem_et_In in M. split; [tauto|]. intros [H|[[H|H] K]]; auto. subst. auto.
    + destruct (has_other_super t subs) eqn:O.
      * destruct (IH acc ND) as [N1 S1]. split; [exact N1|]. intros x. rewrite S1.
        split; [tauto|]. intros [H|[[H|H] K]]; auto. subst. congruence.
      * assert (ND' : NoDup (acc ++ [t])).
        { apply NoDup_snoc; [exact ND|]. intros K. apply mem_et_In in K. congruence. }
        destruct (IH (acc ++ [t]) ND') as [N1 S1]. split; [exact N1|]. intros x. rewrite S1.
        rewrite in_app_iff. simpl. split.
        -- intros [[H|[H|[]]]|[H K]]; auto. subst. right. auto.
        -- intros [H|[[H|H] K]]; auto.
Qed.

Lemma subscription_types_spec subs :
  NoDup (subscription_types subs) /\
  forall x, In x (subscription_types subs) <-> In x subs /\ has_other_super x subs = false.
Proof.
  destruct (sub_types_from_spec subs subs [] (NoDup_nil _)) as [N S]. split; [exact N|].
  intros x. unfold subscription_types. rewrite S. simpl. tauto.
Qed.

(* every configured type is covered by a kept type at or above it *)
Lemma subscription_covers subs t : forall n T,
  (depth T <= n)%nat -> In T subs -> subtype_b t T = true ->
  exists T', In T' (subscription_types subs) /\ subtype_b t T' = true.
Proof.
  induction n as [|n IH]; intros T D I S.
  - destruct (has_other_super T subs) eqn:O.
    + unfold has_other_super in O. apply existsb_exists in O. destruct O as [U [IU HU]].
      apply andb_true_iff in HU. destruct HU as [NE SU]. apply negb_true_iff in NE.
      pose proof (depth_lt T U SU NE). lia.
    + exists T. split; [|exact S]. apply subscription_types_spec. auto.
  - destruct (has_other_super T subs) eqn:O.
    + unfold has_other_super in O. apply existsb_exists in O. destruct O as [U [IU HU]].
      apply andb_true_iff in HU. destruct HU as [NE SU]. apply negb_true_iff in NE.
      pose proof (depth_lt T U SU NE). apply (IH U); [lia | exact IU | eapply subtype_b_trans; eassumption].
    + exists T. split; [|exact S]. apply subscription_types_spec. auto.
Qed.

Lemma length_le_1 {A} (l : list A) :
  NoDup l -> (forall x y, In x l -> In y l -> x = y) -> (length l <= 1)%nat.
Proof.
  intros N E. destruct l as [|a [|b l]]; simpl; try lia.
  inversion N as [|? ? NA _]; subst. exfalso. apply NA. left. symmetry. apply E; simpl; auto.
Qed.

(* exactly one kept type is at or above the event's class iff some configured type is *)
Lemma subscription_match_count subs t :
  length (filter (fun T => subtype_b t T) (subscription_types subs)) =
  if existsb (fun T => subtype_b t T) subs then 1%nat else 0%nat.
Proof.
  destruct (subscription_types_spec subs) as [N S].
  destruct (existsb (fun T => subtype_b t T) subs) eqn:E.
  - apply existsb_exists in E. destruct E as [T [IT ST]].
    destruct (subscription_covers subs t (depth T) T (le_n _) IT ST) as [T' [I' S']].
    assert (L1 : (length (filter (fun T => subtype_b t T) (subscription_types subs)) <= 1)%nat).
    { apply length_le_1; [apply NoDup_filter; exact N|].
      intros x y Hx Hy. apply filter_In in Hx. apply filter_In in Hy.
      destruct Hx as [Ix Sx]. destruct Hy as [Iy Sy].
      apply S in Ix. apply S in Iy. destruct Ix as [Ix Ox]. destruct Iy as [Iy Oy].
      destruct (etype_eqb x y) eqn:Q; [apply etype_eqb_eq; exact Q|]. exfalso.
      destruct (subtype_chain t x y Sx Sy) as [C|C].
      - assert (has_other_super x subs = true); [|congruence].
        unfold has_other_super. apply existsb_exists. exists y. split; [exact Iy|].
        rewrite C, andb_true_r. apply negb_true_iff.
        destruct (etype_eqb y x) eqn:Q'; [|reflexivity]. apply etype_eqb_eq in Q'. subst.
        rewrite etype_eqb_refl in Q. discriminate.
      - assert (has_other_super y subs = true); [|congruence].
        unfold has_other_super. apply existsb_exists. exists x. split; [exact Ix|].
        rewrite C, andb_true_r. apply negb_true_iff. exact Q. }
    assert (L2 : In T' (filter (fun T => subtype_b t T) (subscription_types subs))).
    { apply filter_In. auto. }
    destruct (filter (fun T => subtype_b t T) (subscription_types subs)) as [|a [|b l]]; simpl in *; [tauto | reflexivity | lia].
  - destruct (filter (fun T => subtype_b t T) (subscription_types subs)) as [|a l] eqn:F; [reflexivity|].
    exfalso. assert (I : In a (filter (fun T => subtype_b t T) (subscription_types subs))) by (rewrite F; left; reflexivity).
    apply filter_In in I. destruct I as [I Sa]. apply S in I. destruct I as [I _].
    assert (existsb (fun T => subtype_b t T) subs = true); [|congruence].
    apply existsb_exists. exists a. auto.
Qed.

(* =============================================== routing *)
Definition is_offered (pi : nat) (e : ev) (x : weff) : bool :=
  match x with EOffered q f => Nat.eqb q pi && (f =? e) | _ => false end.
Definition offered_count (pi : nat) (e : ev) (o : list weff) : nat := length (filter (is_offered pi e) o).

Lemma offered_count_app pi e a b : offered_count pi e (a ++ b) = (offered_count pi e a + offered_count pi e b)%nat.
Proof. unfold offered_count. rewrite filter_app, app_length. reflexivity. Qed.

Lemma accept_event_no_offer w pi e head q f : offered_count q f (snd (accept_event w pi e head)) = 0%nat.
Proof.
  unfold accept_event. destruct (nth_error (w_pools w) pi) as [p|]; [|reflexivity].
  destruct (ev_lookup (w_events w) e) as [x|]; [|reflexivity].
  destruct (ei_serial x); destruct (ps_lookup (ei_pserials x) pi);
    destruct (pl_bufsize p <=? Z.of_nat (length (pl_buffer p))); destruct (pl_buffer p); reflexivity.
Qed.

Definition sel (pi : nat) (t : etype) (c : etype * cb) : bool :=
  subtype_b t (fst c) && match snd c with CAccept q => Nat.eqb q pi | _ => false end.

Lemma notify_cbs_count pi e t : forall cbs w,
  offered_count pi e (snd (notify_cbs cbs w t (NEvent e))) = length (filter (sel pi t) cbs).
Proof.
  induction cbs as [|[T c] r IH]; intros w; simpl; [reflexivity|].
  unfold sel at 1. simpl. destruct (subtype_b t T) eqn:S; simpl.
  - destruct c as [q|q].
    + pose proof (accept_event_no_offer w q e false pi e) as A.
      destruct (accept_event w q e false) as [w' o]. simpl in A.
      specialize (IH w'). destruct (notify_cbs r w' t (NEvent e)) as [w2 o2]. simpl in *.
      change (EOffered q e :: o ++ o2) with ([EOffered q e] ++ o ++ o2).
      rewrite !offered_count_app, A, IH. unfold offered_count. simpl.
      rewrite Z.eqb_refl, andb_true_r. destruct (Nat.eqb q pi); simpl; lia.
    + specialize (IH w). destruct (notify_cbs r w t (NEvent e)) as [w2 o2]. simpl in *.
      change (ERaise :: o2) with ([ERaise] ++ o2). rewrite offered_count_app, IH. reflexivity.
  - apply IH.
Qed.

Lemma filter_sel_map pi t q l :
  length (filter (sel pi t) (map (fun T => (T, CAccept q)) l)) =
  if Nat.eqb q pi then length (filter (fun T => subtype_b t T) l) else 0%nat.
Proof.
  induction l as [|T l IH]; simpl; [destruct (Nat.eqb q pi); reflexivity|].
  unfold sel at 1. simpl. destruct (subtype_b t T), (Nat.eqb q pi); simpl; rewrite IH; reflexivity.
Qed.

Lemma subscribe_all_count pi t : forall ps cbs k,
  length (filter (sel pi t) (subscribe_all cbs k ps)) =
  (length (filter (sel pi t) cbs) +
   if (k <=? pi)%nat then
     match nth_error ps (pi - k) with
     | Some p => length (filter (fun T => subtype_b t T) (subscription_types (pl_subs p)))
     | None => 0
     end
   else 0)%nat.
Proof.
  induction ps as [|p ps IH]; intros cbs k; simpl.
  - destruct (k <=? pi)%nat; [destruct (pi - k)%nat|]; simpl; lia.
  - rewrite IH. unfold subscribe_pool. rewrite !filter_app, !app_length, filter_sel_map.
    assert (Z0 : length (filter (sel pi t) [(T_EventRejectedEvent, CRejected k)]) = 0%nat).
    { simpl. unfold sel. simpl. rewrite andb_false_r. reflexivity. }
    rewrite Z0.
    destruct (Nat.eqb k pi) eqn:E.
    + apply Nat.eqb_eq in E. subst k. replace (S pi <=? pi)%nat with false by lia.
      replace (pi <=? pi)%nat with true by lia. rewrite Nat.sub_diag. simpl nth_error. lia.
    + apply Nat.eqb_neq in E. destruct (k <=? pi)%nat eqn:K.
      * replace (S k <=? pi)%nat with true by lia.
        replace (pi - k)%nat with (S (pi - S k)) by lia. simpl nth_error. lia.
      * replace (S k <=? pi)%nat with false by lia. lia.
Qed.

Lemma ev_lookup_snoc tbl x : ev_lookup tbl (ei_id x) = None -> ev_lookup (tbl ++ [x]) (ei_id x) = Some x.
Proof.
  induction tbl as [|y tbl IH]; simpl; intros H.
  - rewrite Z.eqb_refl. reflexivity.
  - destruct (ei_id y =? ei_id x); [discriminate | apply IH; exact H].
Qed.

(* An emitted event is offered to pool pi exactly once if pi's configuration
   names the event's class or one of its superclasses, and not at all
   otherwise - whatever duplicates or type/supertype pairs the configuration has. *)
Theorem routing w e t pi p :
  w_callbacks w = subscribe_all [] 0 (w_pools w) ->
  nth_error (w_pools w) pi = Some p ->
  ev_lookup (w_events w) e = None ->
  offered_count pi e (snd (emit w e t)) =
  if existsb (fun T => subtype_b t T) (pl_subs p) then 1%nat else 0%nat.
Proof.
  intros CB NP FR. unfold emit. rewrite FR. unfold notify, note_type. simpl.
  pose proof (ev_lookup_snoc (w_events w) (mkEI e t None []) FR) as L. simpl in L. rewrite L. simpl.
  rewrite notify_cbs_count, CB, subscribe_all_count. simpl.
  rewrite Nat.sub_0_r, NP. apply subscription_match_count.
Qed.

(* =============================================== decomposition into primitive steps *)
(* Every operation of the model is a sequence of four kinds of primitive
   changes of the world; invariants are proved once per primitive. *)
Inductive prim : world -> world -> Prop :=
| prim_accept w pi e head : prim w (fst (accept_event w pi e head))
| prim_procs w pi p procs' :
    nth_error (w_pools w) pi = Some p ->
    prim w (upd_pool w pi (mkPool (pl_subs p) (pl_bufsize p) (pl_buffer p) (pl_serial p) procs'))
| prim_pop w pi p e rest :
    nth_error (w_pools w) pi = Some p -> pl_buffer p = e :: rest ->
    prim w (upd_pool w pi (mkPool (pl_subs p) (pl_bufsize p) rest (pl_serial p) (pl_procs p)))
| prim_newev w e t :
    ev_lookup (w_events w) e = None ->
    prim w (mkW (w_pools w) (w_callbacks w) (w_gserial w) (w_events w ++ [mkEI e t None []]) (w_maxint w)).

Inductive prims : world -> world -> Prop :=
| prims_refl w : prims w w
| prims_step w1 w2 w3 : prim w1 w2 -> prims w2 w3 -> prims w1 w3.

Lemma prims_trans a b c : prims a b -> prims b c -> prims a c.
Proof. induction 1; intros K; [exact K | econstructor; eauto]. Qed.
Lemma prims_one a b : prim a b -> prims a b.
Proof. intros H. econstructor; [exact H | constructor]. Qed.

Lemma handle_rejected_prims w pi owner e : prims w (fst (handle_rejected w pi owner e)).
Proof.
  unfold handle_rejected. destruct (Nat.eqb owner pi); [|constructor].
  destruct e as [e'|]; [|constructor].
  pose proof (prim_accept w pi e' true) as P. destruct (accept_event w pi e' true). apply prims_one. exact P.
Qed.

Lemma notify_cbs_prims t n : forall cbs w, prims w (fst (notify_cbs cbs w t n)).
Proof.
  induction cbs as [|[T c] r IH]; intros w; simpl; [constructor|].
  destruct (subtype_b t T); [|apply IH].
  assert (P : prims w (fst (match c, n with
                            | CAccept pi, NEvent e => let '(w', o) := accept_event w pi e false in (w', EOffered pi e :: o)
                            | CRejected pi, NRejected owner _ e => handle_rejected w pi owner e
                            | _, _ => (w, [ERaise])
                            end))).
  { destruct c as [pi|pi], n as [e|owner i e]; try constructor.
    - pose proof (prim_accept w pi e false) as P. destruct (accept_event w pi e false). apply prims_one. exact P.
    - apply handle_rejected_prims. }
  destruct (match c, n with
            | CAccept pi, NEvent e => let '(w', o) := accept_event w pi e false in (w', EOffered pi e :: o)
            | CRejected pi, NRejected owner _ e => handle_rejected w pi owner e
            | _, _ => (w, [ERaise])
            end) as [w1 o1]. simpl in P.
  specialize (IH w1). destruct (notify_cbs r w1 t n) as [w2 o2]. simpl in *.
  eapply prims_trans; eassumption.
Qed.

Lemma notify_prims w n : prims w (fst (notify w n)).
Proof. unfold notify. destruct (note_type w n); [apply notify_cbs_prims | constructor]. Qed.

Lemma emit_prims w e t : prims w (fst (emit w e t)).
Proof.
  unfold emit. destruct (ev_lookup (w_events w) e) eqn:L; [constructor|].
  eapply prims_step; [apply (prim_newev w e t L)|]. apply notify_prims.
Qed.

Lemma set_proc_prims w pi i q : prims w (set_proc w pi i q).
Proof.
  unfold set_proc. destruct (nth_error (w_pools w) pi) as [p|] eqn:N; [|constructor].
  apply prims_one. apply prim_procs. exact N.
Qed.

Section Steps.
Variable h : handler.
Variable maxdig : Z.

Lemma route_outs_prims pi i : forall o w, prims w (fst (route_outs w pi i o)).
Proof.
  induction o as [|x r IH]; intros w; simpl; [constructor|].
  assert (P : prims w (fst (match x with
                            | ORejected e => let '(w', o') := notify w (NRejected pi i e) in (w', ERejected pi i e :: o')
                            | OProcessed (Some e) => (w, [EAcked pi i e])
                            | OCrash => (w, [ERaise])
                            | _ => (w, [])
                            end))).
  { destruct x as [n|e|e|]; try constructor.
    - pose proof (notify_prims w (NRejected pi i e)) as P. destruct (notify w (NRejected pi i e)). exact P.
    - destruct e; constructor. }
  destruct (match x with
            | ORejected e => let '(w', o') := notify w (NRejected pi i e) in (w', ERejected pi i e :: o')
            | OProcessed (Some e) => (w, [EAcked pi i e])
            | OCrash => (w, [ERaise])
            | _ => (w, [])
            end) as [w1 o1]. simpl in P.
  specialize (IH w1). destruct (route_outs w1 pi i r) as [w2 o2]. simpl in *.
  eapply prims_trans; eassumption.
Qed.

Lemma dispatch_event_prims w pi e ws : prims w (fst (fst (dispatch_event w pi e ws))).
Proof.
  unfold dispatch_event. destruct (nth_error (w_pools w) pi) as [p|] eqn:N; [|constructor].
  destruct (ev_lookup (w_events w) e) as [x|]; [|constructor].
  destruct (ei_serial x); [|constructor]. destruct (ps_lookup (ei_pserials x) pi); [|constructor].
  destruct (dispatch_from 0 (pl_procs p) e _ ws) as [[procs' o] ok]. simpl.
  apply prims_one. apply prim_procs. exact N.
Qed.

Lemma dispatch_loop_prims pi : forall f w wss, prims w (fst (dispatch_loop f w pi wss)).
Proof.
  induction f as [|f IH]; intros w wss; simpl; [constructor|].
  destruct (nth_error (w_pools w) pi) as [p|] eqn:N; [|constructor].
  destruct (pl_buffer p) as [|e rest] eqn:B; [constructor|].
  set (w0 := upd_pool w pi (mkPool (pl_subs p) (pl_bufsize p) rest (pl_serial p) (pl_procs p))).
  assert (P0 : prims w w0) by (apply prims_one; eapply prim_pop; eassumption).
  pose proof (dispatch_event_prims w0 pi e (hd [] wss)) as P1.
  destruct (dispatch_event w0 pi e (hd [] wss)) as [[w1 o1] r]. simpl in P1.
  destruct r as [[|]|].
  - specialize (IH w1 (tl wss)). destruct (dispatch_loop f w1 pi (tl wss)) as [w2 o2]. simpl in *.
    eapply prims_trans; [exact P0|]. eapply prims_trans; eassumption.
  - pose proof (prim_accept w1 pi e true) as P2. destruct (accept_event w1 pi e true) as [w2 o2]. simpl in *.
    eapply prims_trans; [exact P0|]. eapply prims_trans; [exact P1|]. apply prims_one. exact P2.
  - simpl. eapply prims_trans; eassumption.
Qed.

Lemma dispatch_prims w pi wss : prims w (fst (dispatch w pi wss)).
Proof. unfold dispatch. destruct (nth_error (w_pools w) pi); [apply dispatch_loop_prims | constructor]. Qed.

Lemma seq_prims w (r : world * list weff) f :
  prims w (fst r) -> (forall w', prims w' (fst (f w'))) -> prims w (fst (seq r f)).
Proof.
  intros A B. unfold seq. destruct r as [w1 o1]. specialize (B w1). destruct (f w1) as [w2 o2].
  simpl in *. eapply prims_trans; eassumption.
Qed.

Lemma wstep_prims w op : prims w (fst (wstep h maxdig w op)).
Proof.
  destruct op as [e t|pi i data|pi i wr|pi i pid e1|pi i e1|pi i e1|pi i last wr e1 e2|pi i e1 e2|pi wss|pi wss]; unfold wstep.
  - apply emit_prims.
  - destruct (get_proc w pi i) as [[p q]|]; [|constructor].
    destruct (l_closed (p_l q)); [constructor|].
    destruct (read_event h maxdig (p_l q) data) as [l' o].
    eapply prims_trans; [apply set_proc_prims | apply route_outs_prims].
  - destruct (get_proc w pi i) as [[p q]|]; [|constructor].
    destruct (write_event q wr) as [q' r]. destruct r; simpl; apply set_proc_prims.
  - destruct (get_proc w pi i) as [[p q]|]; [|constructor].
    destruct (proc_step h maxdig i q (PSpawn pid)) as [q' o].
    destruct o as [|x o]; [|destruct x; try constructor];
      (pose proof (emit_prims w e1 T_ProcessStateStartingEvent) as P;
       destruct (emit w e1 T_ProcessStateStartingEvent) as [w1 o1]; simpl in *;
       eapply prims_trans; [exact P | apply set_proc_prims]).
  - destruct (get_proc w pi i) as [[p q]|]; [|constructor].
    destruct (proc_step h maxdig i q PRunning) as [q' o].
    destruct o as [|x o]; [|destruct x; try constructor];
      (eapply prims_trans; [apply set_proc_prims | apply emit_prims]).
  - destruct (get_proc w pi i) as [[p q]|]; [|constructor].
    destruct (proc_step h maxdig i q PStop) as [q' o].
    destruct o as [|x o]; [|destruct x; try constructor];
      (eapply prims_trans; [apply set_proc_prims | apply emit_prims]).
  - destruct (get_proc w pi i) as [[p q]|]; [|constructor].
    match goal with |- context [if negb ?g then _ else _] => destruct g end; simpl; [|constructor].
    destruct (if l_closed (p_l q) then (p_l q, []) else read_event h maxdig (p_l q) last) as [l1 o1].
    pose proof (route_outs_prims pi i o1 (set_proc w pi i (set_l q l1))) as P1.
    destruct (route_outs (set_proc w pi i (set_l q l1)) pi i o1) as [w1 f1]. simpl in P1.
    assert (P01 : prims w w1) by (eapply prims_trans; [apply set_proc_prims | exact P1]).
    destruct (write_event (set_l q l1) wr) as [q2 r].
    simpl.
      set (w2 := set_proc w1 pi i q2).
      assert (P2 : prims w w2) by (eapply prims_trans; [exact P01 | apply set_proc_prims]).
      assert (P3 : prims w2 (fst (finish_emits w2 (p_state q) (p_killing q) e1 e2))).
      { unfold finish_emits. destruct (pstate_eqb (p_state q) PS_UNKNOWN); [constructor|].
        destruct (p_killing q); [apply emit_prims|].
        destruct (pstate_eqb (p_state q) PS_STARTING); [|apply emit_prims].
        apply seq_prims; [apply emit_prims | intros; apply emit_prims]. }
      destruct (finish_emits w2 (p_state q) (p_killing q) e1 e2) as [w3 f3]. simpl in P3.
      match goal with |- context [set_proc w3 pi i ?q3] => set (w4 := set_proc w3 pi i q3) end.
      assert (P4 : prims w w4).
      { eapply prims_trans; [exact P2|]. eapply prims_trans; [exact P3 | apply set_proc_prims]. }
      destruct (l_event (p_l q2)) as [e|]; [|exact P4].
      pose proof (notify_prims w4 (NRejected pi i (Some e))) as P5.
      destruct (notify w4 (NRejected pi i (Some e))) as [w5 f5]. simpl in *.
      eapply prims_trans; eassumption.
  - destruct (get_proc w pi i) as [[p q]|]; [|constructor].
    destruct (proc_step h maxdig i q PStopFail) as [q' o].
    destruct o as [|x o]; [|destruct x; try constructor];
      (apply seq_prims; [eapply prims_trans; [apply set_proc_prims | apply emit_prims] | intros; apply emit_prims]).
  - apply dispatch_prims.
  - destruct (nth_error (w_pools w) pi) as [p|]; [|constructor].
    destruct (dispatch_capable p); [apply dispatch_prims | constructor].
Qed.

Lemma wrun_prims : forall ops w, prims w (fst (wrun h maxdig w ops)).
Proof.
  induction ops as [|op r IH]; intros w; simpl; [constructor|].
  pose proof (wstep_prims w op) as P. destruct (wstep h maxdig w op) as [w1 o1].
  specialize (IH w1). destruct (wrun h maxdig w1 r) as [w2 o2]. simpl in *.
  eapply prims_trans; eassumption.
Qed.

End Steps.

(* =============================================== invariants *)
Lemma prims_ind_inv (I : world -> Prop) :
  (forall w w', prim w w' -> I w -> I w') -> forall w w', prims w w' -> I w -> I w'.
Proof. intros Hp w w' P. induction P; intros K; [exact K | apply IHP; eapply Hp; eassumption]. Qed.

Lemma map_upd {A B} (f : A -> B) l i x y :
  nth_error l i = Some y -> f x = f y -> map f (upd l i x) = map f l.
Proof.
  revert i; induction l as [|a l IH]; intros i N E; destruct i; simpl in *; try discriminate.
  - inversion N; subst. rewrite E. reflexivity.
  - rewrite (IH i N E). reflexivity.
Qed.

(* what accept_event does to the pool it is called on *)
Lemma accept_event_shape w pi e head :
  (fst (accept_event w pi e head) = w) \/
  exists p x buf' ser gs tbl,
    nth_error (w_pools w) pi = Some p /\ ev_lookup (w_events w) e = Some x /\
    fst (accept_event w pi e head) =
      mkW (upd (w_pools w) pi (mkPool (pl_subs p) (pl_bufsize p) buf' ser (pl_procs p)))
          (w_callbacks w) gs tbl (w_maxint w) /\
    let kept := if pl_bufsize p <=? Z.of_nat (length (pl_buffer p)) then tl (pl_buffer p) else pl_buffer p in
    buf' = (if head then e :: kept else kept ++ [e]).
Proof.
  unfold accept_event. destruct (nth_error (w_pools w) pi) as [p|] eqn:N; [|left; reflexivity].
  destruct (ev_lookup (w_events w) e) as [x|] eqn:L; [|left; reflexivity].
  right. exists p, x.
  destruct (ei_serial x); destruct (ps_lookup (ei_pserials x) pi);
    destruct (pl_bufsize p <=? Z.of_nat (length (pl_buffer p))); destruct (pl_buffer p);
    simpl; do 4 eexists; repeat split; reflexivity.
Qed.

(* ---- the static part of a world never changes *)
Definition static (w : world) :=
  (w_callbacks w, map pl_subs (w_pools w), map pl_bufsize (w_pools w), w_maxint w).

Lemma prim_static w w' : prim w w' -> static w' = static w.
Proof.
  intros P. destruct P as [w pi e head|w pi p procs' N|w pi p e rest N B|w e t FR].
  - destruct (accept_event_shape w pi e head) as [E|[p [x [buf' [ser [gs [tbl [N [L [E _]]]]]]]]]];
      rewrite E; [reflexivity|].
    unfold static; simpl. rewrite (map_upd pl_subs _ _ _ p N) by reflexivity. rewrite (map_upd pl_bufsize _ _ _ p N) by reflexivity. reflexivity.
  - unfold static, upd_pool; simpl.
    rewrite (map_upd pl_subs _ _ _ p N) by reflexivity. rewrite (map_upd pl_bufsize _ _ _ p N) by reflexivity. reflexivity.
  - unfold static, upd_pool; simpl.
    rewrite (map_upd pl_subs _ _ _ p N) by reflexivity. rewrite (map_upd pl_bufsize _ _ _ p N) by reflexivity. reflexivity.
  - reflexivity.
Qed.

Lemma prims_static w w' : prims w w' -> static w' = static w.
Proof. induction 1 as [|a b c P _ IH]; [reflexivity | rewrite IH; apply prim_static; exact P]. Qed.

Lemma subscribe_all_ext : forall ps ps' cbs k,
  map pl_subs ps = map pl_subs ps' -> subscribe_all cbs k ps = subscribe_all cbs k ps'.
Proof.
  induction ps as [|p ps IH]; intros ps' cbs k E; destruct ps' as [|p' ps']; simpl in *; try discriminate; [reflexivity|].
  inversion E as [[E1 E2]]. unfold subscribe_pool. rewrite E1. apply IH. exact E2.
Qed.

Definition callbacks_ok (w : world) : Prop := w_callbacks w = subscribe_all [] 0 (w_pools w).

Lemma callbacks_ok_prims w w' : prims w w' -> callbacks_ok w -> callbacks_ok w'.
Proof.
  intros P C. pose proof (prims_static w w' P) as S. unfold static in S. inversion S as [[S1 S2 S3 S4]].
  unfold callbacks_ok in *. rewrite S1, C. apply subscribe_all_ext. symmetry. exact S2.
Qed.

Lemma callbacks_ok_new pools maxint gs : callbacks_ok (new_world pools maxint gs).
Proof. reflexivity. Qed.

(* ---- the buffer bound *)
Definition pool_bound (p : pool) : Prop := Z.of_nat (length (pl_buffer p)) <= Z.max 1 (pl_bufsize p).
Definition bound (w : world) : Prop := Forall pool_bound (w_pools w).

Lemma prim_bound w w' : prim w w' -> bound w -> bound w'.
Proof.
  unfold bound. intros P F. destruct P as [w pi e head|w pi p procs' N|w pi p e rest N B|w e t FR].
  - destruct (accept_event_shape w pi e head) as [E|[p [x [buf' [ser [gs [tbl [N [L [E Bf]]]]]]]]]];
      rewrite E; [exact F|]. simpl.
    apply Forall_upd; [exact F|].
    assert (Pb : pool_bound p) by (rewrite Forall_forall in F; apply F; eapply nth_error_In; exact N).
    unfold pool_bound in *. simpl. subst buf'.
    destruct (pl_bufsize p <=? Z.of_nat (length (pl_buffer p))) eqn:Ov.
    + destruct (pl_buffer p) as [|d rest]; destruct head; simpl in *; rewrite ?app_length; simpl; lia.
    + destruct head; simpl; rewrite ?app_length; simpl; lia.
  - simpl. apply Forall_upd; [exact F|].
    assert (Pb : pool_bound p) by (rewrite Forall_forall in F; apply F; eapply nth_error_In; exact N).
    exact Pb.
  - simpl. apply Forall_upd; [exact F|].
    assert (Pb : pool_bound p) by (rewrite Forall_forall in F; apply F; eapply nth_error_In; exact N).
    unfold pool_bound in *. simpl. rewrite B in Pb. simpl in Pb. lia.
  - exact F.
Qed.

Lemma bound_new pools maxint gs :
  Forall (fun p => pl_buffer p = []) pools -> bound (new_world pools maxint gs).
Proof.
  unfold bound. simpl. intros F. induction F as [|p l E F IH]; constructor; [|exact IH].
  unfold pool_bound. rewrite E. simpl. lia.
Qed.

Section Histories.
Variable h : handler.
Variable maxdig : Z.

(* at every point of every history: the subscription table is the one the
   pools registered, so `routing` applies to every emitted event *)
Theorem routing_always pools maxint gs ops e t pi p :
  let w := fst (wrun h maxdig (new_world pools maxint gs) ops) in
  nth_error (w_pools w) pi = Some p ->
  ev_lookup (w_events w) e = None ->
  offered_count pi e (snd (emit w e t)) =
  if existsb (fun T => subtype_b t T) (pl_subs p) then 1%nat else 0%nat.
Proof.
  intros w N F. apply routing; [|exact N|exact F].
  eapply callbacks_ok_prims; [apply wrun_prims | apply callbacks_ok_new].
Qed.

(* the configured subscriptions and buffer sizes are those of the initial pools *)
Theorem static_always pools maxint gs ops :
  static (fst (wrun h maxdig (new_world pools maxint gs) ops)) = static (new_world pools maxint gs).
Proof. apply prims_static. apply wrun_prims. Qed.

(* a pool never holds more than max(1, buffer_size) undelivered events *)
Theorem bound_always pools maxint gs ops :
  Forall (fun p => pl_buffer p = []) pools ->
  bound (fst (wrun h maxdig (new_world pools maxint gs) ops)).
Proof.
  intros F. eapply (prims_ind_inv bound prim_bound); [apply wrun_prims | apply bound_new; exact F].
Qed.

End Histories.

(* =============================================== overflow: only the head, with a log effect *)
Theorem accept_event_overflow w pi e head p x :
  nth_error (w_pools w) pi = Some p -> ev_lookup (w_events w) e = Some x ->
  let '(w', o) := accept_event w pi e head in
  exists p', nth_error (w_pools w') pi = Some p' /\
    (if pl_bufsize p <=? Z.of_nat (length (pl_buffer p)) then
       match pl_buffer p with
       | d :: rest => o = [EDiscard pi d] /\ pl_buffer p' = (if head then e :: rest else rest ++ [e])
       | [] => o = [] /\ pl_buffer p' = [e]
       end
     else o = [] /\ pl_buffer p' = (if head then e :: pl_buffer p else pl_buffer p ++ [e])).
Proof.
  intros N L. unfold accept_event. rewrite N, L.
  destruct (ei_serial x); destruct (ps_lookup (ei_pserials x) pi);
    destruct (pl_bufsize p <=? Z.of_nat (length (pl_buffer p))); destruct (pl_buffer p) as [|d rest];
    simpl; eexists; (split; [eapply upd_same; exact N|]); simpl; destruct head; auto.
Qed.

(* =============================================== a rejection concerns the owner's pool only *)
Lemma accept_event_other w pi e head pj :
  pj <> pi -> nth_error (w_pools (fst (accept_event w pi e head))) pj = nth_error (w_pools w) pj.
Proof.
  intros NE. destruct (accept_event_shape w pi e head) as [E|[p [x [buf' [ser [gs [tbl [N [L [E _]]]]]]]]]];
    rewrite E; [reflexivity|]. simpl. apply upd_other. congruence.
Qed.

Lemma handle_rejected_other w q owner e pj :
  pj <> owner -> nth_error (w_pools (fst (handle_rejected w q owner e))) pj = nth_error (w_pools w) pj.
Proof.
  intros NE. unfold handle_rejected. destruct (Nat.eqb owner q) eqn:E; [|reflexivity].
  apply Nat.eqb_eq in E. subst q. destruct e as [e'|]; [|reflexivity].
  pose proof (accept_event_other w owner e' true pj NE) as A.
  destruct (accept_event w owner e' true). exact A.
Qed.

Definition is_rebuffered (pi : nat) (e : ev) (x : weff) : bool :=
  match x with ERebuffered q f => Nat.eqb q pi && (f =? e) | _ => false end.
Definition rebuffered_count pi e (o : list weff) : nat := length (filter (is_rebuffered pi e) o).
Definition rebuffered_elsewhere (pi : nat) (o : list weff) : bool :=
  existsb (fun x => match x with ERebuffered q _ => negb (Nat.eqb q pi) | _ => false end) o.

Lemma accept_event_no_rebuffer w pi e head :
  forall x, In x (snd (accept_event w pi e head)) -> match x with ERebuffered _ _ => False | _ => True end.
Proof.
  unfold accept_event. destruct (nth_error (w_pools w) pi) as [p|]; [|simpl; intros x [<-|[]]; exact I].
  destruct (ev_lookup (w_events w) e) as [y|]; [|simpl; intros x [<-|[]]; exact I].
  destruct (ei_serial y); destruct (ps_lookup (ei_pserials y) pi);
    destruct (pl_bufsize p <=? Z.of_nat (length (pl_buffer p))); destruct (pl_buffer p);
    simpl; intros x H; repeat (destruct H as [<-|H]; [exact I|]); destruct H.
Qed.

(* whatever the subscription table contains: an EventRejectedEvent for a
   listener of pool `owner` changes no other pool and is re-buffered by no
   other pool *)
Theorem reject_isolated owner i e : forall cbs w,
  let '(w', o) := notify_cbs cbs w T_EventRejectedEvent (NRejected owner i e) in
  (forall pj, pj <> owner -> nth_error (w_pools w') pj = nth_error (w_pools w) pj) /\
  rebuffered_elsewhere owner o = false.
Proof.
  induction cbs as [|[T c] r IH]; intros w; simpl; [split; [reflexivity | reflexivity]|].
  destruct (subtype_b T_EventRejectedEvent T); [|apply IH].
  destruct c as [q|q].
  - specialize (IH w). destruct (notify_cbs r w T_EventRejectedEvent (NRejected owner i e)) as [w2 o2].
    destruct IH as [A B]. split; [exact A|]. simpl. exact B.
  - pose proof (handle_rejected_other w q owner e) as HO.
    assert (HR : rebuffered_elsewhere owner (snd (handle_rejected w q owner e)) = false).
    { unfold handle_rejected. destruct (Nat.eqb owner q) eqn:E; [|reflexivity].
      apply Nat.eqb_eq in E. subst q. destruct e as [e'|]; [|reflexivity].
      pose proof (accept_event_no_rebuffer w owner e' true) as NR.
      destruct (accept_event w owner e' true) as [w' o']. simpl in *.
      rewrite Nat.eqb_refl. simpl.
      apply not_true_is_false. intros K. apply existsb_exists in K. destruct K as [x [Ix Hx]].
      specialize (NR x Ix). destruct x; try discriminate. contradiction. }
    destruct (handle_rejected w q owner e) as [w1 o1]. simpl in HO, HR.
    specialize (IH w1). destruct (notify_cbs r w1 T_EventRejectedEvent (NRejected owner i e)) as [w2 o2].
    destruct IH as [A B]. split.
    + intros pj NE. rewrite (A pj NE). apply HO. exact NE.
    + unfold rebuffered_elsewhere in *. rewrite existsb_app, HR, B. reflexivity.
Qed.

(* the owner re-inserts the event at the head of its queue *)
Theorem reject_to_head w pi e p x :
  nth_error (w_pools w) pi = Some p -> ev_lookup (w_events w) e = Some x ->
  let '(w', o) := handle_rejected w pi pi (Some e) in
  exists p', nth_error (w_pools w') pi = Some p' /\ hd_error (pl_buffer p') = Some e /\
             rebuffered_count pi e o = 1%nat.
Proof.
  intros N L. unfold handle_rejected. rewrite Nat.eqb_refl.
  pose proof (accept_event_overflow w pi e true p x N L) as A.
  pose proof (accept_event_no_rebuffer w pi e true) as NR.
  destruct (accept_event w pi e true) as [w' o]. destruct A as [p' [N' B]].
  exists p'. split; [exact N'|]. split.
  - destruct (pl_bufsize p <=? Z.of_nat (length (pl_buffer p))); [destruct (pl_buffer p)|];
      destruct B as [_ B]; rewrite B; reflexivity.
  - unfold rebuffered_count. simpl. rewrite Nat.eqb_refl, Z.eqb_refl. simpl. f_equal.
    simpl in NR. clear -NR. induction o as [|y o IH]; [reflexivity|]. simpl.
    assert (Hy := NR y (or_introl eq_refl)). destruct y; simpl; try (apply IH; intros z Hz; apply NR; right; exact Hz).
    contradiction.
Qed.

(* =============================================== serials *)
(* new_serial counts 0, 1, 2, ... and wraps after maxint *)
Lemma new_serial_next maxint cur : cur <> maxint -> new_serial maxint cur = cur + 1.
Proof. intros H. unfold new_serial. replace (cur =? maxint) with false by lia. reflexivity. Qed.
Lemma new_serial_wrap maxint : new_serial maxint maxint = 0.
Proof. unfold new_serial. rewrite Z.eqb_refl. reflexivity. Qed.

Definition serials (tbl : list evinfo) : list Z :=
  flat_map (fun x => match ei_serial x with Some s => [s] | None => [] end) tbl.

(* While at most maxint+1 events have received a serial (counting from a fresh
   GlobalSerial), the serials handed out are exactly 0 .. n-1: all different. *)
Definition serial_inv (w : world) : Prop :=
  NoDup (map ei_id (w_events w)) /\
  (Z.of_nat (length (serials (w_events w))) <= w_maxint w + 1 ->
   w_gserial w = Z.of_nat (length (serials (w_events w))) - 1 /\
   NoDup (serials (w_events w)) /\
   forall s, In s (serials (w_events w)) -> 0 <= s <= w_gserial w).

Lemma serials_app a b : serials (a ++ b) = serials a ++ serials b.
Proof. unfold serials. apply flat_map_app. Qed.

Lemma ev_lookup_In tbl e x : ev_lookup tbl e = Some x -> In x tbl /\ ei_id x = e.
Proof.
  induction tbl as [|y tbl IH]; simpl; [discriminate|].
  destruct (ei_id y =? e) eqn:E; intros H.
  - inversion H; subst. split; [left; reflexivity | lia].
  - destruct (IH H). split; [right; assumption | assumption].
Qed.

Lemma ev_update_ids tbl x : map ei_id (ev_update tbl x) = map ei_id tbl.
Proof.
  induction tbl as [|y tbl IH]; simpl; [reflexivity|].
  destruct (ei_id y =? ei_id x) eqn:E; simpl; [f_equal; lia | rewrite IH; reflexivity].
Qed.

(* updating the entry of an event that already has serial s with the same serial *)
Lemma ev_update_serials_same tbl x x' s :
  ev_lookup tbl (ei_id x') = Some x -> ei_serial x = Some s -> ei_serial x' = Some s ->
  serials (ev_update tbl x') = serials tbl.
Proof.
  induction tbl as [|y tbl IH]; simpl; [discriminate|].
  destruct (ei_id y =? ei_id x') eqn:E; intros L S S'.
  - inversion L; subst. unfold serials. simpl. rewrite S, S'. reflexivity.
  - unfold serials in *. simpl. rewrite (IH L S S'). reflexivity.
Qed.

(* giving a serial to an event that had none: one more serial, somewhere in the list *)
Lemma ev_update_serials_new tbl x x' s :
  NoDup (map ei_id tbl) ->
  ev_lookup tbl (ei_id x') = Some x -> ei_serial x = None -> ei_serial x' = Some s ->
  exists a b, serials tbl = a ++ b /\ serials (ev_update tbl x') = a ++ s :: b.
Proof.
  induction tbl as [|y tbl IH]; simpl; [discriminate|].
  intros ND. inversion ND as [|? ? NI ND']; subst.
  destruct (ei_id y =? ei_id x') eqn:E; intros L S S'.
  - inversion L; subst. exists [], (serials tbl). unfold serials. simpl. rewrite S, S'. split; reflexivity.
  - destruct (IH ND' L S S') as [a [b [A B]]].
    exists ((match ei_serial y with Some s0 => [s0] | None => [] end) ++ a), b.
    unfold serials in *. simpl. rewrite A, B, <- !app_assoc. split; reflexivity.
Qed.

Lemma prim_serial_inv w w' : prim w w' -> serial_inv w -> serial_inv w'.
Proof.
  intros P [ND I]. destruct P as [w pi e head|w pi p procs' N|w pi p e rest N B|w e t FR].
  - unfold accept_event. destruct (nth_error (w_pools w) pi) as [p|] eqn:N; [|split; assumption].
    destruct (ev_lookup (w_events w) e) as [x|] eqn:L; [|split; assumption].
    destruct (ev_lookup_In _ _ _ L) as [_ Idx].
    destruct (ei_serial x) as [s|] eqn:S.
    + (* the event keeps its serial *)
      assert (E : forall pss, serials (ev_update (w_events w) (mkEI (ei_id x) (ei_type x) (Some s) pss)) = serials (w_events w)).
      { intros pss. eapply ev_update_serials_same; [simpl; rewrite Idx; exact L | exact S | reflexivity]. }
      destruct (ps_lookup (ei_pserials x) pi);
        destruct (pl_bufsize p <=? Z.of_nat (length (pl_buffer p))); destruct (pl_buffer p);
        unfold serial_inv; simpl; rewrite ev_update_ids, E; (split; [exact ND | exact I]).
    + (* a new serial *)
      set (s := new_serial (w_maxint w) (w_gserial w)).
      assert (E : forall pss, exists a b, serials (w_events w) = a ++ b /\
                  serials (ev_update (w_events w) (mkEI (ei_id x) (ei_type x) (Some s) pss)) = a ++ s :: b).
      { intros pss. eapply ev_update_serials_new; [exact ND | simpl; rewrite Idx; exact L | exact S | reflexivity]. }
      assert (G : forall pss, serial_inv
                    (mkW (w_pools w) (w_callbacks w) s
                         (ev_update (w_events w) (mkEI (ei_id x) (ei_type x) (Some s) pss)) (w_maxint w)) ).
      { intros pss. destruct (E pss) as [a [b [A B']]]. unfold serial_inv; simpl.
        rewrite ev_update_ids. split; [exact ND|]. rewrite B'. intros Len.
        rewrite app_length in Len. simpl in Len.
        assert (Len0 : Z.of_nat (length (serials (w_events w))) <= w_maxint w + 1).
        { rewrite A, app_length. lia. }
        destruct (I Len0) as [G1 [G2 G3]]. rewrite A in G1, G2, G3. rewrite app_length in G1.
        assert (Hs : s = w_gserial w + 1) by (apply new_serial_next; lia).
        split; [rewrite app_length; simpl; lia|]. split.
        - apply (NoDup_Add (Add_app s a b)). split; [exact G2|]. intros K. specialize (G3 s K). lia.
        - intros s0 K. apply in_app_or in K. destruct K as [K|[K|K]].
          + specialize (G3 s0 (in_or_app _ _ _ (or_introl K))). lia.
          + subst s0. lia.
          + specialize (G3 s0 (in_or_app _ _ _ (or_intror K))). lia. }
      destruct (ps_lookup (ei_pserials x) pi);
        destruct (pl_bufsize p <=? Z.of_nat (length (pl_buffer p))); destruct (pl_buffer p);
        simpl; match goal with |- serial_inv (mkW _ _ _ (ev_update _ (mkEI _ _ _ ?pss)) _) =>
                 destruct (G pss) as [G1 G2]; split; [exact G1 | exact G2] end.
  - split; assumption.
  - split; assumption.
  - (* a new event object: fresh identifier, no serial yet *)
    unfold serial_inv in *. simpl. rewrite serials_app. simpl. rewrite app_nil_r.
    split; [|exact I].
    rewrite map_app. simpl. apply NoDup_snoc; [exact ND|].
    intros K. apply in_map_iff in K. destruct K as [y [Ey Iy]].
    clear -FR Ey Iy. induction (w_events w) as [|z tbl IH]; simpl in *; [contradiction|].
    destruct (ei_id z =? e) eqn:E; [discriminate|].
    destruct Iy as [->|Iy]; [lia | apply IH; assumption].
Qed.

Lemma serial_inv_new pools maxint : serial_inv (new_world pools maxint (-1)).
Proof.
  unfold serial_inv, new_world; simpl. split; [constructor|]. intros _.
  split; [reflexivity|]. split; [constructor | intros s []].
Qed.

Lemma serials_unique_entries tbl : NoDup (serials tbl) ->
  forall x y s, In x tbl -> In y tbl -> ei_serial x = Some s -> ei_serial y = Some s -> x = y.
Proof.
  induction tbl as [|z tbl IH]; intros ND x y s Ix Iy Sx Sy; [contradiction|].
  unfold serials in ND. simpl in ND. fold (serials tbl) in ND.
  assert (Htail : forall u, In u tbl -> ei_serial u = Some s -> In s (serials tbl)).
  { intros u Iu Su. unfold serials. apply in_flat_map. exists u. rewrite Su. split; [exact Iu | left; reflexivity]. }
  destruct Ix as [->|Ix], Iy as [->|Iy]; [reflexivity| | |].
  - rewrite Sx in ND. simpl in ND. inversion ND as [|? ? NI _]. exfalso. apply NI. apply (Htail y Iy Sy).
  - rewrite Sy in ND. simpl in ND. inversion ND as [|? ? NI _]. exfalso. apply NI. apply (Htail x Ix Sx).
  - assert (ND' : NoDup (serials tbl)).
    { destruct (ei_serial z); simpl in ND; [inversion ND; assumption | exact ND]. }
    apply (IH ND' x y s Ix Iy Sx Sy).
Qed.

Section Histories2.
Variable h : handler.
Variable maxdig : Z.

(* serial numbers: unique within the first maxint+1 events that received one *)
Theorem serial_unique_always pools maxint ops :
  let w := fst (wrun h maxdig (new_world pools maxint (-1)) ops) in
  Z.of_nat (length (serials (w_events w))) <= maxint + 1 ->
  forall x y s, In x (w_events w) -> In y (w_events w) ->
                ei_serial x = Some s -> ei_serial y = Some s -> x = y.
Proof.
  intros w Len.
  assert (SI : serial_inv w).
  { eapply (prims_ind_inv serial_inv prim_serial_inv); [apply wrun_prims | apply serial_inv_new]. }
  assert (M : w_maxint w = maxint).
  { exact (f_equal snd (static_always h maxdig pools maxint (-1) ops)). }
  destruct SI as [_ I]. rewrite M in I. destruct (I Len) as [_ [ND _]].
  apply serials_unique_entries. exact ND.
Qed.

End Histories2.

(* poolserial: a pool gives an event a number only the first time it accepts
   it, and the numbers of a pool count up by one (until maxint) *)
Theorem accept_event_poolserial w pi e head p x :
  nth_error (w_pools w) pi = Some p -> ev_lookup (w_events w) e = Some x ->
  let w' := fst (accept_event w pi e head) in
  exists p' x', nth_error (w_pools w') pi = Some p' /\ ev_lookup (w_events w') e = Some x' /\
    match ps_lookup (ei_pserials x) pi with
    | Some s => pl_serial p' = pl_serial p /\ ps_lookup (ei_pserials x') pi = Some s
    | None => pl_serial p' = new_serial (w_maxint w) (pl_serial p) /\
              ps_lookup (ei_pserials x') pi = Some (pl_serial p') /\
              (pl_serial p <> w_maxint w -> pl_serial p' = pl_serial p + 1)
    end.
Proof.
  intros N L. destruct (ev_lookup_In _ _ _ L) as [_ Idx].
  assert (LU : forall x', ei_id x' = e -> ev_lookup (ev_update (w_events w) x') e = Some x').
  { intros x' Ex. clear -L Ex. induction (w_events w) as [|y tbl IH]; simpl in *; [discriminate|].
    destruct (ei_id y =? e) eqn:E.
    - replace (ei_id y =? ei_id x') with true by lia. simpl. replace (ei_id x' =? e) with true by lia. reflexivity.
    - replace (ei_id y =? ei_id x') with false by lia. simpl. rewrite E. apply IH. exact L. }
  assert (PSL : forall l s, ps_lookup l pi = None -> ps_lookup (l ++ [(pi, s)]) pi = Some s).
  { intros l s. induction l as [|[k v] l IH]; simpl; [rewrite Nat.eqb_refl; reflexivity|].
    destruct (Nat.eqb k pi); [discriminate | exact IH]. }
  unfold accept_event. rewrite N, L.
  destruct (ei_serial x); destruct (ps_lookup (ei_pserials x) pi) eqn:PS;
    destruct (pl_bufsize p <=? Z.of_nat (length (pl_buffer p))); destruct (pl_buffer p);
    simpl; eexists; eexists; (split; [eapply upd_same; exact N|]); (split; [apply LU; exact Idx|]); simpl;
    try (split; [reflexivity | exact PS]);
    (split; [reflexivity|]); (split; [apply PSL; exact PS | intros K; apply new_serial_next; exact K]).
Qed.

(* =============================================== FIFO *)
Definition sent_of (o : list weff) : list ev :=
  flat_map (fun x => match x with ESent _ _ e _ _ _ => [e] | _ => [] end) o.
Definition raised (o : list weff) : bool :=
  existsb (fun x => match x with ERaise => true | _ => false end) o.
Definition ssent_of (o : list sout) : list ev :=
  flat_map (fun x => match x with SSent _ e => [e] | _ => [] end) o.

Lemma sent_of_app a b : sent_of (a ++ b) = sent_of a ++ sent_of b.
Proof. unfold sent_of. apply flat_map_app. Qed.
Lemma raised_app a b : raised (a ++ b) = raised a || raised b.
Proof. unfold raised. apply existsb_app. Qed.

Lemma dispatch_from_sent e env ws : forall ps k,
  let '(ps', o, ok) := dispatch_from k ps e env ws in
  ssent_of o = (if ok then [e] else []).
Proof.
  induction ps as [|p rest IH]; intros k; simpl; [reflexivity|].
  destruct (try_send p e env (wnth ws k)) as [p' r]. destruct r.
  - specialize (IH (S k)). destruct (dispatch_from (S k) rest e env ws) as [[rest' o] ok]. exact IH.
  - reflexivity.
  - specialize (IH (S k)). destruct (dispatch_from (S k) rest e env ws) as [[rest' o] ok]. exact IH.
  - reflexivity.
Qed.

Lemma sent_of_conv pi ser pser t o : sent_of (flat_map (conv_sout pi ser pser t) o) = ssent_of o.
Proof.
  induction o as [|x o IH]; [reflexivity|]. simpl. rewrite sent_of_app, IH.
  destruct x; reflexivity.
Qed.

Lemma raised_conv pi ser pser t o : raised (flat_map (conv_sout pi ser pser t) o) = false.
Proof.
  induction o as [|x o IH]; [reflexivity|]. simpl. rewrite raised_app, IH. destruct x; reflexivity.
Qed.

(* one _dispatchEvent: the pool's queue and the event table are untouched;
   True = sent to exactly one listener, False = to none *)
Lemma dispatch_event_facts w pi e ws p :
  nth_error (w_pools w) pi = Some p ->
  let '(w', o, r) := dispatch_event w pi e ws in
  w_events w' = w_events w /\
  (exists p', nth_error (w_pools w') pi = Some p' /\ pl_buffer p' = pl_buffer p /\ pl_bufsize p' = pl_bufsize p) /\
  match r with
  | Some ok => sent_of o = (if ok then [e] else []) /\ raised o = false /\ exists x, ev_lookup (w_events w) e = Some x
  | None => raised o = true
  end.
Proof.
  intros N. unfold dispatch_event. rewrite N.
  destruct (ev_lookup (w_events w) e) as [x|] eqn:L.
  2:{ split; [reflexivity|]. split; [exists p; auto | reflexivity]. }
  destruct (ei_serial x) as [ser|].
  2:{ split; [reflexivity|]. split; [exists p; auto | reflexivity]. }
  destruct (ps_lookup (ei_pserials x) pi) as [pser|].
  2:{ split; [reflexivity|]. split; [exists p; auto | reflexivity]. }
  pose proof (dispatch_from_sent e (envelope ser pser pi (ei_type x)) ws (pl_procs p) 0%nat) as DS.
  destruct (dispatch_from 0 (pl_procs p) e (envelope ser pser pi (ei_type x)) ws) as [[procs' o] ok].
  split; [reflexivity|]. split.
  - eexists. split; [unfold upd_pool; simpl; eapply upd_same; exact N|]. simpl. auto.
  - rewrite sent_of_conv, raised_conv. split; [exact DS|]. split; [reflexivity | eauto].
Qed.

(* a dispatch pass sends the head of the queue, then the next, ...: what was
   sent, in order, followed by what remains, is the queue as it was *)
Theorem dispatch_fifo pi : forall f w wss p,
  nth_error (w_pools w) pi = Some p -> pool_bound p -> (length (pl_buffer p) < f)%nat ->
  let '(w', o) := dispatch_loop f w pi wss in
  raised o = false ->
  exists p', nth_error (w_pools w') pi = Some p' /\ pl_buffer p = sent_of o ++ pl_buffer p'.
Proof.
  induction f as [|f IH]; intros w wss p N Bd Lf; [lia|].
  simpl. rewrite N. destruct (pl_buffer p) as [|e rest] eqn:B.
  { intros _. exists p. rewrite B. auto. }
  set (p0 := mkPool (pl_subs p) (pl_bufsize p) rest (pl_serial p) (pl_procs p)).
  assert (N0 : nth_error (w_pools (upd_pool w pi p0)) pi = Some p0) by (simpl; eapply upd_same; exact N).
  pose proof (dispatch_event_facts (upd_pool w pi p0) pi e (hd [] wss) p0 N0) as F.
  destruct (dispatch_event (upd_pool w pi p0) pi e (hd [] wss)) as [[w1 o1] r].
  destruct F as [Ev [[p1 [N1 [B1 S1]]] Fr]]. simpl in B1, S1.
  destruct r as [[|]|].
  - (* sent: continue with the rest *)
    destruct Fr as [So [Ro _]].
    assert (Bd1 : pool_bound p1).
    { unfold pool_bound in *. rewrite B1, S1. rewrite B in Bd. simpl in Bd. lia. }
    assert (L1 : (length (pl_buffer p1) < f)%nat) by (rewrite B1; simpl in Lf; lia).
    specialize (IH w1 (tl wss) p1 N1 Bd1 L1).
    destruct (dispatch_loop f w1 pi (tl wss)) as [w2 o2].
    rewrite raised_app, Ro. simpl. intros R2. destruct (IH R2) as [p' [N' E']].
    exists p'. split; [exact N'|]. rewrite sent_of_app, So, B1 in *. simpl. rewrite E'. reflexivity.
  - (* not sent: back to the head, nothing is discarded *)
    destruct Fr as [So [Ro [x Lx]]].
    assert (Lx1 : ev_lookup (w_events w1) e = Some x) by (rewrite Ev; exact Lx).
    pose proof (accept_event_overflow w1 pi e true p1 x N1 Lx1) as A.
    destruct (accept_event w1 pi e true) as [w2 o2]. destruct A as [p' [N' A]].
    intros _. exists p'. split; [exact N'|].
    rewrite sent_of_app, So. simpl.
    assert (So2 : sent_of o2 = [] /\ pl_buffer p' = e :: rest).
    { rewrite B1, S1 in A. unfold pool_bound in Bd. rewrite B in Bd. simpl length in Bd.
      destruct (pl_bufsize p <=? Z.of_nat (length rest)) eqn:Ov.
      - destruct rest as [|d rest'].
        + destruct A as [-> ->]. auto.
        + simpl length in *. lia.
      - destruct A as [-> ->]. auto. }
    destruct So2 as [-> ->]. reflexivity.
  - (* exception *)
    intros R. rewrite Fr in R. discriminate.
Qed.

(* =============================================== no loss *)
(* For a pool pi and an event e:
     accepted (EOffered pi e) =
       buffered in pi's queue + in flight (event slot of a listener of pi)
       + acknowledged OK (EAcked pi _ e) + discarded by overflow (EDiscard pi e)
   as an equation between numbers of occurrences, at every point of every
   history in which no exception escaped. *)
Definition count_ev (e : ev) (l : list ev) : nat := length (filter (fun f => f =? e) l).
Definition inflight_proc (e : ev) (q : proc) : nat :=
  match l_event (p_l q) with Some f => if f =? e then 1%nat else 0%nat | None => 0%nat end.
Definition inflight_procs (e : ev) (qs : list proc) : nat := list_sum (map (inflight_proc e) qs).
Definition held_pool (e : ev) (p : pool) : nat := (count_ev e (pl_buffer p) + inflight_procs e (pl_procs p))%nat.
Definition held (pi : nat) (e : ev) (w : world) : nat :=
  match nth_error (w_pools w) pi with Some p => held_pool e p | None => 0%nat end.

Definition n_eff (f : weff -> bool) (o : list weff) : nat := length (filter f o).
Definition is_acked pi e (x : weff) := match x with EAcked q _ f => Nat.eqb q pi && (f =? e) | _ => false end.
Definition is_discard pi e (x : weff) := match x with EDiscard q f => Nat.eqb q pi && (f =? e) | _ => false end.
Definition n_offered pi e := n_eff (is_offered pi e).
Definition n_acked pi e := n_eff (is_acked pi e).
Definition n_discard pi e := n_eff (is_discard pi e).

Lemma n_eff_app f a b : n_eff f (a ++ b) = (n_eff f a + n_eff f b)%nat.
Proof. unfold n_eff. rewrite filter_app, app_length. reflexivity. Qed.
Lemma n_eff_cons f x o : n_eff f (x :: o) = ((if f x then 1 else 0) + n_eff f o)%nat.
Proof. unfold n_eff. simpl. destruct (f x); reflexivity. Qed.

Lemma count_ev_app e a b : count_ev e (a ++ b) = (count_ev e a + count_ev e b)%nat.
Proof. unfold count_ev. rewrite filter_app, app_length. reflexivity. Qed.
Lemma count_ev_cons e x l : count_ev e (x :: l) = ((if (x =? e)%Z then 1 else 0) + count_ev e l)%nat.
Proof. unfold count_ev. simpl. destruct (x =? e); reflexivity. Qed.

Definition ind (b : bool) : nat := if b then 1%nat else 0%nat.

(* the balance of one step, for pool pi and event e *)
Definition balanced (pi : nat) (e : ev) (w : world) (o : list weff) (w' : world) : Prop :=
  (n_offered pi e o + held pi e w = held pi e w' + n_acked pi e o + n_discard pi e o)%nat.

Lemma balanced_refl pi e w : balanced pi e w [] w.
Proof. unfold balanced, n_offered, n_acked, n_discard, n_eff. simpl. lia. Qed.

Lemma balanced_trans pi e w1 o1 w2 o2 w3 :
  balanced pi e w1 o1 w2 -> balanced pi e w2 o2 w3 -> balanced pi e w1 (o1 ++ o2) w3.
Proof. unfold balanced, n_offered, n_acked, n_discard. rewrite !n_eff_app. lia. Qed.

Lemma held_upd_same w pi p p' cbs gs tbl mi e :
  nth_error (w_pools w) pi = Some p ->
  held pi e (mkW (upd (w_pools w) pi p') cbs gs tbl mi) = held_pool e p'.
Proof. intros N. unfold held. simpl. rewrite (upd_same _ _ _ _ N). reflexivity. Qed.

Lemma held_upd_other w pi pj p' cbs gs tbl mi e :
  pj <> pi -> held pj e (mkW (upd (w_pools w) pi p') cbs gs tbl mi) = held pj e w.
Proof. intros NE. unfold held. simpl. rewrite upd_other by congruence. reflexivity. Qed.

(* (L1) _acceptEvent: the event enters the queue of that pool; whatever leaves is logged *)
Lemma accept_event_balance w q f head pi e :
  let '(w', o) := accept_event w q f head in
  raised o = false ->
  (held pi e w' + n_discard pi e o = held pi e w + ind (Nat.eqb q pi && (f =? e)%Z))%nat /\
  n_offered pi e o = 0%nat /\ n_acked pi e o = 0%nat.
Proof.
  unfold accept_event. destruct (nth_error (w_pools w) q) as [p|] eqn:N; [|simpl; discriminate].
  destruct (ev_lookup (w_events w) f) as [x|] eqn:L; [|simpl; discriminate].
  assert (Main : forall gs psn tbl,
    let '(buf, eff) := if pl_bufsize p <=? Z.of_nat (length (pl_buffer p))
                       then match pl_buffer p with d :: rest => (rest, [EDiscard q d]) | [] => ([], []) end
                       else (pl_buffer p, []) in
    let w' := mkW (upd (w_pools w) q (mkPool (pl_subs p) (pl_bufsize p) (if head then f :: buf else buf ++ [f]) psn (pl_procs p)))
                  (w_callbacks w) gs tbl (w_maxint w) in
    (held pi e w' + n_discard pi e eff = held pi e w + ind (Nat.eqb q pi && (f =? e)%Z))%nat /\
    n_offered pi e eff = 0%nat /\ n_acked pi e eff = 0%nat).
  { intros gs psn tbl.
    destruct (Nat.eqb q pi) eqn:Q.
    - apply Nat.eqb_eq in Q. subst q.
      assert (Hw : held pi e w = held_pool e p) by (unfold held; rewrite N; reflexivity).
      destruct (pl_bufsize p <=? Z.of_nat (length (pl_buffer p))); [destruct (pl_buffer p) as [|d rest] eqn:B|];
        cbv zeta; rewrite (held_upd_same w pi p _ _ _ _ _ e N), Hw; unfold held_pool; simpl pl_buffer; simpl pl_procs;
        rewrite ?B; destruct head; rewrite ?count_ev_app, ?count_ev_cons;
        unfold n_discard, n_offered, n_acked, n_eff, ind; simpl; rewrite ?Nat.eqb_refl; simpl;
        unfold count_ev; simpl; repeat match goal with |- context [?a =? ?b] => destruct (a =? b) end; simpl; lia.
    - assert (NE : pi <> q) by (apply Nat.eqb_neq in Q; congruence).
      destruct (pl_bufsize p <=? Z.of_nat (length (pl_buffer p))); [destruct (pl_buffer p) as [|d rest]|];
        cbv zeta; rewrite (held_upd_other w q pi _ _ _ _ _ e NE);
        unfold n_discard, n_offered, n_acked, n_eff, ind; simpl; rewrite ?Q; simpl; lia. }
  destruct (ei_serial x); destruct (ps_lookup (ei_pserials x) q);
    match goal with |- context [mkW (upd _ _ (mkPool _ _ _ ?psn _)) _ ?gs ?tbl _] => specialize (Main gs psn tbl) end;
    destruct (pl_bufsize p <=? Z.of_nat (length (pl_buffer p))); destruct (pl_buffer p); intros _; exact Main.
Qed.

(* ---- the listeners are not touched by _acceptEvent / notify *)
Definition procs_of (w : world) : list (list proc) := map pl_procs (w_pools w).

Lemma accept_event_procs w q f head : procs_of (fst (accept_event w q f head)) = procs_of w.
Proof.
  destruct (accept_event_shape w q f head) as [E|[p [x [buf' [ser [gs [tbl [N [L [E _]]]]]]]]]];
    rewrite E; [reflexivity|]. unfold procs_of. simpl. rewrite (map_upd pl_procs _ _ _ p N) by reflexivity. reflexivity.
Qed.

Lemma handle_rejected_procs w q owner e : procs_of (fst (handle_rejected w q owner e)) = procs_of w.
Proof.
  unfold handle_rejected. destruct (Nat.eqb owner q); [|reflexivity]. destruct e as [e'|]; [|reflexivity].
  pose proof (accept_event_procs w q e' true) as A. destruct (accept_event w q e' true). exact A.
Qed.

Lemma notify_cbs_procs t n : forall cbs w, procs_of (fst (notify_cbs cbs w t n)) = procs_of w.
Proof.
  induction cbs as [|[T c] r IH]; intros w; simpl; [reflexivity|].
  destruct (subtype_b t T); [|apply IH].
  assert (P : procs_of (fst (match c, n with
                            | CAccept pi, NEvent e => let '(w', o) := accept_event w pi e false in (w', EOffered pi e :: o)
                            | CRejected pi, NRejected owner _ e => handle_rejected w pi owner e
                            | _, _ => (w, [ERaise])
                            end)) = procs_of w).
  { destruct c as [pi|pi], n as [e|owner i e]; try reflexivity.
    - pose proof (accept_event_procs w pi e false) as P. destruct (accept_event w pi e false). exact P.
    - apply handle_rejected_procs. }
  destruct (match c, n with
            | CAccept pi, NEvent e => let '(w', o) := accept_event w pi e false in (w', EOffered pi e :: o)
            | CRejected pi, NRejected owner _ e => handle_rejected w pi owner e
            | _, _ => (w, [ERaise])
            end) as [w1 o1]. simpl in P.
  specialize (IH w1). destruct (notify_cbs r w1 t n) as [w2 o2]. simpl in *. congruence.
Qed.

Lemma notify_procs w n : procs_of (fst (notify w n)) = procs_of w.
Proof. unfold notify. destruct (note_type w n); [apply notify_cbs_procs | reflexivity]. Qed.

Lemma emit_procs w e t : procs_of (fst (emit w e t)) = procs_of w.
Proof.
  unfold emit. destruct (ev_lookup (w_events w) e); [reflexivity|].
  rewrite notify_procs. reflexivity.
Qed.

(* (L2) notify of an Event: every offer is matched by an entry in that pool's queue *)
Lemma notify_cbs_event_balance t f pi e : forall cbs w,
  let '(w', o) := notify_cbs cbs w t (NEvent f) in
  raised o = false -> balanced pi e w o w'.
Proof.
  induction cbs as [|[T c] r IH]; intros w; simpl; [intros _; apply balanced_refl|].
  destruct (subtype_b t T); [|apply IH].
  destruct c as [q|q].
  - pose proof (accept_event_balance w q f false pi e) as A.
    destruct (accept_event w q f false) as [w1 o1].
    specialize (IH w1). destruct (notify_cbs r w1 t (NEvent f)) as [w2 o2].
    change ((EOffered q f :: o1) ++ o2) with ([EOffered q f] ++ o1 ++ o2).
    rewrite !raised_app. simpl. intros R. apply orb_false_iff in R. destruct R as [R1 R2].
    destruct (A R1) as [A1 [A2 A3]]. specialize (IH R2).
    unfold balanced in *. unfold n_offered, n_acked, n_discard in *. rewrite !n_eff_cons, !n_eff_app.
    simpl. unfold ind in A1. destruct (Nat.eqb q pi && (f =? e)); simpl; lia.
  - specialize (IH w). destruct (notify_cbs r w t (NEvent f)) as [w2 o2]. simpl. discriminate.
Qed.

(* (L3) notify of an EventRejectedEvent: the owner pool re-buffers, once per
   registered handle_rejected callback of that pool *)
Definition rej_sel (owner : nat) (c : etype * cb) : bool :=
  subtype_b T_EventRejectedEvent (fst c) && match snd c with CRejected q => Nat.eqb q owner | _ => false end.

Lemma handle_rejected_balance w q owner f pi e :
  let '(w', o) := handle_rejected w q owner (Some f) in
  raised o = false ->
  (held pi e w' + n_discard pi e o = held pi e w + ind (Nat.eqb q owner && Nat.eqb owner pi && (f =? e)%Z))%nat /\
  n_offered pi e o = 0%nat /\ n_acked pi e o = 0%nat.
Proof.
  unfold handle_rejected. destruct (Nat.eqb owner q) eqn:Q.
  - apply Nat.eqb_eq in Q. subst q. rewrite Nat.eqb_refl. simpl.
    pose proof (accept_event_balance w owner f true pi e) as A.
    destruct (accept_event w owner f true) as [w' o]. simpl. intros R.
    destruct (A R) as [A1 [A2 A3]]. unfold n_discard, n_offered, n_acked in *. rewrite !n_eff_cons. simpl. auto.
  - rewrite Nat.eqb_sym, Q. simpl. intros _. unfold n_discard, n_offered, n_acked, n_eff, ind. simpl. lia.
Qed.

Lemma notify_cbs_rejected_balance owner i f pi e : forall cbs w,
  let '(w', o) := notify_cbs cbs w T_EventRejectedEvent (NRejected owner i (Some f)) in
  raised o = false ->
  (held pi e w' + n_discard pi e o =
   held pi e w + length (filter (rej_sel owner) cbs) * ind (Nat.eqb owner pi && (f =? e)%Z))%nat /\
  n_offered pi e o = 0%nat /\ n_acked pi e o = 0%nat.
Proof.
  induction cbs as [|[T c] r IH]; intros w; simpl.
  { intros _. unfold n_discard, n_offered, n_acked, n_eff. simpl. lia. }
  unfold rej_sel at 1. simpl. destruct (subtype_b T_EventRejectedEvent T); simpl; [|apply IH].
  destruct c as [q|q].
  - specialize (IH w). destruct (notify_cbs r w T_EventRejectedEvent (NRejected owner i (Some f))) as [w2 o2].
    simpl. discriminate.
  - pose proof (handle_rejected_balance w q owner f pi e) as A.
    destruct (handle_rejected w q owner (Some f)) as [w1 o1].
    specialize (IH w1). destruct (notify_cbs r w1 T_EventRejectedEvent (NRejected owner i (Some f))) as [w2 o2].
    rewrite raised_app. intros R. apply orb_false_iff in R. destruct R as [R1 R2].
    destruct (A R1) as [A1 [A2 A3]]. destruct (IH R2) as [B1 [B2 B3]].
    unfold n_discard, n_offered, n_acked in *. rewrite !n_eff_app.
    split; [|split; lia].
    unfold ind in *. destruct (Nat.eqb q owner); simpl in *; destruct (Nat.eqb owner pi && (f =? e)); simpl in *; lia.
Qed.

Lemma subscribe_all_rej_count owner : forall ps cbs k,
  length (filter (rej_sel owner) (subscribe_all cbs k ps)) =
  (length (filter (rej_sel owner) cbs) +
   if (k <=? owner)%nat && (owner <? k + length ps)%nat then 1 else 0)%nat.
Proof.
  induction ps as [|p ps IH]; intros cbs k; simpl.
  - replace ((k <=? owner)%nat && (owner <? k + 0)%nat) with false by lia. lia.
  - rewrite IH. unfold subscribe_pool. rewrite !filter_app, !app_length.
    assert (Z0 : length (filter (rej_sel owner) (map (fun t => (t, CAccept k)) (subscription_types (pl_subs p)))) = 0%nat).
    { induction (subscription_types (pl_subs p)) as [|t l IHl]; [reflexivity|]. simpl.
      unfold rej_sel at 1. simpl. rewrite andb_false_r. exact IHl. }
    rewrite Z0.
    assert (Z1 : length (filter (rej_sel owner) [(T_EventRejectedEvent, CRejected k)]) = ind (Nat.eqb k owner)).
    { simpl. unfold rej_sel. simpl. rewrite ?subtype_b_refl. simpl. destruct (Nat.eqb k owner); reflexivity. }
    rewrite Z1. unfold ind.
    destruct (Nat.eqb k owner) eqn:E.
    + apply Nat.eqb_eq in E. subst k.
      replace ((S owner <=? owner)%nat && (owner <? S owner + length ps)%nat) with false by lia.
      replace ((owner <=? owner)%nat && (owner <? owner + S (length ps))%nat) with true by lia. lia.
    + apply Nat.eqb_neq in E.
      destruct ((k <=? owner)%nat && (owner <? k + S (length ps))%nat) eqn:K.
      * replace ((S k <=? owner)%nat && (owner <? S k + length ps)%nat) with true by lia. lia.
      * replace ((S k <=? owner)%nat && (owner <? S k + length ps)%nat) with false by lia. lia.
Qed.

Lemma notify_rejected_balance w owner i f pi e :
  callbacks_ok w -> (owner < length (w_pools w))%nat ->
  let '(w', o) := notify w (NRejected owner i (Some f)) in
  raised o = false ->
  (held pi e w' + n_discard pi e o = held pi e w + ind (Nat.eqb owner pi && (f =? e)%Z))%nat /\
  n_offered pi e o = 0%nat /\ n_acked pi e o = 0%nat.
Proof.
  intros CB Lt. unfold notify. simpl.
  pose proof (notify_cbs_rejected_balance owner i f pi e (w_callbacks w) w) as A.
  destruct (notify_cbs (w_callbacks w) w T_EventRejectedEvent (NRejected owner i (Some f))) as [w' o].
  intros R. destruct (A R) as [A1 A2]. split; [|exact A2].
  rewrite CB, subscribe_all_rej_count in A1. simpl in A1.
  replace (owner <? length (w_pools w))%nat with true in A1 by lia. lia.
Qed.

Lemma prims_length w w' : prims w w' -> length (w_pools w') = length (w_pools w).
Proof.
  intros P. pose proof (prims_static w w' P) as S. unfold static in S.
  assert (E := f_equal (fun x => snd (fst (fst x))) S). simpl in E.
  rewrite <- (map_length pl_subs (w_pools w')), E, map_length. reflexivity.
Qed.

(* ---- listeners: what set_proc does to `held` *)
Lemma inflight_upd e : forall qs i q q',
  nth_error qs i = Some q ->
  (inflight_procs e (upd qs i q') + inflight_proc e q = inflight_procs e qs + inflight_proc e q')%nat.
Proof.
  induction qs as [|a qs IH]; intros i q q' N; destruct i; simpl in *; try discriminate.
  - inversion N; subst. unfold inflight_procs. simpl. lia.
  - specialize (IH i q q' N). unfold inflight_procs in *. simpl. lia.
Qed.

Lemma held_set_proc_same w pi i p q q' e :
  get_proc w pi i = Some (p, q) ->
  (held pi e (set_proc w pi i q') + inflight_proc e q = held pi e w + inflight_proc e q')%nat.
Proof.
  unfold get_proc, set_proc. destruct (nth_error (w_pools w) pi) as [p0|] eqn:N; [|discriminate].
  destruct (nth_error (pl_procs p0) i) as [q0|] eqn:Ni; [|discriminate]. intros H. inversion H; subst.
  unfold held at 1. unfold upd_pool. simpl. rewrite (upd_same _ _ _ _ N).
  unfold held. rewrite N. unfold held_pool. simpl.
  pose proof (inflight_upd e (pl_procs p) i q q' Ni). lia.
Qed.

Lemma held_set_proc_other w pi0 i q' pi e : pi <> pi0 -> held pi e (set_proc w pi0 i q') = held pi e w.
Proof.
  intros NE. unfold set_proc. destruct (nth_error (w_pools w) pi0) as [p0|]; [|reflexivity].
  unfold held, upd_pool. simpl. rewrite upd_other by congruence. reflexivity.
Qed.

(* ---- the invariant carried along a history *)
Definition good (w : world) : Prop := callbacks_ok w /\ Forall (Forall pinv) (procs_of w).

Lemma good_procs_eq w w' : prims w w' -> procs_of w' = procs_of w -> good w -> good w'.
Proof. intros P E [C F]. split; [eapply callbacks_ok_prims; eassumption | rewrite E; exact F]. Qed.

Lemma get_proc_pinv w pi i p q : good w -> get_proc w pi i = Some (p, q) -> pinv q.
Proof.
  intros [_ F]. unfold get_proc. destruct (nth_error (w_pools w) pi) as [p0|] eqn:N; [|discriminate].
  destruct (nth_error (pl_procs p0) i) as [q0|] eqn:Ni; [|discriminate]. intros H. inversion H; subst.
  rewrite Forall_forall in F. specialize (F (pl_procs p)).
  assert (I : In (pl_procs p) (procs_of w)) by (unfold procs_of; apply in_map; eapply nth_error_In; exact N).
  specialize (F I). rewrite Forall_forall in F. apply F. eapply nth_error_In. exact Ni.
Qed.

Lemma get_proc_lt w pi i p q : get_proc w pi i = Some (p, q) -> (pi < length (w_pools w))%nat.
Proof.
  unfold get_proc. destruct (nth_error (w_pools w) pi) eqn:N; [|discriminate]. intros _.
  apply nth_error_Some. congruence.
Qed.

Lemma good_set_proc w pi i p q q' : good w -> get_proc w pi i = Some (p, q) -> pinv q' -> good (set_proc w pi i q').
Proof.
  intros G GP Iq. destruct G as [C F]. split.
  - eapply callbacks_ok_prims; [apply set_proc_prims | exact C].
  - unfold get_proc in GP. unfold set_proc.
    destruct (nth_error (w_pools w) pi) as [p0|] eqn:N; [|discriminate].
    destruct (nth_error (pl_procs p0) i) as [q0|] eqn:Ni; [|discriminate]. inversion GP; subst.
    unfold procs_of, upd_pool. simpl.
    assert (Fp : Forall pinv (pl_procs p)).
    { rewrite Forall_forall in F. apply F. unfold procs_of. apply in_map. eapply nth_error_In. exact N. }
    clear -F N Fp Iq. unfold procs_of in F. revert pi N.
    induction (w_pools w) as [|a l IH]; intros pi N; destruct pi; simpl in *; try discriminate.
    + inversion N; subst. inversion F; subst. constructor; [apply Forall_upd; assumption | assumption].
    + inversion F; subst. constructor; [assumption | apply IH; assumption].
Qed.

(* (L4) the answers of a listener of pool pi0, routed in order *)
Definition ans_ev (e : ev) (x : out) : nat :=
  match x with
  | ORejected (Some f) | OProcessed (Some f) => if f =? e then 1%nat else 0%nat
  | _ => 0%nat
  end.
Definition ans_count (e : ev) (ol : list out) : nat := list_sum (map (ans_ev e) ol).

Ltac use_step S :=
  let T := fresh "T" in
  pose proof S as T;
  match type of T with context [route_outs ?w1 ?a ?b ?r] => destruct (route_outs w1 a b r) end;
  exact T.

Section NoLoss.
Variable h : handler.
Variable maxdig : Z.

Lemma route_outs_balance pi0 i pi e : forall ol w,
  callbacks_ok w -> (pi0 < length (w_pools w))%nat ->
  let '(w', o) := route_outs w pi0 i ol in
  raised o = false ->
  (held pi e w' + n_discard pi e o + n_acked pi e o = held pi e w + ind (Nat.eqb pi0 pi) * ans_count e ol)%nat /\
  n_offered pi e o = 0%nat.
Proof.
  induction ol as [|x r IH]; intros w CB Lt; simpl.
  { intros _. unfold n_discard, n_acked, n_offered, n_eff, ans_count. simpl. lia. }
  assert (Step : forall w1 o1,
    prims w w1 ->
    (raised o1 = false ->
     (held pi e w1 + n_discard pi e o1 + n_acked pi e o1 = held pi e w + ind (Nat.eqb pi0 pi) * ans_ev e x)%nat /\
     n_offered pi e o1 = 0%nat) ->
    let '(w2, o2) := route_outs w1 pi0 i r in
    raised (o1 ++ o2) = false ->
    (held pi e w2 + n_discard pi e (o1 ++ o2) + n_acked pi e (o1 ++ o2) =
     held pi e w + ind (Nat.eqb pi0 pi) * ans_count e (x :: r))%nat /\
    n_offered pi e (o1 ++ o2) = 0%nat).
  { intros w1 o1 P1 H1.
    assert (CB1 : callbacks_ok w1) by (eapply callbacks_ok_prims; eassumption).
    assert (Lt1 : (pi0 < length (w_pools w1))%nat) by (rewrite (prims_length _ _ P1); exact Lt).
    specialize (IH w1 CB1 Lt1). destruct (route_outs w1 pi0 i r) as [w2 o2].
    rewrite raised_app. intros R. apply orb_false_iff in R. destruct R as [R1 R2].
    destruct (H1 R1) as [A1 A2]. destruct (IH R2) as [B1 B2].
    unfold n_discard, n_acked, n_offered in *. rewrite !n_eff_app.
    unfold ans_count in *. simpl. split; lia. }
  destruct x as [n|eo|eo|].
  - use_step (Step w [] (prims_refl w)
        ltac:(intros _; unfold n_discard, n_acked, n_offered, n_eff; simpl; lia)).
  - destruct eo as [f|].
    + pose proof (notify_rejected_balance w pi0 i f pi e CB Lt) as A.
      pose proof (notify_prims w (NRejected pi0 i (Some f))) as P.
      destruct (notify w (NRejected pi0 i (Some f))) as [w1 o1]. simpl in P.
      assert (H1 : raised (ERejected pi0 i (Some f) :: o1) = false ->
                   (held pi e w1 + n_discard pi e (ERejected pi0 i (Some f) :: o1) +
                    n_acked pi e (ERejected pi0 i (Some f) :: o1) =
                    held pi e w + ind (Nat.eqb pi0 pi) * ans_ev e (ORejected (Some f)))%nat /\
                   n_offered pi e (ERejected pi0 i (Some f) :: o1) = 0%nat).
      { simpl. intros R. destruct (A R) as [A1 [A2 A3]].
        unfold n_discard, n_acked, n_offered in *. rewrite !n_eff_cons. simpl.
        unfold ind in *. destruct (Nat.eqb pi0 pi); destruct (f =? e); simpl in *; lia. }
      use_step (Step w1 (ERejected pi0 i (Some f) :: o1) P H1).
    + (* EventRejectedEvent without an event: _acceptEvent(None) raises *)
      unfold notify. simpl.
      pose proof (notify_cbs_prims T_EventRejectedEvent (NRejected pi0 i None) (w_callbacks w) w) as P.
      destruct (notify_cbs (w_callbacks w) w T_EventRejectedEvent (NRejected pi0 i None)) as [w1 o1] eqn:NC. simpl in P.
      assert (H1 : raised (ERejected pi0 i None :: o1) = false ->
                   (held pi e w1 + n_discard pi e (ERejected pi0 i None :: o1) +
                    n_acked pi e (ERejected pi0 i None :: o1) =
                    held pi e w + ind (Nat.eqb pi0 pi) * ans_ev e (ORejected None))%nat /\
                   n_offered pi e (ERejected pi0 i None :: o1) = 0%nat).
      { simpl. intros R. exfalso.
        revert NC R. unfold callbacks_ok in CB. rewrite CB.
        assert (G : forall ps cbs k w0 w1 o1, (k <= pi0 < k + length ps)%nat ->
                    notify_cbs (subscribe_all cbs k ps) w0 T_EventRejectedEvent (NRejected pi0 i None) = (w1, o1) ->
                    raised o1 = true).
        { clear. induction ps as [|p ps IHp]; intros cbs k w0 w1 o1 Rg; simpl in *; [lia|].
          destruct (Nat.eq_dec k pi0) as [->|NE].
          - intros NC.
            assert (K : forall l (w0 : world) a b, notify_cbs (l ++ (T_EventRejectedEvent, CRejected pi0) :: a) w0
                          T_EventRejectedEvent (NRejected pi0 i None) = b -> raised (snd b) = true).
            { clear. induction l as [|[T c] l IHl]; intros w0 a b E; simpl in E.
              - rewrite ?subtype_b_refl in E. unfold handle_rejected in E. rewrite Nat.eqb_refl in E.
                destruct (notify_cbs a w0 T_EventRejectedEvent (NRejected pi0 i None)) as [w2 o2]. subst b. reflexivity.
              - destruct (subtype_b T_EventRejectedEvent T).
                + destruct (match c with CAccept _ => (w0, [ERaise]) | CRejected pi => handle_rejected w0 pi pi0 None end) as [w3 o3].
                  specialize (IHl w3 a). destruct (notify_cbs (l ++ (T_EventRejectedEvent, CRejected pi0) :: a) w3
                                                     T_EventRejectedEvent (NRejected pi0 i None)) as [w4 o4] eqn:E4.
                  subst b. simpl. rewrite raised_app. pose proof (IHl _ eq_refl) as K4. simpl in K4. rewrite K4. apply orb_true_r.
                + eapply IHl. exact E. }
            assert (Sh : forall ps cbs k, exists tail, subscribe_all cbs k ps = cbs ++ tail).
            { clear. induction ps as [|p ps IHq]; intros cbs k; simpl; [exists []; rewrite app_nil_r; reflexivity|].
              destruct (IHq (subscribe_pool cbs k p) (S k)) as [tl E]. rewrite E. unfold subscribe_pool.
              eexists. rewrite <- !app_assoc. reflexivity. }
            destruct (Sh ps (subscribe_pool cbs pi0 p) (S pi0)) as [tl E]. rewrite E in NC.
            unfold subscribe_pool in NC. rewrite <- !app_assoc in NC. simpl in NC.
            rewrite app_assoc in NC.
            exact (K _ _ _ _ NC).
          - intros NC. eapply (IHp _ (S k)); [lia | exact NC]. }
        intros NC R. simpl in R.
        rewrite (G (w_pools w) [] 0%nat w w1 o1 ltac:(lia) NC) in R. discriminate. }
      use_step (Step w1 (ERejected pi0 i None :: o1) P H1).
  - destruct eo as [f|].
    + use_step (Step w [EAcked pi0 i f] (prims_refl w)
          ltac:(intros _; unfold n_discard, n_acked, n_offered, n_eff, ind; simpl;
                destruct (Nat.eqb pi0 pi); destruct (f =? e); simpl; lia)).
    + use_step (Step w [] (prims_refl w)
          ltac:(intros _; unfold n_discard, n_acked, n_offered, n_eff; simpl; lia)).
  - use_step (Step w [ERaise] (prims_refl w) ltac:(simpl; discriminate)).
Qed.

(* ---- dispatching moves the event from the queue into one listener's slot *)
Lemma dispatch_from_inflight e env ws f : forall ps k,
  Forall pinv ps ->
  let '(ps', o, ok) := dispatch_from k ps e env ws in
  Forall pinv ps' /\ inflight_procs f ps' = (inflight_procs f ps + ind (ok && (e =? f)%Z))%nat.
Proof.
  induction ps as [|p rest IH]; intros k F; simpl.
  - split; [constructor | reflexivity].
  - inversion F as [|? ? Ip Fr]; subst.
    pose proof (try_send_inv p e env (wnth ws k) Ip) as [Ip' T].
    pose proof (try_send_only_ready p e env (wnth ws k)) as A.
    pose proof (try_send_not_sent p e env (wnth ws k)) as B.
    destruct (try_send p e env (wnth ws k)) as [p' r]. simpl in Ip', T.
    assert (Same : r <> SSentOk -> inflight_proc f p' = inflight_proc f p).
    { intros NE. destruct (B p' r eq_refl NE) as [L _]. unfold inflight_proc. rewrite L. reflexivity. }
    destruct r.
    + specialize (IH (S k) Fr). destruct (dispatch_from (S k) rest e env ws) as [[rest' o] ok].
      destruct IH as [F' E]. split; [constructor; assumption|].
      unfold inflight_procs in *. simpl. rewrite E, Same by discriminate. lia.
    + destruct (A p' eq_refl) as [_ [_ [_ [_ [_ Ev]]]]]. destruct T as [T0 _].
      split; [constructor; assumption|].
      unfold inflight_procs. simpl. unfold inflight_proc at 1 3. rewrite Ev.
      unfold slot in T0. destruct (l_event (p_l p)); [discriminate|]. unfold ind. simpl.
      destruct (e =? f); lia.
    + specialize (IH (S k) Fr). destruct (dispatch_from (S k) rest e env ws) as [[rest' o] ok].
      destruct IH as [F' E]. split; [constructor; assumption|].
      unfold inflight_procs in *. simpl. rewrite E, Same by discriminate. lia.
    + split; [constructor; assumption|].
      unfold inflight_procs. simpl. rewrite Same by discriminate. unfold ind. simpl. lia.
Qed.

Lemma n_conv_zero pi0 ser pser t (o : list sout) g :
  (forall q i e s ps tt, g (ESent q i e s ps tt) = false) -> (forall q i, g (EEpipe q i) = false) ->
  (forall q, g (EWriteError q) = false) ->
  n_eff g (flat_map (conv_sout pi0 ser pser t) o) = 0%nat.
Proof.
  intros G1 G2 G3. induction o as [|x o IH]; [reflexivity|]. simpl. rewrite n_eff_app, IH.
  destruct x; unfold n_eff; simpl; rewrite ?G1, ?G2, ?G3; reflexivity.
Qed.

Lemma good_upd_procs w pi0 p procs' :
  good w -> nth_error (w_pools w) pi0 = Some p -> Forall pinv procs' ->
  good (upd_pool w pi0 (mkPool (pl_subs p) (pl_bufsize p) (pl_buffer p) (pl_serial p) procs')).
Proof.
  intros [C F] N Fp. split.
  - eapply callbacks_ok_prims; [apply prims_one; apply prim_procs; exact N | exact C].
  - unfold procs_of, upd_pool in *. simpl. clear C. revert pi0 N.
    induction (w_pools w) as [|a l IH]; intros pi0 N; destruct pi0; simpl in *; try discriminate.
    + inversion F; subst. constructor; assumption.
    + inversion F; subst. constructor; [assumption | apply IH; assumption].
Qed.

Lemma good_pool_procs w pi0 p : good w -> nth_error (w_pools w) pi0 = Some p -> Forall pinv (pl_procs p).
Proof.
  intros [_ F] N. rewrite Forall_forall in F. apply F. unfold procs_of. apply in_map. eapply nth_error_In. exact N.
Qed.

Lemma dispatch_event_balance w pi0 e0 ws p :
  good w -> nth_error (w_pools w) pi0 = Some p ->
  let '(w', o, r) := dispatch_event w pi0 e0 ws in
  good w' /\
  (forall pi e, held pi e w' =
     (held pi e w + ind (match r with Some true => Nat.eqb pi0 pi && (e0 =? e)%Z | _ => false end))%nat \/ r = None) /\
  (forall pi e, n_offered pi e o = 0%nat /\ n_acked pi e o = 0%nat /\ n_discard pi e o = 0%nat).
Proof.
  intros G N. unfold dispatch_event. rewrite N.
  assert (Z0 : forall pi e, n_offered pi e [ERaise] = 0%nat /\ n_acked pi e [ERaise] = 0%nat /\ n_discard pi e [ERaise] = 0%nat)
    by (intros; repeat split; reflexivity).
  destruct (ev_lookup (w_events w) e0) as [x|]; [|split; [exact G|]; split; [right; reflexivity | exact Z0]].
  destruct (ei_serial x) as [ser|]; [|split; [exact G|]; split; [right; reflexivity | exact Z0]].
  destruct (ps_lookup (ei_pserials x) pi0) as [pser|]; [|split; [exact G|]; split; [right; reflexivity | exact Z0]].
  pose proof (good_pool_procs w pi0 p G N) as Fp.
  assert (D : forall f, let '(ps', o, ok) := dispatch_from 0 (pl_procs p) e0 (envelope ser pser pi0 (ei_type x)) ws in
                        Forall pinv ps' /\ inflight_procs f ps' = (inflight_procs f (pl_procs p) + ind (ok && (e0 =? f)%Z))%nat)
    by (intros f; apply dispatch_from_inflight; exact Fp).
  destruct (dispatch_from 0 (pl_procs p) e0 (envelope ser pser pi0 (ei_type x)) ws) as [[procs' o] ok].
  split; [apply good_upd_procs; [exact G | exact N | exact (proj1 (D 0))]|].
  split.
  - intros pi e. left. destruct (Nat.eqb pi0 pi) eqn:Q.
    + apply Nat.eqb_eq in Q. subst pi. unfold held, upd_pool. simpl. rewrite (upd_same _ _ _ _ N), N.
      unfold held_pool. simpl. rewrite (proj2 (D e)). destruct ok; simpl; lia.
    + unfold held, upd_pool. simpl. rewrite upd_other by (apply Nat.eqb_neq in Q; congruence).
      destruct ok; simpl; unfold ind; simpl; lia.
  - intros pi e. repeat split; apply n_conv_zero; intros; reflexivity.
Qed.

Lemma good_accept w q f head : good w -> good (fst (accept_event w q f head)).
Proof.
  intros G. eapply good_procs_eq; [|apply accept_event_procs|exact G].
  pose proof (prim_accept w q f head). apply prims_one. assumption.
Qed.

Lemma held_pop w pi0 p e0 rest pi e :
  nth_error (w_pools w) pi0 = Some p -> pl_buffer p = e0 :: rest ->
  (held pi e (upd_pool w pi0 (mkPool (pl_subs p) (pl_bufsize p) rest (pl_serial p) (pl_procs p))) +
   ind (Nat.eqb pi0 pi && (e0 =? e)%Z) = held pi e w)%nat.
Proof.
  intros N B. destruct (Nat.eqb pi0 pi) eqn:Q.
  - apply Nat.eqb_eq in Q. subst pi. unfold held, upd_pool. simpl. rewrite (upd_same _ _ _ _ N), N.
    unfold held_pool. simpl. rewrite B, count_ev_cons. unfold ind. simpl. destruct (e0 =? e); lia.
  - unfold held, upd_pool. simpl. rewrite upd_other by (apply Nat.eqb_neq in Q; congruence). unfold ind. simpl. lia.
Qed.

Lemma dispatch_loop_balance pi0 : forall f w wss,
  good w ->
  let '(w', o) := dispatch_loop f w pi0 wss in
  raised o = false -> good w' /\ forall pi e, balanced pi e w o w'.
Proof.
  induction f as [|f IH]; intros w wss G; simpl.
  { intros _. split; [exact G | intros; apply balanced_refl]. }
  destruct (nth_error (w_pools w) pi0) as [p|] eqn:N.
  2:{ intros _. split; [exact G|]. intros. unfold balanced, n_offered, n_acked, n_discard, n_eff. simpl. lia. }
  destruct (pl_buffer p) as [|e0 rest] eqn:B.
  { intros _. split; [exact G | intros; apply balanced_refl]. }
  set (p0 := mkPool (pl_subs p) (pl_bufsize p) rest (pl_serial p) (pl_procs p)).
  assert (G0 : good (upd_pool w pi0 p0)).
  { destruct G as [C F]. split.
    - eapply callbacks_ok_prims; [apply prims_one; eapply prim_pop; eassumption | exact C].
    - unfold procs_of, upd_pool. simpl. rewrite (map_upd pl_procs _ _ _ p N) by reflexivity. exact F. }
  assert (N0 : nth_error (w_pools (upd_pool w pi0 p0)) pi0 = Some p0) by (simpl; eapply upd_same; exact N).
  pose proof (dispatch_event_balance (upd_pool w pi0 p0) pi0 e0 (hd [] wss) p0 G0 N0) as DE.
  pose proof (dispatch_event_facts (upd_pool w pi0 p0) pi0 e0 (hd [] wss) p0 N0) as DF.
  destruct (dispatch_event (upd_pool w pi0 p0) pi0 e0 (hd [] wss)) as [[w1 o1] r].
  destruct DE as [G1 [H1 Z1]]. destruct DF as [_ [_ Fr]].
  destruct r as [[|]|].
  - destruct Fr as [_ [R1 _]].
    specialize (IH w1 (tl wss) G1). destruct (dispatch_loop f w1 pi0 (tl wss)) as [w2 o2].
    rewrite raised_app, R1. simpl. intros R2. destruct (IH R2) as [G2 B2]. split; [exact G2|].
    intros pi e. specialize (B2 pi e). destruct (H1 pi e) as [H|H]; [|discriminate].
    pose proof (held_pop w pi0 p e0 rest pi e N B) as HP. fold p0 in HP.
    destruct (Z1 pi e) as [Za [Zb Zc]].
    unfold balanced, n_offered, n_acked, n_discard in *. rewrite !n_eff_app. lia.
  - destruct Fr as [_ [R1 _]].
    pose proof (accept_event_balance w1 pi0 e0 true) as A.
    pose proof (good_accept w1 pi0 e0 true G1) as G2.
    destruct (accept_event w1 pi0 e0 true) as [w2 o2]. simpl in G2.
    rewrite raised_app, R1. simpl. intros R2. split; [exact G2|].
    intros pi e. destruct (A pi e R2) as [A1 [A2 A3]]. destruct (H1 pi e) as [H|H]; [|discriminate].
    pose proof (held_pop w pi0 p e0 rest pi e N B) as HP. fold p0 in HP.
    destruct (Z1 pi e) as [Za [Zb Zc]].
    unfold balanced, n_offered, n_acked, n_discard in *. rewrite !n_eff_app, !n_eff_cons. simpl.
    unfold ind in *. simpl in H. lia.
  - intros R. rewrite Fr in R. discriminate.
Qed.

(* ---- single operations *)
Lemma held_events_irrelevant w tbl pi e :
  held pi e (mkW (w_pools w) (w_callbacks w) (w_gserial w) tbl (w_maxint w)) = held pi e w.
Proof. reflexivity. Qed.

Lemma emit_balance w f t :
  good w ->
  let '(w', o) := emit w f t in
  raised o = false -> good w' /\ forall pi e, balanced pi e w o w'.
Proof.
  intros G. pose proof (emit_prims w f t) as P. pose proof (emit_procs w f t) as PR.
  unfold emit in *. destruct (ev_lookup (w_events w) f) eqn:L.
  { intros _. split; [exact G|]. intros. unfold balanced, n_offered, n_acked, n_discard, n_eff. simpl. lia. }
  unfold notify in *. simpl in *.
  pose proof (ev_lookup_snoc (w_events w) (mkEI f t None []) L) as LS. simpl in LS. rewrite LS in *.
  match goal with |- context [notify_cbs ?c ?ww ?tt ?nn] =>
    pose proof (fun pi e => notify_cbs_event_balance tt f pi e c ww) as B;
    destruct (notify_cbs c ww tt nn) as [w' o] end.
  simpl in *.
  intros R. split; [eapply good_procs_eq; eassumption|].
  intros pi e. specialize (B pi e R). unfold balanced in *. exact B.
Qed.

Definition ans_opt (e : ev) (a : option ev) : nat :=
  match a with Some f => if f =? e then 1%nat else 0%nat | None => 0%nat end.

Lemma ans_count_answers e ol : ans_count e ol = list_sum (map (ans_opt e) (answers ol)).
Proof.
  unfold ans_count. induction ol as [|x ol IH]; [reflexivity|].
  simpl. rewrite IH. destruct x as [n|a|a|]; simpl; try reflexivity;
    destruct a; simpl; lia.
Qed.

Lemma read_event_inflight q data :
  pinv q ->
  let '(l', ol) := read_event h maxdig (p_l q) data in
  pinv (set_l q l') /\ forall e, (inflight_proc e (set_l q l') + ans_count e ol = inflight_proc e q)%nat.
Proof.
  intros [W [SI [PZ C]]].
  assert (Core : forall l0, wf l0 -> slot_inv l0 -> forall a,
            let '(l', ol) := feed h maxdig l0 a in
            wf l' /\ slot_inv l' /\ (l_event l0 = None -> l_event l' = None) /\
            forall e, (ans_opt e (l_event l') + ans_count e ol = ans_opt e (l_event l0))%nat).
  { intros l0 W0 SI0 a. pose proof (feed_answers h maxdig l0 a W0) as A.
    pose proof (feed_wf h maxdig l0 a W0) as W'.
    destruct (feed h maxdig l0 a) as [l' ol]. simpl in W'. destruct A as [A1 [A2 A3]]. specialize (A3 SI0).
    split; [exact W'|]. split; [exact A3|].
    unfold slot_inv in *.
    destruct (is_busy l0) eqn:B0, (is_busy l') eqn:B1.
    - destruct (A2 eq_refl) as [_ E]. split; [congruence|]. intros e. rewrite ans_count_answers, A1, E. simpl. lia.
    - split; [intros _; apply A3; reflexivity|]. intros e. rewrite ans_count_answers, A1, (A3 eq_refl). simpl. lia.
    - destruct (A2 eq_refl). congruence.
    - split; [intros _; apply A3; reflexivity|]. intros e.
      rewrite ans_count_answers, A1, (A3 eq_refl), (SI0 eq_refl). simpl. lia. }
  unfold read_event. destruct data as [|c data].
  - rewrite feed_eof_as_feed.
    specialize (Core (mkL (l_state (p_l q)) (l_buf (p_l q)) (l_rlen (p_l q)) (l_result (p_l q)) (l_event (p_l q)) true)).
    specialize (Core ltac:(destruct (p_l q); exact W) ltac:(destruct (p_l q); exact SI) []).
    destruct (feed h maxdig _ []) as [l' ol]. destruct Core as [W' [SI' [N E]]]. simpl in N, E.
    split; [unfold pinv; simpl; repeat split; auto|]. intros e. unfold inflight_proc. simpl. apply E.
  - specialize (Core (p_l q) W SI (c :: data)). destruct (feed h maxdig (p_l q) (c :: data)) as [l' ol].
    destruct Core as [W' [SI' [N E]]].
    split; [unfold pinv; simpl; repeat split; auto|]. intros e. unfold inflight_proc. simpl. apply E.
Qed.

Lemma get_proc_after w w' pi i p q :
  procs_of w' = procs_of w -> get_proc w pi i = Some (p, q) -> exists p', get_proc w' pi i = Some (p', q).
Proof.
  unfold get_proc, procs_of. intros E.
  destruct (nth_error (w_pools w) pi) as [p0|] eqn:N; [|discriminate].
  destruct (nth_error (pl_procs p0) i) as [q0|] eqn:Ni; [|discriminate]. intros H. inversion H; subst.
  assert (M : nth_error (map pl_procs (w_pools w')) pi = Some (pl_procs p)).
  { rewrite E. apply map_nth_error. exact N. }
  destruct (nth_error (w_pools w') pi) as [p1|] eqn:N1.
  - rewrite (map_nth_error pl_procs _ _ N1) in M. inversion M as [M']. rewrite M', Ni. eauto.
  - apply nth_error_None in N1. assert (nth_error (map pl_procs (w_pools w')) pi = None)
      by (apply nth_error_None; rewrite map_length; exact N1). congruence.
Qed.

Lemma get_proc_set w pi i p q q' :
  get_proc w pi i = Some (p, q) -> exists p', get_proc (set_proc w pi i q') pi i = Some (p', q').
Proof.
  unfold get_proc, set_proc. destruct (nth_error (w_pools w) pi) as [p0|] eqn:N; [|discriminate].
  destruct (nth_error (pl_procs p0) i) as [q0|] eqn:Ni; [|discriminate]. intros _.
  unfold upd_pool. simpl. rewrite (upd_same _ _ _ _ N). simpl. rewrite (upd_same _ _ _ _ Ni). eauto.
Qed.

(* replacing a listener record: `held` changes by the change of its slot *)
Lemma set_proc_step w pi0 i p q q' :
  good w -> get_proc w pi0 i = Some (p, q) -> pinv q' ->
  good (set_proc w pi0 i q') /\
  forall pi e, (held pi e (set_proc w pi0 i q') + ind (Nat.eqb pi0 pi) * inflight_proc e q =
                held pi e w + ind (Nat.eqb pi0 pi) * inflight_proc e q')%nat.
Proof.
  intros G GP Iq. split; [eapply good_set_proc; eassumption|].
  intros pi e. destruct (Nat.eqb pi0 pi) eqn:Q.
  - apply Nat.eqb_eq in Q. subst pi. pose proof (held_set_proc_same w pi0 i p q q' e GP). unfold ind. lia.
  - rewrite held_set_proc_other by (apply Nat.eqb_neq in Q; congruence). unfold ind. lia.
Qed.

Lemma balanced_nil pi e w w' : held pi e w' = held pi e w -> balanced pi e w [] w'.
Proof. intros E. unfold balanced, n_offered, n_acked, n_discard, n_eff. simpl. lia. Qed.

Lemma balanced_inapp pi e w : balanced pi e w [EInapplicable] w.
Proof. unfold balanced, n_offered, n_acked, n_discard, n_eff. simpl. lia. Qed.

Lemma route_outs_procs pi0 i : forall ol w1, procs_of (fst (route_outs w1 pi0 i ol)) = procs_of w1.
Proof.
  induction ol as [|x r IH]; intros w1; simpl; [reflexivity|].
  assert (Q : procs_of (fst (match x with
               | ORejected e => let '(w', o') := notify w1 (NRejected pi0 i e) in (w', ERejected pi0 i e :: o')
               | OProcessed (Some e) => (w1, [EAcked pi0 i e])
               | OCrash => (w1, [ERaise])
               | _ => (w1, [])
               end)) = procs_of w1).
  { destruct x as [n|a|a|]; try reflexivity.
    - pose proof (notify_procs w1 (NRejected pi0 i a)) as Q. destruct (notify w1 (NRejected pi0 i a)). exact Q.
    - destruct a; reflexivity. }
  destruct (match x with
            | ORejected e => let '(w', o') := notify w1 (NRejected pi0 i e) in (w', ERejected pi0 i e :: o')
            | OProcessed (Some e) => (w1, [EAcked pi0 i e])
            | OCrash => (w1, [ERaise])
            | _ => (w1, [])
            end) as [w2 o2]. simpl in Q.
  specialize (IH w2). destruct (route_outs w2 pi0 i r) as [w3 o3]. simpl in *. congruence.
Qed.

(* a listener's stdout is read and its answers are routed *)
Lemma feed_step_balance w pi0 i p q data :
  good w -> get_proc w pi0 i = Some (p, q) ->
  let '(l', ol) := read_event h maxdig (p_l q) data in
  let '(w', o) := route_outs (set_proc w pi0 i (set_l q l')) pi0 i ol in
  raised o = false -> good w' /\ forall pi e, balanced pi e w o w'.
Proof.
  intros G GP. pose proof (get_proc_pinv w pi0 i p q G GP) as Iq.
  pose proof (read_event_inflight q data Iq) as RI.
  destruct (read_event h maxdig (p_l q) data) as [l' ol]. destruct RI as [Iq' E].
  destruct (set_proc_step w pi0 i p q (set_l q l') G GP Iq') as [G1 H1].
  set (w1 := set_proc w pi0 i (set_l q l')) in *.
  assert (Lt : (pi0 < length (w_pools w1))%nat).
  { unfold w1. rewrite (prims_length _ _ (set_proc_prims w pi0 i (set_l q l'))). eapply get_proc_lt. exact GP. }
  pose proof (route_outs_prims pi0 i ol w1) as P. pose proof (fun pi e => route_outs_balance pi0 i pi e ol w1 (proj1 G1) Lt) as RB.
  pose proof (route_outs_procs pi0 i ol w1) as PR.
  destruct (route_outs w1 pi0 i ol) as [w' o]. simpl in P, PR.
  intros R. split; [eapply good_procs_eq; eassumption|].
  intros pi e. destruct (RB pi e R) as [B1 B2]. specialize (H1 pi e). specialize (E e).
  unfold balanced. unfold ind in *. destruct (Nat.eqb pi0 pi); lia.
Qed.

Lemma emit_get_proc w f t pi i p q :
  get_proc w pi i = Some (p, q) -> exists p', get_proc (fst (emit w f t)) pi i = Some (p', q).
Proof. intros GP. eapply get_proc_after; [apply emit_procs | exact GP]. Qed.

Lemma raised_single_inapp : raised [EInapplicable] = false. Proof. reflexivity. Qed.

(* replace a listener by one with the same event slot *)
Lemma same_slot_step w pi0 i p q q' :
  good w -> get_proc w pi0 i = Some (p, q) -> pinv q' -> l_event (p_l q') = l_event (p_l q) ->
  good (set_proc w pi0 i q') /\ forall pi e, held pi e (set_proc w pi0 i q') = held pi e w.
Proof.
  intros G GP Iq E. destruct (set_proc_step w pi0 i p q q' G GP Iq) as [G1 H1]. split; [exact G1|].
  intros pi e. specialize (H1 pi e). unfold inflight_proc in H1. rewrite E in H1. lia.
Qed.

Lemma wstep_noloss w op :
  good w ->
  let '(w', o) := wstep h maxdig w op in
  raised o = false -> good w' /\ forall pi e, balanced pi e w o w'.
Proof.
  intros G.
  assert (Inapp : raised [EInapplicable] = false -> good w /\ forall pi e, balanced pi e w [EInapplicable] w).
  { intros _. split; [exact G | intros; apply balanced_inapp]. }
  destruct op as [f t|pi0 i data|pi0 i wr|pi0 i pid e1|pi0 i e1|pi0 i e1|pi0 i last wr e1 e2|pi0 i e1 e2|pi0 wss|pi0 wss]; unfold wstep.
  - (* WEmit *) apply emit_balance. exact G.
  - (* WFeed *)
    destruct (get_proc w pi0 i) as [[p q]|] eqn:GP; [|exact Inapp].
    destruct (l_closed (p_l q)); [exact Inapp|].
    pose proof (feed_step_balance w pi0 i p q data G GP) as FB.
    destruct (read_event h maxdig (p_l q) data) as [l' ol]. exact FB.
  - (* WWritable *)
    destruct (get_proc w pi0 i) as [[p q]|] eqn:GP; [|exact Inapp].
    pose proof (get_proc_pinv w pi0 i p q G GP) as Iq.
    pose proof (proc_step_inv h maxdig i q (PWritable wr) Iq) as PI. unfold Proc.proc_step in PI.
    pose proof (write_event_l q wr) as [L _].
    destruct (write_event q wr) as [q' r]. simpl in L.
    destruct r; try (simpl; discriminate);
      destruct PI as [Iq' _];
      destruct (same_slot_step w pi0 i p q q' G GP Iq' ltac:(rewrite L; reflexivity)) as [G1 H1];
      intros _; (split; [exact G1 | intros pi e; apply balanced_nil; apply H1]).
  - (* WSpawn *)
    destruct (get_proc w pi0 i) as [[p q]|] eqn:GP; [|exact Inapp].
    pose proof (get_proc_pinv w pi0 i p q G GP) as Iq.
    pose proof (proc_step_inv h maxdig i q (PSpawn pid) Iq) as PI. unfold Proc.proc_step in *.
    destruct ((p_pid q =? 0) && negb (pid =? 0) &&
              match p_state q with PS_EXITED | PS_FATAL | PS_BACKOFF | PS_STOPPED => true | _ => false end) eqn:Gd;
      [|exact Inapp].
    destruct PI as [Iq' _].
    pose proof (emit_balance w e1 T_ProcessStateStartingEvent G) as EB.
    destruct (emit_get_proc w e1 T_ProcessStateStartingEvent pi0 i p q GP) as [p1 GP1].
    destruct (emit w e1 T_ProcessStateStartingEvent) as [w1 o1]. simpl in GP1.
    intros R. destruct (EB R) as [G1 B1].
    assert (Ev : l_event (p_l (mkP PS_STARTING pid false fresh_listener true [] false [] false [])) = l_event (p_l q)).
    { destruct Iq as [_ [_ [PZ _]]]. rewrite PZ by lia. reflexivity. }
    destruct (same_slot_step w1 pi0 i p1 q _ G1 GP1 Iq' Ev) as [G2 H2].
    split; [exact G2|]. intros pi e. specialize (B1 pi e). unfold balanced in *. rewrite H2. exact B1.
  - (* WRunning *)
    destruct (get_proc w pi0 i) as [[p q]|] eqn:GP; [|exact Inapp].
    pose proof (get_proc_pinv w pi0 i p q G GP) as Iq.
    pose proof (proc_step_inv h maxdig i q PRunning Iq) as PI. unfold Proc.proc_step in *.
    destruct (pstate_eqb (p_state q) PS_STARTING && negb (p_pid q =? 0)); [|exact Inapp].
    destruct PI as [Iq' _].
    destruct (same_slot_step w pi0 i p q _ G GP Iq' eq_refl) as [G1 H1].
    match goal with |- context [emit ?ww ?ee ?tt] => pose proof (emit_balance ww ee tt G1) as EB; destruct (emit ww ee tt) as [w2 o2] end.
    intros R. destruct (EB R) as [G2 B2]. split; [exact G2|].
    intros pi e. specialize (B2 pi e). unfold balanced in *. rewrite H1 in B2. exact B2.
  - (* WStop *)
    destruct (get_proc w pi0 i) as [[p q]|] eqn:GP; [|exact Inapp].
    pose proof (get_proc_pinv w pi0 i p q G GP) as Iq.
    pose proof (proc_step_inv h maxdig i q PStop Iq) as PI. unfold Proc.proc_step in *.
    destruct (negb (p_pid q =? 0) && match p_state q with PS_RUNNING | PS_STARTING => true | _ => false end); [|exact Inapp].
    destruct PI as [Iq' _].
    destruct (same_slot_step w pi0 i p q _ G GP Iq' eq_refl) as [G1 H1].
    match goal with |- context [emit ?ww ?ee ?tt] => pose proof (emit_balance ww ee tt G1) as EB; destruct (emit ww ee tt) as [w2 o2] end.
    intros R. destruct (EB R) as [G2 B2]. split; [exact G2|].
    intros pi e. specialize (B2 pi e). unfold balanced in *. rewrite H1 in B2. exact B2.
  - (* WFinish *)
    destruct (get_proc w pi0 i) as [[p q]|] eqn:GP; [|exact Inapp].
    pose proof (get_proc_pinv w pi0 i p q G GP) as Iq.
    match goal with |- context [if negb ?g then _ else _] => destruct g eqn:Gd end; simpl negb; cbv iota; [|exact Inapp].
    (* drain: stdout *)
    assert (Drain : let '(l1, o1) := if l_closed (p_l q) then (p_l q, []) else read_event h maxdig (p_l q) last in
                    let '(w1, f1) := route_outs (set_proc w pi0 i (set_l q l1)) pi0 i o1 in
                    raised f1 = false ->
                    good w1 /\ (forall pi e, balanced pi e w f1 w1) /\ pinv (set_l q l1) /\
                    exists p1, get_proc w1 pi0 i = Some (p1, set_l q l1)).
    { destruct (l_closed (p_l q)).
      - simpl. intros _.
        assert (Iq1 : pinv (set_l q (p_l q))) by (destruct Iq as [A [B [C D]]]; repeat split; assumption).
        destruct (same_slot_step w pi0 i p q (set_l q (p_l q)) G GP Iq1 eq_refl) as [G1 H1].
        split; [exact G1|]. split; [intros pi e; apply balanced_nil; apply H1|]. split; [exact Iq1|].
        eapply get_proc_set. exact GP.
      - pose proof (feed_step_balance w pi0 i p q last G GP) as FB.
        pose proof (read_event_inflight q last Iq) as RI.
        destruct (read_event h maxdig (p_l q) last) as [l1 o1]. destruct RI as [Iq1 _].
        pose proof (route_outs_procs pi0 i o1 (set_proc w pi0 i (set_l q l1))) as PR.
        destruct (route_outs (set_proc w pi0 i (set_l q l1)) pi0 i o1) as [w1 f1]. simpl in PR.
        intros R. destruct (FB R) as [G1 B1]. split; [exact G1|]. split; [exact B1|]. split; [exact Iq1|].
        destruct (get_proc_set w pi0 i p q (set_l q l1) GP) as [pa GPa].
        eapply get_proc_after; [exact PR | exact GPa]. }
    destruct (if l_closed (p_l q) then (p_l q, []) else read_event h maxdig (p_l q) last) as [l1 o1].
    destruct (route_outs (set_proc w pi0 i (set_l q l1)) pi0 i o1) as [w1 f1].
    (* drain: stdin *)
    pose proof (proc_step_inv h maxdig i (set_l q l1) (PWritable wr)) as PI. unfold Proc.proc_step in PI.
    pose proof (write_event_l (set_l q l1) wr) as [L2 P2].
    destruct (write_event (set_l q l1) wr) as [q2 r]. simpl in L2, P2.
    assert (Rest : True ->
      let w2 := set_proc w1 pi0 i q2 in
      let '(w3, f3) := finish_emits w2 (p_state q) (p_killing q) e1 e2 in
      let q3 := mkP (finish_state (p_state q) (p_killing q)) 0 false
                    (mkL (l_state (p_l q2)) [] None [] None true) false [] true
                    (p_accepted q2) (p_broken q2) (p_envs q2) in
      let w4 := set_proc w3 pi0 i q3 in
      let '(w5, f5) := match l_event (p_l q2) with
                       | Some e => let '(w5, f5) := notify w4 (NRejected pi0 i (Some e)) in
                                   (w5, f1 ++ f3 ++ ERejected pi0 i (Some e) :: f5)
                       | None => (w4, f1 ++ f3)
                       end in
      raised f5 = false -> good w5 /\ forall pi e, balanced pi e w f5 w5).
    { intros NE.
      assert (Hf1 : forall X, raised (f1 ++ X) = false -> raised f1 = false)
        by (intros X HX; rewrite raised_app in HX; apply orb_false_iff in HX; tauto).
      cbv zeta.
      (* everything after the drain, given the drain facts *)
      assert (After : raised f1 = false ->
        let w2 := set_proc w1 pi0 i q2 in
        good w2 /\ (forall pi e, balanced pi e w f1 w2) /\ pinv q2 /\ exists p2, get_proc w2 pi0 i = Some (p2, q2)).
      { intros R1. destruct (Drain R1) as [G1 [B1 [Iq1 [p1 GP1]]]].
        assert (Iq2 : pinv q2) by (destruct r; exact (proj1 (PI Iq1))).
        destruct (same_slot_step w1 pi0 i p1 (set_l q l1) q2 G1 GP1 Iq2 ltac:(rewrite L2; reflexivity)) as [G2 H2].
        split; [exact G2|]. split.
        - intros pi e. specialize (B1 pi e). unfold balanced in *. rewrite H2. exact B1.
        - split; [exact Iq2 | eapply get_proc_set; exact GP1]. }
      set (w2 := set_proc w1 pi0 i q2) in *.
      (* the state-change notifications *)
      assert (Emits : forall (ww : world), good ww -> (exists pp, get_proc ww pi0 i = Some (pp, q2)) ->
        let '(w3, f3) := finish_emits ww (p_state q) (p_killing q) e1 e2 in
        raised f3 = false -> good w3 /\ (forall pi e, balanced pi e ww f3 w3) /\ exists p3, get_proc w3 pi0 i = Some (p3, q2)).
      { intros ww Gw [pp GPw].
        assert (One : forall ee tt, let '(w3, f3) := emit ww ee tt in
                  raised f3 = false -> good w3 /\ (forall pi e, balanced pi e ww f3 w3) /\ exists p3, get_proc w3 pi0 i = Some (p3, q2)).
        { intros ee tt. pose proof (emit_balance ww ee tt Gw) as EB.
          destruct (emit_get_proc ww ee tt pi0 i pp q2 GPw) as [p3 GP3].
          destruct (emit ww ee tt) as [w3 f3]. simpl in GP3. intros R. destruct (EB R). eauto. }
        unfold finish_emits. destruct (pstate_eqb (p_state q) PS_UNKNOWN).
        { intros _. split; [exact Gw|]. split; [intros; apply balanced_refl | eauto]. }
        destruct (p_killing q); [apply One|].
        destruct (pstate_eqb (p_state q) PS_STARTING); [|apply One].
        unfold seq. specialize (One e1 T_ProcessStateRunningEvent).
        destruct (emit ww e1 T_ProcessStateRunningEvent) as [wa fa].
        pose proof (fun Ga => emit_balance wa e2 T_ProcessStateExitedEvent Ga) as EB2.
        pose proof (fun pa GPa => emit_get_proc wa e2 T_ProcessStateExitedEvent pi0 i pa q2 GPa) as EG2.
        destruct (emit wa e2 T_ProcessStateExitedEvent) as [wb fb]. simpl in EG2.
        rewrite raised_app. intros R. apply orb_false_iff in R. destruct R as [Ra Rb].
        destruct (One Ra) as [Ga [Ba [pa GPa]]]. destruct (EB2 Ga Rb) as [Gb Bb].
        split; [exact Gb|]. split; [intros pi e; eapply balanced_trans; [apply Ba | apply Bb]|].
        eapply EG2. exact GPa. }
      specialize (Emits w2).
      destruct (finish_emits w2 (p_state q) (p_killing q) e1 e2) as [w3 f3].
      set (q3 := mkP (finish_state (p_state q) (p_killing q)) 0 false
                     (mkL (l_state (p_l q2)) [] None [] None true) false [] true
                     (p_accepted q2) (p_broken q2) (p_envs q2)).
      (* common tail: the listener record is replaced by the dead one *)
      assert (Dead : raised f1 = false -> raised f3 = false ->
                good (set_proc w3 pi0 i q3) /\
                (forall pi e, (n_offered pi e (f1 ++ f3) + held pi e w =
                               held pi e (set_proc w3 pi0 i q3) + ind (Nat.eqb pi0 pi) * inflight_proc e q2 +
                               n_acked pi e (f1 ++ f3) + n_discard pi e (f1 ++ f3))%nat) /\
                (pi0 < length (w_pools (set_proc w3 pi0 i q3)))%nat).
      { intros R1 R3. destruct (After R1) as [G2 [B2 [Iq2 GP2]]].
        destruct (Emits G2 GP2 R3) as [G3 [B3 [p3 GP3]]].
        assert (Iq3 : pinv q3).
        { destruct Iq2 as [_ [_ [_ C2]]]. unfold pinv, q3, contig, wf, slot_inv in *; simpl. repeat split; auto.
          destruct (p_iclosed q2); [exact C2 | exists (p_ibuf q2); exact C2]. }
        destruct (set_proc_step w3 pi0 i p3 q2 q3 G3 GP3 Iq3) as [G4 H4].
        split; [exact G4|]. split.
        - intros pi e. specialize (B2 pi e). specialize (B3 pi e). specialize (H4 pi e).
          unfold balanced, n_offered, n_acked, n_discard in *. rewrite !n_eff_app.
          assert (Z3 : inflight_proc e q3 = 0%nat) by reflexivity. rewrite Z3 in H4. lia.
        - rewrite (prims_length _ _ (set_proc_prims w3 pi0 i q3)). eapply get_proc_lt. exact GP3. }
      destruct (l_event (p_l q2)) as [ev|] eqn:Ev.
      + pose proof (fun CB Lt pi e => notify_rejected_balance (set_proc w3 pi0 i q3) pi0 i ev pi e CB Lt) as NB.
        pose proof (notify_prims (set_proc w3 pi0 i q3) (NRejected pi0 i (Some ev))) as NP.
        pose proof (notify_procs (set_proc w3 pi0 i q3) (NRejected pi0 i (Some ev))) as NPr.
        destruct (notify (set_proc w3 pi0 i q3) (NRejected pi0 i (Some ev))) as [w5 f5]. simpl in NP, NPr.
        rewrite !raised_app. simpl. intros R.
        apply orb_false_iff in R. destruct R as [R1 R]. apply orb_false_iff in R. destruct R as [R3 R5].
        destruct (Dead R1 R3) as [G4 [E4 Lt4]].
        split; [eapply good_procs_eq; eassumption|].
        intros pi e. destruct (NB (proj1 G4) Lt4 pi e R5) as [N1 [N2 N3]]. specialize (E4 pi e).
        unfold balanced, n_offered, n_acked, n_discard in *. rewrite !n_eff_app, !n_eff_cons in *. simpl.
        rewrite ?n_eff_app in E4.
        unfold inflight_proc in E4. rewrite Ev in E4. unfold ind in *.
        destruct (Nat.eqb pi0 pi); destruct (ev =? e); simpl in *; lia.
      + rewrite raised_app. intros R. apply orb_false_iff in R. destruct R as [R1 R3].
        destruct (Dead R1 R3) as [G4 [E4 _]]. split; [exact G4|].
        intros pi e. specialize (E4 pi e). unfold inflight_proc in E4. rewrite Ev in E4.
        unfold balanced. lia. }
    destruct r.
    + pose proof (Rest I) as RR. cbv zeta in RR.
      match goal with |- context [finish_emits ?a ?b ?c ?d ?e] =>
        destruct (finish_emits a b c d e) as [w3 f3] end.
      destruct (l_event (p_l q2)) as [ev|];
        [match goal with |- context [notify ?ww ?nn] => destruct (notify ww nn) as [w5 f5] end; exact RR | exact RR].
    + pose proof (Rest I) as RR. cbv zeta in RR.
      match goal with |- context [finish_emits ?a ?b ?c ?d ?e] =>
        destruct (finish_emits a b c d e) as [w3 f3] end.
      destruct (l_event (p_l q2)) as [ev|];
        [match goal with |- context [notify ?ww ?nn] => destruct (notify ww nn) as [w5 f5] end; exact RR | exact RR].
    + pose proof (Rest I) as RR. cbv zeta in RR.
      match goal with |- context [finish_emits ?a ?b ?c ?d ?e] =>
        destruct (finish_emits a b c d e) as [w3 f3] end.
      destruct (l_event (p_l q2)) as [ev|];
        [match goal with |- context [notify ?ww ?nn] => destruct (notify ww nn) as [w5 f5] end; exact RR | exact RR].
  - (* WStopFail *)
    destruct (get_proc w pi0 i) as [[p q]|] eqn:GP; [|exact Inapp].
    pose proof (get_proc_pinv w pi0 i p q G GP) as Iq.
    pose proof (proc_step_inv h maxdig i q PStopFail Iq) as PI. unfold Proc.proc_step in *.
    destruct (negb (p_pid q =? 0) && match p_state q with PS_RUNNING | PS_STARTING => true | _ => false end); [|exact Inapp].
    destruct PI as [Iq' _].
    destruct (same_slot_step w pi0 i p q _ G GP Iq' eq_refl) as [G1 H1].
    unfold seq.
    match goal with |- context [emit ?ww ?ee ?tt] => pose proof (emit_balance ww ee tt G1) as EB; destruct (emit ww ee tt) as [w2 o2] end.
    pose proof (fun G2 => emit_balance w2 e2 T_ProcessStateUnknownEvent G2) as EB2.
    destruct (emit w2 e2 T_ProcessStateUnknownEvent) as [w3 o3].
    rewrite raised_app. intros R. apply orb_false_iff in R. destruct R as [R2 R3].
    destruct (EB R2) as [G2 B2]. destruct (EB2 G2 R3) as [G3 B3]. split; [exact G3|].
    intros pi e. specialize (B2 pi e). specialize (B3 pi e). unfold balanced in *.
    unfold n_offered, n_acked, n_discard in *. rewrite !n_eff_app. rewrite H1 in B2. lia.
  - (* WDispatch *)
    unfold dispatch. destruct (nth_error (w_pools w) pi0) as [p|]; [|exact Inapp].
    apply dispatch_loop_balance. exact G.
  - (* WTransition *)
    destruct (nth_error (w_pools w) pi0) as [p|] eqn:N; [|exact Inapp].
    destruct (dispatch_capable p).
    + unfold dispatch. rewrite N. apply dispatch_loop_balance. exact G.
    + intros _. split; [exact G | intros; apply balanced_refl].
Qed.

(* no loss, over whole histories *)
Theorem wrun_noloss : forall ops w,
  good w ->
  let '(w', o) := wrun h maxdig w ops in
  raised o = false -> good w' /\ forall pi e, balanced pi e w o w'.
Proof.
  induction ops as [|op r IH]; intros w G; simpl.
  - intros _. split; [exact G | intros; apply balanced_refl].
  - pose proof (wstep_noloss w op G) as S1. destruct (wstep h maxdig w op) as [w1 o1].
    pose proof (fun G1 => IH w1 G1) as S2. destruct (wrun h maxdig w1 r) as [w2 o2].
    rewrite raised_app. intros R. apply orb_false_iff in R. destruct R as [R1 R2].
    destruct (S1 R1) as [G1 B1]. destruct (S2 G1 R2) as [G2 B2].
    split; [exact G2 | intros pi e; eapply balanced_trans; [apply B1 | apply B2]].
Qed.

End NoLoss.

Lemma good_new cfgs maxint gs :
  good (new_world (map pool_of_cfg cfgs) maxint gs).
Proof.
  split; [reflexivity|]. unfold procs_of, new_world. simpl. rewrite map_map.
  apply Forall_forall. intros l Hl. apply in_map_iff in Hl. destruct Hl as [[[[subs bs] n] ser] [E _]].
  subst l. simpl. apply Forall_forall. intros q Hq. apply repeat_spec in Hq. subst q. apply pinv_proc0.
Qed.

Lemma held_new cfgs maxint gs pi e : held pi e (new_world (map pool_of_cfg cfgs) maxint gs) = 0%nat.
Proof.
  unfold held, new_world. simpl. destruct (nth_error (map pool_of_cfg cfgs) pi) as [p|] eqn:N; [|reflexivity].
  apply nth_error_In in N. apply in_map_iff in N. destruct N as [[[[subs bs] n] ser] [E _]]. subst p.
  unfold held_pool. simpl. unfold inflight_procs. induction n as [|n IH]; simpl; [reflexivity | exact IH].
Qed.

(* From freshly constructed pools, over any history in which no exception
   escaped: what pool pi accepted of event e is exactly what it still buffers,
   what is in flight at one of its listeners, what was acknowledged OK and what
   overflow discarded. *)
Theorem no_loss_always (h : handler) (maxdig : Z) cfgs maxint gs ops pi e :
  let '(w', o) := wrun h maxdig (new_world (map pool_of_cfg cfgs) maxint gs) ops in
  raised o = false ->
  n_offered pi e o = (held pi e w' + n_acked pi e o + n_discard pi e o)%nat.
Proof.
  pose proof (wrun_noloss h maxdig ops _ (good_new cfgs maxint gs)) as N.
  destruct (wrun h maxdig (new_world (map pool_of_cfg cfgs) maxint gs) ops) as [w' o].
  intros R. destruct (N R) as [_ B]. specialize (B pi e). unfold balanced in B.
  rewrite held_new in B. lia.
Qed.

(* ---- examples: the statements above apply to non-trivial histories *)
Definition ex_cfgs : list pcfg :=
  [([T_ProcessStateEvent; T_ProcessStateRunningEvent], 2, 1%nat, -1); ([T_Event], 1, 1%nat, -1)].
Definition ex_ops : list wop :=
  [WSpawn 0 0 101 1; WRunning 0 0 2; WFeed 0 0 [82; 69; 65; 68; 89; 10];
   WEmit 3 T_Tick5Event; WEmit 4 T_ProcessStateRunningEvent; WTransition 0 [];
   WFeed 0 0 [82; 69; 83; 85; 76; 84; 32; 52; 10; 70; 65; 73; 76]; WEmit 5 T_Tick60Event].

Example ex_history_effects :
  snd (wrun default_handler 4300 (new_world (map pool_of_cfg ex_cfgs) 100 (-1)) ex_ops) =
  [EOffered 0 1; EOffered 1 1; EOffered 0 2; EOffered 1 2; EDiscard 1 1;
   EOffered 1 3; EDiscard 1 2; EOffered 0 4; EDiscard 0 1; EOffered 1 4; EDiscard 1 3;
   ESent 0 0 2 1 1 T_ProcessStateRunningEvent; ERebuffered 0 4;
   ERejected 0 0 (Some 2); ERebuffered 0 2; EOffered 1 5; EDiscard 1 4].
Proof. vm_compute. reflexivity. Qed.

Example ex_routing_type_and_supertype :
  offered_count 0 9 (snd (emit (new_world (map pool_of_cfg ex_cfgs) 100 (-1)) 9 T_ProcessStateRunningEvent)) = 1%nat /\
  offered_count 0 9 (snd (emit (new_world (map pool_of_cfg ex_cfgs) 100 (-1)) 9 T_Tick5Event)) = 0%nat.
Proof. split; vm_compute; reflexivity. Qed.

Example ex_serial_wrap : new_serial 100 100 = 0 /\ new_serial 100 7 = 8.
Proof. split; reflexivity. Qed.

Theorem dispatch_sends_queue_prefix w pi wss p :
  nth_error (w_pools w) pi = Some p -> pool_bound p ->
  let '(w', o) := dispatch w pi wss in
  raised o = false ->
  exists p', nth_error (w_pools w') pi = Some p' /\ pl_buffer p = sent_of o ++ pl_buffer p'.
Proof.
  intros N B. unfold dispatch. rewrite N. apply dispatch_fifo; [exact N | exact B | lia].
Qed.

(* =============================================== pool serials over histories *)
Definition pserials (pi : nat) (tbl : list evinfo) : list Z :=
  flat_map (fun x => match ps_lookup (ei_pserials x) pi with Some s => [s] | None => [] end) tbl.

(* While pool pi has numbered at most maxint+1 events (counting from a fresh
   pool), the numbers it handed out are exactly 0 .. n-1, all different, and its
   counter is n-1: so the next first-time acceptance gets n
   (c09_poolserial_monotone_partial), i.e. poolserials increase in acceptance order. *)
Definition pserial_inv (pi : nat) (w : world) : Prop :=
  NoDup (map ei_id (w_events w)) /\
  match nth_error (w_pools w) pi with
  | None => True
  | Some p =>
    Z.of_nat (length (pserials pi (w_events w))) <= w_maxint w + 1 ->
    pl_serial p = Z.of_nat (length (pserials pi (w_events w))) - 1 /\
    NoDup (pserials pi (w_events w)) /\
    forall s, In s (pserials pi (w_events w)) -> 0 <= s <= pl_serial p
  end.

Lemma pserials_app pi a b : pserials pi (a ++ b) = pserials pi a ++ pserials pi b.
Proof. unfold pserials. apply flat_map_app. Qed.

Lemma ps_lookup_snoc_same l pi s : ps_lookup l pi = None -> ps_lookup (l ++ [(pi, s)]) pi = Some s.
Proof.
  induction l as [|[k v] l IH]; simpl; [rewrite Nat.eqb_refl; reflexivity|].
  destruct (Nat.eqb k pi); [discriminate | exact IH].
Qed.
Lemma ps_lookup_snoc_other l q pi s : q <> pi -> ps_lookup (l ++ [(q, s)]) pi = ps_lookup l pi.
Proof.
  intros NE. induction l as [|[k v] l IH]; simpl.
  - destruct (Nat.eqb q pi) eqn:E; [apply Nat.eqb_eq in E; contradiction | reflexivity].
  - destruct (Nat.eqb k pi); [reflexivity | exact IH].
Qed.

Lemma ev_update_pserials_same pi tbl x x' :
  ev_lookup tbl (ei_id x') = Some x -> ps_lookup (ei_pserials x') pi = ps_lookup (ei_pserials x) pi ->
  pserials pi (ev_update tbl x') = pserials pi tbl.
Proof.
  induction tbl as [|y tbl IH]; simpl; [discriminate|].
  destruct (ei_id y =? ei_id x') eqn:E; intros L S.
  - inversion L; subst. unfold pserials. simpl. rewrite S. reflexivity.
  - unfold pserials in *. simpl. rewrite (IH L S). reflexivity.
Qed.

Lemma ev_update_pserials_new pi tbl x x' s :
  ev_lookup tbl (ei_id x') = Some x -> ps_lookup (ei_pserials x) pi = None ->
  ps_lookup (ei_pserials x') pi = Some s ->
  exists a b, pserials pi tbl = a ++ b /\ pserials pi (ev_update tbl x') = a ++ s :: b.
Proof.
  induction tbl as [|y tbl IH]; simpl; [discriminate|].
  destruct (ei_id y =? ei_id x') eqn:E; intros L S S'.
  - inversion L; subst. exists [], (pserials pi tbl). unfold pserials. simpl. rewrite S, S'. split; reflexivity.
  - destruct (IH L S S') as [a [b [A B]]].
    exists ((match ps_lookup (ei_pserials y) pi with Some s0 => [s0] | None => [] end) ++ a), b.
    unfold pserials in *. simpl. rewrite A, B, <- !app_assoc. split; reflexivity.
Qed.

Lemma prim_pserial_inv pi w w' : prim w w' -> pserial_inv pi w -> pserial_inv pi w'.
Proof.
  intros P [ND I]. destruct P as [w q e head|w q p procs' N|w q p e rest N B|w e t FR].
  - (* _acceptEvent of pool q *)
    unfold accept_event. destruct (nth_error (w_pools w) q) as [p|] eqn:N; [|split; assumption].
    destruct (ev_lookup (w_events w) e) as [x|] eqn:L; [|split; assumption].
    destruct (ev_lookup_In _ _ _ L) as [_ Idx].
    assert (Shape : forall gs ser buf',
      match ps_lookup (ei_pserials x) q with
      | Some _ => pserial_inv pi (mkW (upd (w_pools w) q (mkPool (pl_subs p) (pl_bufsize p) buf' (pl_serial p) (pl_procs p)))
                                      (w_callbacks w) gs
                                      (ev_update (w_events w) (mkEI (ei_id x) (ei_type x) (Some ser) (ei_pserials x))) (w_maxint w))
      | None => pserial_inv pi (mkW (upd (w_pools w) q (mkPool (pl_subs p) (pl_bufsize p) buf'
                                                              (new_serial (w_maxint w) (pl_serial p)) (pl_procs p)))
                                    (w_callbacks w) gs
                                    (ev_update (w_events w) (mkEI (ei_id x) (ei_type x) (Some ser)
                                       (ei_pserials x ++ [(q, new_serial (w_maxint w) (pl_serial p))]))) (w_maxint w))
      end).
    { intros gs ser buf'. destruct (ps_lookup (ei_pserials x) q) as [s0|] eqn:PS.
      - (* already numbered by q: nothing changes for any pool *)
        unfold pserial_inv; simpl. rewrite ev_update_ids. split; [exact ND|].
        rewrite (ev_update_pserials_same pi (w_events w) x _) by (first [simpl; rewrite Idx; exact L | reflexivity]).
        destruct (Nat.eq_dec q pi) as [->|NE].
        + rewrite (upd_same _ _ _ _ N). rewrite N in I. simpl. exact I.
        + rewrite upd_other by exact NE. exact I.
      - destruct (Nat.eq_dec q pi) as [->|NE].
        + (* pool pi numbers the event *)
          set (s := new_serial (w_maxint w) (pl_serial p)).
          destruct (ev_update_pserials_new pi (w_events w) x
                      (mkEI (ei_id x) (ei_type x) (Some ser) (ei_pserials x ++ [(pi, s)])) s) as [a [b [A B']]];
            [simpl; rewrite Idx; exact L | exact PS | simpl; apply ps_lookup_snoc_same; exact PS|].
          unfold pserial_inv; simpl. rewrite ev_update_ids. split; [exact ND|].
          rewrite (upd_same _ _ _ _ N). simpl. rewrite B'. rewrite N in I. intros Len.
          rewrite app_length in Len. simpl in Len.
          assert (Len0 : Z.of_nat (length (pserials pi (w_events w))) <= w_maxint w + 1) by (rewrite A, app_length; lia).
          destruct (I Len0) as [G1 [G2 G3]]. rewrite A in G1, G2, G3. rewrite app_length in G1.
          assert (Hs : s = pl_serial p + 1) by (apply new_serial_next; lia).
          split; [rewrite app_length; simpl; lia|]. split.
          * apply (NoDup_Add (Add_app s a b)). split; [exact G2|]. intros K. specialize (G3 s K). lia.
          * intros s0 K. apply in_app_or in K. destruct K as [K|[K|K]].
            -- specialize (G3 s0 (in_or_app _ _ _ (or_introl K))). lia.
            -- subst s0. lia.
            -- specialize (G3 s0 (in_or_app _ _ _ (or_intror K))). lia.
        + (* another pool numbers it *)
          unfold pserial_inv; simpl. rewrite ev_update_ids. split; [exact ND|].
          rewrite (ev_update_pserials_same pi (w_events w) x _)
            by (first [simpl; rewrite Idx; exact L | simpl; apply ps_lookup_snoc_other; exact NE]).
          rewrite upd_other by exact NE. exact I. }
    destruct (ei_serial x); destruct (ps_lookup (ei_pserials x) q) eqn:PS;
      destruct (pl_bufsize p <=? Z.of_nat (length (pl_buffer p))); destruct (pl_buffer p); simpl;
      match goal with |- pserial_inv pi (mkW (upd _ _ (mkPool _ _ ?bf _ _)) _ ?gs (ev_update _ (mkEI _ _ (Some ?ser) _)) _) =>
        pose proof (Shape gs ser bf) as Sh; try rewrite PS in Sh; exact Sh end.
  - unfold pserial_inv in *. simpl. split; [exact ND|].
    destruct (Nat.eq_dec q pi) as [->|NE].
    + rewrite (upd_same _ _ _ _ N). rewrite N in I. exact I.
    + rewrite upd_other by exact NE. exact I.
  - unfold pserial_inv in *. simpl. split; [exact ND|].
    destruct (Nat.eq_dec q pi) as [->|NE].
    + rewrite (upd_same _ _ _ _ N). rewrite N in I. exact I.
    + rewrite upd_other by exact NE. exact I.
  - unfold pserial_inv in *. simpl. rewrite pserials_app. simpl. rewrite app_nil_r.
    split; [|exact I].
    rewrite map_app. simpl. apply NoDup_snoc; [exact ND|].
    intros K. apply in_map_iff in K. destruct K as [y [Ey Iy]].
    clear -FR Ey Iy. induction (w_events w) as [|z tbl IH]; simpl in *; [contradiction|].
    destruct (ei_id z =? e) eqn:E; [discriminate|].
    destruct Iy as [->|Iy]; [lia | apply IH; assumption].
Qed.

Lemma pserial_inv_new cfgs maxint gs pi :
  Forall (fun c => snd c = -1) cfgs -> pserial_inv pi (new_world (map pool_of_cfg cfgs) maxint gs).
Proof.
  intros F. unfold pserial_inv, new_world; simpl. split; [constructor|].
  destruct (nth_error (map pool_of_cfg cfgs) pi) as [p|] eqn:N; [|exact I].
  intros _. apply nth_error_In in N. apply in_map_iff in N. destruct N as [c [E Ic]].
  rewrite Forall_forall in F. specialize (F c Ic). destruct c as [[[subs bs] n] ser]. simpl in F. subst ser p.
  simpl. split; [reflexivity|]. split; [constructor | intros s []].
Qed.

Theorem poolserial_always (h : handler) (maxdig : Z) cfgs maxint gs ops pi p :
  Forall (fun c => snd c = -1) cfgs ->
  let w := fst (wrun h maxdig (new_world (map pool_of_cfg cfgs) maxint gs) ops) in
  nth_error (w_pools w) pi = Some p ->
  Z.of_nat (length (pserials pi (w_events w))) <= maxint + 1 ->
  pl_serial p = Z.of_nat (length (pserials pi (w_events w))) - 1 /\
  NoDup (pserials pi (w_events w)) /\
  forall s, In s (pserials pi (w_events w)) -> 0 <= s <= pl_serial p.
Proof.
  intros F w N Len.
  assert (SI : pserial_inv pi w).
  { eapply (prims_ind_inv (pserial_inv pi) (prim_pserial_inv pi)); [apply wrun_prims | apply pserial_inv_new; exact F]. }
  assert (M : w_maxint w = maxint) by exact (f_equal snd (static_always h maxdig _ maxint gs ops)).
  destruct SI as [_ I]. rewrite N, M in I. exact (I Len).
Qed.
