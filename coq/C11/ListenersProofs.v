(* C11: within a pool, an event that a listener acknowledged OK is never sent
   again - over every history of emissions, dispatches, OK / FAIL answers,
   protocol violations and listener deaths. *)
From Coq Require Import ZArith List Bool Lia Permutation.
Import ListNotations.
Require Import SV.C11.Base SV.C11.Listeners.
Open Scope Z_scope.

Definition busy_ids (ls : list lstate) : list Z :=
  flat_map (fun st => match st with LBusy ev => [ev] | _ => [] end) ls.

Definition pending (s : lpool) : list Z := l_buf s ++ busy_ids (l_ls s).

Definition is_busy (st : lstate) : bool := match st with LBusy _ => true | _ => false end.

Lemma nth_busy_lt : forall ls i ev, nth i ls LDead = LBusy ev -> (i < length ls)%nat.
Proof.
  induction ls as [|x r IH]; intros i ev H; destruct i; simpl in *; try discriminate; try lia.
  apply IH in H. lia.
Qed.

(* replacing listener i's state: effect on the busy events *)
Lemma busy_set_from_busy : forall ls i ev v, nth i ls LDead = LBusy ev -> is_busy v = false ->
  Permutation (busy_ids ls) (ev :: busy_ids (set_nth ls i v)).
Proof.
  induction ls as [|x r IH]; intros i ev v H Hv; [destruct i; discriminate|].
  destruct i as [|i]; cbn [nth set_nth] in *.
  - subst x. unfold busy_ids. cbn [flat_map]. destruct v; try discriminate; apply Permutation_refl.
  - unfold busy_ids in *. cbn [flat_map]. specialize (IH i ev v H Hv).
    eapply Permutation_trans; [apply Permutation_app_head; exact IH|]. apply Permutation_sym. apply Permutation_middle.
Qed.

Lemma busy_set_to_busy : forall ls i ev, (i < length ls)%nat -> is_busy (nth i ls LDead) = false ->
  Permutation (busy_ids (set_nth ls i (LBusy ev))) (ev :: busy_ids ls).
Proof.
  induction ls as [|x r IH]; intros i ev Hi Hb; [simpl in Hi; lia|].
  destruct i as [|i]; cbn [nth set_nth] in *.
  - unfold busy_ids. cbn [flat_map]. destruct x; try discriminate; apply Permutation_refl.
  - unfold busy_ids in *. cbn [flat_map]. simpl in Hi. specialize (IH i ev ltac:(lia) Hb).
    eapply Permutation_trans; [apply Permutation_app_head; exact IH|]. apply Permutation_sym. apply Permutation_middle.
Qed.

Lemma busy_set_idle : forall ls i v, is_busy (nth i ls LDead) = false -> is_busy v = false ->
  busy_ids (set_nth ls i v) = busy_ids ls.
Proof.
  induction ls as [|x r IH]; intros i v Hb Hv; [destruct i; reflexivity|].
  destruct i as [|i]; cbn [nth set_nth] in *.
  - unfold busy_ids. cbn [flat_map]. destruct x; try discriminate; destruct v; try discriminate; reflexivity.
  - unfold busy_ids in *. cbn [flat_map]. rewrite IH by assumption. reflexivity.
Qed.

Lemma first_ready_spec : forall ls k j, first_ready ls k = Some j ->
  exists i, j = (k + i)%nat /\ nth i ls LDead = LReady /\ (i < length ls)%nat.
Proof.
  induction ls as [|x r IH]; intros k j H; [discriminate|].
  cbn [first_ready] in H.
  destruct x; try (apply IH in H; destruct H as [i (E & N & L)]; exists (S i); simpl; repeat split; try assumption; lia).
  injection H as <-. exists O. simpl. repeat split; lia.
Qed.

(* the invariant *)
Definition Inv (s : lpool) : Prop :=
  once_after_ok (l_log s) = true /\
  NoDup (pending s) /\
  (forall ev, In ev (pending s) -> acked_in ev (l_log s) = false /\ ev < l_next s) /\
  (forall ev, acked_in ev (l_log s) = true -> ev < l_next s).

Lemma inv_perm : forall s s', l_log s' = l_log s -> l_next s' = l_next s ->
  Permutation (pending s) (pending s') -> Inv s -> Inv s'.
Proof.
  intros s s' HL HN HP (A & B & C & D). unfold Inv. rewrite HL, HN. repeat split.
  - assumption.
  - eapply Permutation_NoDup; eassumption.
  - apply C. eapply Permutation_in; [apply Permutation_sym; eassumption | assumption].
  - apply C. eapply Permutation_in; [apply Permutation_sym; eassumption | assumption].
  - assumption.
Qed.

Lemma dispatch_loop_inv : forall fuel s, Inv s -> Inv (dispatch_loop fuel s).
Proof.
  induction fuel as [|f IH]; intros s H; [assumption|].
  cbn [dispatch_loop]. destruct (l_buf s) as [|ev r] eqn:EB; [assumption|].
  destruct (first_ready (l_ls s) 0) as [j|] eqn:EF; [|assumption].
  apply IH. destruct (first_ready_spec _ _ _ EF) as [i (Ej & Hn & Hl)]. simpl in Ej. subst j.
  destruct H as (A & B & C & D).
  assert (P : Permutation (pending s) (r ++ busy_ids (set_nth (l_ls s) i (LBusy ev)))).
  { unfold pending. rewrite EB. cbn [app].
    eapply Permutation_trans; [apply Permutation_middle|].
    apply Permutation_app_head. apply Permutation_sym. apply busy_set_to_busy; [assumption | rewrite Hn; reflexivity]. }
  assert (Hev : In ev (pending s)) by (unfold pending; rewrite EB; left; reflexivity).
  unfold Inv, pending. cbn [l_buf l_ls l_next l_log once_after_ok acked_in]. repeat split.
  - rewrite (proj1 (C ev Hev)), A. reflexivity.
  - eapply Permutation_NoDup; eassumption.
  - apply C. eapply Permutation_in; [apply Permutation_sym; exact P | assumption].
  - apply C. eapply Permutation_in; [apply Permutation_sym; exact P | assumption].
  - assumption.
Qed.

Lemma requeue_inv : forall s i ev v, Inv s -> nth i (l_ls s) LDead = LBusy ev -> is_busy v = false ->
  Inv (mkL (ev :: l_buf s) (set_nth (l_ls s) i v) (l_next s) (l_log s)).
Proof.
  intros s i ev v H Hn Hv. eapply inv_perm with (s := s); [reflexivity | reflexivity | | exact H].
  unfold pending. cbn [l_buf l_ls].
  eapply Permutation_trans; [apply Permutation_app_head; apply (busy_set_from_busy _ i ev v Hn Hv)|].
  apply Permutation_sym. cbn [app]. apply Permutation_middle.
Qed.

Lemma idle_inv : forall s i v, Inv s -> is_busy (nth i (l_ls s) LDead) = false -> is_busy v = false ->
  Inv (mkL (l_buf s) (set_nth (l_ls s) i v) (l_next s) (l_log s)).
Proof.
  intros s i v H Hb Hv. eapply inv_perm with (s := s); [reflexivity | reflexivity | | exact H].
  unfold pending. cbn [l_buf l_ls]. rewrite busy_set_idle by assumption. apply Permutation_refl.
Qed.

Lemma lstep_inv : forall s o, Inv s -> Inv (lstep s o).
Proof.
  intros s o H. destruct o as [| |i|i|i|i|i|i]; cbn [lstep].
  - (* emit *)
    destruct H as (A & B & C & D). unfold Inv, pending. cbn [l_buf l_ls l_next l_log].
    assert (F : ~ In (l_next s) (pending s)) by (intro X; apply C in X; lia).
    repeat split.
    + assumption.
    + unfold pending in *. rewrite <- app_assoc. cbn [app].
      apply NoDup_Add with (a := l_next s) (l := l_buf s ++ busy_ids (l_ls s)); [|constructor; assumption].
      apply Add_app.
    + rewrite <- app_assoc in H. cbn [app] in H. apply in_app_or in H. destruct H as [H|[H|H]].
      * apply C. unfold pending. apply in_or_app. left. assumption.
      * subst ev. destruct (acked_in (l_next s) (l_log s)) eqn:E; [apply D in E; lia | reflexivity].
      * apply C. unfold pending. apply in_or_app. right. assumption.
    + rewrite <- app_assoc in H. cbn [app] in H. apply in_app_or in H. destruct H as [H|[H|H]].
      * assert (X : ev < l_next s) by (apply C; unfold pending; apply in_or_app; left; assumption). lia.
      * subst ev. lia.
      * assert (X : ev < l_next s) by (apply C; unfold pending; apply in_or_app; right; assumption). lia.
    + intros ev E. apply D in E. lia.
  - apply dispatch_loop_inv. assumption.
  - destruct (nth i (l_ls s) LDead) eqn:E; try assumption.
    apply idle_inv; [assumption | rewrite E; reflexivity | reflexivity].
  - (* OK *)
    destruct (nth i (l_ls s) LDead) as [| |ev| | |] eqn:E; try assumption.
    destruct H as (A & B & C & D).
    pose proof (busy_set_from_busy (l_ls s) i ev LAck E eq_refl) as P.
    assert (P2 : Permutation (pending s) (ev :: l_buf s ++ busy_ids (set_nth (l_ls s) i LAck))).
    { unfold pending. eapply Permutation_trans; [apply Permutation_app_head; exact P|].
      apply Permutation_sym. apply Permutation_middle. }
    pose proof (Permutation_NoDup P2 B) as ND. inversion ND as [|x l Hnotin ND']; subst.
    unfold Inv, pending. cbn [l_buf l_ls l_next l_log once_after_ok acked_in]. repeat split.
    + assumption.
    + assumption.
    + assert (X : In ev0 (pending s)) by (eapply Permutation_in; [apply Permutation_sym; exact P2 | right; assumption]).
      rewrite (proj1 (C ev0 X)). rewrite orb_false_r. apply Z.eqb_neq. intros ->. contradiction.
    + apply C. eapply Permutation_in; [apply Permutation_sym; exact P2 | right; assumption].
    + intros ev0 X. apply orb_true_iff in X. destruct X as [X|X]; [|apply D; assumption].
      apply Z.eqb_eq in X. subst ev0. apply C. eapply Permutation_in; [apply Permutation_sym; exact P2 | left; reflexivity].
  - destruct (nth i (l_ls s) LDead) eqn:E; try assumption. apply requeue_inv; [assumption | exact E | reflexivity].
  - destruct (nth i (l_ls s) LDead) eqn:E; try assumption. apply requeue_inv; [assumption | exact E | reflexivity].
  - destruct (nth i (l_ls s) LDead) eqn:E; try assumption;
      try (apply idle_inv; [assumption | rewrite E; reflexivity | reflexivity]).
    apply requeue_inv; [assumption | exact E | reflexivity].
  - destruct (nth i (l_ls s) LDead) eqn:E; try assumption.
    apply idle_inv; [assumption | rewrite E; reflexivity | reflexivity].
Qed.

Lemma busy_ids_repeat : forall n, busy_ids (repeat LAck n) = [].
Proof. induction n; [reflexivity | simpl; assumption]. Qed.

(* ONE NOTIFICATION PER CHANGE, inside a pool: over every history, once an event
   has been acknowledged OK by a listener it is never sent to any listener again *)
Theorem never_again_after_ok : forall n l, once_after_ok (l_log (lrun n l)) = true.
Proof.
  intros n l. unfold lrun.
  assert (I0 : Inv (mkL [] (repeat LAck n) 0 [])).
  { unfold Inv, pending. cbn [l_buf l_ls l_next l_log]. rewrite busy_ids_repeat. repeat split; try constructor; try contradiction.
    intros ev X. discriminate X. }
  revert I0. generalize (mkL [] (repeat LAck n) 0 []). induction l as [|o r IH]; intros s H.
  - apply H.
  - cbn [fold_left]. apply IH. apply lstep_inv. assumption.
Qed.

(* ------------------------------------------------------------ order *)

(* all envelopes sent by the pool, to whichever listener, oldest first *)
Definition sent_all (log : list lentry) : list Z :=
  rev (flat_map (fun e => match e with Sent _ ev => [ev] | _ => [] end) log).

Definition quiet (o : lop) : bool :=
  match o with LFail _ | LGarbage _ | LReap _ => false | _ => true end.

Fixpoint iota (k : nat) : list Z :=
  match k with O => [] | S j => iota j ++ [Z.of_nat j] end.

Definition Ord (s : lpool) : Prop :=
  exists k, l_next s = Z.of_nat k /\ sent_all (l_log s) ++ l_buf s = iota k.

Lemma sent_all_cons_sent : forall i ev log, sent_all (Sent i ev :: log) = sent_all log ++ [ev].
Proof. intros. unfold sent_all. cbn [flat_map]. rewrite rev_app_distr. cbn. reflexivity. Qed.

Lemma sent_all_cons_acked : forall i ev log, sent_all (Acked i ev :: log) = sent_all log.
Proof. intros. reflexivity. Qed.

Lemma dispatch_loop_ord : forall fuel s, Ord s -> Ord (dispatch_loop fuel s).
Proof.
  induction fuel as [|f IH]; intros s H; [assumption|].
  cbn [dispatch_loop]. destruct (l_buf s) as [|ev r] eqn:EB; [assumption|].
  destruct (first_ready (l_ls s) 0) as [j|]; [|assumption].
  apply IH. destruct H as [k [H1 H2]]. exists k. cbn [l_next l_log l_buf]. split; [assumption|].
  rewrite sent_all_cons_sent, <- app_assoc. cbn [app]. rewrite EB in H2. exact H2.
Qed.

Lemma lstep_ord : forall s o, quiet o = true -> Ord s -> Ord (lstep s o).
Proof.
  intros s o Hq H. destruct o as [| |i|i|i|i|i|i]; try discriminate; cbn [lstep].
  - destruct H as [k [H1 H2]]. exists (S k). cbn [l_next l_log l_buf]. split; [lia|].
    rewrite app_assoc, H2, H1. reflexivity.
  - apply dispatch_loop_ord. assumption.
  - destruct (nth i (l_ls s) LDead); assumption.
  - destruct (nth i (l_ls s) LDead); assumption.
  - destruct (nth i (l_ls s) LDead); assumption.
Qed.

(* IN THE ORDER THE CHANGES HAPPENED: as long as no listener rejects, misbehaves
   or dies, the pool sends the events in exactly the order they were raised, each
   once, none skipped: what was sent followed by what is still buffered is 0, 1, 2 ... *)
Theorem fifo_order : forall n l, forallb quiet l = true ->
  exists k, l_next (lrun n l) = Z.of_nat k /\
            sent_all (l_log (lrun n l)) ++ l_buf (lrun n l) = iota k.
Proof.
  intros n l. unfold lrun.
  assert (O0 : Ord (mkL [] (repeat LAck n) 0 [])) by (exists O; split; reflexivity).
  revert O0. generalize (mkL [] (repeat LAck n) 0 []). induction l as [|o r IH]; intros s H Hq.
  - exact H.
  - cbn [forallb] in Hq. apply andb_true_iff in Hq. destruct Hq as [Hq1 Hq2].
    cbn [fold_left]. apply IH; [apply lstep_ord; assumption | assumption].
Qed.

Example listeners_example :
  let s := lrun 2 [LSayReady 0; LSayReady 1; LEmit; LEmit; LDispatch; LGarbage 0; LDispatch; LOk 1; LSayReady 1;
                   LDispatch; LOk 1; LSayReady 1; LReap 0; LDispatch; LEmit; LDispatch] in
  sent_to s 0 = [0] /\ sent_to s 1 = [1; 0; 2] /\ l_buf s = [].
Proof. vm_compute. repeat split. Qed.
