(* C11, part 6: what a PROCESS_COMMUNICATION notification carries.  Model of
   supervisor/loggers.py BoundIO.write, the buffer behind the capture log of
   POutputDispatcher (the token scanner that feeds it is C08's subject; here the
   chunks are what the dispatcher logs between the BEGIN and END tokens).
   No proofs here. *)
From Coq Require Import ZArith List Bool.
Import ListNotations.
Require Import SV.C11.Base SV.C11.Utf8.
Open Scope Z_scope.

(* def write(self, b):
       blen = len(b)
       if len(self.buf) + blen > self.maxbytes: self.buf = self.buf[blen:]
       self.buf += b
       if len(self.buf) > self.maxbytes: self.buf = self.buf[len(self.buf) - self.maxbytes:] *)
Definition bound_write (maxbytes : Z) (buf b : bytes) : bytes :=
  let blen := zlen b in
  let buf := if zlen buf + blen >? maxbytes then skipn (Z.to_nat (Z.min blen (zlen buf))) buf else buf in
  let buf := buf ++ b in
  if zlen buf >? maxbytes then skipn (Z.to_nat (Z.min (zlen buf - maxbytes) (zlen buf))) buf else buf.

(* capturelog.getvalue() after the chunks were logged, starting from an empty buffer *)
Definition bound_writes (maxbytes : Z) (chunks : list bytes) : bytes :=
  fold_left (bound_write maxbytes) chunks [].

(* several BEGIN..END sections in one run: toggle_capturemode() reads the buffer at
   END and then clears it (handler.remove() of a BoundIO clears the buffer) *)
Fixpoint blocks_run (maxbytes : Z) (buf : bytes) (blocks : list (list bytes)) : list bytes :=
  match blocks with
  | [] => []
  | chunks :: r =>
    let data := fold_left (bound_write maxbytes) chunks buf in
    data :: blocks_run maxbytes [] r            (* cleared for the next section *)
  end.
