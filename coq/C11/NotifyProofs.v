(* C11: notifications correspond one-to-one to what they announce and carry
   the values of the moment (models in Notify.v). *)
From Coq Require Import String.
From Coq Require Import ZArith List Bool Lia.
Import ListNotations.
Require Import SV.Common SV.C11.Base SV.C11.Utf8 SV.C11.Gen_events SV.C11.Envelope SV.C11.Notify.
Open Scope Z_scope.

(* ------------------------------------------------------------ change_state *)

Definition after_change (p : proc) (new now : Z) : proc :=
  let p1 := set_state p new in
  if new =? S_BACKOFF
  then set_delay (set_backoff p1 (p_backoff p1 + 1)) (now + (p_backoff p1 + 1))
  else p1.

Lemma change_state_eq : forall p new exp now, (new =? p_state p) = false ->
  change_state p new exp now
  = (after_change p new now,
     match lookup_class new event_map with
     | Some c => [new_state_event c (p_name p) (p_group p) (p_state p)
                                  (p_backoff (after_change p new now)) exp (p_pid p)]
     | None => []
     end).
Proof.
  intros p new exp now H. unfold change_state, after_change. rewrite H.
  destruct (new =? S_BACKOFF); destruct (lookup_class new event_map); reflexivity.
Qed.

Lemma after_change_fields : forall p new now,
  p_state (after_change p new now) = new /\ p_pid (after_change p new now) = p_pid p /\
  p_name (after_change p new now) = p_name p /\ p_group (after_change p new now) = p_group p /\
  p_backoff (after_change p new now) = (if new =? S_BACKOFF then p_backoff p + 1 else p_backoff p).
Proof. intros. unfold after_change. destruct (new =? S_BACKOFF); repeat split. Qed.

(* every process state has an event class *)
Lemma event_map_total : forallb (fun st => match lookup_class (snd st) event_map with Some _ => true | None => false end)
                                process_states = true.
Proof. vm_compute. reflexivity. Qed.

(* SNAPSHOT: a state change produces exactly one notification; it names the
   process, the group, the state that was left, and its extra values are the
   pid / backoff (after the increment on entering BACKOFF) / expected flag that
   hold at this moment; no change, no notification *)
Theorem change_state_snapshot : forall p new exp now,
  (new = p_state p ->
     change_state p new exp now = (p, [])) /\
  (new <> p_state p ->
     let p' := fst (change_state p new exp now) in
     p_state p' = new /\ p_pid p' = p_pid p /\
     p_backoff p' = (if new =? S_BACKOFF then p_backoff p + 1 else p_backoff p) /\
     forall c, lookup_class new event_map = Some c ->
       snd (change_state p new exp now)
       = [(c, AState (p_name p) (p_group p) (p_state p)
                     (extra_values c (p_backoff p') exp (p_pid p')))]).
Proof.
  intros p new exp now. split.
  - intros ->. unfold change_state. rewrite Z.eqb_refl. reflexivity.
  - intros Hne. assert (E : (new =? p_state p) = false) by (apply Z.eqb_neq; assumption).
    rewrite (change_state_eq p new exp now E). cbn [fst snd].
    destruct (after_change_fields p new now) as (F1 & F2 & F3 & F4 & F5).
    repeat split; try assumption.
    intros c Hc. rewrite Hc, F2. reflexivity.
Qed.

(* ------------------------------------------------------------ finish *)

(* an observer's reading of a run of PROCESS_STATE notifications of one
   process: they chain from state to state, each raised by the class of the
   state entered, each carrying the same name/group and the extra values
   computed from (backoff, expected, pid) *)
Inductive Chain (name : text) (group : option text) (bo : Z) (ee : bool) (pid : Z)
  : Z -> list notification -> Z -> Prop :=
| ChNil : forall s, Chain name group bo ee pid s [] s
| ChCons : forall s to c r final,
    lookup_class to event_map = Some c -> to <> s ->
    Chain name group bo ee pid to r final ->
    Chain name group bo ee pid s ((c, AState name group s (extra_values c bo ee pid)) :: r) final.

Lemma state_eqb_true : forall a b, (a =? b) = true -> a = b.
Proof. intros. apply Z.eqb_eq. assumption. Qed.

Lemma ChCons' : forall name group bo ee pid s to c r final extra,
  lookup_class to event_map = Some c -> to <> s -> extra = extra_values c bo ee pid ->
  Chain name group bo ee pid to r final ->
  Chain name group bo ee pid s ((c, AState name group s extra) :: r) final.
Proof. intros. subst extra. eapply ChCons; eassumption. Qed.

Ltac chain1 st :=
  eapply ChCons' with (to := st); [vm_compute; reflexivity | vm_compute; discriminate | vm_compute; reflexivity | apply ChNil].

(* FINISH: whatever branch finish() takes, the notifications it raises form a
   chain from the state the process was in to the state it ends in, all of them
   carry the pid the process HAD (finish clears it only afterwards), `tries` is
   the backoff count after the increment, `expected` the decoded verdict *)
Theorem finish_snapshot : forall p es tq ee now,
  match finish p es tq ee now with
  | Done p' out =>
      p_pid p' = 0 /\ p_name p' = p_name p /\ p_group p' = p_group p /\
      Chain (p_name p) (p_group p) (p_backoff p') ee (p_pid p) (p_state p) out (p_state p')
  | AssertionError p' out =>
      p_pid p' = p_pid p /\
      Chain (p_name p) (p_group p) (p_backoff p') ee (p_pid p) (p_state p) out (p_state p')
  end.
Proof.
  intros p es tq ee now. unfold finish.
  destruct (p_state p =? S_UNKNOWN) eqn:EU.
  { cbn. repeat split. apply ChNil. }
  destruct (p_killing p) eqn:EK.
  { unfold asserted_change. cbn [p_state set_exitstatus set_delay set_killing].
    destruct (p_state p =? S_STOPPING) eqn:E.
    - apply state_eqb_true in E.
      rewrite change_state_eq by (cbn; rewrite E; reflexivity).
      cbn. rewrite E. repeat split. chain1 S_STOPPED.
    - cbn. repeat split. apply ChNil. }
  destruct tq.
  { unfold asserted_change. cbn [p_state set_exitstatus].
    destruct (p_state p =? S_STARTING) eqn:E.
    - apply state_eqb_true in E.
      rewrite change_state_eq by (cbn; rewrite E; reflexivity).
      cbn. rewrite E. repeat split. chain1 S_BACKOFF.
    - cbn. repeat split. apply ChNil. }
  cbn [p_state set_exitstatus set_backoff set_delay].
  destruct (p_state p =? S_STARTING) eqn:ES.
  - apply state_eqb_true in ES.
    rewrite change_state_eq by (cbn; rewrite ES; reflexivity).
    unfold asserted_change. cbn. rewrite ES. cbn.
    repeat split.
    eapply ChCons' with (to := S_RUNNING); [vm_compute; reflexivity | vm_compute; discriminate | vm_compute; reflexivity |].
    destruct ee; chain1 S_EXITED.
  - unfold asserted_change. cbn [p_state set_exitstatus set_backoff set_delay].
    destruct (p_state p =? S_RUNNING) eqn:ER.
    + apply state_eqb_true in ER.
      rewrite change_state_eq by (cbn; rewrite ER; reflexivity).
      cbn. rewrite ER. repeat split. destruct ee; chain1 S_EXITED.
    + cbn. repeat split. apply ChNil.
Qed.

(* in particular: every pid announced by finish() is the pid before finish() *)
Lemma chain_pid : forall name group bo ee pid s out final,
  Chain name group bo ee pid s out final ->
  forall c a, In (c, a) out ->
    exists from, a = AState name group from (extra_values c bo ee pid).
Proof.
  induction 1; intros c0 a0 Hin; [contradiction|].
  destruct Hin as [Hin|Hin].
  - injection Hin as <- <-. eexists. reflexivity.
  - apply IHChain. assumption.
Qed.

(* FLUSH: what finish() announces is first the output that was held back - each
   PROCESS_LOG with the pid the child had - and only then the state changes of the reap *)
Theorem finish_flush_order : forall p held es tq ee now,
  exists out,
    finish_with_output p held es tq ee now
    = map (fun h => (fst h, ALog (p_name p) (p_group p) (p_pid p) (DBytes (snd h)))) held ++ out /\
    (forall c a, In (c, a) out -> exists from bo, a = AState (p_name p) (p_group p) from (extra_values c bo ee (p_pid p))).
Proof.
  intros p held es tq ee now. unfold finish_with_output, flush_events.
  pose proof (finish_snapshot p es tq ee now) as F.
  destruct (finish p es tq ee now) as [p' out|p' out]; exists out; (split; [reflexivity|]).
  - destruct F as (_ & _ & _ & Ch). intros c a Hin. destruct (chain_pid _ _ _ _ _ _ _ _ Ch c a Hin) as [from E].
    exists from, (p_backoff p'). exact E.
  - destruct F as (_ & Ch). intros c a Hin. destruct (chain_pid _ _ _ _ _ _ _ _ Ch c a Hin) as [from E].
    exists from, (p_backoff p'). exact E.
Qed.

(* EXPECTED: for a child that exited (no signal) with status n in 0..255, finish()
   judges the status n itself - in particular 128..255 are not folded onto 0..127 -
   and a child killed by a signal is never `expected` unless -1 is listed *)
Theorem exit_status_true : forall n (core : bool), 0 <= n < 256 ->
  wait_exit_status (n * 256) = n /\
  forall sig, 0 < sig < 128 -> wait_exit_status (n * 256 + (if core then 128 else 0) + sig) = -1.
Proof.
  intros n core Hn. unfold wait_exit_status. split.
  - replace ((n * 256) mod 128) with 0 by (replace (n * 256) with ((n * 2) * 128) by lia; symmetry; apply Z.mod_mul; lia).
    cbn [Z.eqb]. rewrite Z.div_mul by lia. apply Z.mod_small. assumption.
  - intros sig Hs.
    assert (E : (n * 256 + (if core then 128 else 0) + sig) mod 128 = sig).
    { destruct core.
      - replace (n * 256 + 128 + sig) with (sig + (n * 2 + 1) * 128) by lia. rewrite Z.mod_add by lia. apply Z.mod_small. lia.
      - replace (n * 256 + 0 + sig) with (sig + (n * 2) * 128) by lia. rewrite Z.mod_add by lia. apply Z.mod_small. lia. }
    rewrite E. replace (sig =? 0) with false by (symmetry; apply Z.eqb_neq; lia). reflexivity.
Qed.

(* ------------------------------------------------------------ histories *)

Definition step_expected (s : pstep) : bool :=
  match s with PChange _ e _ => e | _ => true end.

(* what an observer who sees only the process before and after a primitive
   step expects to be notified *)
Definition spec_emit (before after : proc) (exp : bool) : list notification :=
  if p_state after =? p_state before then []
  else match lookup_class (p_state after) event_map with
       | Some c => [(c, AState (p_name before) (p_group before) (p_state before)
                               (extra_values c (p_backoff after) exp (p_pid after)))]
       | None => []
       end.

Fixpoint history (p : proc) (l : list pstep) : list (proc * pstep * proc * list notification) :=
  match l with
  | [] => []
  | s :: r => let '(p', out) := pstep_run p s in (p, s, p', out) :: history p' r
  end.

Definition step_ok (h : proc * pstep * proc * list notification) : Prop :=
  let '(b, s, a, out) := h in
  match s with
  | PFinish es tq ee now =>
      Chain (p_name b) (p_group b) (p_backoff a) ee (p_pid b) (p_state b) out (p_state a)
  | _ => out = spec_emit b a (step_expected s)
  end.

Lemma prim_step_ok : forall p s, match s with PFinish _ _ _ _ => False | _ => True end ->
  snd (pstep_run p s) = spec_emit p (fst (pstep_run p s)) (step_expected s).
Proof.
  intros p s Hs. destruct s as [new exp now|v|b|]; try contradiction; cbn [pstep_run fst snd step_expected].
  - unfold spec_emit. destruct (new =? p_state p) eqn:E.
    + apply Z.eqb_eq in E. subst. unfold change_state. rewrite Z.eqb_refl. cbn [fst snd].
      rewrite Z.eqb_refl. reflexivity.
    + rewrite (change_state_eq p new exp now E). cbn [fst snd].
      destruct (after_change_fields p new now) as (F1 & F2 & F3 & F4 & F5).
      rewrite F1, E, F2. reflexivity.
  - unfold spec_emit. cbn. rewrite Z.eqb_refl. reflexivity.
  - unfold spec_emit. cbn. rewrite Z.eqb_refl. reflexivity.
Qed.

(* HISTORY: over every sequence of primitive steps (state changes, pid and
   backoff updates, reaps), the notifications are exactly, step by step and in
   order, what the observer expects from the states before and after; nothing
   else is ever notified *)
Theorem history_truth : forall l p,
  Forall step_ok (history p l) /\
  run_psteps p l = concat (map (fun h => snd h) (history p l)).
Proof.
  induction l as [|s r IH]; intros p; [split; [constructor | reflexivity]|].
  cbn [history run_psteps].
  destruct (pstep_run p s) as [p' out] eqn:E. destruct (IH p') as [H1 H2].
  split.
  - constructor; [|assumption]. unfold step_ok.
    destruct s as [new exp now|v|b|es tq ee now].
    + pose proof (prim_step_ok p (PChange new exp now) I) as H. rewrite E in H. exact H.
    + pose proof (prim_step_ok p (PSetPid v) I) as H. rewrite E in H. exact H.
    + pose proof (prim_step_ok p (PSetBackoff b) I) as H. rewrite E in H. exact H.
    + cbn [pstep_run] in E. pose proof (finish_snapshot p es tq ee now) as F.
      destruct (finish p es tq ee now) as [q o|q o]; injection E as <- <-; tauto.
  - cbn [map concat snd]. rewrite H2. reflexivity.
Qed.

Example history_example :
  let p0 := mkProc [112] (Some [103]) S_STOPPED 0 0 0 false None in
  map (fun n => (fst n, payload (fst n) (snd n)))
      (run_psteps p0 [PChange S_STARTING true 100; PSetPid 4711; PFinish 1 true false 101;
                      PChange S_STARTING true 103; PSetPid 4712; PChange S_RUNNING true 105;
                      PFinish 0 false true 200])
  = [ (ProcessStateStartingEvent, Some (s2z "processname:p groupname:g from_state:STOPPED tries:0"%string));
      (ProcessStateBackoffEvent, Some (s2z "processname:p groupname:g from_state:STARTING tries:1"%string));
      (ProcessStateStartingEvent, Some (s2z "processname:p groupname:g from_state:BACKOFF tries:1"%string));
      (ProcessStateRunningEvent, Some (s2z "processname:p groupname:g from_state:STARTING pid:4712"%string));
      (ProcessStateExitedEvent, Some (s2z "processname:p groupname:g from_state:RUNNING expected:1 pid:4712"%string)) ].
Proof. vm_compute. reflexivity. Qed.

(* ------------------------------------------------------------ groups and daemon state *)

Lemma zlist_eqb_refl : forall a, zlist_eqb a a = true.
Proof. intros. apply zlist_eqb_eq. reflexivity. Qed.

Lemma zlist_eqb_neq : forall a b, a <> b -> zlist_eqb a b = false.
Proof.
  intros a b H. destruct (zlist_eqb a b) eqn:E; [|reflexivity]. apply zlist_eqb_eq in E. contradiction.
Qed.

Lemma text_in_app : forall n l m, text_in n (l ++ [m]) = text_in n l || zlist_eqb n m.
Proof. intros. unfold text_in. rewrite existsb_app. simpl. rewrite orb_false_r. reflexivity. Qed.

Lemma text_in_remove : forall n m l,
  text_in n (remove_text m l) = text_in n l && negb (zlist_eqb m n).
Proof.
  intros n m. induction l as [|x r IH]; [reflexivity|].
  cbn [remove_text filter]. destruct (zlist_eqb m x) eqn:E; cbn [negb].
  - fold (remove_text m r). rewrite IH. apply zlist_eqb_eq in E. subst x. cbn [text_in existsb].
    fold (text_in n r). destruct (zlist_eqb n m) eqn:E2.
    + apply zlist_eqb_eq in E2. subst. rewrite zlist_eqb_refl. cbn. rewrite andb_false_r. reflexivity.
    + reflexivity.
  - cbn [text_in existsb]. fold (remove_text m r). fold (text_in n (remove_text m r)). fold (text_in n r).
    rewrite IH. destruct (zlist_eqb n x) eqn:E2; [|reflexivity].
    apply zlist_eqb_eq in E2. subst x. rewrite E. reflexivity.
Qed.

(* what an observer of the set of groups and of the stopping flag expects *)
Definition sup_expected (before after : sup) (o : sop) : list notification :=
  match o with
  | OAdd n | ORemove n _ | OAddRaises n | ORemoveRaises n =>
      if text_in n (s_groups after) && negb (text_in n (s_groups before))
      then [(ProcessGroupAddedEvent, AGroup n)]
      else if text_in n (s_groups before) && negb (text_in n (s_groups after))
      then [(ProcessGroupRemovedEvent, AGroup n)]
      else []
  | ORunforever => [(SupervisorRunningEvent, ASupervisor)]
  | OPass _ =>
      if s_stopping after && negb (s_stopping before)
      then [(SupervisorStoppingEvent, ASupervisor)] else []
  end.

Ltac conj := repeat match goal with |- _ /\ _ => split end.
Ltac triv := try reflexivity; try (intuition congruence).

(* one step: the notification matches the change of the group set / of the
   stopping flag, the other groups are untouched, and the result says whether
   anything changed *)
Theorem sup_step_truth : forall s o,
  let '(s', res, out) := sup_step s o in
  out = sup_expected s s' o /\
  match o with
  | OAdd n =>
      text_in n (s_groups s') = true /\
      (forall m, m <> n -> text_in m (s_groups s') = text_in m (s_groups s)) /\
      (res = RTrue <-> text_in n (s_groups s) = false) /\ s_stopping s' = s_stopping s
  | ORemove n unstopped =>
      (forall m, m <> n -> text_in m (s_groups s') = text_in m (s_groups s)) /\
      (res = RTrue <-> (text_in n (s_groups s) = true /\ unstopped = false)) /\
      (res = RTrue -> text_in n (s_groups s') = false) /\
      (res <> RTrue -> s' = s) /\ s_stopping s' = s_stopping s
  | ORunforever => s' = s
  | OPass mood =>
      s_groups s' = s_groups s /\
      s_stopping s' = (s_stopping s || (mood <? supervisor_running))
  | OAddRaises _ | ORemoveRaises _ => s' = s /\ res <> RTrue
  end.
Proof.
  intros s o. destruct o as [n|n unstopped| |mood|n|n]; cbn [sup_step].
  - destruct (text_in n (s_groups s)) eqn:E; cbn [negb].
    + unfold sup_expected. rewrite E. cbn. conj; triv.
    + unfold sup_expected. cbn [s_groups s_stopping]. rewrite text_in_app, E, zlist_eqb_refl. cbn.
      conj; triv.
      intros m Hm. rewrite text_in_app, (zlist_eqb_neq m n Hm), orb_false_r. reflexivity.
  - destruct (text_in n (s_groups s)) eqn:E; cbn [negb].
    + destruct unstopped.
      * unfold sup_expected. rewrite E. cbn. conj; triv.
      * unfold sup_expected. cbn [s_groups s_stopping]. rewrite text_in_remove, E, zlist_eqb_refl. cbn.
        conj; triv.
        intros m Hm. rewrite text_in_remove.
        rewrite (zlist_eqb_neq n m) by (intro; apply Hm; auto). cbn. rewrite andb_true_r. reflexivity.
    + unfold sup_expected. rewrite E. cbn. conj; triv.
  - split; reflexivity.
  - destruct (mood <? supervisor_running) eqn:E; destruct (s_stopping s) eqn:E2; cbn [andb negb];
      unfold sup_expected; cbn; rewrite ?E2; cbn; conj; triv.
  - destruct (text_in n (s_groups s)) eqn:E; cbn [negb]; unfold sup_expected; rewrite E; cbn; conj; triv; discriminate.
  - destruct (text_in n (s_groups s)) eqn:E; cbn [negb]; unfold sup_expected; rewrite E; cbn; conj; triv; discriminate.
Qed.

(* BIJECTION over histories: the notifications of any sequence of group
   additions, removals, loop entries and passes are, in order, exactly those the
   observer of the state sequence expects - one per actual change *)
Fixpoint sup_history (s : sup) (l : list sop) : list (sup * sop * sup) :=
  match l with
  | [] => []
  | o :: r => let '(s', _, _) := sup_step s o in (s, o, s') :: sup_history s' r
  end.

Theorem sup_bijection : forall l s,
  sup_run s l = flat_map (fun h => let '(b, o, a) := h in sup_expected b a o) (sup_history s l).
Proof.
  induction l as [|o r IH]; intros s; [reflexivity|].
  cbn [sup_run sup_history]. pose proof (sup_step_truth s o) as T.
  destruct (sup_step s o) as [[s' res] out]. destruct T as [T _].
  cbn [flat_map]. rewrite T, IH. reflexivity.
Qed.

(* SUPERVISOR_STATE_CHANGE_STOPPING is notified at most once, and never again
   once the daemon is stopping *)
Definition is_stopping (n : notification) : bool := evclass_eqb (fst n) SupervisorStoppingEvent.

Lemma no_stopping_twice : forall l s, s_stopping s = true ->
  filter is_stopping (sup_run s l) = [].
Proof.
  induction l as [|o r IH]; intros s H; [reflexivity|].
  cbn [sup_run]. destruct o as [n|n u| |mood|n|n]; cbn [sup_step].
  - destruct (negb (text_in n (s_groups s))); rewrite filter_app; cbn; apply IH; assumption.
  - destruct (negb (text_in n (s_groups s))); [|destruct u]; rewrite filter_app; cbn; apply IH; assumption.
  - rewrite filter_app. cbn. apply IH. assumption.
  - rewrite H. rewrite andb_false_r. cbn. apply IH. assumption.
  - destruct (negb (text_in n (s_groups s))); cbn; apply IH; assumption.
  - destruct (negb (text_in n (s_groups s))); cbn; apply IH; assumption.
Qed.

Theorem stopping_once : forall l s, (length (filter is_stopping (sup_run s l)) <= 1)%nat.
Proof.
  induction l as [|o r IH]; intros s; [simpl; lia|].
  cbn [sup_run]. destruct o as [n|n u| |mood|n|n]; cbn [sup_step].
  - destruct (negb (text_in n (s_groups s))); rewrite filter_app; cbn; apply IH.
  - destruct (negb (text_in n (s_groups s))); [|destruct u]; rewrite filter_app; cbn; apply IH.
  - rewrite filter_app. cbn. apply IH.
  - destruct ((mood <? supervisor_running) && negb (s_stopping s)) eqn:E.
    + rewrite filter_app. cbn. rewrite no_stopping_twice by reflexivity. simpl. lia.
    + cbn. apply IH.
  - destruct (negb (text_in n (s_groups s))); cbn; apply IH.
  - destruct (negb (text_in n (s_groups s))); cbn; apply IH.
Qed.

Example sup_example :
  map (fun n => (fst n, payload (fst n) (snd n)))
      (sup_run (mkSup [] false)
               [OAdd [97]; OAdd [97]; ORunforever; OPass 1; OAdd [98]; ORemove [97] true; OPass 0;
                ORemove [97] false; OPass (-1)])
  = [ (ProcessGroupAddedEvent, Some (s2z "groupname:a"%string ++ [10]));
      (SupervisorRunningEvent, Some []);
      (ProcessGroupAddedEvent, Some (s2z "groupname:b"%string ++ [10]));
      (SupervisorStoppingEvent, Some []);
      (ProcessGroupRemovedEvent, Some (s2z "groupname:a"%string ++ [10])) ].
Proof. vm_compute. reflexivity. Qed.

(* REMOTE_COMMUNICATION: one call, one notification, carrying type and data *)
Theorem remote_one_to_one : forall ty data,
  send_remote_comm_event ty data = [(RemoteCommunicationEvent, ARemote ty data)] /\
  payload RemoteCommunicationEvent (ARemote ty data) = Some (payload_remote ty data).
Proof. intros. split; reflexivity. Qed.
