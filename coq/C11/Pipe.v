(* C11, part 9: the listener's stdin pipe.  Model of Subprocess.write ->
   PInputDispatcher.flush (and handle_write_event) over a non-blocking pipe
   with finite room: options.write accepts at most `room` bytes; with no room at
   all it raises EAGAIN, which flush() treats as "0 bytes sent, keep the data".
   No proofs here. *)
From Coq Require Import ZArith List Bool.
Import ListNotations.
Require Import SV.C11.Base SV.C11.Utf8.
Open Scope Z_scope.

Record pipe := mkPipe {
  pi_buf : bytes;        (* dispatcher.input_buffer *)
  pi_got : bytes;        (* what the listener has received on its stdin so far *)
}.

Inductive piop :=
| PiWrite (data : bytes) (room : Z)    (* process.write(data) while the pipe has `room` free bytes *)
| PiDrain (room : Z).                  (* handle_write_event() when the pipe is writable again *)

Definition pi_flush (p : pipe) (room : Z) : pipe :=
  let k := Z.to_nat (Z.max 0 (Z.min room (zlen (pi_buf p)))) in
  mkPipe (skipn k (pi_buf p)) (pi_got p ++ firstn k (pi_buf p)).

Definition pi_step (p : pipe) (o : piop) : pipe :=
  match o with
  | PiWrite d room => pi_flush (mkPipe (pi_buf p ++ d) (pi_got p)) room
  | PiDrain room => match pi_buf p with [] => p | _ => pi_flush p room end
  end.

Definition pi_run (l : list piop) : pipe := fold_left pi_step l (mkPipe [] []).

Definition written (l : list piop) : bytes :=
  concat (map (fun o => match o with PiWrite d _ => d | PiDrain _ => [] end) l).
