(* C11: facts about the string primitives of Utf8.v. *)
From Coq Require Import ZArith List Bool Lia.
Import ListNotations.
Require Import SV.C11.Base SV.C11.Utf8.
Open Scope Z_scope.

(* ------------------------------------------------------------ decimal round trip *)

Fixpoint val_le (l : bytes) : Z :=
  match l with
  | [] => 0
  | d :: r => (d - 48) + 10 * val_le r
  end.

Lemma le_digits_spec : forall f n, 0 <= n < 2 ^ Z.of_nat f ->
  val_le (le_digits f n) = n /\ forallb is_digit (le_digits f n) = true.
Proof.
  induction f as [|f IH]; intros n Hn.
  - simpl in *. split; [lia | reflexivity].
  - rewrite Nat2Z.inj_succ, Z.pow_succ_r in Hn by lia.
    cbn [le_digits].
    assert (Hm : 0 <= n mod 10 < 10) by (apply Z.mod_pos_bound; lia).
    assert (Hd : n = 10 * (n / 10) + n mod 10) by (apply Z.div_mod; lia).
    assert (Hdig : is_digit (48 + n mod 10) = true).
    { unfold is_digit, inr. apply andb_true_iff; split; apply Z.leb_le; lia. }
    destruct (n <? 10) eqn:E.
    + apply Z.ltb_lt in E. cbn [val_le forallb]. rewrite Hdig. split; [|reflexivity].
      rewrite Z.mod_small by lia. lia.
    + apply Z.ltb_ge in E.
      assert (Hq : 0 <= n / 10 < 2 ^ Z.of_nat f).
      { split; [apply Z.div_pos; lia|]. apply Z.div_lt_upper_bound; lia. }
      destruct (IH (n / 10) Hq) as [Hv Hall].
      cbn [val_le forallb]. rewrite Hdig, Hall, Hv. split; [lia | reflexivity].
Qed.

Lemma fuel_enough : forall n, 0 <= n -> 0 <= n < 2 ^ Z.of_nat (S (Z.to_nat (Z.log2 n))).
Proof.
  intros n Hn. split; [lia|].
  rewrite Nat2Z.inj_succ, Z2Nat.id by apply Z.log2_nonneg.
  destruct (Z.eq_dec n 0) as [->|Hz]; [reflexivity|].
  apply Z.log2_spec. lia.
Qed.

Lemma le_digits_nonempty : forall f n, le_digits (S f) n <> [].
Proof. intros f n. simpl. discriminate. Qed.

(* left-to-right parsing of the reversed little-endian digits *)
Lemma parse_digits_from_app : forall a x y,
  parse_digits_from a (x ++ y) = parse_digits_from (parse_digits_from a x) y.
Proof. intros. unfold parse_digits_from. apply fold_left_app. Qed.

Lemma parse_digits_rev : forall l a,
  forallb is_digit l = true ->
  parse_digits_from (Some a) (rev l) = Some (a * 10 ^ Z.of_nat (length l) + val_le l).
Proof.
  induction l as [|d r IH]; intros a Hall.
  - cbn. f_equal. lia.
  - cbn [forallb] in Hall. apply andb_true_iff in Hall. destruct Hall as [Hd Hr].
    cbn [rev]. rewrite parse_digits_from_app, IH by assumption.
    unfold parse_digits_from. cbn [fold_left]. rewrite Hd. f_equal.
    cbn [length val_le]. rewrite Nat2Z.inj_succ, Z.pow_succ_r by lia. ring.
Qed.

Lemma parse_print_nat : forall n, 0 <= n -> parse_nat_dec (print_nat_dec n) = Some n.
Proof.
  intros n Hn. unfold print_nat_dec, parse_nat_dec.
  set (f := S (Z.to_nat (Z.log2 n))).
  destruct (le_digits_spec f n (fuel_enough n Hn)) as [Hv Hall].
  destruct (rev (le_digits f n)) eqn:E.
  - exfalso. apply (f_equal (@rev Z)) in E. rewrite rev_involutive in E. simpl in E.
    revert E. apply le_digits_nonempty.
  - rewrite <- E. rewrite parse_digits_rev by assumption. f_equal. lia.
Qed.

Lemma print_nat_digits : forall n, 0 <= n -> forallb is_digit (print_nat_dec n) = true.
Proof.
  intros n Hn. unfold print_nat_dec.
  destruct (le_digits_spec _ n (fuel_enough n Hn)) as [_ Hall].
  rewrite forallb_forall in *. intros x Hx. apply Hall. apply in_rev. assumption.
Qed.

Lemma print_nat_head_not_minus : forall n, 0 <= n ->
  match print_nat_dec n with 45 :: _ => False | _ => True end.
Proof.
  intros n Hn. pose proof (print_nat_digits n Hn) as H.
  destruct (print_nat_dec n) as [|b r]; [exact I|].
  simpl in H. apply andb_true_iff in H. destruct H as [H _].
  unfold is_digit, inr in H. apply andb_true_iff in H. destruct H as [H _]. apply Z.leb_le in H.
  destruct b; try exact I. destruct p; try exact I; repeat (destruct p; try exact I); lia.
Qed.

(* the round trip: what a listener parses from the digits is the number printed *)
Theorem parse_print_dec : forall n, parse_dec (print_dec n) = Some n.
Proof.
  intros n. unfold print_dec. destruct (n <? 0) eqn:E.
  - apply Z.ltb_lt in E. simpl. rewrite parse_print_nat by lia. simpl. f_equal. lia.
  - apply Z.ltb_ge in E. unfold parse_dec.
    pose proof (print_nat_head_not_minus n E) as H.
    pose proof (parse_print_nat n E) as P.
    destruct (print_nat_dec n) as [|b r]; [exact P|].
    destruct (Z.eq_dec b 45) as [->|Hb]; [contradiction|].
    destruct b; try exact P. destruct p; try exact P; repeat (destruct p; try exact P); contradiction Hb; reflexivity.
Qed.

(* the printed form contains only '-' and digits *)
Definition dec_char (b : Z) : bool := is_digit b || (b =? 45).

Lemma print_dec_chars : forall n, forallb dec_char (print_dec n) = true.
Proof.
  intros n. unfold print_dec.
  assert (H : forall m, 0 <= m -> forallb dec_char (print_nat_dec m) = true).
  { intros m Hm. pose proof (print_nat_digits m Hm) as H. rewrite forallb_forall in *.
    intros x Hx. unfold dec_char. rewrite (H x Hx). reflexivity. }
  destruct (n <? 0) eqn:E.
  - apply Z.ltb_lt in E. simpl. apply H. lia.
  - apply Z.ltb_ge in E. apply H. assumption.
Qed.

Lemma has_byte_false_forall : forall x s, has_byte x s = false <-> (forall b, In b s -> b <> x).
Proof.
  intros x s. unfold has_byte. split.
  - intros H b Hb ->. assert (existsb (Z.eqb x) s = true).
    { apply existsb_exists. exists x. split; [assumption | apply Z.eqb_refl]. }
    congruence.
  - intros H. destruct (existsb (Z.eqb x) s) eqn:E; [|reflexivity].
    apply existsb_exists in E. destruct E as [b [Hb Hx]]. apply Z.eqb_eq in Hx. subst.
    exfalso. apply (H b Hb). reflexivity.
Qed.

Lemma free_of_forall : forall x s, free_of x s = true <-> (forall b, In b s -> b <> x).
Proof.
  intros. unfold free_of. rewrite negb_true_iff. apply has_byte_false_forall.
Qed.

Lemma free_of_app : forall x a b, free_of x (a ++ b) = free_of x a && free_of x b.
Proof.
  intros. unfold free_of, has_byte. rewrite existsb_app, negb_orb. reflexivity.
Qed.

Lemma free_of_cons : forall x b s, free_of x (b :: s) = negb (x =? b) && free_of x s.
Proof. intros. unfold free_of, has_byte. simpl. rewrite negb_orb. reflexivity. Qed.

Lemma print_dec_free : forall n x, dec_char x = false -> free_of x (print_dec n) = true.
Proof.
  intros n x Hx. apply free_of_forall. intros b Hb ->.
  pose proof (print_dec_chars n) as H. rewrite forallb_forall in H. rewrite (H x Hb) in Hx. discriminate.
Qed.

Lemma print_dec_clean : forall n, clean (print_dec n) = true.
Proof.
  intros n. unfold clean. rewrite !print_dec_free by reflexivity. reflexivity.
Qed.

(* ------------------------------------------------------------ UTF-8 encoding *)

Lemma utf8_encode_app : forall a b, utf8_encode (a ++ b) = utf8_encode a ++ utf8_encode b.
Proof. intros. unfold utf8_encode. apply flat_map_app. Qed.

Lemma utf8_encode_ascii : forall t, all_ascii t = true -> utf8_encode t = t.
Proof.
  induction t as [|c r IH]; intros H; [reflexivity|].
  simpl in H. apply andb_true_iff in H. destruct H as [Hc Hr].
  unfold utf8_encode in *. simpl. rewrite IH by assumption.
  unfold ascii, inr in Hc. apply andb_true_iff in Hc. destruct Hc as [_ Hc]. apply Z.leb_le in Hc.
  unfold utf8_enc1. replace (c <? 128) with true by (symmetry; apply Z.ltb_lt; lia). reflexivity.
Qed.

Lemma all_ascii_app : forall a b, all_ascii (a ++ b) = all_ascii a && all_ascii b.
Proof. intros. unfold all_ascii. apply forallb_app. Qed.

(* every byte of the encoding of a non-ASCII code point (below 0x110000) is >= 128 *)
Lemma enc1_high : forall c, 128 <= c < 1114112 -> forall b, In b (utf8_enc1 c) -> 128 <= b.
Proof.
  intros c Hc b Hb. unfold utf8_enc1 in Hb.
  replace (c <? 128) with false in Hb by (symmetry; apply Z.ltb_ge; lia).
  assert (M : forall x, 0 <= x mod 64) by (intro x; apply Z.mod_pos_bound; lia).
  assert (D : forall k, 0 < k -> 0 <= c / k) by (intros k Hk; apply Z.div_pos; lia).
  pose proof (M c); pose proof (M (c / 64)); pose proof (M (c / 4096)).
  pose proof (D 64 ltac:(lia)); pose proof (D 4096 ltac:(lia)); pose proof (D 262144 ltac:(lia)).
  destruct (c <? 2048); [|destruct (c <? 65536)]; cbn [In] in Hb;
    repeat (destruct Hb as [Hb|Hb]; [subst b; lia|]); contradiction.
Qed.

Lemma enc1_len : forall c, (1 <= length (utf8_enc1 c))%nat.
Proof.
  intros c. unfold utf8_enc1.
  destruct (c <? 128); [|destruct (c <? 2048); [|destruct (c <? 65536)]]; simpl; lia.
Qed.

Lemma enc1_len_ascii : forall c, 0 <= c -> (length (utf8_enc1 c) = 1%nat <-> ascii c = true).
Proof.
  intros c Hc. unfold utf8_enc1, ascii, inr.
  destruct (c <? 128) eqn:E.
  - apply Z.ltb_lt in E. simpl. split; [intros _|reflexivity].
    apply andb_true_iff; split; apply Z.leb_le; lia.
  - apply Z.ltb_ge in E. split.
    + destruct (c <? 2048); [|destruct (c <? 65536)]; simpl; intro; lia.
    + intro H. apply andb_true_iff in H. destruct H as [_ H]. apply Z.leb_le in H. lia.
Qed.

(* number of bytes on the wire versus number of characters *)
Lemma utf8_len_ge : forall t, (length t <= length (utf8_encode t))%nat.
Proof.
  induction t as [|c r IH]; [simpl; lia|].
  unfold utf8_encode in *. simpl. rewrite app_length. pose proof (enc1_len c). lia.
Qed.

Lemma utf8_len_eq_iff : forall t, forallb (fun c => 0 <=? c) t = true ->
  (length (utf8_encode t) = length t <-> all_ascii t = true).
Proof.
  induction t as [|c r IH]; intros Hp; [simpl; tauto|].
  simpl in Hp. apply andb_true_iff in Hp. destruct Hp as [Hc Hr]. apply Z.leb_le in Hc.
  unfold utf8_encode in *. simpl. rewrite app_length.
  pose proof (enc1_len c) as L1. pose proof (utf8_len_ge r) as L2. unfold utf8_encode in L2.
  pose proof (enc1_len_ascii c Hc) as A. specialize (IH Hr).
  rewrite andb_true_iff. split.
  - intro H. split; [apply A; lia | apply IH; lia].
  - intros [H1 H2]. apply A in H1. apply IH in H2. lia.
Qed.

(* a byte below 128 occurs in the encoding exactly where the character itself occurs *)
Lemma utf8_encode_free : forall x t, 0 <= x < 128 ->
  forallb (fun c => (0 <=? c) && (c <? 1114112)) t = true ->
  free_of x t = true -> free_of x (utf8_encode t) = true.
Proof.
  intros x t Hx. induction t as [|c r IH]; intros Hr Hf; [reflexivity|].
  simpl in Hr. apply andb_true_iff in Hr. destruct Hr as [Hc Hr].
  apply andb_true_iff in Hc. destruct Hc as [Hc0 Hc1]. apply Z.leb_le in Hc0. apply Z.ltb_lt in Hc1.
  rewrite free_of_cons in Hf. apply andb_true_iff in Hf. destruct Hf as [Hxc Hf].
  unfold utf8_encode. simpl. fold (utf8_encode r). rewrite free_of_app, (IH Hr Hf), andb_true_r.
  apply free_of_forall. intros b Hb ->.
  destruct (Z_lt_dec c 128) as [Hlt|Hge].
  - unfold utf8_enc1 in Hb. replace (c <? 128) with true in Hb by (symmetry; apply Z.ltb_lt; lia).
    simpl in Hb. destruct Hb as [->|[]]. rewrite Z.eqb_refl in Hxc. discriminate.
  - pose proof (enc1_high c ltac:(lia) x Hb). lia.
Qed.

Definition in_range (t : text) : bool := forallb (fun c => (0 <=? c) && (c <? 1114112)) t.

Lemma all_scalar_in_range : forall t, all_scalar t = true -> in_range t = true.
Proof.
  intros t H. unfold all_scalar, in_range in *. rewrite forallb_forall in *. intros c Hc.
  specialize (H c Hc). unfold scalar, inr in H.
  apply orb_true_iff in H. destruct H as [H|H]; apply andb_true_iff in H; destruct H as [H1 H2];
    apply Z.leb_le in H1; apply Z.leb_le in H2; apply andb_true_iff; split;
      [apply Z.leb_le | apply Z.ltb_lt | apply Z.leb_le | apply Z.ltb_lt]; lia.
Qed.

Lemma in_range_app : forall a b, in_range (a ++ b) = in_range a && in_range b.
Proof. intros. unfold in_range. apply forallb_app. Qed.

Lemma all_ascii_in_range : forall t, all_ascii t = true -> in_range t = true.
Proof.
  intros t H. unfold all_ascii, in_range in *. rewrite forallb_forall in *. intros c Hc.
  specialize (H c Hc). unfold ascii, inr in H. apply andb_true_iff in H. destruct H as [H1 H2].
  apply Z.leb_le in H1. apply Z.leb_le in H2. apply andb_true_iff; split; [apply Z.leb_le | apply Z.ltb_lt]; lia.
Qed.

Lemma clean_encode : forall t, in_range t = true -> clean t = true -> clean (utf8_encode t) = true.
Proof.
  intros t Hr Hc. unfold clean in *.
  apply andb_true_iff in Hc. destruct Hc as [Hc H10]. apply andb_true_iff in Hc. destruct Hc as [H32 H58].
  rewrite !utf8_encode_free by (assumption || lia). reflexivity.
Qed.

Lemma print_dec_ascii : forall n, all_ascii (print_dec n) = true.
Proof.
  intros n. pose proof (print_dec_chars n) as H. unfold all_ascii. rewrite forallb_forall in *.
  intros x Hx. specialize (H x Hx). unfold dec_char, is_digit, inr in H. unfold ascii, inr.
  apply orb_true_iff in H. destruct H as [H|H].
  - apply andb_true_iff in H. destruct H as [H1 H2]. apply Z.leb_le in H1. apply Z.leb_le in H2.
    apply andb_true_iff; split; apply Z.leb_le; lia.
  - apply Z.eqb_eq in H. subst. reflexivity.
Qed.

(* ------------------------------------------------------------ splitting *)

Lemma split_at_app : forall sep a r, free_of sep a = true ->
  split_at sep (a ++ sep :: r) = Some (a, r).
Proof.
  intros sep a r. induction a as [|b a IH]; intros H.
  - simpl. rewrite Z.eqb_refl. reflexivity.
  - rewrite free_of_cons in H. apply andb_true_iff in H. destruct H as [Hb Ha].
    simpl. rewrite Z.eqb_sym. apply negb_true_iff in Hb. rewrite Hb, (IH Ha). reflexivity.
Qed.

Lemma split_all_free : forall sep a, free_of sep a = true -> split_all sep a = [a].
Proof.
  intros sep a. induction a as [|b a IH]; intros H; [reflexivity|].
  rewrite free_of_cons in H. apply andb_true_iff in H. destruct H as [Hb Ha].
  simpl. rewrite Z.eqb_sym. apply negb_true_iff in Hb. rewrite Hb, (IH Ha). reflexivity.
Qed.

Lemma split_all_app : forall sep a r, free_of sep a = true ->
  split_all sep (a ++ sep :: r) = a :: split_all sep r.
Proof.
  intros sep a r. induction a as [|b a IH]; intros H.
  - simpl. rewrite Z.eqb_refl. reflexivity.
  - rewrite free_of_cons in H. apply andb_true_iff in H. destruct H as [Hb Ha].
    simpl. rewrite Z.eqb_sym. apply negb_true_iff in Hb. rewrite Hb, (IH Ha). reflexivity.
Qed.

(* ------------------------------------------------------------ decode / encode round trip *)

Lemma inr_spec : forall lo hi x, inr lo hi x = true <-> lo <= x <= hi.
Proof.
  intros. unfold inr. rewrite andb_true_iff, !Z.leb_le. tauto.
Qed.

Lemma enc_2 : forall b0 b1, 194 <= b0 <= 223 -> 128 <= b1 <= 191 ->
  utf8_enc1 ((b0 - 192) * 64 + (b1 - 128)) = [b0; b1].
Proof.
  intros b0 b1 H0 H1. set (c := (b0 - 192) * 64 + (b1 - 128)).
  assert (Q : c / 64 = b0 - 192) by (symmetry; apply (Z.div_unique c 64 (b0 - 192) (b1 - 128)); unfold c; lia).
  assert (M : c mod 64 = b1 - 128) by (symmetry; apply (Z.mod_unique c 64 (b0 - 192) (b1 - 128)); unfold c; lia).
  unfold utf8_enc1.
  replace (c <? 128) with false by (symmetry; apply Z.ltb_ge; unfold c; lia).
  replace (c <? 2048) with true by (symmetry; apply Z.ltb_lt; unfold c; lia).
  rewrite Q, M. f_equal; [lia | f_equal; lia].
Qed.

Lemma enc_3 : forall b0 b1 b2, 224 <= b0 <= 239 -> 128 <= b1 <= 191 -> 128 <= b2 <= 191 ->
  (b0 = 224 -> 160 <= b1) ->
  utf8_enc1 ((b0 - 224) * 4096 + (b1 - 128) * 64 + (b2 - 128)) = [b0; b1; b2].
Proof.
  intros b0 b1 b2 H0 H1 H2 Hov. set (c := (b0 - 224) * 4096 + (b1 - 128) * 64 + (b2 - 128)).
  assert (Q1 : c / 4096 = b0 - 224)
    by (symmetry; apply (Z.div_unique c 4096 (b0 - 224) ((b1 - 128) * 64 + (b2 - 128))); unfold c; lia).
  assert (Q2 : c / 64 = (b0 - 224) * 64 + (b1 - 128))
    by (symmetry; apply (Z.div_unique c 64 ((b0 - 224) * 64 + (b1 - 128)) (b2 - 128)); unfold c; lia).
  assert (M2 : (c / 64) mod 64 = b1 - 128)
    by (rewrite Q2; symmetry; apply (Z.mod_unique _ 64 (b0 - 224) (b1 - 128)); lia).
  assert (M : c mod 64 = b2 - 128)
    by (symmetry; apply (Z.mod_unique c 64 ((b0 - 224) * 64 + (b1 - 128)) (b2 - 128)); unfold c; lia).
  unfold utf8_enc1.
  replace (c <? 128) with false by (symmetry; apply Z.ltb_ge; unfold c; lia).
  replace (c <? 2048) with false by (symmetry; apply Z.ltb_ge; unfold c; lia).
  replace (c <? 65536) with true by (symmetry; apply Z.ltb_lt; unfold c; lia).
  rewrite Q1, M2, M. f_equal; [lia | f_equal; [lia | f_equal; lia]].
Qed.

Lemma enc_4 : forall b0 b1 b2 b3, 240 <= b0 <= 244 -> 128 <= b1 <= 191 -> 128 <= b2 <= 191 -> 128 <= b3 <= 191 ->
  (b0 = 240 -> 144 <= b1) ->
  utf8_enc1 ((b0 - 240) * 262144 + (b1 - 128) * 4096 + (b2 - 128) * 64 + (b3 - 128)) = [b0; b1; b2; b3].
Proof.
  intros b0 b1 b2 b3 H0 H1 H2 H3 Hov.
  set (c := (b0 - 240) * 262144 + (b1 - 128) * 4096 + (b2 - 128) * 64 + (b3 - 128)).
  assert (Q1 : c / 262144 = b0 - 240)
    by (symmetry; apply (Z.div_unique c 262144 (b0 - 240) ((b1 - 128) * 4096 + (b2 - 128) * 64 + (b3 - 128))); unfold c; lia).
  assert (Q2 : c / 4096 = (b0 - 240) * 64 + (b1 - 128))
    by (symmetry; apply (Z.div_unique c 4096 ((b0 - 240) * 64 + (b1 - 128)) ((b2 - 128) * 64 + (b3 - 128))); unfold c; lia).
  assert (Q3 : c / 64 = (b0 - 240) * 4096 + (b1 - 128) * 64 + (b2 - 128))
    by (symmetry; apply (Z.div_unique c 64 ((b0 - 240) * 4096 + (b1 - 128) * 64 + (b2 - 128)) (b3 - 128)); unfold c; lia).
  assert (M2 : (c / 4096) mod 64 = b1 - 128)
    by (rewrite Q2; symmetry; apply (Z.mod_unique _ 64 (b0 - 240) (b1 - 128)); lia).
  assert (M3 : (c / 64) mod 64 = b2 - 128)
    by (rewrite Q3; symmetry; apply (Z.mod_unique _ 64 ((b0 - 240) * 64 + (b1 - 128)) (b2 - 128)); lia).
  assert (M : c mod 64 = b3 - 128)
    by (symmetry; apply (Z.mod_unique c 64 ((b0 - 240) * 4096 + (b1 - 128) * 64 + (b2 - 128)) (b3 - 128)); unfold c; lia).
  unfold utf8_enc1.
  replace (c <? 128) with false by (symmetry; apply Z.ltb_ge; unfold c; lia).
  replace (c <? 2048) with false by (symmetry; apply Z.ltb_ge; unfold c; lia).
  replace (c <? 65536) with false by (symmetry; apply Z.ltb_ge; unfold c; lia).
  rewrite Q1, M2, M3, M. f_equal; [lia | f_equal; [lia | f_equal; [lia | f_equal; lia]]].
Qed.

(* what decodes, encodes back to the same bytes: valid UTF-8 output of a child
   is carried byte for byte in the payload *)
Lemma decode_encode_fuel : forall f s t, utf8_decode_fuel f s = Some t -> utf8_encode t = s.
Proof.
  induction f as [|f IH]; intros s t H.
  - destruct s; simpl in H; [injection H as <-; reflexivity | discriminate].
  - destruct s as [|b0 r]; cbn [utf8_decode_fuel] in H; [injection H as <-; reflexivity|].
    destruct (inr 0 127 b0) eqn:E0.
    { destruct (utf8_decode_fuel f r) as [l|] eqn:Er; [|discriminate]. cbn in H. injection H as <-.
      apply inr_spec in E0. unfold utf8_encode. cbn [flat_map]. fold (utf8_encode l). rewrite (IH r l Er).
      unfold utf8_enc1. replace (b0 <? 128) with true by (symmetry; apply Z.ltb_lt; lia). reflexivity. }
    destruct (inr 194 223 b0) eqn:E1.
    { destruct r as [|b1 r']; [discriminate|]. destruct (cont b1) eqn:C1; [|discriminate].
      destruct (utf8_decode_fuel f r') as [l|] eqn:Er; [|discriminate]. cbn in H. injection H as <-.
      apply inr_spec in E1. unfold cont in C1. apply inr_spec in C1.
      unfold utf8_encode. cbn [flat_map]. fold (utf8_encode l). rewrite (IH r' l Er).
      rewrite enc_2 by lia. reflexivity. }
    destruct (inr 224 239 b0) eqn:E2.
    { destruct r as [|b1 [|b2 r']]; try discriminate.
      destruct ((if b0 =? 224 then inr 160 191 b1 else if b0 =? 237 then inr 128 159 b1 else cont b1) && cont b2) eqn:C; [|discriminate].
      destruct (utf8_decode_fuel f r') as [l|] eqn:Er; [|discriminate]. cbn in H. injection H as <-.
      apply andb_true_iff in C. destruct C as [C1 C2]. unfold cont in C2. apply inr_spec in C2. apply inr_spec in E2.
      assert (B1 : 128 <= b1 <= 191 /\ (b0 = 224 -> 160 <= b1)).
      { destruct (b0 =? 224) eqn:A; [apply Z.eqb_eq in A; apply inr_spec in C1; lia|].
        apply Z.eqb_neq in A. destruct (b0 =? 237); [apply inr_spec in C1; lia|].
        unfold cont in C1. apply inr_spec in C1. lia. }
      unfold utf8_encode. cbn [flat_map]. fold (utf8_encode l). rewrite (IH r' l Er).
      rewrite enc_3 by (try lia; tauto). reflexivity. }
    destruct (inr 240 244 b0) eqn:E3; [|discriminate].
    { destruct r as [|b1 [|b2 [|b3 r']]]; try discriminate.
      destruct ((if b0 =? 240 then inr 144 191 b1 else if b0 =? 244 then inr 128 143 b1 else cont b1) && cont b2 && cont b3) eqn:C; [|discriminate].
      destruct (utf8_decode_fuel f r') as [l|] eqn:Er; [|discriminate]. cbn in H. injection H as <-.
      apply andb_true_iff in C. destruct C as [C C3]. apply andb_true_iff in C. destruct C as [C1 C2].
      unfold cont in C2, C3. apply inr_spec in C2. apply inr_spec in C3. apply inr_spec in E3.
      assert (B1 : 128 <= b1 <= 191 /\ (b0 = 240 -> 144 <= b1)).
      { destruct (b0 =? 240) eqn:A; [apply Z.eqb_eq in A; apply inr_spec in C1; lia|].
        apply Z.eqb_neq in A. destruct (b0 =? 244); [apply inr_spec in C1; lia|].
        unfold cont in C1. apply inr_spec in C1. lia. }
      unfold utf8_encode. cbn [flat_map]. fold (utf8_encode l). rewrite (IH r' l Er).
      rewrite enc_4 by (try lia; tauto). reflexivity. }
Qed.

Theorem decode_encode : forall s t, utf8_decode s = Some t -> utf8_encode t = s.
Proof. intros s t. unfold utf8_decode. apply decode_encode_fuel. Qed.

Example parse_print_example : parse_dec (print_dec 1234567890123) = Some 1234567890123 /\
                              print_dec (-40) = [45; 52; 48] /\ print_dec 0 = [48].
Proof. vm_compute. repeat split. Qed.

Example utf8_example : utf8_encode [104; 233; 8364; 128512] = [104; 195; 169; 226; 130; 172; 240; 159; 152; 128]
                       /\ utf8_decode [104; 195; 169; 226; 130; 172; 240; 159; 152; 128] = Some [104; 233; 8364; 128512]
                       /\ utf8_decode [237; 160; 128] = None.
Proof. vm_compute. repeat split. Qed.
