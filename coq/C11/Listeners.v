(* C11, part 7: one pool with several listeners: who is sent which event, in
   which order, when listeners acknowledge (OK), reject (FAIL), violate the
   protocol (malformed RESULT line -> UNKNOWN) or die (reaped by
   Subprocess.finish while BUSY).  Model of EventListenerPool.dispatch /
   _dispatchEvent / handle_rejected, PEventListenerDispatcher's result handling
   and the tail of Subprocess.finish.  Event ids are the serials, assigned in
   order of emission.  No proofs here. *)
From Coq Require Import ZArith List Bool.
Import ListNotations.
Require Import SV.C11.Base.
Open Scope Z_scope.

Inductive lstate :=
| LAck            (* ACKNOWLEDGED: waiting for READY *)
| LReady
| LBusy (ev : Z)  (* process.event = ev *)
| LUnknown        (* protocol violated; process.event = None *)
| LDead           (* reaped: not RUNNING any more *)
| LBroken.        (* READY, but writing to its stdin raises EPIPE (the child died, not reaped yet): _dispatchEvent skips it *)

Inductive lop :=
| LEmit                 (* an event the pool subscribes to is raised *)
| LDispatch             (* pool.dispatch() *)
| LSayReady (i : nat)   (* listener i writes READY\n *)
| LOk (i : nat)         (* RESULT 2\nOK *)
| LFail (i : nat)       (* RESULT 4\nFAIL *)
| LGarbage (i : nat)    (* a malformed result line *)
| LReap (i : nat)       (* the listener process is reaped: Subprocess.finish *)
| LBreak (i : nat).     (* the READY listener's child dies: from now on a write to its stdin raises EPIPE *)

(* what an observer of the listeners' stdin and stdout sees, newest first *)
Inductive lentry := Sent (i : nat) (ev : Z) | Acked (i : nat) (ev : Z).

Record lpool := mkL {
  l_buf : list Z;
  l_ls : list lstate;
  l_next : Z;             (* next serial *)
  l_log : list lentry;    (* newest first *)
}.

Fixpoint first_ready (ls : list lstate) (i : nat) : option nat :=
  match ls with
  | [] => None
  | LReady :: _ => Some i
  | _ :: r => first_ready r (S i)
  end.

Fixpoint set_nth (ls : list lstate) (i : nat) (v : lstate) : list lstate :=
  match ls, i with
  | [], _ => []
  | _ :: r, O => v :: r
  | x :: r, S j => x :: set_nth r j v
  end.

(* while self.event_buffer: pop the oldest, send it to the first READY listener;
   when there is none put it back at the head and stop *)
Fixpoint dispatch_loop (fuel : nat) (s : lpool) : lpool :=
  match fuel with
  | O => s
  | S f =>
    match l_buf s with
    | [] => s
    | ev :: r =>
      match first_ready (l_ls s) O with
      | Some i => dispatch_loop f (mkL r (set_nth (l_ls s) i (LBusy ev)) (l_next s) (Sent i ev :: l_log s))
      | None => s
      end
    end
  end.

Definition lstep (s : lpool) (o : lop) : lpool :=
  match o with
  | LEmit => mkL (l_buf s ++ [l_next s]) (l_ls s) (l_next s + 1) (l_log s)
  | LDispatch => dispatch_loop (length (l_buf s)) s
  | LSayReady i =>
    match nth i (l_ls s) LDead with
    | LAck => mkL (l_buf s) (set_nth (l_ls s) i LReady) (l_next s) (l_log s)
    | _ => s
    end
  | LOk i =>
    match nth i (l_ls s) LDead with
    | LBusy ev => mkL (l_buf s) (set_nth (l_ls s) i LAck) (l_next s) (Acked i ev :: l_log s)
    | _ => s
    end
  | LFail i =>
    match nth i (l_ls s) LDead with
    | LBusy ev => mkL (ev :: l_buf s) (set_nth (l_ls s) i LAck) (l_next s) (l_log s)
    | _ => s
    end
  | LGarbage i =>
    match nth i (l_ls s) LDead with
    | LBusy ev => mkL (ev :: l_buf s) (set_nth (l_ls s) i LUnknown) (l_next s) (l_log s)
    | _ => s
    end
  | LReap i =>
    match nth i (l_ls s) LDead with
    | LBusy ev => mkL (ev :: l_buf s) (set_nth (l_ls s) i LDead) (l_next s) (l_log s)   (* finish(): event rejected *)
    | LDead => s
    | _ => mkL (l_buf s) (set_nth (l_ls s) i LDead) (l_next s) (l_log s)
    end
  | LBreak i =>
    match nth i (l_ls s) LDead with
    | LReady => mkL (l_buf s) (set_nth (l_ls s) i LBroken) (l_next s) (l_log s)
    | _ => s
    end
  end.

Definition lrun (n : nat) (l : list lop) : lpool :=
  fold_left lstep l (mkL [] (repeat LAck n) 0 []).

(* serials sent to listener i, oldest first *)
Definition sent_to (s : lpool) (i : nat) : list Z :=
  rev (flat_map (fun e => match e with Sent j ev => if Nat.eqb i j then [ev] else [] | _ => [] end) (l_log s)).

(* THE MONITOR: once an event has been acknowledged OK it is never sent again *)
Fixpoint acked_in (ev : Z) (log : list lentry) : bool :=
  match log with
  | [] => false
  | Acked _ e :: r => (e =? ev) || acked_in ev r
  | _ :: r => acked_in ev r
  end.

Fixpoint once_after_ok (log : list lentry) : bool :=   (* log newest first *)
  match log with
  | [] => true
  | Sent _ ev :: older => negb (acked_in ev older) && once_after_ok older
  | _ :: older => once_after_ok older
  end.
