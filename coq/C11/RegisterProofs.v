(* C11: an event type registered at run time is named from then on, whenever
   the registration happens relative to other look-ups. *)
From Coq Require Import ZArith List Bool Lia.
Import ListNotations.
Require Import SV.Common SV.C11.Base SV.C11.Gen_events SV.C11.Envelope SV.C11.Register SV.C11.EnvelopeProofs.
Open Scope Z_scope.

Lemma xclass_eqb_refl : forall c, xclass_eqb c c = true.
Proof. intros [c|k]; cbn; [apply evclass_eqb_refl | apply Z.eqb_refl]. Qed.

Lemma xclass_eqb_eq : forall a b, xclass_eqb a b = true -> a = b.
Proof.
  intros [c|j] [d|k] H; cbn in H; try discriminate.
  - apply evclass_eqb_eq in H. subst. reflexivity.
  - apply Z.eqb_eq in H. subst. reflexivity.
Qed.

(* the class registered gets the name, at once *)
Theorem register_visible : forall t n c, xlookup t c = None -> xlookup (register t n c) c = Some n.
Proof.
  induction t as [|[n0 d] r IH]; intros n c H.
  - cbn. rewrite xclass_eqb_refl. reflexivity.
  - cbn [xlookup] in H. destruct (xclass_eqb d c) eqn:E; [discriminate|].
    cbn [register]. destruct (zlist_eqb n0 n) eqn:E2.
    + apply zlist_eqb_eq in E2. subst n0. cbn [xlookup]. rewrite xclass_eqb_refl. reflexivity.
    + cbn [xlookup]. rewrite E. apply IH. assumption.
Qed.

(* nobody else's name changes when the name is new *)
Theorem register_frame : forall t n c c', (forall e, In e t -> fst e <> n) -> c' <> c ->
  xlookup (register t n c) c' = xlookup t c'.
Proof.
  induction t as [|[n0 d] r IH]; intros n c c' Hf Hne.
  - cbn. destruct (xclass_eqb c c') eqn:E; [apply xclass_eqb_eq in E; congruence | reflexivity].
  - cbn [register]. destruct (zlist_eqb n0 n) eqn:E2.
    + apply zlist_eqb_eq in E2. exfalso. apply (Hf (n0, d)); [left; reflexivity | assumption].
    + cbn [xlookup]. destruct (xclass_eqb d c'); [reflexivity|].
      apply IH; [intros e He; apply Hf; right; assumption | assumption].
Qed.

(* in a history: a look-up made after the registration answers the registered name,
   however many look-ups (envelopes) came before the registration *)
Theorem register_any_time : forall before n c, xlookup initial_table c = None ->
  (forall o, In o before -> exists c0, o = XLookup c0) ->
  nth (length before) (xrun initial_table (before ++ [XRegister n c; XLookup c])) None = Some n.
Proof.
  intros before n c H Hb. generalize dependent initial_table.
  induction before as [|o r IH]; intros t H.
  - cbn. apply register_visible. assumption.
  - destruct (Hb o (or_introl eq_refl)) as [c0 ->]. cbn [app xrun length nth].
    apply IH; [intros o' Ho'; apply Hb; right; assumption | assumption].
Qed.

Example register_example :
  xrun initial_table [XLookup (Builtin Tick5Event); XLookup (Ext 1); XRegister (s2z_FOO) (Ext 1); XLookup (Ext 1);
                      XLookup (Builtin Tick5Event)]
  = [Some T_TICK_5; None; Some s2z_FOO; Some T_TICK_5].
Proof. vm_compute. reflexivity. Qed.
