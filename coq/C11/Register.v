(* C11, part 8: event types registered at run time (events.register) and what
   getEventNameByType answers for them.  The built-in classes are the generated
   `evclass`; an extension class is identified by a number.  No proofs here. *)
From Coq Require Import ZArith List Bool.
Import ListNotations.
Require Import SV.Common SV.C11.Base SV.C11.Gen_events SV.C11.Envelope.
Open Scope Z_scope.

Inductive xclass := Builtin (c : evclass) | Ext (k : Z).

Definition xclass_eqb (a b : xclass) : bool :=
  match a, b with
  | Builtin c, Builtin d => evclass_eqb c d
  | Ext j, Ext k => j =? k
  | _, _ => false
  end.

(* EventTypes.__dict__ restricted to classes, in order *)
Definition xtable := list (bytes * xclass).

Definition initial_table : xtable := map (fun e => (fst e, Builtin (snd e))) event_types.

(* def register(name, event): setattr(EventTypes, name, event)
   an existing attribute keeps its place in __dict__, a new one goes to the end *)
Fixpoint register (t : xtable) (name : bytes) (c : xclass) : xtable :=
  match t with
  | [] => [(name, c)]
  | (n, d) :: r => if zlist_eqb n name then (n, c) :: r else (n, d) :: register r name c
  end.

(* getEventNameByType: scans the class dictionary on EVERY call - nothing is remembered *)
Fixpoint xlookup (t : xtable) (c : xclass) : option bytes :=
  match t with
  | [] => None
  | (n, d) :: r => if xclass_eqb d c then Some n else xlookup r c
  end.

(* a history: name look-ups (as _eventEnvelope makes them) interleaved with registrations;
   the answers of the look-ups, in order *)
Inductive xop := XLookup (c : xclass) | XRegister (name : bytes) (c : xclass).

Fixpoint xrun (t : xtable) (l : list xop) : list (option bytes) :=
  match l with
  | [] => []
  | XLookup c :: r => xlookup t c :: xrun t r
  | XRegister n c :: r => xrun (register t n c) r
  end.
