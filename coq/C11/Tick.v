(* C11, part 3: model of supervisor/supervisord.py `timeslice` and
   `Supervisor.tick` (and the dict `Supervisor.ticks`).

   Clock readings are integers: either whole seconds, or - to cover float
   readings - ticks with U ticks per second (reading r stands for the float
   r / U; the harness uses U a power of two so that every such float and every
   intermediate result of `when - when % period` is exact in IEEE arithmetic;
   rounding of other floats is outside the model).  No proofs here. *)
From Coq Require Import ZArith List Bool.
Import ListNotations.
Require Import SV.C11.Base SV.C11.Gen_events.
Open Scope Z_scope.

(* def timeslice(period, when): return int(when - (when % period))   -- when an int
   (Python's % has the sign of the divisor, like Z.modulo for period > 0) *)
Definition timeslice (period now : Z) : Z := now - now mod period.

(* the same for the float r / U:  r/U - ((r/U) % period) = (r - r mod (period*U)) / U,
   which is an integer, so int() truncates nothing *)
Definition timeslice_U (U period r : Z) : Z := (r - r mod (period * U)) / U.

(* self.ticks: dict period -> last slice, as an association list *)
Definition ticks := list (Z * Z).

Fixpoint ticks_get (t : ticks) (p : Z) : option Z :=
  match t with
  | [] => None
  | (k, v) :: r => if k =? p then Some v else ticks_get r p
  end.

Fixpoint ticks_set (t : ticks) (p v : Z) : ticks :=
  match t with
  | [] => [(p, v)]
  | (k, w) :: r => if k =? p then (k, v) :: r else (k, w) :: ticks_set r p v
  end.

Section Tick.
  Variable U : Z.   (* ticks per second; 1 for integer readings *)

  (* one iteration of `for event in events.TICK_EVENTS` *)
  Definition tick_one (t : ticks) (ev : evclass * Z) (now : Z) : ticks * list (evclass * Z) :=
    let period := snd ev in
    let '(t, last_tick) :=
        match ticks_get t period with
        | None => let s := timeslice_U U period now in (ticks_set t period s, s)   (* we just started up *)
        | Some l => (t, l)
        end in
    let this_tick := timeslice_U U period now in
    if negb (this_tick =? last_tick)
    then (ticks_set t period this_tick, [(fst ev, this_tick)])
    else (t, []).

  (* Supervisor.tick(now): returns the new dict and the TickEvents notified, in order *)
  Fixpoint tick_loop (evs : list (evclass * Z)) (t : ticks) (now : Z) : ticks * list (evclass * Z) :=
    match evs with
    | [] => (t, [])
    | ev :: r =>
      let '(t1, out1) := tick_one t ev now in
      let '(t2, out2) := tick_loop r t1 now in
      (t2, out1 ++ out2)
    end.

  Definition tick (t : ticks) (now : Z) : ticks * list (evclass * Z) := tick_loop tick_events t now.

  (* the main loop calls tick() once per pass: the notifications of every pass *)
  Fixpoint run_ticks_from (evs : list (evclass * Z)) (t : ticks) (readings : list Z) : list (list (evclass * Z)) :=
    match readings with
    | [] => []
    | now :: r => let '(t', out) := tick_loop evs t now in out :: run_ticks_from evs t' r
    end.

  Definition run_ticks (readings : list Z) : list (list (evclass * Z)) :=
    run_ticks_from tick_events [] readings.
End Tick.
