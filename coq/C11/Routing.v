(* C11, part 5: which notifications reach a pool.  Model of
   EventListenerPool._subscription_types / _subscribe and of events.notify as
   far as one pool is concerned: how many times the pool's callback is called
   for one event, i.e. how many envelopes of that event its listener receives.
   (Buffering, serial numbers and listener selection are C09's subject.)
   No proofs here. *)
From Coq Require Import ZArith List Bool.
Import ListNotations.
Require Import SV.C11.Base SV.C11.Gen_events SV.C11.Envelope.
Open Scope Z_scope.

Definition cls_in (c : evclass) (l : list evclass) : bool := existsb (evclass_eqb c) l.

(* for event_type in pool_events:
       if event_type in event_types: continue
       if [t for t in pool_events if t is not event_type and issubclass(event_type, t)]: continue
       event_types.append(event_type) *)
Fixpoint sub_types_loop (pe rest acc : list evclass) : list evclass :=
  match rest with
  | [] => acc
  | e :: r =>
    if cls_in e acc then sub_types_loop pe r acc
    else if existsb (fun t => negb (evclass_eqb t e) && descends e t) pe then sub_types_loop pe r acc
    else sub_types_loop pe r (acc ++ [e])
  end.

Definition subscription_types (pe : list evclass) : list evclass := sub_types_loop pe pe [].

(* events.notify(event): one call of the pool's callback per subscribed type
   the event is an instance of *)
Definition deliveries (pe : list evclass) (c : evclass) : Z :=
  Z.of_nat (length (filter (fun t => descends c t) (subscription_types pe))).

(* ------------------------------------------------------------ events.callbacks over time *)

(* events.callbacks restricted to the pools' _acceptEvent callbacks: (type, pool)
   in subscription order; a pool is identified by its group name (a number here) *)
Definition callbacks := list (evclass * Z).

Definition cb_eqb (a b : evclass * Z) : bool := evclass_eqb (fst a) (fst b) && (snd a =? snd b).

(* def subscribe(type, callback): callbacks.append((type, callback)) *)
Definition subscribe (cbs : callbacks) (t : evclass) (p : Z) : callbacks := cbs ++ [(t, p)].

(* def unsubscribe(type, callback): callbacks.remove((type, callback))
   list.remove deletes the FIRST equal entry; None = ValueError when there is none *)
Fixpoint unsubscribe (cbs : callbacks) (t : evclass) (p : Z) : option callbacks :=
  match cbs with
  | [] => None
  | e :: r =>
    if cb_eqb e (t, p) then Some r
    else match unsubscribe r t p with
         | Some r' => Some (e :: r')
         | None => None
         end
  end.

(* EventListenerPool._subscribe / _unsubscribe (the EventRejectedEvent entry has
   another callback, handle_rejected, and never produces an envelope) *)
Definition pool_subscribe (cbs : callbacks) (pe : list evclass) (p : Z) : callbacks :=
  fold_left (fun c t => subscribe c t p) (subscription_types pe) cbs.

Fixpoint unsubscribe_all (cbs : callbacks) (l : list evclass) (p : Z) : option callbacks :=
  match l with
  | [] => Some cbs
  | t :: r => match unsubscribe cbs t p with
              | Some cbs' => unsubscribe_all cbs' r p
              | None => None
              end
  end.

Definition pool_unsubscribe (cbs : callbacks) (pe : list evclass) (p : Z) : option callbacks :=
  unsubscribe_all cbs (subscription_types pe) p.

(* events.notify(event of class c): how many times pool p's callback is called *)
Definition notify_deliveries (cbs : callbacks) (c : evclass) (p : Z) : Z :=
  Z.of_nat (length (filter (fun e => (snd e =? p) && descends c (fst e)) cbs)).

(* the daemon's pools over time: Supervisor.add_process_group(config) builds the
   pool (which subscribes) unless the name exists; remove_process_group(name) on a
   stopped pool calls before_remove() (which unsubscribes) and forgets it *)
Inductive wop := WAdd (p : Z) (pe : list evclass) | WRemove (p : Z)
  | WRemoveRefused (p : Z).   (* remove_process_group on a pool that still has unstopped processes: returns False, nothing changes *)

Definition registry := list (Z * list evclass).

Fixpoint reg_get (reg : registry) (p : Z) : option (list evclass) :=
  match reg with
  | [] => None
  | (q, pe) :: r => if q =? p then Some pe else reg_get r p
  end.

Definition reg_del (reg : registry) (p : Z) : registry := filter (fun e => negb (fst e =? p)) reg.

Inductive world := World (cbs : callbacks) (reg : registry) | WorldError.

Definition wstep (w : world) (o : wop) : world :=
  match w with
  | WorldError => WorldError
  | World cbs reg =>
    match o with
    | WAdd p pe =>
      match reg_get reg p with
      | Some _ => w
      | None => World (pool_subscribe cbs pe p) ((p, pe) :: reg)
      end
    | WRemove p =>
      match reg_get reg p with
      | None => w                                   (* KeyError, nothing happens *)
      | Some pe =>
        match pool_unsubscribe cbs pe p with
        | Some cbs' => World cbs' (reg_del reg p)
        | None => WorldError                        (* ValueError out of list.remove *)
        end
      end
    | WRemoveRefused _ => w
    end
  end.

Definition wrun (l : list wop) : world := fold_left wstep l (World [] []).

Definition world_deliveries (w : world) (c : evclass) (p : Z) : Z :=
  match w with
  | World cbs _ => notify_deliveries cbs c p
  | WorldError => -1
  end.

(* ------------------------------------------------------------ rejected events (two or more pools) *)

(* One listener per pool.  What a pool's listener is sent, in order, as event
   ids (the global serial), when events are raised, pools dispatch, listeners
   answer OK / FAIL and say READY.  A FAIL answer raises EventRejectedEvent(process,
   event), which EVERY pool's handle_rejected sees; only the pool that owns the
   process rebuffers the event (at the head). *)
Record qstate := mkQ {
  q_pe : list evclass;       (* pool_events *)
  q_buf : list Z;            (* event_buffer, oldest first *)
  q_busy : option Z;         (* process.event of the listener while BUSY *)
  q_ready : bool;            (* listener_state = READY *)
  q_sent : list Z;           (* envelopes written to the listener's stdin so far *)
}.

Inductive rop :=
| REmit (c : evclass) (id : Z)     (* events.notify of an event of class c with serial id *)
| RDispatch                        (* every pool's dispatch() *)
| RAnswer (p : Z) (ok : bool)      (* listener of pool p writes RESULT 2\nOK / RESULT 4\nFAIL *)
| RReady (p : Z).                  (* listener of pool p writes READY\n *)

Definition q_emit (s : qstate) (c : evclass) (id : Z) : qstate :=
  mkQ (q_pe s) (q_buf s ++ repeat id (Z.to_nat (Z.min 5 (deliveries (q_pe s) c)))) (q_busy s) (q_ready s) (q_sent s).

Definition q_dispatch (s : qstate) : qstate :=
  match q_ready s, q_buf s with
  | true, h :: r => mkQ (q_pe s) r (Some h) false (q_sent s ++ [h])
  | _, _ => s
  end.

(* handle_rejected(event) in pool q for a rejection by the listener of pool `owner` *)
Definition q_handle_rejected (q : Z) (s : qstate) (owner : Z) (ev : Z) : qstate :=
  if q =? owner then mkQ (q_pe s) (ev :: q_buf s) (q_busy s) (q_ready s) (q_sent s) else s.

Definition q_answered (s : qstate) : qstate := mkQ (q_pe s) (q_buf s) None false (q_sent s).
Definition q_set_ready (s : qstate) : qstate := mkQ (q_pe s) (q_buf s) (q_busy s) true (q_sent s).

Definition pools := list (Z * qstate).

Fixpoint pools_get (w : pools) (p : Z) : option qstate :=
  match w with
  | [] => None
  | (q, s) :: r => if q =? p then Some s else pools_get r p
  end.

Definition rstep (w : pools) (o : rop) : pools :=
  match o with
  | REmit c id => map (fun e => (fst e, q_emit (snd e) c id)) w
  | RDispatch => map (fun e => (fst e, q_dispatch (snd e))) w
  | RReady p => map (fun e => (fst e, if fst e =? p then q_set_ready (snd e) else snd e)) w
  | RAnswer p ok =>
    match pools_get w p with
    | Some sp =>
      match q_busy sp with
      | Some ev =>
        (* the owner leaves BUSY; on FAIL the rejection is announced to every pool *)
        let w1 := map (fun e => (fst e, if fst e =? p then q_answered (snd e) else snd e)) w in
        if ok then w1
        else map (fun e => (fst e, q_handle_rejected (fst e) (snd e) p ev)) w1
      | None => w
      end
    | None => w
    end
  end.

Definition rrun (w : pools) (l : list rop) : pools := fold_left rstep l w.

Definition new_pool (pe : list evclass) : qstate := mkQ pe [] None false [].

Definition sent_of (w : pools) (p : Z) : list Z :=
  match pools_get w p with Some s => q_sent s | None => [] end.

(* the same pool seen in isolation: it hears the emissions and dispatches, its own
   listener, and nothing of the other pools *)
Definition q_local (q : Z) (s : qstate) (o : rop) : qstate :=
  match o with
  | REmit c id => q_emit s c id
  | RDispatch => q_dispatch s
  | RReady p => if q =? p then q_set_ready s else s
  | RAnswer p ok =>
    if q =? p then
      match q_busy s with
      | Some ev => if ok then q_answered s else q_handle_rejected q (q_answered s) q ev
      | None => s
      end
    else s
  end.
