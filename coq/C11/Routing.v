(* C11, part 5: which notifications reach a pool.  Model of
   EventListenerPool._subscription_types / _subscribe and of events.notify as
   far as one pool is concerned: how many times the pool's callback is called
   for one event, i.e. how many envelopes of that event its listener receives.
   (Buffering, serial numbers and listener selection are C09's subject.)
   No proofs here. *)
From Coq Require Import ZArith List Bool.
Import ListNotations.
Require Import SV.C11.Base SV.C11.Gen_events SV.C11.Envelope.
Open Scope Z_scope.

Definition cls_in (c : evclass) (l : list evclass) : bool := existsb (evclass_eqb c) l.

(* for event_type in pool_events:
       if event_type in event_types: continue
       if [t for t in pool_events if t is not event_type and issubclass(event_type, t)]: continue
       event_types.append(event_type) *)
Fixpoint sub_types_loop (pe rest acc : list evclass) : list evclass :=
  match rest with
  | [] => acc
  | e :: r =>
    if cls_in e acc then sub_types_loop pe r acc
    else if existsb (fun t => negb (evclass_eqb t e) && descends e t) pe then sub_types_loop pe r acc
    else sub_types_loop pe r (acc ++ [e])
  end.

Definition subscription_types (pe : list evclass) : list evclass := sub_types_loop pe pe [].

(* events.notify(event): one call of the pool's callback per subscribed type
   the event is an instance of *)
Definition deliveries (pe : list evclass) (c : evclass) : Z :=
  Z.of_nat (length (filter (fun t => descends c t) (subscription_types pe))).

(* ------------------------------------------------------------ events.callbacks over time *)

(* events.callbacks restricted to the pools' _acceptEvent callbacks: (type, pool)
   in subscription order; a pool is identified by its group name (a number here) *)
Definition callbacks := list (evclass * Z).

Definition cb_eqb (a b : evclass * Z) : bool := evclass_eqb (fst a) (fst b) && (snd a =? snd b).

(* def subscribe(type, callback): callbacks.append((type, callback)) *)
Definition subscribe (cbs : callbacks) (t : evclass) (p : Z) : callbacks := cbs ++ [(t, p)].

(* def unsubscribe(type, callback): callbacks.remove((type, callback))
   list.remove deletes the FIRST equal entry; None = ValueError when there is none *)
Fixpoint unsubscribe (cbs : callbacks) (t : evclass) (p : Z) : option callbacks :=
  match cbs with
  | [] => None
  | e :: r =>
    if cb_eqb e (t, p) then Some r
    else match unsubscribe r t p with
         | Some r' => Some (e :: r')
         | None => None
         end
  end.

(* EventListenerPool._subscribe / _unsubscribe (the EventRejectedEvent entry has
   another callback, handle_rejected, and never produces an envelope) *)
Definition pool_subscribe (cbs : callbacks) (pe : list evclass) (p : Z) : callbacks :=
  fold_left (fun c t => subscribe c t p) (subscription_types pe) cbs.

Fixpoint unsubscribe_all (cbs : callbacks) (l : list evclass) (p : Z) : option callbacks :=
  match l with
  | [] => Some cbs
  | t :: r => match unsubscribe cbs t p with
              | Some cbs' => unsubscribe_all cbs' r p
              | None => None
              end
  end.

Definition pool_unsubscribe (cbs : callbacks) (pe : list evclass) (p : Z) : option callbacks :=
  unsubscribe_all cbs (subscription_types pe) p.

(* events.notify(event of class c): how many times pool p's callback is called *)
Definition notify_deliveries (cbs : callbacks) (c : evclass) (p : Z) : Z :=
  Z.of_nat (length (filter (fun e => (snd e =? p) && descends c (fst e)) cbs)).

(* the daemon's pools over time: Supervisor.add_process_group(config) builds the
   pool (which subscribes) unless the name exists; remove_process_group(name) on a
   stopped pool calls before_remove() (which unsubscribes) and forgets it *)
Inductive wop := WAdd (p : Z) (pe : list evclass) | WRemove (p : Z).

Definition registry := list (Z * list evclass).

Fixpoint reg_get (reg : registry) (p : Z) : option (list evclass) :=
  match reg with
  | [] => None
  | (q, pe) :: r => if q =? p then Some pe else reg_get r p
  end.

Definition reg_del (reg : registry) (p : Z) : registry := filter (fun e => negb (fst e =? p)) reg.

Inductive world := World (cbs : callbacks) (reg : registry) | WorldError.

Definition wstep (w : world) (o : wop) : world :=
  match w with
  | WorldError => WorldError
  | World cbs reg =>
    match o with
    | WAdd p pe =>
      match reg_get reg p with
      | Some _ => w
      | None => World (pool_subscribe cbs pe p) ((p, pe) :: reg)
      end
    | WRemove p =>
      match reg_get reg p with
      | None => w                                   (* KeyError, nothing happens *)
      | Some pe =>
        match pool_unsubscribe cbs pe p with
        | Some cbs' => World cbs' (reg_del reg p)
        | None => WorldError                        (* ValueError out of list.remove *)
        end
      end
    end
  end.

Definition wrun (l : list wop) : world := fold_left wstep l (World [] []).

Definition world_deliveries (w : world) (c : evclass) (p : Z) : Z :=
  match w with
  | World cbs _ => notify_deliveries cbs c p
  | WorldError => -1
  end.
