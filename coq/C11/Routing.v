(* C11, part 5: which notifications reach a pool.  Model of
   EventListenerPool._subscription_types / _subscribe and of events.notify as
   far as one pool is concerned: how many times the pool's callback is called
   for one event, i.e. how many envelopes of that event its listener receives.
   (Buffering, serial numbers and listener selection are C09's subject.)
   No proofs here. *)
From Coq Require Import ZArith List Bool.
Import ListNotations.
Require Import SV.C11.Base SV.C11.Gen_events SV.C11.Envelope.
Open Scope Z_scope.

Definition cls_in (c : evclass) (l : list evclass) : bool := existsb (evclass_eqb c) l.

(* for event_type in pool_events:
       if event_type in event_types: continue
       if [t for t in pool_events if t is not event_type and issubclass(event_type, t)]: continue
       event_types.append(event_type) *)
Fixpoint sub_types_loop (pe rest acc : list evclass) : list evclass :=
  match rest with
  | [] => acc
  | e :: r =>
    if cls_in e acc then sub_types_loop pe r acc
    else if existsb (fun t => negb (evclass_eqb t e) && descends e t) pe then sub_types_loop pe r acc
    else sub_types_loop pe r (acc ++ [e])
  end.

Definition subscription_types (pe : list evclass) : list evclass := sub_types_loop pe pe [].

(* events.notify(event): one call of the pool's callback per subscribed type
   the event is an instance of *)
Definition deliveries (pe : list evclass) (c : evclass) : Z :=
  Z.of_nat (length (filter (fun t => descends c t) (subscription_types pe))).
