(* C11: the capture buffer tells the truth about what the process wrote. *)
From Coq Require Import ZArith List Bool Lia.
Import ListNotations.
Require Import SV.C11.Base SV.C11.Utf8 SV.C11.Capture.
Open Scope Z_scope.

Lemma zlen_app : forall (a b : bytes), zlen (a ++ b) = zlen a + zlen b.
Proof. intros. unfold zlen. rewrite app_length. lia. Qed.

Lemma zlen_nonneg : forall (a : bytes), 0 <= zlen a.
Proof. intros. unfold zlen. lia. Qed.

Lemma gtb_false : forall a m, a <= m -> (a >? m) = false.
Proof. intros. rewrite Z.gtb_ltb. apply Z.ltb_ge. assumption. Qed.

Lemma bound_write_fits : forall m buf b, zlen buf + zlen b <= m -> bound_write m buf b = buf ++ b.
Proof.
  intros m buf b H. unfold bound_write.
  rewrite (gtb_false _ _ H). rewrite zlen_app, (gtb_false _ _ H). reflexivity.
Qed.

(* WHOLE: data that fits capture_maxbytes is carried whole, in whatever pieces it was logged *)
Theorem capture_whole_from : forall m chunks buf, zlen buf + zlen (concat chunks) <= m ->
  fold_left (bound_write m) chunks buf = buf ++ concat chunks.
Proof.
  intros m. induction chunks as [|c r IH]; intros buf H.
  - simpl. rewrite app_nil_r. reflexivity.
  - cbn [concat fold_left] in *. rewrite zlen_app in H. pose proof (zlen_nonneg (concat r)).
    rewrite bound_write_fits by lia. rewrite IH by (rewrite zlen_app; lia). rewrite app_assoc. reflexivity.
Qed.

Theorem capture_whole : forall m chunks, zlen (concat chunks) <= m -> bound_writes m chunks = concat chunks.
Proof. intros m chunks H. unfold bound_writes. rewrite capture_whole_from; [reflexivity | exact H]. Qed.

Lemma skipn_suffix : forall (l : bytes) n, exists pre, l = pre ++ skipn n l.
Proof. intros l n. exists (firstn n l). symmetry. apply firstn_skipn. Qed.

Lemma zlen_skipn : forall (l : bytes) k, 0 <= k <= zlen l -> zlen (skipn (Z.to_nat k) l) = zlen l - k.
Proof. intros l k H. unfold zlen in *. rewrite skipn_length. lia. Qed.

Lemma bound_write_step : forall m buf b, 0 <= m ->
  zlen (bound_write m buf b) <= m /\ exists pre, buf ++ b = pre ++ bound_write m buf b.
Proof.
  intros m buf b Hm. unfold bound_write.
  set (buf1 := if zlen buf + zlen b >? m then skipn (Z.to_nat (Z.min (zlen b) (zlen buf))) buf else buf).
  assert (S1 : exists p1, buf = p1 ++ buf1).
  { unfold buf1. destruct (zlen buf + zlen b >? m); [apply skipn_suffix | exists []; reflexivity]. }
  destruct S1 as [p1 E1].
  pose proof (zlen_nonneg (buf1 ++ b)) as N.
  destruct (zlen (buf1 ++ b) >? m) eqn:E.
  - apply Z.gtb_lt in E. rewrite Z.min_l by lia. split.
    + rewrite zlen_skipn by lia. lia.
    + destruct (skipn_suffix (buf1 ++ b) (Z.to_nat (zlen (buf1 ++ b) - m))) as [p2 E2].
      exists (p1 ++ p2). rewrite E1 at 1. rewrite <- !app_assoc. f_equal. exact E2.
  - rewrite Z.gtb_ltb in E. apply Z.ltb_ge in E. split; [lia|].
    exists p1. rewrite E1 at 1. rewrite <- app_assoc. reflexivity.
Qed.

(* BOUND and NEWEST: whatever is logged, the notification carries at most
   capture_maxbytes bytes and they are the newest ones (a suffix of what was written) *)
Theorem capture_bound_suffix : forall m chunks buf, 0 <= m -> zlen buf <= m ->
  zlen (fold_left (bound_write m) chunks buf) <= m /\
  exists pre, buf ++ concat chunks = pre ++ fold_left (bound_write m) chunks buf.
Proof.
  intros m. induction chunks as [|c r IH]; intros buf Hm Hb.
  - simpl. split; [assumption|]. exists []. rewrite app_nil_r. reflexivity.
  - cbn [concat fold_left]. destruct (bound_write_step m buf c Hm) as [B [p E]].
    destruct (IH (bound_write m buf c) Hm B) as [B2 [p2 E2]]. split; [assumption|].
    exists (p ++ p2). rewrite app_assoc, E, <- !app_assoc. f_equal. exact E2.
Qed.

(* SECTIONS: each PROCESS_COMMUNICATION event of a run carries the data of its own
   BEGIN..END section only *)
Theorem blocks_independent : forall m blocks, blocks_run m [] blocks = map (bound_writes m) blocks.
Proof.
  intros m. induction blocks as [|c r IH]; [reflexivity|].
  cbn [blocks_run map]. rewrite IH. reflexivity.
Qed.

Example capture_example :
  bound_writes 8 [[1; 2; 3; 4]; [5; 6; 7; 8]] = [1; 2; 3; 4; 5; 6; 7; 8] /\
  bound_writes 8 [[1; 2; 3; 4; 5; 6; 7; 8; 9; 10]] = [3; 4; 5; 6; 7; 8; 9; 10] /\
  bound_writes 8 [[1; 2; 3; 4; 5]; [6; 7; 8; 9]] = [5; 6; 7; 8; 9].
Proof. vm_compute. repeat split. Qed.
