(* C11: theorems about the envelope, the header grammar, `len`, the event
   names and the payloads (models in Envelope.v, tables in Gen_events.v). *)
From Coq Require Import ZArith List Bool Lia.
Import ListNotations.
Require Import SV.Common SV.C11.Base SV.C11.Utf8 SV.C11.Gen_events SV.C11.Envelope SV.C11.Notify SV.C11.Utf8Proofs.
Open Scope Z_scope.

(* ------------------------------------------------------------ join / kv lines *)

Definition key_ok (k : list Z) : bool := free_of 58 k && free_of 32 k && free_of 10 k.
Definition val_ok (v : list Z) : bool := free_of 32 v && free_of 10 v.
Definition field_ok (p : list Z * list Z) : bool := key_ok (fst p) && val_ok (snd p).

Lemma clean_val_ok : forall v, clean v = true -> val_ok v = true.
Proof.
  intros v H. unfold clean in H. unfold val_ok.
  apply andb_true_iff in H. destruct H as [H H10]. apply andb_true_iff in H. destruct H as [H32 _].
  rewrite H32, H10. reflexivity.
Qed.

Lemma kv_free : forall x p, x <> 58 -> free_of x (fst p) = true -> free_of x (snd p) = true ->
  free_of x (kv p) = true.
Proof.
  intros x p Hx H1 H2. unfold kv. rewrite free_of_app, free_of_cons, H1, H2.
  replace (x =? 58) with false by (symmetry; apply Z.eqb_neq; assumption). reflexivity.
Qed.

Lemma field_ok_parts : forall p, field_ok p = true ->
  free_of 58 (fst p) = true /\ free_of 32 (fst p) = true /\ free_of 10 (fst p) = true /\
  free_of 32 (snd p) = true /\ free_of 10 (snd p) = true.
Proof.
  intros p H. unfold field_ok, key_ok, val_ok in H.
  repeat (apply andb_true_iff in H; destruct H as [H ?]).
  repeat (match goal with H : _ && _ = true |- _ => apply andb_true_iff in H; destruct H end).
  tauto.
Qed.

Lemma join_free : forall x sep l, x <> sep -> forallb (fun t => free_of x t) l = true ->
  free_of x (join sep l) = true.
Proof.
  intros x sep l Hx. induction l as [|a [|b r] IH]; intros H.
  - reflexivity.
  - simpl in *. apply andb_true_iff in H. tauto.
  - cbn [forallb] in H. apply andb_true_iff in H. destruct H as [Ha Hr].
    change (join sep (a :: b :: r)) with (a ++ sep :: join sep (b :: r)).
    rewrite free_of_app, free_of_cons, Ha, (IH Hr).
    replace (x =? sep) with false by (symmetry; apply Z.eqb_neq; assumption). reflexivity.
Qed.

(* a line of key:value tokens is read back as exactly its fields *)
Lemma parse_kv_join : forall l, l <> [] -> forallb field_ok l = true ->
  parse_kv_line (join 32 (map kv l)) = Some l.
Proof.
  unfold parse_kv_line.
  induction l as [|a [|b r] IH]; intros Hne Hok.
  - contradiction.
  - cbn [forallb] in Hok. rewrite andb_true_r in Hok.
    destruct (field_ok_parts a Hok) as (H58 & H32k & _ & H32v & _).
    cbn [map join]. rewrite split_all_free by (apply kv_free; [lia | assumption | assumption]).
    cbn [parse_tokens]. unfold kv. rewrite split_at_app by assumption. destruct a; reflexivity.
  - cbn [forallb] in Hok. apply andb_true_iff in Hok. destruct Hok as [Ha Hr].
    destruct (field_ok_parts a Ha) as (H58 & H32k & _ & H32v & _).
    change (join 32 (map kv (a :: b :: r))) with (kv a ++ 32 :: join 32 (map kv (b :: r))).
    rewrite split_all_app by (apply kv_free; [lia | assumption | assumption]).
    cbn [parse_tokens]. rewrite (IH ltac:(discriminate) Hr).
    unfold kv at 1. rewrite split_at_app by assumption. destruct a; reflexivity.
Qed.

Lemma kv_line_free_lf : forall l, forallb field_ok l = true -> free_of 10 (join 32 (map kv l)) = true.
Proof.
  intros l H. apply join_free; [lia|]. rewrite forallb_forall in *. intros t Ht.
  apply in_map_iff in Ht. destruct Ht as [p [<- Hp]]. specialize (H p Hp).
  destruct (field_ok_parts p H) as (_ & _ & K10 & _ & V10). apply kv_free; [lia | assumption | assumption].
Qed.

Lemma parse_header_join : forall l rest, l <> [] -> forallb field_ok l = true ->
  parse_header (join 32 (map kv l) ++ 10 :: rest) = Some (l, rest).
Proof.
  intros l rest Hne Hok. unfold parse_header.
  rewrite split_at_app by (apply kv_line_free_lf; assumption).
  rewrite parse_kv_join by assumption. reflexivity.
Qed.

(* UTF-8 encoding distributes over the structure of a key:value line *)
Definition enc_field (p : text * text) : bytes * bytes := (utf8_encode (fst p), utf8_encode (snd p)).

Lemma utf8_encode_kv : forall p, utf8_encode (kv p) = kv (enc_field p).
Proof. intros p. unfold kv, enc_field. cbn [fst snd]. rewrite utf8_encode_app. reflexivity. Qed.

Lemma utf8_encode_join32 : forall l, utf8_encode (join 32 l) = join 32 (map utf8_encode l).
Proof.
  induction l as [|a [|b r] IH]; try reflexivity.
  change (join 32 (a :: b :: r)) with (a ++ 32 :: join 32 (b :: r)).
  rewrite utf8_encode_app. change (32 :: join 32 (b :: r)) with ([32] ++ join 32 (b :: r)).
  rewrite utf8_encode_app, IH. reflexivity.
Qed.

Lemma utf8_encode_kv_line : forall l,
  utf8_encode (join 32 (map kv l)) = join 32 (map kv (map enc_field l)).
Proof.
  intros l. rewrite utf8_encode_join32, !map_map. f_equal. apply map_ext. apply utf8_encode_kv.
Qed.

(* ------------------------------------------------------------ the envelope *)

Ltac norm_app := unfold kv; cbn [map join fst snd app]; repeat (rewrite <- app_assoc; cbn [app]).

Lemma envelope_text_join : forall sid serial pool ps ename payload,
  envelope_text sid serial pool ps ename payload
  = join 32 (map kv (header_fields sid serial pool ps ename payload)) ++ 10 :: payload.
Proof.
  intros. unfold envelope_text, header_fields. norm_app. reflexivity.
Qed.

Definition header_bytes (sid : text) (serial : Z) (pool : text) (ps : Z) (ename : text) (nchars : Z)
  : list (bytes * bytes) :=
  [ (L_ver, L_3_0); (L_server, utf8_encode sid); (L_serial, print_dec serial);
    (L_pool, utf8_encode pool); (L_poolserial, print_dec ps); (L_eventname, utf8_encode ename);
    (L_len, print_dec nchars) ].

Lemma enc_header_fields : forall sid serial pool ps ename payload,
  map enc_field (header_fields sid serial pool ps ename payload)
  = header_bytes sid serial pool ps (opt_text ename) (zlen payload).
Proof.
  intros. unfold header_fields, header_bytes, enc_field. cbn [map fst snd].
  rewrite !(utf8_encode_ascii (print_dec _)) by apply print_dec_ascii. reflexivity.
Qed.

Lemma clean_field : forall k v, key_ok k = true -> clean v = true -> field_ok (k, v) = true.
Proof. intros k v Hk Hv. unfold field_ok. cbn [fst snd]. rewrite Hk, (clean_val_ok v Hv). reflexivity. Qed.

Lemma header_bytes_ok : forall sid serial pool ps ename n,
  in_range sid = true -> in_range pool = true -> in_range ename = true ->
  clean sid = true -> clean pool = true -> clean ename = true ->
  forallb field_ok (header_bytes sid serial pool ps ename n) = true.
Proof.
  intros. unfold header_bytes. cbn [forallb].
  rewrite !clean_field; try reflexivity; try apply print_dec_clean; try (apply clean_encode; assumption).
Qed.

(* what reaches the listener's stdin, as a function of the text *)
Lemma wire_envelope : forall sid serial pool ps ename payload,
  all_scalar (envelope_text sid serial pool ps ename payload) = true ->
  wire (envelope_text sid serial pool ps ename payload)
  = Some (join 32 (map kv (header_bytes sid serial pool ps (opt_text ename) (zlen payload)))
          ++ 10 :: utf8_encode payload).
Proof.
  intros * Hs. unfold wire. rewrite Hs. f_equal.
  rewrite envelope_text_join, utf8_encode_app.
  change (10 :: payload) with ([10] ++ payload). rewrite utf8_encode_app.
  rewrite utf8_encode_kv_line, enc_header_fields. reflexivity.
Qed.

Lemma all_scalar_app : forall a b, all_scalar (a ++ b) = all_scalar a && all_scalar b.
Proof. intros. unfold all_scalar. apply forallb_app. Qed.

Lemma all_ascii_scalar : forall t, all_ascii t = true -> all_scalar t = true.
Proof.
  intros t H. unfold all_ascii, all_scalar in *. rewrite forallb_forall in *. intros c Hc.
  specialize (H c Hc). unfold ascii, inr in H. unfold scalar, inr.
  apply andb_true_iff in H. destruct H as [H1 H2]. apply Z.leb_le in H1. apply Z.leb_le in H2.
  apply orb_true_iff. left. apply andb_true_iff; split; apply Z.leb_le; lia.
Qed.

Lemma envelope_scalar : forall sid serial pool ps ename payload,
  all_scalar sid = true -> all_scalar pool = true -> all_scalar (opt_text ename) = true ->
  all_scalar payload = true ->
  all_scalar (envelope_text sid serial pool ps ename payload) = true.
Proof.
  intros * H1 H2 H3 H4. unfold envelope_text.
  repeat rewrite all_scalar_app. rewrite H1, H2, H3, H4.
  rewrite !(all_ascii_scalar (print_dec _)) by apply print_dec_ascii. reflexivity.
Qed.

(* HEADER GRAMMAR: for identifiers and names free of space, colon and LF the
   listener reads back exactly the seven keys, in order, with the right values,
   and what follows the header line is the payload *)
Theorem header_grammar : forall sid serial pool ps ename payload,
  all_scalar sid = true -> all_scalar pool = true -> all_scalar (opt_text ename) = true ->
  all_scalar payload = true ->
  clean sid = true -> clean pool = true -> clean (opt_text ename) = true ->
  exists w,
    wire (envelope_text sid serial pool ps ename payload) = Some w /\
    parse_header w = Some (header_bytes sid serial pool ps (opt_text ename) (zlen payload),
                           utf8_encode payload).
Proof.
  intros * S1 S2 S3 S4 C1 C2 C3. eexists. split.
  - apply wire_envelope. apply envelope_scalar; assumption.
  - apply parse_header_join; [discriminate|].
    apply header_bytes_ok; try assumption; apply all_scalar_in_range; assumption.
Qed.

Lemma assoc_len_header : forall sid serial pool ps ename n,
  assoc L_len (header_bytes sid serial pool ps ename n) = Some (print_dec n).
Proof. intros. reflexivity. Qed.

(* `len` always parses back to the number of CHARACTERS of the payload text *)
Theorem len_counts_characters : forall sid serial pool ps ename (payload : text),
  option_map (fun v => parse_dec v)
             (assoc L_len (header_bytes sid serial pool ps ename (zlen payload)))
  = Some (Some (zlen payload)).
Proof. intros. rewrite assoc_len_header. cbn [option_map]. rewrite parse_print_dec. reflexivity. Qed.

(* LEN = BYTES, positive form: with an ASCII payload the listener that reads
   exactly `len` bytes after the header line gets exactly the payload, nothing is
   left over *)
Theorem len_bytes_ascii : forall sid serial pool ps ename payload,
  all_scalar sid = true -> all_scalar pool = true -> all_scalar (opt_text ename) = true ->
  clean sid = true -> clean pool = true -> clean (opt_text ename) = true ->
  all_ascii payload = true ->
  exists w,
    wire (envelope_text sid serial pool ps ename payload) = Some w /\
    listener_read w = Some (header_bytes sid serial pool ps (opt_text ename) (zlen payload),
                            utf8_encode payload, []) /\
    parse_dec (print_dec (zlen payload)) = Some (zlen (utf8_encode payload)).
Proof.
  intros * S1 S2 S3 C1 C2 C3 A.
  destruct (header_grammar sid serial pool ps ename payload S1 S2 S3 (all_ascii_scalar _ A) C1 C2 C3)
    as [w [Hw Hp]].
  exists w. split; [exact Hw|]. rewrite (utf8_encode_ascii payload A) in *. split.
  - unfold listener_read. rewrite Hp, assoc_len_header, parse_print_dec.
    unfold zlen. replace (Z.of_nat (length payload) <? 0) with false by (symmetry; apply Z.ltb_ge; lia).
    rewrite Z.ltb_irrefl. cbn [orb]. rewrite Z.min_id, Nat2Z.id, firstn_all, skipn_all. reflexivity.
  - apply parse_print_dec.
Qed.

(* exactly when: on every payload (code points in range) len equals the byte
   count iff the payload is ASCII *)
Theorem len_bytes_iff : forall payload, in_range payload = true ->
  (parse_dec (print_dec (zlen payload)) = Some (zlen (utf8_encode payload)) <-> all_ascii payload = true).
Proof.
  intros payload Hr. rewrite parse_print_dec. unfold zlen.
  assert (Hp : forallb (fun c => 0 <=? c) payload = true).
  { unfold in_range in Hr. rewrite forallb_forall in *. intros c Hc. specialize (Hr c Hc).
    apply andb_true_iff in Hr. tauto. }
  rewrite <- (utf8_len_eq_iff payload Hp). split.
  - intro H. injection H as H. lia.
  - intro H. rewrite H. reflexivity.
Qed.

(* LEN = BYTES is false of the code as it is: a PROCESS_LOG notification for
   the output 'héllo' (process p, group g, pid 42) announces len:53 and is followed by 54 bytes *)
Definition refute_sid : text := Eval vm_compute in T_supervisor.
Definition refute_pool : text := Eval vm_compute in T_listener.
Definition refute_args : evargs :=
  ALog [112] (Some [103]) 42 (DBytes [104; 195; 169; 108; 108; 111]).

Theorem len_refuted :
  exists w kvs rest lenv n,
    dispatch_wire refute_sid refute_pool 0 0 ProcessLogStdoutEvent refute_args = Some w /\
    parse_header w = Some (kvs, rest) /\ assoc L_len kvs = Some lenv /\ parse_dec lenv = Some n /\
    n = 53 /\ zlen rest = 54.
Proof.
  do 5 eexists.
  split; [vm_compute; reflexivity|]. split; [vm_compute; reflexivity|].
  split; [vm_compute; reflexivity|]. split; [vm_compute; reflexivity|].
  split; vm_compute; reflexivity.
Qed.

(* ... and the listener that trusts len loses the last byte of the payload *)
Example len_refuted_listener :
  exists w kvs got rest,
    dispatch_wire refute_sid refute_pool 0 0 ProcessLogStdoutEvent refute_args = Some w /\
    listener_read w = Some (kvs, got, rest) /\ rest = [111].
Proof.
  do 4 eexists. split; [vm_compute; reflexivity|]. split; vm_compute; reflexivity.
Qed.

(* ------------------------------------------------------------ the stream of envelopes *)

Record env_params := mkEnv {
  e_sid : text; e_serial : Z; e_pool : text; e_ps : Z; e_name : option text; e_payload : text }.

Definition env_text (e : env_params) : text :=
  envelope_text (e_sid e) (e_serial e) (e_pool e) (e_ps e) (e_name e) (e_payload e).
Definition env_bytes (e : env_params) : bytes := utf8_encode (env_text e).
Definition env_header (e : env_params) : list (bytes * bytes) :=
  header_bytes (e_sid e) (e_serial e) (e_pool e) (e_ps e) (opt_text (e_name e)) (zlen (e_payload e)).

Definition env_ok (e : env_params) : bool :=
  all_scalar (e_sid e) && all_scalar (e_pool e) && all_scalar (opt_text (e_name e)) &&
  clean (e_sid e) && clean (e_pool e) && clean (opt_text (e_name e)) && all_ascii (e_payload e).

Lemma env_bytes_shape : forall e, env_ok e = true ->
  env_bytes e = join 32 (map kv (env_header e)) ++ 10 :: e_payload e /\
  forallb field_ok (env_header e) = true.
Proof.
  intros e H. unfold env_ok in H.
  repeat (apply andb_true_iff in H; destruct H as [H ?]).
  split.
  - unfold env_bytes, env_text. rewrite envelope_text_join, utf8_encode_app.
    change (10 :: e_payload e) with ([10] ++ e_payload e). rewrite utf8_encode_app.
    rewrite utf8_encode_kv_line, enc_header_fields, (utf8_encode_ascii (e_payload e)) by assumption.
    reflexivity.
  - apply header_bytes_ok; try assumption; apply all_scalar_in_range; assumption.
Qed.

Lemma listener_read_env : forall e more, env_ok e = true ->
  listener_read (env_bytes e ++ more) = Some (env_header e, e_payload e, more).
Proof.
  intros e more H. destruct (env_bytes_shape e H) as [Hs Hok].
  unfold listener_read. rewrite Hs, <- app_assoc. cbn [app].
  rewrite parse_header_join by (assumption || discriminate).
  unfold env_header at 1. rewrite assoc_len_header, parse_print_dec.
  unfold zlen. rewrite app_length.
  replace (Z.of_nat (length (e_payload e)) <? 0) with false by (symmetry; apply Z.ltb_ge; lia).
  replace (Z.of_nat (length (e_payload e) + length more) <? Z.of_nat (length (e_payload e)))
    with false by (symmetry; apply Z.ltb_ge; lia).
  cbn [orb]. rewrite Z.min_l by lia. rewrite Nat2Z.id.
  rewrite firstn_app, Nat.sub_diag, firstn_all, firstn_O, app_nil_r.
  rewrite skipn_app, Nat.sub_diag, skipn_all. reflexivity.
Qed.

Lemma env_bytes_nonempty : forall e more, env_ok e = true -> env_bytes e ++ more <> [].
Proof.
  intros e more H. destruct (env_bytes_shape e H) as [Hs _]. rewrite Hs.
  unfold env_header, header_bytes. cbn [map join kv fst snd]. discriminate.
Qed.

(* STREAM: whatever sequence of notifications with ASCII payloads is written to
   a listener's stdin, the byte-level reader stays synchronised and recovers
   every header and every payload, in order *)
Theorem stream_in_sync : forall es fuel, forallb env_ok es = true -> (length es <= fuel)%nat ->
  listener_stream fuel (concat (map env_bytes es))
  = Some (map (fun e => (env_header e, e_payload e)) es).
Proof.
  induction es as [|e r IH]; intros fuel Hok Hf.
  - destruct fuel; reflexivity.
  - cbn [forallb] in Hok. apply andb_true_iff in Hok. destruct Hok as [He Hr].
    cbn [map concat]. destruct fuel as [|f]; [simpl in Hf; lia|].
    pose proof (env_bytes_nonempty e (concat (map env_bytes r)) He) as Hne.
    cbn [listener_stream]. destruct (env_bytes e ++ concat (map env_bytes r)) eqn:E; [contradiction|].
    rewrite <- E. rewrite listener_read_env by assumption.
    rewrite IH by (assumption || (simpl in Hf; lia)). reflexivity.
Qed.

Example stream_example :
  let es := [ mkEnv refute_sid 7 refute_pool 3 (get_event_name_by_type Tick5Event) (payload_tick 1700000000);
              mkEnv refute_sid 8 refute_pool 4 (get_event_name_by_type ProcessGroupAddedEvent) (payload_group [103]) ] in
  forallb env_ok es = true /\
  listener_stream 2 (concat (map env_bytes es)) = Some (map (fun e => (env_header e, e_payload e)) es).
Proof. vm_compute. split; reflexivity. Qed.

(* ------------------------------------------------------------ event names *)

Lemma evclass_eqb_eq : forall a b, evclass_eqb a b = true -> a = b.
Proof. intros a b. destruct a, b; intro H; try reflexivity; discriminate H. Qed.

Lemma evclass_eqb_refl : forall a, evclass_eqb a a = true.
Proof. intros a. unfold evclass_eqb. apply Z.eqb_refl. Qed.

Lemma lookup_name_in : forall c tbl n, lookup_name c tbl = Some n -> In (n, c) tbl.
Proof.
  intros c. induction tbl as [|[n' c'] r IH]; intros n H; [discriminate|].
  simpl in H. destruct (evclass_eqb c' c) eqn:E.
  - apply evclass_eqb_eq in E. injection H as <-. subst. left. reflexivity.
  - right. apply IH. assumption.
Qed.

Definition count_class (c : evclass) (tbl : list (bytes * evclass)) : nat :=
  length (filter (fun e => evclass_eqb (snd e) c) tbl).

Lemma count_class_unique : forall c tbl n n',
  count_class c tbl = 1%nat -> In (n, c) tbl -> In (n', c) tbl -> n = n'.
Proof.
  intros c tbl n n' Hc H1 H2. unfold count_class in Hc.
  assert (F1 : In (n, c) (filter (fun e => evclass_eqb (snd e) c) tbl))
    by (apply filter_In; split; [assumption | apply evclass_eqb_refl]).
  assert (F2 : In (n', c) (filter (fun e => evclass_eqb (snd e) c) tbl))
    by (apply filter_In; split; [assumption | apply evclass_eqb_refl]).
  destruct (filter (fun e => evclass_eqb (snd e) c) tbl) as [|x [|y r]]; try discriminate.
  simpl in F1, F2. destruct F1 as [F1|[]]. destruct F2 as [F2|[]]. congruence.
Qed.

(* decided once over the generated tables *)
Definition name_ok (c : evclass) : bool :=
  match get_event_name_by_type c with
  | Some n => Nat.eqb (count_class c event_types) 1 && clean n && all_ascii n && negb (zlist_eqb n L_None)
  | None => false
  end.

Definition concrete (c : evclass) : bool := is_leaf c && descends c Event.

Lemma names_table_ok :
  forallb (fun c => implb (concrete c) (name_ok c)) all_classes = true.
Proof. vm_compute. reflexivity. Qed.

Lemma all_classes_complete : forall c, In c all_classes.
Proof. intros c. destruct c; vm_compute; tauto. Qed.

(* EVENT NAMES: every concrete event class (a leaf of the hierarchy below
   Event) has exactly one entry in EventTypes, getEventNameByType returns that
   entry's name, and the name is a clean ASCII token *)
Theorem eventname_concrete : forall c, concrete c = true ->
  exists n, get_event_name_by_type c = Some n /\ In (n, c) event_types /\
            (forall n', In (n', c) event_types -> n' = n) /\
            clean n = true /\ all_ascii n = true.
Proof.
  intros c Hc. pose proof names_table_ok as T. rewrite forallb_forall in T.
  specialize (T c (all_classes_complete c)). rewrite Hc in T. cbn [implb] in T.
  unfold name_ok in T. destruct (get_event_name_by_type c) as [n|] eqn:E; [|discriminate].
  repeat (apply andb_true_iff in T; destruct T as [T ?]). apply Nat.eqb_eq in T.
  exists n. repeat split; try assumption.
  - apply lookup_name_in. exact E.
  - intros n' Hn'. eapply count_class_unique; [exact T | exact Hn' | apply lookup_name_in; exact E].
Qed.

(* no class is listed under two names, no name is used twice *)
Theorem event_types_injective :
  NoDup (map snd event_types) /\ NoDup (map fst event_types).
Proof.
  split.
  - assert (H : NoDup (map cls_idx (map snd event_types))).
    { vm_compute. repeat (constructor; [simpl; intuition discriminate|]). constructor. }
    revert H. generalize (map snd event_types). induction l as [|a r IH]; intro H; [constructor|].
    inversion H; subst. constructor; [|apply IH; assumption].
    intro Hin. apply H2. apply in_map. assumption.
  - vm_compute. repeat (constructor; [simpl; intuition discriminate|]). constructor.
Qed.

(* every class that reaches events.notify() anywhere in supervisor/*.py and is
   an Event is concrete, hence named *)
Lemma notified_ok : forallb (fun c => implb (descends c Event) (concrete c)) notified = true.
Proof. vm_compute. reflexivity. Qed.

Theorem notified_named : forall c, In c notified -> descends c Event = true ->
  exists n, get_event_name_by_type c = Some n /\ In (n, c) event_types /\
            (forall n', In (n', c) event_types -> n' = n) /\ clean n = true /\ all_ascii n = true.
Proof.
  intros c Hin Hd. apply eventname_concrete.
  pose proof notified_ok as T. rewrite forallb_forall in T. specialize (T c Hin).
  rewrite Hd in T. exact T.
Qed.

Example eventname_example :
  concrete ProcessStateExitedEvent = true /\ In Tick60Event notified /\
  get_event_name_by_type ProcessStateExitedEvent = Some T_PROCESS_STATE_EXITED /\
  concrete ProcessStateEvent = false /\ descends EventRejectedEvent Event = false.
Proof. vm_compute. intuition. Qed.

(* the envelope of a notified event: grammar with its own name *)
Theorem envelope_of_event : forall sid pool c serial ps payload,
  concrete c = true ->
  all_scalar sid = true -> all_scalar pool = true -> all_scalar payload = true ->
  clean sid = true -> clean pool = true ->
  exists n w,
    In (n, c) event_types /\ (forall n', In (n', c) event_types -> n' = n) /\
    wire (event_envelope sid pool c serial ps payload) = Some w /\
    parse_header w = Some (header_bytes sid serial pool ps n (zlen payload), utf8_encode payload).
Proof.
  intros * Hc S1 S2 S3 C1 C2.
  destruct (eventname_concrete c Hc) as [n (E & Hin & Hu & Hcl & Ha)].
  unfold event_envelope. rewrite E.
  destruct (header_grammar sid serial pool ps (Some n) payload S1 S2 (all_ascii_scalar _ Ha) S3 C1 C2 Hcl)
    as [w [Hw Hp]].
  exists n, w. repeat split; assumption.
Qed.

(* ------------------------------------------------------------ payloads *)

Definition spec_of (c : evclass) : list (bytes * extra_src) :=
  match extra_spec c with Some l => l | None => [] end.

Lemma table_keys_ok :
  forallb (fun c => forallb (fun e => key_ok (fst e) && all_ascii (fst e)) (spec_of c)) all_classes = true
  /\ forallb (fun e => clean (fst e) && all_ascii (fst e)) process_states = true
  /\ eager_extra = true.
Proof. vm_compute. repeat split. Qed.

Lemma state_desc_ok : forall code, clean (opt_text (state_desc code)) = true /\
                                   all_ascii (opt_text (state_desc code)) = true.
Proof.
  intros code. unfold state_desc.
  destruct table_keys_ok as (_ & T & _). rewrite forallb_forall in T.
  assert (G : forall tbl, (forall e, In e tbl -> clean (fst e) && all_ascii (fst e) = true) ->
              clean (opt_text (lookup_state code tbl)) = true /\ all_ascii (opt_text (lookup_state code tbl)) = true).
  { induction tbl as [|[n c] r IH]; intros H.
    - split; reflexivity.
    - simpl. destruct (c =? code).
      + specialize (H (n, c) (or_introl eq_refl)). apply andb_true_iff in H. exact H.
      + apply IH. intros e He. apply H. right. assumption. }
  apply G. exact T.
Qed.

Definition state_fields_bytes (pname : text) (g : option text) (from_state : Z) (extra : list (text * Z))
  : list (bytes * bytes) :=
  [ (L_processname, utf8_encode pname); (L_groupname, utf8_encode (gname_text g));
    (L_from_state, opt_text (state_desc from_state)) ]
  ++ map (fun e => (fst e, print_dec (snd e))) extra.

Lemma enc_state_fields : forall pname g fs extra,
  forallb (fun e => all_ascii (fst e)) extra = true ->
  map enc_field (state_fields pname g fs extra) = state_fields_bytes pname g fs extra.
Proof.
  intros * Hk. unfold state_fields, state_fields_bytes. rewrite map_app. f_equal.
  - unfold enc_field. cbn [map fst snd].
    rewrite (utf8_encode_ascii (opt_text (state_desc fs))) by apply state_desc_ok. reflexivity.
  - rewrite map_map. apply map_ext_in. intros e He. unfold enc_field. cbn [fst snd].
    rewrite forallb_forall in Hk. rewrite (utf8_encode_ascii (fst e)) by (apply Hk; assumption).
    rewrite (utf8_encode_ascii (print_dec _)) by apply print_dec_ascii. reflexivity.
Qed.

(* PROCESS_STATE payload: read back token by token it names the process, the
   group, the state that was left and then exactly the extra values given *)
Theorem state_payload_fields : forall pname g fs extra,
  in_range pname = true -> in_range (gname_text g) = true ->
  clean pname = true -> clean (gname_text g) = true ->
  forallb (fun e => key_ok (fst e) && all_ascii (fst e)) extra = true ->
  parse_kv_line (utf8_encode (payload_state pname g fs extra))
  = Some (state_fields_bytes pname g fs extra).
Proof.
  intros * R1 R2 C1 C2 Hk. unfold payload_state.
  assert (Ha : forallb (fun e => all_ascii (fst e)) extra = true).
  { rewrite forallb_forall in *. intros e He. specialize (Hk e He). apply andb_true_iff in Hk. tauto. }
  rewrite utf8_encode_kv_line, enc_state_fields by assumption.
  apply parse_kv_join; [discriminate|].
  unfold state_fields_bytes. rewrite forallb_app. apply andb_true_iff. split.
  - cbn [forallb]. rewrite !clean_field; try reflexivity;
      try (apply clean_encode; assumption). apply state_desc_ok.
  - rewrite forallb_forall in *. intros p Hp. apply in_map_iff in Hp. destruct Hp as [e [<- He]].
    specialize (Hk e He). apply andb_true_iff in Hk. destruct Hk as [Hk _].
    unfold field_ok. cbn [fst snd]. apply andb_true_iff. split; [exact Hk|]. apply clean_val_ok. apply print_dec_clean.
Qed.

(* ... for the event a state change creates: the extra values are those of the
   moment of creation, whatever happens to the process afterwards *)
Theorem state_event_payload : forall c pname g fs backoff expected pid,
  payload_kind c = PKState ->
  in_range pname = true -> in_range (gname_text g) = true ->
  clean pname = true -> clean (gname_text g) = true ->
  exists p,
    payload (fst (new_state_event c pname g fs backoff expected pid))
            (snd (new_state_event c pname g fs backoff expected pid)) = Some p /\
    parse_kv_line (utf8_encode p)
    = Some ([ (L_processname, utf8_encode pname); (L_groupname, utf8_encode (gname_text g));
              (L_from_state, opt_text (state_desc fs)) ]
            ++ map (fun e => (fst e, print_dec (eval_src backoff expected pid (snd e)))) (spec_of c)).
Proof.
  intros * Hk R1 R2 C1 C2. unfold new_state_event. cbn [fst snd]. unfold payload. rewrite Hk.
  eexists. split; [reflexivity|].
  rewrite state_payload_fields; try assumption.
  - unfold state_fields_bytes, extra_values, spec_of. destruct (extra_spec c); [|reflexivity].
    rewrite map_map. reflexivity.
  - destruct table_keys_ok as (T & _ & _). rewrite forallb_forall in T.
    specialize (T c (all_classes_complete c)).
    unfold extra_values, spec_of in *. destruct (extra_spec c); [|reflexivity].
    rewrite forallb_forall in *. intros e He. apply in_map_iff in He. destruct He as [x [<- Hx]].
    cbn [fst]. apply T. assumption.
Qed.

(* the documented extra values per PROCESS_STATE event (docs/events.rst), by
   event name, written down independently of events.py *)
Definition documented_extra : list (bytes * list (bytes * extra_src)) :=
  [ (T_PROCESS_STATE_STARTING, [(L_tries, SrcBackoff)]);
    (T_PROCESS_STATE_RUNNING, [(L_pid, SrcPid)]);
    (T_PROCESS_STATE_BACKOFF, [(L_tries, SrcBackoff)]);
    (T_PROCESS_STATE_STOPPING, [(L_pid, SrcPid)]);
    (T_PROCESS_STATE_EXITED, [(L_expected, SrcExpected); (L_pid, SrcPid)]);
    (T_PROCESS_STATE_STOPPED, [(L_pid, SrcPid)]);
    (T_PROCESS_STATE_FATAL, []);
    (T_PROCESS_STATE_UNKNOWN, []) ].

Definition spec_eqb (a b : list (bytes * extra_src)) : bool :=
  list_eqb (fun x y => zlist_eqb (fst x) (fst y) && extra_src_eqb (snd x) (snd y)) a b.

Lemma spec_eqb_eq : forall a b, spec_eqb a b = true -> a = b.
Proof.
  intros a b H. apply (list_eqb_spec (fun x y => zlist_eqb (fst x) (fst y) && extra_src_eqb (snd x) (snd y))); [|exact H].
  intros [k1 s1] [k2 s2]. cbn [fst snd]. split.
  - intro E. apply andb_true_iff in E. destruct E as [E1 E2]. apply zlist_eqb_eq in E1.
    destruct s1, s2; try discriminate; subst; reflexivity.
  - intro E. injection E as -> ->. apply andb_true_iff. split; [apply zlist_eqb_eq; reflexivity | destruct s2; reflexivity].
Qed.

Fixpoint class_of_name (n : bytes) (tbl : list (bytes * evclass)) : option evclass :=
  match tbl with
  | [] => None
  | (n', c) :: r => if zlist_eqb n' n then Some c else class_of_name n r
  end.

Lemma class_of_name_in : forall n tbl c, class_of_name n tbl = Some c -> In (n, c) tbl.
Proof.
  intros n. induction tbl as [|[n' c0] r IH]; intros c H; [discriminate|].
  cbn [class_of_name] in H. destruct (zlist_eqb n' n) eqn:E.
  - apply zlist_eqb_eq in E. subst n'. inversion H; subst. left. reflexivity.
  - right. apply IH. assumption.
Qed.

(* every documented PROCESS_STATE_x name exists, is the event change_state
   raises for state x, uses the state payload, and has the documented extras *)
Definition L_PROCESS_STATE_ : bytes := Eval vm_compute in T_PROCESS_STATE_prefix.

Fixpoint assoc_spec (n : bytes) (l : list (bytes * list (bytes * extra_src))) : option (list (bytes * extra_src)) :=
  match l with
  | [] => None
  | (k, v) :: r => if zlist_eqb k n then Some v else assoc_spec n r
  end.

Definition documented_ok (st : bytes * Z) : bool :=
  let n := L_PROCESS_STATE_ ++ fst st in
  match class_of_name n event_types, assoc_spec n documented_extra, lookup_class (snd st) event_map with
  | Some c, Some d, Some c' =>
      evclass_eqb c c' && spec_eqb (spec_of c) d && pkind_eqb (payload_kind c) PKState && concrete c
  | _, _, _ => false
  end.

Lemma documented_table_ok : forallb documented_ok process_states = true.
Proof. vm_compute. reflexivity. Qed.

(* PROCESS_STATE EXTRAS: for every process state x, the event class that
   change_state raises on entering x is the one named PROCESS_STATE_x, it is
   concrete, renders the state payload, and its extra values are the documented
   ones, in the documented order *)
Theorem state_extras_documented : forall sname code, In (sname, code) process_states ->
  exists c d,
    lookup_class code event_map = Some c /\
    In (L_PROCESS_STATE_ ++ sname, c) event_types /\
    assoc_spec (L_PROCESS_STATE_ ++ sname) documented_extra = Some d /\
    spec_of c = d /\ payload_kind c = PKState /\ concrete c = true.
Proof.
  intros sname code Hin. pose proof documented_table_ok as T. rewrite forallb_forall in T.
  specialize (T _ Hin). unfold documented_ok in T. cbn [fst snd] in T.
  destruct (class_of_name (L_PROCESS_STATE_ ++ sname) event_types) as [c|] eqn:E1; [|discriminate].
  destruct (assoc_spec (L_PROCESS_STATE_ ++ sname) documented_extra) as [d|] eqn:E2; [|discriminate].
  destruct (lookup_class code event_map) as [c'|] eqn:E3; [|discriminate].
  repeat (apply andb_true_iff in T; destruct T as [T ?]).
  apply evclass_eqb_eq in T. subst c'. exists c, d. repeat split; try assumption.
  - apply class_of_name_in. assumption.
  - apply spec_eqb_eq. assumption.
  - destruct (payload_kind c); try discriminate; reflexivity.
Qed.

Example state_extras_example :
  spec_of ProcessStateExitedEvent = [(L_expected, SrcExpected); (L_pid, SrcPid)] /\
  spec_of ProcessStateBackoffEvent = [(L_tries, SrcBackoff)] /\
  payload ProcessStateExitedEvent
          (snd (new_state_event ProcessStateExitedEvent T_cat (Some T_grp) 20 0 false 4711))
  = Some T_exited_payload_text.
Proof. vm_compute. repeat split. Qed.

Lemma parse_header_text : forall l body, l <> [] -> forallb field_ok (map enc_field l) = true ->
  parse_header (utf8_encode (join 32 (map kv l) ++ 10 :: body)) = Some (map enc_field l, utf8_encode body).
Proof.
  intros l body Hne Hok. rewrite utf8_encode_app. change (10 :: body) with ([10] ++ body).
  rewrite utf8_encode_app, utf8_encode_kv_line. change (utf8_encode [10]) with ([10] : bytes). cbn [app].
  apply parse_header_join; [|assumption]. destruct l; [contradiction | discriminate].
Qed.

(* PROCESS_LOG / PROCESS_COMMUNICATION: header line names process, group, pid
   (and channel); the body is the text of the data *)
Theorem log_payload_fields : forall pname g pid ch d,
  in_range pname = true -> in_range (gname_text g) = true -> in_range ch = true ->
  clean pname = true -> clean (gname_text g) = true -> clean ch = true ->
  parse_header (utf8_encode (payload_log pname g pid ch d))
  = Some ([ (L_processname, utf8_encode pname); (L_groupname, utf8_encode (gname_text g));
            (L_pid, print_dec pid); (L_channel, utf8_encode ch) ],
          utf8_encode (pdata_text d)).
Proof.
  intros * R1 R2 R3 C1 C2 C3.
  assert (E : payload_log pname g pid ch d
              = join 32 (map kv [ (L_processname, pname); (L_groupname, gname_text g);
                                  (L_pid, print_dec pid); (L_channel, ch) ]) ++ 10 :: pdata_text d).
  { unfold payload_log. norm_app. reflexivity. }
  assert (M : map enc_field [ (L_processname, pname); (L_groupname, gname_text g);
                              (L_pid, print_dec pid); (L_channel, ch) ]
              = [ (L_processname, utf8_encode pname); (L_groupname, utf8_encode (gname_text g));
                  (L_pid, print_dec pid); (L_channel, utf8_encode ch) ]).
  { unfold enc_field. cbn [map fst snd].
    rewrite (utf8_encode_ascii (print_dec pid)) by apply print_dec_ascii. reflexivity. }
  rewrite E, parse_header_text; [rewrite M; reflexivity | discriminate | rewrite M].
  cbn [forallb].
  rewrite !clean_field; try reflexivity; try apply print_dec_clean; apply clean_encode; assumption.
Qed.

Theorem comm_payload_fields : forall pname g pid d,
  in_range pname = true -> in_range (gname_text g) = true ->
  clean pname = true -> clean (gname_text g) = true ->
  parse_header (utf8_encode (payload_comm pname g pid d))
  = Some ([ (L_processname, utf8_encode pname); (L_groupname, utf8_encode (gname_text g));
            (L_pid, print_dec pid) ],
          utf8_encode (pdata_text d)).
Proof.
  intros * R1 R2 C1 C2.
  assert (E : payload_comm pname g pid d
              = join 32 (map kv [ (L_processname, pname); (L_groupname, gname_text g);
                                  (L_pid, print_dec pid) ]) ++ 10 :: pdata_text d).
  { unfold payload_comm. norm_app. reflexivity. }
  assert (M : map enc_field [ (L_processname, pname); (L_groupname, gname_text g); (L_pid, print_dec pid) ]
              = [ (L_processname, utf8_encode pname); (L_groupname, utf8_encode (gname_text g));
                  (L_pid, print_dec pid) ]).
  { unfold enc_field. cbn [map fst snd].
    rewrite (utf8_encode_ascii (print_dec pid)) by apply print_dec_ascii. reflexivity. }
  rewrite E, parse_header_text; [rewrite M; reflexivity | discriminate | rewrite M].
  cbn [forallb].
  rewrite !clean_field; try reflexivity; try apply print_dec_clean; apply clean_encode; assumption.
Qed.

(* the data of a log / communication event: decodable output is carried as its
   own text, anything else as the repr of the bytes behind a fixed marker *)
Theorem log_data_text : forall d,
  (forall t, utf8_decode d = Some t -> pdata_text (DBytes d) = t) /\
  (utf8_decode d = None -> pdata_text (DBytes d) = L_Undecodable ++ bytes_repr d).
Proof.
  intros d. unfold pdata_text, data_text. split.
  - intros t ->. reflexivity.
  - intros ->. reflexivity.
Qed.

(* valid UTF-8 output of the child is carried byte for byte *)
Theorem log_data_exact : forall d t, utf8_decode d = Some t ->
  utf8_encode (pdata_text (DBytes d)) = d.
Proof.
  intros d t H. unfold pdata_text, data_text. rewrite H. apply decode_encode. assumption.
Qed.

(* PROCESS_GROUP: one line naming the group *)
Theorem group_payload_fields : forall name, in_range name = true -> clean name = true ->
  parse_header (utf8_encode (payload_group name)) = Some ([(L_groupname, utf8_encode name)], []).
Proof.
  intros name R C.
  assert (E : payload_group name = join 32 (map kv [(L_groupname, name)]) ++ 10 :: []).
  { unfold payload_group. norm_app. reflexivity. }
  assert (M : map enc_field [(L_groupname, name)] = [(L_groupname, utf8_encode name)]) by reflexivity.
  rewrite E, parse_header_text; [rewrite M; reflexivity | discriminate | rewrite M].
  cbn [forallb]. rewrite clean_field; try reflexivity. apply clean_encode; assumption.
Qed.

(* TICK: `when` reads back as the number given *)
Theorem tick_payload_fields : forall w,
  parse_kv_line (utf8_encode (payload_tick w)) = Some [(L_when, print_dec w)] /\
  parse_dec (print_dec w) = Some w.
Proof.
  intros w. split; [|apply parse_print_dec].
  assert (E : payload_tick w = join 32 (map kv [(L_when, print_dec w)])) by reflexivity.
  assert (M : map enc_field [(L_when, print_dec w)] = [(L_when, print_dec w)]).
  { unfold enc_field. cbn [map fst snd].
    rewrite (utf8_encode_ascii (print_dec w)) by apply print_dec_ascii. reflexivity. }
  rewrite E, utf8_encode_kv_line, M.
  apply parse_kv_join; [discriminate|]. cbn [forallb].
  rewrite clean_field; try reflexivity. apply print_dec_clean.
Qed.

(* REMOTE_COMMUNICATION: first line type:<type>, then the data, unchanged *)
Theorem remote_payload_fields : forall ty data,
  in_range ty = true -> free_of 10 ty = true ->
  split_at 10 (utf8_encode (payload_remote (RStr ty) (RStr data)))
  = Some (L_type ++ 58 :: utf8_encode ty, utf8_encode data).
Proof.
  intros ty data R F. unfold payload_remote, rc_text.
  rewrite !utf8_encode_app. change (utf8_encode [58]) with ([58] : bytes).
  change (utf8_encode [10]) with ([10] : bytes). change (utf8_encode L_type) with L_type.
  replace (L_type ++ [58] ++ utf8_encode ty ++ [10] ++ utf8_encode data)
    with ((L_type ++ 58 :: utf8_encode ty) ++ 10 :: utf8_encode data)
    by (repeat rewrite <- app_assoc; reflexivity).
  apply split_at_app. rewrite free_of_app, free_of_cons.
  rewrite (utf8_encode_free 10 ty) by (assumption || lia). reflexivity.
Qed.

(* SUPERVISOR_STATE_CHANGE: empty payload, len:0 *)
Theorem supervisor_payload_empty : forall c, payload_kind c = PKSupervisor ->
  payload c ASupervisor = Some [].
Proof. intros c H. unfold payload. rewrite H. reflexivity. Qed.
