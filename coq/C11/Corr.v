(* C11: comparison functions for the correspondence step.  Each takes one case
   (inputs + what the real implementation produced) and answers whether the
   model computes the same.  Evaluated by vm_compute through
   Common.bad_indices. *)
From Coq Require Import ZArith List Bool.
Import ListNotations.
Require Import SV.Common SV.C11.Base SV.C11.Utf8 SV.C11.Gen_events SV.C11.Envelope SV.C11.Tick SV.C11.Notify SV.C11.Routing SV.C11.Capture SV.C11.Listeners SV.C11.Register SV.C11.Pipe.
Open Scope Z_scope.

Definition otext_eqb := option_eqb zlist_eqb.

(* str.encode / bytes.decode / repr(bytes) / '%s' % int *)
Definition check_encode (c : text * option bytes) : bool :=
  let '(t, r) := c in otext_eqb (wire t) r.
Definition check_decode (c : bytes * option text) : bool :=
  let '(b, r) := c in otext_eqb (utf8_decode b) r.
Definition check_repr (c : bytes * text) : bool :=
  let '(b, r) := c in zlist_eqb (bytes_repr b) r.
Definition check_dec (c : Z * bytes) : bool :=
  let '(n, r) := c in zlist_eqb (print_dec n) r && option_eqb Z.eqb (parse_dec r) (Some n).

(* getEventNameByType(cls), cls.__mro__ restricted to events.py classes (as indices) *)
Definition ancestors (c : evclass) : list Z :=
  map cls_idx (filter (fun a => descends c a) all_classes).
Definition check_name (c : evclass * option bytes * list Z) : bool :=
  let '(cl, n, anc) := c in
  otext_eqb (get_event_name_by_type cl) n && zlist_eqb (ancestors cl) anc.

(* event.payload() *)
Definition check_payload (c : evclass * evargs * option text) : bool :=
  let '(cl, a, r) := c in otext_eqb (payload cl a) r.

(* pool._eventEnvelope(cls, serial, pool_serial, payload) *)
Definition check_envelope (c : text * text * evclass * Z * Z * text * text) : bool :=
  let '(sid, pool, cl, serial, ps, pl, r) := c in
  zlist_eqb (event_envelope sid pool cl serial ps pl) r.

(* bytes that reached the listener's stdin through pool dispatch *)
Definition check_dispatch (c : text * text * Z * Z * evclass * evargs * option bytes) : bool :=
  let '(sid, pool, serial, ps, cl, a, r) := c in
  otext_eqb (dispatch_wire sid pool serial ps cl a) r.

(* the byte-level parser of the harness against the model's, on bytes captured
   from the implementation: (stream, what the Python byte-level reader got) *)
Definition kvs_eqb (a b : list (bytes * bytes)) : bool :=
  list_eqb (fun x y => zlist_eqb (fst x) (fst y) && zlist_eqb (snd x) (snd y)) a b.
Definition check_stream (c : bytes * option (list (list (bytes * bytes) * bytes))) : bool :=
  let '(w, r) := c in
  option_eqb (list_eqb (fun x y => kvs_eqb (fst x) (fst y) && zlist_eqb (snd x) (snd y)))
             (listener_stream (S (length w)) w) r.

(* Supervisor.tick(now=...) over a sequence of readings, U ticks per second *)
Definition tick_out_eqb (a b : list (evclass * Z)) : bool :=
  list_eqb (fun x y => evclass_eqb (fst x) (fst y) && (snd x =? snd y)) a b.
Definition check_ticks (c : Z * list Z * list (list (evclass * Z))) : bool :=
  let '(U, rs, r) := c in list_eqb tick_out_eqb (run_ticks U rs) r.

(* Subprocess.change_state / finish on a real Subprocess *)
Definition rendered (l : list notification) : list (evclass * option text) :=
  map (fun n => (fst n, payload (fst n) (snd n))) l.
Definition rendered_eqb (a b : list (evclass * option text)) : bool :=
  list_eqb (fun x y => evclass_eqb (fst x) (fst y) && otext_eqb (snd x) (snd y)) a b.

(* observed after the call: (raised AssertionError, state, pid, backoff) *)
Definition proc_obs (o : outcome) : bool * Z * Z * Z * list notification :=
  match o with
  | Done p out => (false, p_state p, p_pid p, p_backoff p, out)
  | AssertionError p out => (true, p_state p, p_pid p, p_backoff p, out)
  end.

Definition pstep_outcome (p : proc) (s : pstep) : outcome :=
  match s with
  | PFinish es tq ee now => finish p es tq ee now
  | _ => let '(p', out) := pstep_run p s in Done p' out
  end.

Definition check_proc (c : proc * pstep * (bool * Z * Z * Z) * list (evclass * option text)) : bool :=
  let '(p, s, (exc, st, pid, bo), evs) := c in
  let '(exc', st', pid', bo', out) := proc_obs (pstep_outcome p s) in
  Bool.eqb exc exc' && (st =? st') && (pid =? pid') && (bo =? bo') && rendered_eqb (rendered out) evs.

(* Supervisor.add_process_group / remove_process_group / runforever passes:
   per operation the result and the notifications it produced *)
Definition sres_eqb (a b : sres) : bool :=
  match a, b with
  | RTrue, RTrue | RFalse, RFalse | RNone, RNone | RKeyError, RKeyError | RException, RException => true
  | _, _ => false
  end.

Fixpoint sup_trace (s : sup) (l : list sop) : list (sres * list (evclass * option text)) :=
  match l with
  | [] => []
  | o :: r => let '(s', res, out) := sup_step s o in (res, rendered out) :: sup_trace s' r
  end.

Definition check_sup (c : list sop * list (sres * list (evclass * option text))) : bool :=
  let '(ops, r) := c in
  list_eqb (fun x y => sres_eqb (fst x) (fst y) && rendered_eqb (snd x) (snd y))
           (sup_trace (mkSup [] false) ops) r.

(* sendRemoteCommEvent *)
Definition check_remote (c : rc_arg * rc_arg * list (evclass * option text)) : bool :=
  let '(ty, d, r) := c in rendered_eqb (rendered (send_remote_comm_event ty d)) r.

(* envelopes of one event on the stdin of the listener of a pool configured with
   pool_events (counted at byte level by the harness), and the types the pool subscribed *)
Definition check_routing (c : list evclass * evclass * Z) : bool :=
  let '(pe, cl, n) := c in deliveries pe cl =? n.
Definition check_subscription (c : list evclass * list Z) : bool :=
  let '(pe, r) := c in zlist_eqb (map cls_idx (subscription_types pe)) r.

(* pools added and removed at run time: envelopes of one event on the stdin of
   the listener of pool p after the history l *)
Definition check_world (c : list wop * evclass * Z * Z) : bool :=
  let '(l, cl, p, n) := c in world_deliveries (wrun l) cl p =? n.

(* two or more pools with listeners that answer OK / FAIL: per pool the serials of
   the envelopes its listener received, in order *)
Definition check_reject (c : list (Z * list evclass) * list rop * list (Z * list Z)) : bool :=
  let '(ps, l, r) := c in
  let w := rrun (map (fun e => (fst e, new_pool (snd e))) ps) l in
  list_eqb (fun x y => (fst x =? fst y) && zlist_eqb (snd x) (snd y))
           (map (fun e => (fst e, sent_of w (fst e))) ps) r.

(* BoundIO driven directly, and the bytes on the listener's stdin for a
   PROCESS_COMMUNICATION event whose data went through the capture buffer *)
Definition check_bound (c : Z * list bytes * bytes) : bool :=
  let '(m, chunks, r) := c in zlist_eqb (bound_writes m chunks) r.
Definition check_capture (c : Z * list bytes * (text * text * Z * Z * evclass * text * option text * Z) * option bytes) : bool :=
  let '(m, chunks, (sid, pool, serial, ps, cl, pname, g, pid), r) := c in
  otext_eqb (dispatch_wire sid pool serial ps cl (AComm pname g pid (DBytes (bound_writes m chunks)))) r.

(* one pool, several listeners that acknowledge, reject, misbehave and die: per
   listener the serials it was sent, and what is left in the pool's buffer *)
Definition check_listeners (c : Z * list lop * list (list Z) * list Z) : bool :=
  let '(n, l, sent, lft) := c in
  let k := Z.to_nat (Z.min n 8) in
  let s := lrun k l in
  list_eqb zlist_eqb (map (sent_to s) (seq 0 k)) sent && zlist_eqb (l_buf s) lft && once_after_ok (l_log s).

(* registrations at run time interleaved with look-ups *)
Definition check_register (c : list xop * list (option bytes)) : bool :=
  let '(l, r) := c in list_eqb otext_eqb (xrun initial_table l) r.

(* several capture sections in one run: the data of each PROCESS_COMMUNICATION event *)
Definition check_blocks (c : Z * list (list bytes) * list bytes) : bool :=
  let '(m, blocks, r) := c in list_eqb zlist_eqb (blocks_run m [] blocks) r.

(* finish() with output held back: all notifications it raises, rendered after it returned *)
Definition check_flush (c : proc * list (evclass * bytes) * (Z * bool * bool * Z) * list (evclass * option text)) : bool :=
  let '(p, held, (es, tq, ee, now), r) := c in
  rendered_eqb (rendered (finish_with_output p held es tq ee now)) r.

(* Subprocess.write / handle_write_event over a pipe with finite room: bytes the
   listener received and bytes still in input_buffer *)
Definition check_pipe (c : list piop * bytes * bytes) : bool :=
  let '(l, got, buf) := c in
  let p := pi_run l in zlist_eqb (pi_got p) got && zlist_eqb (pi_buf p) buf.

(* decode_wait_status(sts)[0] and `es in exitcodes` *)
Definition check_wait (c : Z * list Z * Z * bool) : bool :=
  let '(sts, codes, es, ee) := c in (wait_exit_status sts =? es) && Bool.eqb (exit_expected sts codes) ee.
