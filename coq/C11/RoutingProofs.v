(* C11: a pool receives each notification it subscribes to exactly once,
   whatever the order, repetition and nesting of the configured event types. *)
From Coq Require Import ZArith List Bool Lia.
Import ListNotations.
Require Import SV.Common SV.C11.Base SV.C11.Utf8 SV.C11.Gen_events SV.C11.Envelope SV.C11.Routing.
Require Import SV.C11.EnvelopeProofs.
Open Scope Z_scope.

(* ------------------------------------------------------------ the class hierarchy is a forest *)

Definition all2 (f : evclass -> evclass -> bool) : bool :=
  forallb (fun a => forallb (f a) all_classes) all_classes.
Definition all3 (f : evclass -> evclass -> evclass -> bool) : bool :=
  forallb (fun a => all2 (f a)) all_classes.

Lemma all2_spec : forall f, all2 f = true -> forall a b, f a b = true.
Proof.
  intros f H a b. unfold all2 in H. rewrite forallb_forall in H.
  specialize (H a (all_classes_complete a)). rewrite forallb_forall in H.
  apply H. apply all_classes_complete.
Qed.

Lemma all3_spec : forall f, all3 f = true -> forall a b c, f a b c = true.
Proof.
  intros f H a b c. unfold all3 in H. rewrite forallb_forall in H.
  specialize (H a (all_classes_complete a)). apply all2_spec. assumption.
Qed.

Lemma hierarchy_facts :
  all3 (fun a b c => implb (descends a b && descends b c) (descends a c)) = true /\
  all2 (fun a b => implb (descends a b && descends b a) (evclass_eqb a b)) = true /\
  all3 (fun c a b => implb (descends c a && descends c b) (descends a b || descends b a)) = true /\
  forallb (fun a => descends a a) all_classes = true.
Proof. vm_compute. repeat split. Qed.

(* from here on `descends` is used through the four facts only *)
Local Opaque descends.

Lemma desc_refl : forall a, descends a a = true.
Proof.
  intros a. destruct hierarchy_facts as (_ & _ & _ & H). rewrite forallb_forall in H.
  apply H. apply all_classes_complete.
Qed.

Lemma desc_trans : forall a b c, descends a b = true -> descends b c = true -> descends a c = true.
Proof.
  intros a b c H1 H2. destruct hierarchy_facts as (H & _). pose proof (all3_spec _ H a b c) as T.
  cbv beta in T. rewrite H1, H2 in T. exact T.
Qed.

Lemma desc_antisym : forall a b, descends a b = true -> descends b a = true -> a = b.
Proof.
  intros a b H1 H2. destruct hierarchy_facts as (_ & H & _). pose proof (all2_spec _ H a b) as T.
  cbv beta in T. rewrite H1, H2 in T. apply evclass_eqb_eq. exact T.
Qed.

Lemma desc_linear : forall c a b, descends c a = true -> descends c b = true ->
  descends a b = true \/ descends b a = true.
Proof.
  intros c a b H1 H2. destruct hierarchy_facts as (_ & _ & H & _). pose proof (all3_spec _ H c a b) as T.
  cbv beta in T. rewrite H1, H2 in T. apply orb_true_iff. exact T.
Qed.

(* ------------------------------------------------------------ _subscription_types *)

Definition dominated (pe : list evclass) (e : evclass) : bool :=
  existsb (fun t => negb (evclass_eqb t e) && descends e t) pe.

Lemma cls_in_spec : forall c l, cls_in c l = true <-> In c l.
Proof.
  intros c l. unfold cls_in. rewrite existsb_exists. split.
  - intros [x [Hx E]]. apply evclass_eqb_eq in E. subst. assumption.
  - intros H. exists c. split; [assumption | apply evclass_eqb_refl].
Qed.

Lemma loop_in : forall pe rest acc t,
  In t (sub_types_loop pe rest acc) <-> In t acc \/ (In t rest /\ dominated pe t = false).
Proof.
  intros pe. induction rest as [|e r IH]; intros acc t.
  - simpl. tauto.
  - cbn [sub_types_loop]. fold (dominated pe e).
    destruct (cls_in e acc) eqn:E1.
    + apply cls_in_spec in E1. rewrite IH. cbn [In]. split; [tauto|].
      intros [H|[[H|H] H']]; subst; tauto.
    + destruct (dominated pe e) eqn:E2.
      * rewrite IH. cbn [In]. split; [tauto|].
        intros [H|[[H|H] H']]; subst; try tauto. congruence.
      * rewrite IH, in_app_iff. cbn [In]. split.
        -- intros [[H|[H|[]]]|H]; subst; tauto.
        -- intros [H|[[H|H] H']]; subst; tauto.
Qed.

Lemma nodup_snoc : forall (l : list evclass) e, NoDup l -> ~ In e l -> NoDup (l ++ [e]).
Proof.
  induction l as [|a r IH]; intros e H Hn.
  - simpl. constructor; [tauto | constructor].
  - inversion H; subst. simpl. constructor.
    + rewrite in_app_iff. cbn [In]. intros [X|[X|[]]]; [tauto|]. subst. apply Hn. left. reflexivity.
    + apply IH; [assumption|]. intro X. apply Hn. right. assumption.
Qed.

Lemma loop_nodup : forall pe rest acc, NoDup acc -> NoDup (sub_types_loop pe rest acc).
Proof.
  intros pe. induction rest as [|e r IH]; intros acc H; [assumption|].
  cbn [sub_types_loop]. destruct (cls_in e acc) eqn:E1; [apply IH; assumption|].
  destruct (existsb _ pe); [apply IH; assumption|].
  apply IH. apply nodup_snoc; [assumption|]. intro X. apply cls_in_spec in X. congruence.
Qed.

Lemma subscription_spec : forall pe t,
  In t (subscription_types pe) <-> (In t pe /\ dominated pe t = false).
Proof. intros. unfold subscription_types. rewrite loop_in. cbn [In]. tauto. Qed.

Lemma subscription_nodup : forall pe, NoDup (subscription_types pe).
Proof. intros. apply loop_nodup. constructor. Qed.

Lemma not_dominated : forall pe t, dominated pe t = false <->
  (forall u, In u pe -> descends t u = true -> u = t).
Proof.
  intros pe t. unfold dominated. split.
  - intros H u Hu Hd. destruct (evclass_eqb u t) eqn:E; [apply evclass_eqb_eq; assumption|].
    assert (X : existsb (fun t0 => negb (evclass_eqb t0 t) && descends t t0) pe = true).
    { apply existsb_exists. exists u. rewrite E, Hd. split; [assumption | reflexivity]. }
    congruence.
  - intros H. destruct (existsb _ pe) eqn:E; [|reflexivity].
    apply existsb_exists in E. destruct E as [u [Hu X]]. apply andb_true_iff in X. destruct X as [X1 X2].
    rewrite (H u Hu X2), evclass_eqb_refl in X1. discriminate.
Qed.

(* among the configured types that are ancestors of c there is a topmost one *)
Lemma top_ancestor : forall c l, existsb (fun t => descends c t) l = true ->
  exists m, In m l /\ descends c m = true /\
            (forall u, In u l -> descends c u = true -> descends u m = true).
Proof.
  intros c. induction l as [|e r IH]; intros H; [discriminate|].
  cbn [existsb] in H. destruct (existsb (fun t => descends c t) r) eqn:Er.
  - destruct (IH eq_refl) as [m (Hm & Hcm & Htop)].
    destruct (descends c e) eqn:Ee.
    + destruct (desc_linear c e m Ee Hcm) as [L|L].
      * exists m. split; [|split]; [right; assumption | assumption |].
        intros u [<-|Hu] Hcu; [assumption | apply Htop; assumption].
      * exists e. split; [|split]; [left; reflexivity | assumption |].
        intros u [<-|Hu] Hcu; [apply desc_refl | eapply desc_trans; [apply Htop; assumption | assumption]].
    + exists m. split; [|split]; [right; assumption | assumption |].
      intros u [<-|Hu] Hcu; [congruence | apply Htop; assumption].
  - rewrite orb_false_r in H. exists e. split; [|split]; [left; reflexivity | assumption |].
    intros u [<-|Hu] Hcu; [apply desc_refl|].
    assert (X : existsb (fun t => descends c t) r = true) by (apply existsb_exists; exists u; split; assumption).
    congruence.
Qed.

Lemma filter_unique_length : forall (f : evclass -> bool) l x, NoDup l -> In x l -> f x = true ->
  (forall y, In y l -> f y = true -> y = x) -> length (filter f l) = 1%nat.
Proof.
  intros f l x ND Hx Hf Hu.
  assert (NF : NoDup (filter f l)) by (apply NoDup_filter; assumption).
  assert (A : forall y, In y (filter f l) -> y = x) by (intros y Hy; apply filter_In in Hy; apply Hu; tauto).
  assert (I : In x (filter f l)) by (apply filter_In; tauto).
  destruct (filter f l) as [|a [|b r]]; [contradiction | reflexivity |].
  exfalso. inversion NF; subst. apply H1. left.
  rewrite (A a (or_introl eq_refl)), (A b (or_intror (or_introl eq_refl))). reflexivity.
Qed.

Lemma filter_none : forall (f : evclass -> bool) l, (forall y, In y l -> f y = false) -> filter f l = [].
Proof.
  intros f. induction l as [|a r IH]; intros H; [reflexivity|].
  cbn [filter]. rewrite (H a (or_introl eq_refl)). apply IH. intros y Hy. apply H. right. assumption.
Qed.

(* ONE ENVELOPE PER EVENT PER POOL: for every list of configured event types -
   any order, with repetitions, with types and their supertypes mixed - and
   every event class, the pool's callback runs exactly once if the event is an
   instance of some configured type, and not at all otherwise *)
Theorem one_delivery_per_pool : forall pe c,
  deliveries pe c = if existsb (fun t => descends c t) pe then 1 else 0.
Proof.
  intros pe c. unfold deliveries. destruct (existsb (fun t => descends c t) pe) eqn:E.
  - destruct (top_ancestor c pe E) as [m (Hm & Hcm & Htop)].
    assert (ND : dominated pe m = false).
    { apply not_dominated. intros u Hu Hd. apply desc_antisym; [|assumption].
      apply Htop; [assumption|]. eapply desc_trans; eassumption. }
    rewrite (filter_unique_length (fun t => descends c t) (subscription_types pe) m); [reflexivity | | | |].
    + apply subscription_nodup.
    + apply subscription_spec. tauto.
    + assumption.
    + intros y Hy Hcy. apply subscription_spec in Hy. destruct Hy as [Hy Hnd].
      rewrite not_dominated in Hnd. symmetry. apply Hnd; [assumption|]. apply Htop; assumption.
  - rewrite filter_none; [reflexivity|].
    intros y Hy. apply subscription_spec in Hy. destruct Hy as [Hy _].
    destruct (descends c y) eqn:D; [|reflexivity].
    assert (X : existsb (fun t => descends c t) pe = true) by (apply existsb_exists; exists y; split; assumption).
    congruence.
Qed.

Local Transparent descends.

Example one_delivery_example :
  subscription_types [ProcessStateRunningEvent; ProcessStateEvent; ProcessStateRunningEvent; Tick5Event]
  = [ProcessStateEvent; Tick5Event] /\
  deliveries [ProcessStateRunningEvent; ProcessStateEvent] ProcessStateRunningEvent = 1 /\
  deliveries [Tick5Event; TickEvent; Event] Tick5Event = 1 /\
  deliveries [Tick5Event; TickEvent] ProcessStateRunningEvent = 0.
Proof. vm_compute. repeat split. Qed.
