(* C11: a pool receives each notification it subscribes to exactly once,
   whatever the order, repetition and nesting of the configured event types. *)
From Coq Require Import ZArith List Bool Lia.
Import ListNotations.
Require Import SV.Common SV.C11.Base SV.C11.Utf8 SV.C11.Gen_events SV.C11.Envelope SV.C11.Routing.
Require Import SV.C11.EnvelopeProofs.
Open Scope Z_scope.

(* ------------------------------------------------------------ the class hierarchy is a forest *)

Definition all2 (f : evclass -> evclass -> bool) : bool :=
  forallb (fun a => forallb (f a) all_classes) all_classes.
Definition all3 (f : evclass -> evclass -> evclass -> bool) : bool :=
  forallb (fun a => all2 (f a)) all_classes.

Lemma all2_spec : forall f, all2 f = true -> forall a b, f a b = true.
Proof.
  intros f H a b. unfold all2 in H. rewrite forallb_forall in H.
  specialize (H a (all_classes_complete a)). rewrite forallb_forall in H.
  apply H. apply all_classes_complete.
Qed.

Lemma all3_spec : forall f, all3 f = true -> forall a b c, f a b c = true.
Proof.
  intros f H a b c. unfold all3 in H. rewrite forallb_forall in H.
  specialize (H a (all_classes_complete a)). apply all2_spec. assumption.
Qed.

Lemma hierarchy_facts :
  all3 (fun a b c => implb (descends a b && descends b c) (descends a c)) = true /\
  all2 (fun a b => implb (descends a b && descends b a) (evclass_eqb a b)) = true /\
  all3 (fun c a b => implb (descends c a && descends c b) (descends a b || descends b a)) = true /\
  forallb (fun a => descends a a) all_classes = true.
Proof. vm_compute. repeat split. Qed.

(* from here on `descends` is used through the four facts only *)
Local Opaque descends.

Lemma desc_refl : forall a, descends a a = true.
Proof.
  intros a. destruct hierarchy_facts as (_ & _ & _ & H). rewrite forallb_forall in H.
  apply H. apply all_classes_complete.
Qed.

Lemma desc_trans : forall a b c, descends a b = true -> descends b c = true -> descends a c = true.
Proof.
  intros a b c H1 H2. destruct hierarchy_facts as (H & _). pose proof (all3_spec _ H a b c) as T.
  cbv beta in T. rewrite H1, H2 in T. exact T.
Qed.

Lemma desc_antisym : forall a b, descends a b = true -> descends b a = true -> a = b.
Proof.
  intros a b H1 H2. destruct hierarchy_facts as (_ & H & _). pose proof (all2_spec _ H a b) as T.
  cbv beta in T. rewrite H1, H2 in T. apply evclass_eqb_eq. exact T.
Qed.

Lemma desc_linear : forall c a b, descends c a = true -> descends c b = true ->
  descends a b = true \/ descends b a = true.
Proof.
  intros c a b H1 H2. destruct hierarchy_facts as (_ & _ & H & _). pose proof (all3_spec _ H c a b) as T.
  cbv beta in T. rewrite H1, H2 in T. apply orb_true_iff. exact T.
Qed.

(* ------------------------------------------------------------ _subscription_types *)

Definition dominated (pe : list evclass) (e : evclass) : bool :=
  existsb (fun t => negb (evclass_eqb t e) && descends e t) pe.

Lemma cls_in_spec : forall c l, cls_in c l = true <-> In c l.
Proof.
  intros c l. unfold cls_in. rewrite existsb_exists. split.
  - intros [x [Hx E]]. apply evclass_eqb_eq in E. subst. assumption.
  - intros H. exists c. split; [assumption | apply evclass_eqb_refl].
Qed.

Lemma loop_in : forall pe rest acc t,
  In t (sub_types_loop pe rest acc) <-> In t acc \/ (In t rest /\ dominated pe t = false).
Proof.
  intros pe. induction rest as [|e r IH]; intros acc t.
  - simpl. tauto.
  - cbn [sub_types_loop]. fold (dominated pe e).
    destruct (cls_in e acc) eqn:E1.
    + apply cls_in_spec in E1. rewrite IH. cbn [In]. split; [tauto|].
      intros [H|[[H|H] H']]; subst; tauto.
    + destruct (dominated pe e) eqn:E2.
      * rewrite IH. cbn [In]. split; [tauto|].
        intros [H|[[H|H] H']]; subst; try tauto. congruence.
      * rewrite IH, in_app_iff. cbn [In]. split.
        -- intros [[H|[H|[]]]|H]; subst; tauto.
        -- intros [H|[[H|H] H']]; subst; tauto.
Qed.

Lemma nodup_snoc : forall (l : list evclass) e, NoDup l -> ~ In e l -> NoDup (l ++ [e]).
Proof.
  induction l as [|a r IH]; intros e H Hn.
  - simpl. constructor; [tauto | constructor].
  - inversion H; subst. simpl. constructor.
    + rewrite in_app_iff. cbn [In]. intros [X|[X|[]]]; [tauto|]. subst. apply Hn. left. reflexivity.
    + apply IH; [assumption|]. intro X. apply Hn. right. assumption.
Qed.

Lemma loop_nodup : forall pe rest acc, NoDup acc -> NoDup (sub_types_loop pe rest acc).
Proof.
  intros pe. induction rest as [|e r IH]; intros acc H; [assumption|].
  cbn [sub_types_loop]. destruct (cls_in e acc) eqn:E1; [apply IH; assumption|].
  destruct (existsb _ pe); [apply IH; assumption|].
  apply IH. apply nodup_snoc; [assumption|]. intro X. apply cls_in_spec in X. congruence.
Qed.

Lemma subscription_spec : forall pe t,
  In t (subscription_types pe) <-> (In t pe /\ dominated pe t = false).
Proof. intros. unfold subscription_types. rewrite loop_in. cbn [In]. tauto. Qed.

Lemma subscription_nodup : forall pe, NoDup (subscription_types pe).
Proof. intros. apply loop_nodup. constructor. Qed.

Lemma not_dominated : forall pe t, dominated pe t = false <->
  (forall u, In u pe -> descends t u = true -> u = t).
Proof.
  intros pe t. unfold dominated. split.
  - intros H u Hu Hd. destruct (evclass_eqb u t) eqn:E; [apply evclass_eqb_eq; assumption|].
    assert (X : existsb (fun t0 => negb (evclass_eqb t0 t) && descends t t0) pe = true).
    { apply existsb_exists. exists u. rewrite E, Hd. split; [assumption | reflexivity]. }
    congruence.
  - intros H. destruct (existsb _ pe) eqn:E; [|reflexivity].
    apply existsb_exists in E. destruct E as [u [Hu X]]. apply andb_true_iff in X. destruct X as [X1 X2].
    rewrite (H u Hu X2), evclass_eqb_refl in X1. discriminate.
Qed.

(* among the configured types that are ancestors of c there is a topmost one *)
Lemma top_ancestor : forall c l, existsb (fun t => descends c t) l = true ->
  exists m, In m l /\ descends c m = true /\
            (forall u, In u l -> descends c u = true -> descends u m = true).
Proof.
  intros c. induction l as [|e r IH]; intros H; [discriminate|].
  cbn [existsb] in H. destruct (existsb (fun t => descends c t) r) eqn:Er.
  - destruct (IH eq_refl) as [m (Hm & Hcm & Htop)].
    destruct (descends c e) eqn:Ee.
    + destruct (desc_linear c e m Ee Hcm) as [L|L].
      * exists m. split; [|split]; [right; assumption | assumption |].
        intros u [<-|Hu] Hcu; [assumption | apply Htop; assumption].
      * exists e. split; [|split]; [left; reflexivity | assumption |].
        intros u [<-|Hu] Hcu; [apply desc_refl | eapply desc_trans; [apply Htop; assumption | assumption]].
    + exists m. split; [|split]; [right; assumption | assumption |].
      intros u [<-|Hu] Hcu; [congruence | apply Htop; assumption].
  - rewrite orb_false_r in H. exists e. split; [|split]; [left; reflexivity | assumption |].
    intros u [<-|Hu] Hcu; [apply desc_refl|].
    assert (X : existsb (fun t => descends c t) r = true) by (apply existsb_exists; exists u; split; assumption).
    congruence.
Qed.

Lemma filter_unique_length : forall (f : evclass -> bool) l x, NoDup l -> In x l -> f x = true ->
  (forall y, In y l -> f y = true -> y = x) -> length (filter f l) = 1%nat.
Proof.
  intros f l x ND Hx Hf Hu.
  assert (NF : NoDup (filter f l)) by (apply NoDup_filter; assumption).
  assert (A : forall y, In y (filter f l) -> y = x) by (intros y Hy; apply filter_In in Hy; apply Hu; tauto).
  assert (I : In x (filter f l)) by (apply filter_In; tauto).
  destruct (filter f l) as [|a [|b r]]; [contradiction | reflexivity |].
  exfalso. inversion NF; subst. apply H1. left.
  rewrite (A a (or_introl eq_refl)), (A b (or_intror (or_introl eq_refl))). reflexivity.
Qed.

Lemma filter_none : forall (f : evclass -> bool) l, (forall y, In y l -> f y = false) -> filter f l = [].
Proof.
  intros f. induction l as [|a r IH]; intros H; [reflexivity|].
  cbn [filter]. rewrite (H a (or_introl eq_refl)). apply IH. intros y Hy. apply H. right. assumption.
Qed.

(* ONE ENVELOPE PER EVENT PER POOL: for every list of configured event types -
   any order, with repetitions, with types and their supertypes mixed - and
   every event class, the pool's callback runs exactly once if the event is an
   instance of some configured type, and not at all otherwise *)
Theorem one_delivery_per_pool : forall pe c,
  deliveries pe c = if existsb (fun t => descends c t) pe then 1 else 0.
Proof.
  intros pe c. unfold deliveries. destruct (existsb (fun t => descends c t) pe) eqn:E.
  - destruct (top_ancestor c pe E) as [m (Hm & Hcm & Htop)].
    assert (ND : dominated pe m = false).
    { apply not_dominated. intros u Hu Hd. apply desc_antisym; [|assumption].
      apply Htop; [assumption|]. eapply desc_trans; eassumption. }
    rewrite (filter_unique_length (fun t => descends c t) (subscription_types pe) m); [reflexivity | | | |].
    + apply subscription_nodup.
    + apply subscription_spec. tauto.
    + assumption.
    + intros y Hy Hcy. apply subscription_spec in Hy. destruct Hy as [Hy Hnd].
      rewrite not_dominated in Hnd. symmetry. apply Hnd; [assumption|]. apply Htop; assumption.
  - rewrite filter_none; [reflexivity|].
    intros y Hy. apply subscription_spec in Hy. destruct Hy as [Hy _].
    destruct (descends c y) eqn:D; [|reflexivity].
    assert (X : existsb (fun t => descends c t) pe = true) by (apply existsb_exists; exists y; split; assumption).
    congruence.
Qed.

(* ------------------------------------------------------------ events.callbacks over time *)

Definition hit (c : evclass) (p : Z) (e : evclass * Z) : bool := (snd e =? p) && descends c (fst e).

Lemma nd_cons : forall e r c p,
  notify_deliveries (e :: r) c p = (if hit c p e then 1 else 0) + notify_deliveries r c p.
Proof.
  intros. unfold notify_deliveries. cbn [filter]. fold (hit c p e).
  destruct (hit c p e); cbn [length]; lia.
Qed.

Lemma nd_nil : forall c p, notify_deliveries [] c p = 0.
Proof. reflexivity. Qed.

Lemma nd_app : forall a b c p,
  notify_deliveries (a ++ b) c p = notify_deliveries a c p + notify_deliveries b c p.
Proof.
  induction a as [|e r IH]; intros b c p.
  - rewrite nd_nil. reflexivity.
  - cbn [app]. rewrite !nd_cons, IH. lia.
Qed.

Lemma nd_subscribe : forall cbs t q c p,
  notify_deliveries (subscribe cbs t q) c p
  = notify_deliveries cbs c p + (if (q =? p) && descends c t then 1 else 0).
Proof.
  intros. unfold subscribe. rewrite nd_app, nd_cons, nd_nil. unfold hit. cbn [fst snd]. lia.
Qed.

Lemma cb_eqb_eq : forall a b, cb_eqb a b = true -> a = b.
Proof.
  intros [t p] [t' p'] H. unfold cb_eqb in H. cbn [fst snd] in H.
  apply andb_true_iff in H. destruct H as [H1 H2].
  apply evclass_eqb_eq in H1. apply Z.eqb_eq in H2. subst. reflexivity.
Qed.

Lemma cb_eqb_refl : forall a, cb_eqb a a = true.
Proof. intros [t p]. unfold cb_eqb. cbn [fst snd]. rewrite evclass_eqb_refl, Z.eqb_refl. reflexivity. Qed.

(* unsubscribe removes exactly one (type, callback) entry *)
Lemma nd_unsubscribe : forall cbs t q cbs' c p, unsubscribe cbs t q = Some cbs' ->
  notify_deliveries cbs' c p
  = notify_deliveries cbs c p - (if (q =? p) && descends c t then 1 else 0).
Proof.
  induction cbs as [|e r IH]; intros t q cbs' c p H; [discriminate|].
  cbn [unsubscribe] in H. destruct (cb_eqb e (t, q)) eqn:E.
  - apply cb_eqb_eq in E. subst e. injection H as <-. rewrite nd_cons. unfold hit. cbn [fst snd]. lia.
  - destruct (unsubscribe r t q) as [r'|] eqn:U; [|discriminate]. injection H as <-.
    rewrite !nd_cons, (IH t q r' c p U). lia.
Qed.

Lemma unsubscribe_some : forall cbs t q, In (t, q) cbs -> exists cbs', unsubscribe cbs t q = Some cbs'.
Proof.
  induction cbs as [|e r IH]; intros t q H; [contradiction|].
  cbn [unsubscribe]. destruct (cb_eqb e (t, q)) eqn:E; [eexists; reflexivity|].
  destruct H as [H|H]; [subst e; rewrite cb_eqb_refl in E; discriminate|].
  destruct (IH t q H) as [r' ->]. eexists. reflexivity.
Qed.

Lemma unsubscribe_keeps : forall cbs t q cbs' e, unsubscribe cbs t q = Some cbs' ->
  In e cbs -> e <> (t, q) -> In e cbs'.
Proof.
  induction cbs as [|x r IH]; intros t q cbs' e H Hin Hne; [contradiction|].
  cbn [unsubscribe] in H. destruct (cb_eqb x (t, q)) eqn:E.
  - apply cb_eqb_eq in E. subst x. injection H as <-. destruct Hin as [Hin|Hin]; [congruence | assumption].
  - destruct (unsubscribe r t q) as [r'|] eqn:U; [|discriminate]. injection H as <-.
    destruct Hin as [Hin|Hin]; [left; assumption | right; eapply IH; eassumption].
Qed.

(* number of types of l the class c is an instance of *)
Definition kcount (l : list evclass) (c : evclass) : Z :=
  Z.of_nat (length (filter (fun t => descends c t) l)).

Lemma kcount_cons : forall t l c, kcount (t :: l) c = (if descends c t then 1 else 0) + kcount l c.
Proof. intros. unfold kcount. cbn [filter]. destruct (descends c t); cbn [length]; lia. Qed.

Lemma nd_subscribe_all : forall l cbs q c p,
  notify_deliveries (fold_left (fun cb t => subscribe cb t q) l cbs) c p
  = notify_deliveries cbs c p + (if q =? p then kcount l c else 0).
Proof.
  induction l as [|t r IH]; intros cbs q c p.
  - cbn [fold_left]. unfold kcount. cbn. destruct (q =? p); lia.
  - cbn [fold_left]. rewrite IH, nd_subscribe, kcount_cons. destruct (q =? p); cbn [andb]; lia.
Qed.

Lemma nd_unsubscribe_all : forall l cbs q cbs' c p, unsubscribe_all cbs l q = Some cbs' ->
  notify_deliveries cbs' c p
  = notify_deliveries cbs c p - (if q =? p then kcount l c else 0).
Proof.
  induction l as [|t r IH]; intros cbs q cbs' c p H.
  - cbn [unsubscribe_all] in H. injection H as <-. unfold kcount. cbn. destruct (q =? p); lia.
  - cbn [unsubscribe_all] in H. destruct (unsubscribe cbs t q) as [c1|] eqn:U; [|discriminate].
    rewrite (IH c1 q cbs' c p H), (nd_unsubscribe cbs t q c1 c p U), kcount_cons.
    destruct (q =? p); cbn [andb]; lia.
Qed.

Lemma unsubscribe_all_keeps : forall l cbs q cbs' e, unsubscribe_all cbs l q = Some cbs' ->
  In e cbs -> snd e <> q -> In e cbs'.
Proof.
  induction l as [|t r IH]; intros cbs q cbs' e H Hin Hne.
  - cbn in H. injection H as <-. assumption.
  - cbn [unsubscribe_all] in H. destruct (unsubscribe cbs t q) as [c1|] eqn:U; [|discriminate].
    eapply IH; [eassumption | | assumption].
    eapply unsubscribe_keeps; [eassumption | assumption |]. intros ->. apply Hne. reflexivity.
Qed.

Lemma unsubscribe_all_some : forall l cbs q, NoDup l -> (forall t, In t l -> In (t, q) cbs) ->
  exists cbs', unsubscribe_all cbs l q = Some cbs'.
Proof.
  induction l as [|t r IH]; intros cbs q ND H; [eexists; reflexivity|].
  inversion ND as [|x y Hnotin ND']; subst.
  destruct (unsubscribe_some cbs t q (H t (or_introl eq_refl))) as [c1 U].
  cbn [unsubscribe_all]. rewrite U. apply IH; [assumption|].
  intros t' Ht'. eapply unsubscribe_keeps; [eassumption | apply H; right; assumption |].
  intros E. injection E as ->. contradiction.
Qed.

Lemma subscribe_all_in : forall l cbs q,
  (forall e, In e cbs -> In e (fold_left (fun cb t => subscribe cb t q) l cbs)) /\
  (forall t, In t l -> In (t, q) (fold_left (fun cb t => subscribe cb t q) l cbs)).
Proof.
  induction l as [|t r IH]; intros cbs q; [split; [auto | intros t []]|].
  cbn [fold_left]. destruct (IH (subscribe cbs t q) q) as [K N]. split.
  - intros e He. apply K. unfold subscribe. apply in_or_app. left. assumption.
  - intros t' [<-|Ht'].
    + apply K. unfold subscribe. apply in_or_app. right. left. reflexivity.
    + apply N. assumption.
Qed.

Lemma deliveries_kcount : forall pe c, deliveries pe c = kcount (subscription_types pe) c.
Proof. reflexivity. Qed.

(* UNSUBSCRIBE FRAME: when pool p unsubscribes from its types, the deliveries to
   every other pool are unchanged and those to p drop by exactly its own share *)
Theorem unsubscribe_frame : forall cbs pe p cbs', pool_unsubscribe cbs pe p = Some cbs' ->
  (forall c q, q <> p -> notify_deliveries cbs' c q = notify_deliveries cbs c q) /\
  (forall c, notify_deliveries cbs' c p = notify_deliveries cbs c p - deliveries pe c).
Proof.
  intros cbs pe p cbs' H. unfold pool_unsubscribe in H. split.
  - intros c q Hq. rewrite (nd_unsubscribe_all _ _ _ _ c q H).
    replace (p =? q) with false by (symmetry; apply Z.eqb_neq; auto). lia.
  - intros c. rewrite (nd_unsubscribe_all _ _ _ _ c p H), Z.eqb_refl, deliveries_kcount. reflexivity.
Qed.

(* the daemon's pools over time *)
Lemma reg_get_del : forall reg p q, reg_get (reg_del reg p) q = if q =? p then None else reg_get reg q.
Proof.
  induction reg as [|[k pe] r IH]; intros p q.
  - simpl. destruct (q =? p); reflexivity.
  - unfold reg_del. cbn [filter fst]. fold (reg_del r p). destruct (k =? p) eqn:E; cbn [negb].
    + rewrite IH. cbn [reg_get]. apply Z.eqb_eq in E. subst k.
      destruct (q =? p) eqn:E2; [reflexivity|]. rewrite Z.eqb_sym, E2. reflexivity.
    + cbn [reg_get]. rewrite IH. destruct (k =? q) eqn:E2; [|reflexivity].
      apply Z.eqb_eq in E2. subst k. rewrite E. reflexivity.
Qed.

Definition WInv (w : world) : Prop :=
  match w with
  | WorldError => False
  | World cbs reg =>
    (forall c p, notify_deliveries cbs c p
                 = match reg_get reg p with Some pe => deliveries pe c | None => 0 end) /\
    (forall p pe, reg_get reg p = Some pe -> forall t, In t (subscription_types pe) -> In (t, p) cbs)
  end.

Lemma wstep_inv : forall w o, WInv w -> WInv (wstep w o).
Proof.
  intros [cbs reg|] o H; [|contradiction]. destruct H as [H1 H2].
  destruct o as [p pe|p|p]; cbn [wstep]; [| |split; assumption].
  - destruct (reg_get reg p) as [pe0|] eqn:G; [split; assumption|].
    unfold pool_subscribe. split.
    + intros c q. rewrite nd_subscribe_all, H1. cbn [reg_get]. destruct (p =? q) eqn:E.
      * apply Z.eqb_eq in E. subst q. rewrite G. rewrite deliveries_kcount. lia.
      * lia.
    + intros q pe' Hq t Ht. cbn [reg_get] in Hq.
      destruct (subscribe_all_in (subscription_types pe) cbs p) as [K N].
      destruct (p =? q) eqn:E.
      * apply Z.eqb_eq in E. subst q. injection Hq as <-. apply N. assumption.
      * apply K. eapply H2; eassumption.
  - destruct (reg_get reg p) as [pe|] eqn:G; [|split; assumption].
    destruct (unsubscribe_all_some (subscription_types pe) cbs p (subscription_nodup pe) (H2 p pe G)) as [cbs' U].
    unfold pool_unsubscribe. rewrite U. split.
    + intros c q. rewrite (nd_unsubscribe_all _ _ _ _ c q U), H1, reg_get_del. destruct (q =? p) eqn:E.
      * apply Z.eqb_eq in E. subst q. rewrite G, Z.eqb_refl, deliveries_kcount. lia.
      * rewrite Z.eqb_sym, E. lia.
    + intros q pe' Hq t Ht. rewrite reg_get_del in Hq. destruct (q =? p) eqn:E; [discriminate|].
      eapply unsubscribe_all_keeps; [eassumption | eapply H2; eassumption |].
      cbn [snd]. intro X. subst q. rewrite Z.eqb_refl in E. discriminate.
Qed.

Lemma wrun_inv : forall l w, WInv w -> WInv (fold_left wstep l w).
Proof.
  induction l as [|o r IH]; intros w H; [assumption|]. cbn [fold_left]. apply IH. apply wstep_inv. assumption.
Qed.

(* POOLS OVER TIME: after any history of pool additions and removals (including
   refused additions, removals of absent names, re-additions) the unsubscription
   never fails, every pool present receives each event exactly once if it is an
   instance of one of its configured types and never otherwise, and a pool that
   was removed receives nothing *)
Theorem pools_over_time : forall l,
  match wrun l with
  | WorldError => False
  | World cbs reg =>
    forall c p, notify_deliveries cbs c p
                = match reg_get reg p with
                  | Some pe => if existsb (fun t => descends c t) pe then 1 else 0
                  | None => 0
                  end
  end.
Proof.
  intros l.
  assert (I0 : WInv (World [] [])).
  { split; [intros c p; reflexivity | intros p pe H; discriminate H]. }
  pose proof (wrun_inv l _ I0) as H.
  unfold wrun. destruct (fold_left wstep l (World [] [])) as [cbs reg|]; [|contradiction].
  destruct H as [H1 _]. intros c p. rewrite H1. destruct (reg_get reg p); [apply one_delivery_per_pool | reflexivity].
Qed.

(* ------------------------------------------------------------ rejected events *)

Lemma pools_get_map : forall (f : Z -> qstate -> qstate) w q,
  pools_get (map (fun e => (fst e, f (fst e) (snd e))) w) q = option_map (f q) (pools_get w q).
Proof.
  intros f. induction w as [|[k s] r IH]; intros q; [reflexivity|].
  cbn [map pools_get fst snd]. destruct (k =? q) eqn:E.
  - apply Z.eqb_eq in E. subst k. reflexivity.
  - apply IH.
Qed.

Lemma rstep_local : forall w o q s0, pools_get w q = Some s0 ->
  pools_get (rstep w o) q = Some (q_local q s0 o).
Proof.
  intros w o q s0 H. destruct o as [c id| |p ok|p]; cbn [rstep q_local].
  - rewrite (pools_get_map (fun _ s => q_emit s c id)), H. reflexivity.
  - rewrite (pools_get_map (fun _ s => q_dispatch s)), H. reflexivity.
  - destruct (q =? p) eqn:E.
    + apply Z.eqb_eq in E. subst p. rewrite H. destruct (q_busy s0) as [ev|] eqn:B; [|assumption].
      destruct ok.
      * rewrite (pools_get_map (fun k s => if k =? q then q_answered s else s)), H. cbn [option_map].
        rewrite Z.eqb_refl. reflexivity.
      * rewrite (pools_get_map (fun k s => q_handle_rejected k s q ev)).
        rewrite (pools_get_map (fun k s => if k =? q then q_answered s else s)), H. cbn [option_map].
        rewrite Z.eqb_refl. reflexivity.
    + destruct (pools_get w p) as [sp|]; [|assumption]. destruct (q_busy sp) as [ev|]; [|assumption].
      destruct ok.
      * rewrite (pools_get_map (fun k s => if k =? p then q_answered s else s)), H. cbn [option_map].
        rewrite E. reflexivity.
      * rewrite (pools_get_map (fun k s => q_handle_rejected k s p ev)).
        rewrite (pools_get_map (fun k s => if k =? p then q_answered s else s)), H. cbn [option_map].
        rewrite E. unfold q_handle_rejected. rewrite E. reflexivity.
  - rewrite (pools_get_map (fun k s => if k =? p then q_set_ready s else s)), H. cbn [option_map].
    rewrite (Z.eqb_sym q p). reflexivity.
Qed.

(* REJECTION STAYS IN ITS POOL: in any history with any number of pools, what
   happens to pool q - its buffer, what its listener is sent and in which order -
   is what happens to q alone; answers (OK or FAIL) of other pools' listeners
   never change it *)
Theorem reject_local : forall l w q s0, pools_get w q = Some s0 ->
  pools_get (rrun w l) q = Some (fold_left (q_local q) l s0).
Proof.
  unfold rrun. induction l as [|o r IH]; intros w q s0 H; [assumption|].
  cbn [fold_left]. apply IH. apply rstep_local. assumption.
Qed.

Definition concerns (q : Z) (o : rop) : bool :=
  match o with
  | RAnswer p _ | RReady p => q =? p
  | _ => true
  end.

Lemma q_local_skip : forall q s o, concerns q o = false -> q_local q s o = s.
Proof.
  intros q s o H. destruct o as [c id| |p ok|p]; cbn [concerns] in H; try discriminate;
    cbn [q_local]; rewrite H; reflexivity.
Qed.

Lemma q_local_filter : forall q l s,
  fold_left (q_local q) l s = fold_left (q_local q) (filter (concerns q) l) s.
Proof.
  intros q. induction l as [|o r IH]; intros s; [reflexivity|].
  cbn [filter fold_left]. destruct (concerns q o) eqn:E.
  - cbn [fold_left]. apply IH.
  - rewrite (q_local_skip q s o E). apply IH.
Qed.

Theorem reject_frame : forall l l' w q s0, pools_get w q = Some s0 ->
  filter (concerns q) l = filter (concerns q) l' ->
  sent_of (rrun w l) q = sent_of (rrun w l') q.
Proof.
  intros l l' w q s0 H E. unfold sent_of.
  rewrite (reject_local l w q s0 H), (reject_local l' w q s0 H).
  rewrite (q_local_filter q l), (q_local_filter q l'), E. reflexivity.
Qed.

(* an event is sent once, plus once more for each FAIL of the pool's own listener *)
Example reject_example :
  let w := [(1, new_pool [ProcessStateEvent]); (2, new_pool [ProcessStateEvent])] in
  let l := [RReady 1; RReady 2; REmit ProcessStateRunningEvent 0; RDispatch; RAnswer 1 false; RAnswer 2 true;
            RReady 1; RReady 2; RDispatch; RAnswer 1 true; RReady 1; RDispatch] in
  sent_of (rrun w l) 1 = [0; 0] /\ sent_of (rrun w l) 2 = [0].
Proof. vm_compute. split; reflexivity. Qed.

Local Transparent descends.

Example one_delivery_example :
  subscription_types [ProcessStateRunningEvent; ProcessStateEvent; ProcessStateRunningEvent; Tick5Event]
  = [ProcessStateEvent; Tick5Event] /\
  deliveries [ProcessStateRunningEvent; ProcessStateEvent] ProcessStateRunningEvent = 1 /\
  deliveries [Tick5Event; TickEvent; Event] Tick5Event = 1 /\
  deliveries [Tick5Event; TickEvent] ProcessStateRunningEvent = 0.
Proof. vm_compute. repeat split. Qed.

Example pools_over_time_example :
  let w := wrun [WAdd 1 [ProcessStateEvent; TickEvent]; WAdd 2 [ProcessStateRunningEvent; ProcessStateEvent];
                 WRemove 1; WAdd 1 [Event]; WRemove 2] in
  world_deliveries w ProcessStateRunningEvent 1 = 1 /\ world_deliveries w ProcessStateRunningEvent 2 = 0 /\
  world_deliveries (wrun [WAdd 1 [ProcessStateEvent]; WAdd 2 [ProcessStateEvent]; WRemove 1]) ProcessStateExitedEvent 2 = 1.
Proof. vm_compute. repeat split. Qed.
