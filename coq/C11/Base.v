(* C11, part 0: types shared by the generated tables (Gen_events.v) and the
   hand-written models.

   A Python `str` is a list of code points (`text`), a Python `bytes` is a list
   of byte values (`bytes`); both are `list Z`.  The two are kept apart by name
   only; `utf8_encode : text -> bytes` (Utf8.v) is `str.encode('utf-8')`. *)
From Coq Require Import ZArith List Bool.
Import ListNotations.
Open Scope Z_scope.

Definition bytes := list Z.
Definition text := list Z.

(* which `payload()` a concrete event class inherits (the class that defines
   it in supervisor/events.py, resolved along the base-class chain) *)
Inductive pkind :=
| PKLog          (* ProcessLogEvent.payload *)
| PKComm         (* ProcessCommunicationEvent.payload *)
| PKRemote       (* RemoteCommunicationEvent.payload *)
| PKSupervisor   (* SupervisorStateChangeEvent.payload *)
| PKState        (* ProcessStateEvent.payload *)
| PKGroup        (* ProcessGroupEvent.payload *)
| PKTick         (* TickEvent.payload *)
| PKNone.        (* no payload method: cannot be sent to a listener *)

(* the expressions that occur in `get_extra_values` *)
Inductive extra_src :=
| SrcBackoff     (* int(self.process.backoff) *)
| SrcExpected    (* int(self.expected) *)
| SrcPid.        (* self.process.pid *)

Definition pkind_eqb (a b : pkind) : bool :=
  match a, b with
  | PKLog, PKLog | PKComm, PKComm | PKRemote, PKRemote | PKSupervisor, PKSupervisor
  | PKState, PKState | PKGroup, PKGroup | PKTick, PKTick | PKNone, PKNone => true
  | _, _ => false
  end.

Definition extra_src_eqb (a b : extra_src) : bool :=
  match a, b with
  | SrcBackoff, SrcBackoff | SrcExpected, SrcExpected | SrcPid, SrcPid => true
  | _, _ => false
  end.
