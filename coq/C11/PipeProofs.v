(* C11: nothing is lost and nothing is duplicated on a listener's stdin,
   however full the pipe is when an envelope is written. *)
From Coq Require Import ZArith List Bool Lia.
Import ListNotations.
Require Import SV.C11.Base SV.C11.Utf8 SV.C11.Pipe.
Open Scope Z_scope.

Lemma pi_flush_keeps : forall p room, pi_got (pi_flush p room) ++ pi_buf (pi_flush p room) = pi_got p ++ pi_buf p.
Proof. intros. unfold pi_flush. cbn [pi_got pi_buf]. rewrite <- app_assoc, firstn_skipn. reflexivity. Qed.

Lemma pi_step_keeps : forall p o,
  pi_got (pi_step p o) ++ pi_buf (pi_step p o)
  = pi_got p ++ pi_buf p ++ match o with PiWrite d _ => d | PiDrain _ => [] end.
Proof.
  intros p o. destruct o as [d room|room]; cbn [pi_step].
  - rewrite pi_flush_keeps. reflexivity.
  - rewrite app_nil_r. destruct (pi_buf p) eqn:E; [rewrite E; reflexivity|]. rewrite <- E. apply pi_flush_keeps.
Qed.

(* EXACTLY ONCE ON THE WIRE: after any sequence of writes and drains with any
   amounts of room (none at all included), what the listener received followed by
   what is still waiting in input_buffer is exactly the envelopes written, in order *)
Theorem pipe_exactly_once : forall l, pi_got (pi_run l) ++ pi_buf (pi_run l) = written l.
Proof.
  intros l. unfold pi_run, written.
  assert (G : forall l p, pi_got (fold_left pi_step l p) ++ pi_buf (fold_left pi_step l p)
                          = pi_got p ++ pi_buf p ++ concat (map (fun o => match o with PiWrite d _ => d | PiDrain _ => [] end) l)).
  { induction l0 as [|o r IH]; intros p.
    - cbn. rewrite app_nil_r. reflexivity.
    - cbn [fold_left map concat]. rewrite IH, app_assoc, pi_step_keeps. rewrite <- !app_assoc. reflexivity. }
  rewrite G. reflexivity.
Qed.

Example pipe_example :
  let p := pi_run [PiWrite [1; 2; 3] 0; PiWrite [4; 5] 0; PiDrain 4; PiDrain 100] in
  pi_got p = [1; 2; 3; 4; 5] /\ pi_buf p = [].
Proof. vm_compute. split; reflexivity. Qed.
