(* C11, part 2: model of
     supervisor/events.py      getEventNameByType, every payload()
     supervisor/process.py     EventListenerPool._eventEnvelope, the
                               `process.write(as_bytes(envelope))` of _dispatchEvent
   and the byte-level reader a listener written in another language would use
   (parse_header, listener_read, listener_stream).

   The Python code builds a `str` (text: list of code points) and encodes it to
   UTF-8 just before writing; the model keeps the two levels apart in the same
   way.  No proofs here. *)
From Coq Require Import ZArith List Bool String Ascii.
Import ListNotations.
Require Import SV.Common SV.C11.Base SV.C11.Utf8 SV.C11.Gen_events.
Open Scope Z_scope.

(* ASCII literals *)
Fixpoint s2z (s : string) : list Z :=
  match s with
  | EmptyString => []
  | String a r => Z.of_nat (nat_of_ascii a) :: s2z r
  end.

Definition L_None : text := Eval vm_compute in s2z "None".
Definition L_ver : text := Eval vm_compute in s2z "ver".
Definition L_3_0 : text := Eval vm_compute in s2z "3.0".
Definition L_server : text := Eval vm_compute in s2z "server".
Definition L_serial : text := Eval vm_compute in s2z "serial".
Definition L_pool : text := Eval vm_compute in s2z "pool".
Definition L_poolserial : text := Eval vm_compute in s2z "poolserial".
Definition L_eventname : text := Eval vm_compute in s2z "eventname".
Definition L_len : text := Eval vm_compute in s2z "len".
Definition L_processname : text := Eval vm_compute in s2z "processname".
Definition L_groupname : text := Eval vm_compute in s2z "groupname".
Definition L_from_state : text := Eval vm_compute in s2z "from_state".
Definition L_pid : text := Eval vm_compute in s2z "pid".
Definition L_channel : text := Eval vm_compute in s2z "channel".
Definition L_type : text := Eval vm_compute in s2z "type".
Definition L_when : text := Eval vm_compute in s2z "when".
Definition L_tries : text := Eval vm_compute in s2z "tries".
Definition L_expected : text := Eval vm_compute in s2z "expected".
Definition L_Undecodable : text := Eval vm_compute in s2z "Undecodable: ".

(* literals used by the theorems and examples *)
Definition s2z_FOO : text := Eval vm_compute in s2z "FOO".
Definition T_TICK_5 : text := Eval vm_compute in s2z "TICK_5".
Definition T_PROCESS_STATE_prefix : text := Eval vm_compute in s2z "PROCESS_STATE_".
Definition T_PROCESS_STATE_BACKOFF : text := Eval vm_compute in s2z "PROCESS_STATE_BACKOFF".
Definition T_PROCESS_STATE_EXITED : text := Eval vm_compute in s2z "PROCESS_STATE_EXITED".
Definition T_PROCESS_STATE_FATAL : text := Eval vm_compute in s2z "PROCESS_STATE_FATAL".
Definition T_PROCESS_STATE_RUNNING : text := Eval vm_compute in s2z "PROCESS_STATE_RUNNING".
Definition T_PROCESS_STATE_STARTING : text := Eval vm_compute in s2z "PROCESS_STATE_STARTING".
Definition T_PROCESS_STATE_STOPPED : text := Eval vm_compute in s2z "PROCESS_STATE_STOPPED".
Definition T_PROCESS_STATE_STOPPING : text := Eval vm_compute in s2z "PROCESS_STATE_STOPPING".
Definition T_PROCESS_STATE_UNKNOWN : text := Eval vm_compute in s2z "PROCESS_STATE_UNKNOWN".
Definition T_cat : text := Eval vm_compute in s2z "cat".
Definition T_grp : text := Eval vm_compute in s2z "grp".
Definition T_listener : text := Eval vm_compute in s2z "listener".
Definition T_exited_payload_text : text := Eval vm_compute in s2z "processname:cat groupname:grp from_state:RUNNING expected:0 pid:4711".
Definition T_supervisor : text := Eval vm_compute in s2z "supervisor".

(* '%s' % x where x is a str or None *)
Definition opt_text (o : option text) : text :=
  match o with Some t => t | None => L_None end.

(* ------------------------------------------------- getEventNameByType *)

Definition evclass_eqb (a b : evclass) : bool := cls_idx a =? cls_idx b.

(* for name, typ in EventTypes.__dict__.items(): if typ is requested: return name
   (the other entries of __dict__ - __module__, __doc__ ... - are not classes) *)
Fixpoint lookup_name (c : evclass) (tbl : list (bytes * evclass)) : option bytes :=
  match tbl with
  | [] => None
  | (n, c') :: r => if evclass_eqb c' c then Some n else lookup_name c r
  end.

Definition get_event_name_by_type (c : evclass) : option bytes := lookup_name c event_types.

(* issubclass(c, anc), along the generated base-class table *)
Fixpoint descends_fuel (fuel : nat) (c anc : evclass) : bool :=
  evclass_eqb c anc ||
  match fuel with
  | O => false
  | S f => existsb (fun p => descends_fuel f p anc) (parents c)
  end.

Definition descends (c anc : evclass) : bool := descends_fuel (List.length all_classes) c anc.

(* a class without subclasses in events.py *)
Definition is_leaf (c : evclass) : bool :=
  negb (existsb (fun d => existsb (evclass_eqb c) (parents d)) all_classes).

(* ------------------------------------------------- _eventEnvelope *)

Fixpoint join (sep : Z) (l : list (list Z)) : list Z :=
  match l with
  | [] => []
  | [x] => x
  | x :: r => x ++ sep :: join sep r
  end.

Definition kv (p : list Z * list Z) : list Z := fst p ++ 58 :: snd p.

(* the seven header fields, in the order of the format string *)
Definition header_fields (sid : text) (serial : Z) (pool : text) (pool_serial : Z)
           (ename : option text) (payload : text) : list (text * text) :=
  [ (L_ver, L_3_0); (L_server, sid); (L_serial, print_dec serial); (L_pool, pool);
    (L_poolserial, print_dec pool_serial); (L_eventname, opt_text ename);
    (L_len, print_dec (zlen payload)) ].

(* ('ver:%(ver)s server:%(sid)s serial:%(serial)s pool:%(pool_name)s '
    'poolserial:%(pool_serial)s eventname:%(event_name)s len:%(len)s\n%(payload)s' % D)
   with  len = len(payload)  -- the number of characters of the str *)
Definition envelope_text (sid : text) (serial : Z) (pool : text) (pool_serial : Z)
           (ename : option text) (payload : text) : text :=
  L_ver ++ [58] ++ L_3_0 ++ [32] ++ L_server ++ [58] ++ sid ++ [32] ++
  L_serial ++ [58] ++ print_dec serial ++ [32] ++ L_pool ++ [58] ++ pool ++ [32] ++
  L_poolserial ++ [58] ++ print_dec pool_serial ++ [32] ++
  L_eventname ++ [58] ++ opt_text ename ++ [32] ++
  L_len ++ [58] ++ print_dec (zlen payload) ++ [10] ++ payload.

Definition event_envelope (sid pool : text) (c : evclass) (serial pool_serial : Z) (payload : text) : text :=
  envelope_text sid serial pool pool_serial (get_event_name_by_type c) payload.

(* as_bytes(envelope): None = UnicodeEncodeError (a lone surrogate in the str) *)
Definition wire (t : text) : option bytes :=
  if all_scalar t then Some (utf8_encode t) else None.

(* ------------------------------------------------- payload() *)

(* event.data of the log / communication events: bytes in production
   (dispatchers pass what they read), str accepted by as_string too *)
Inductive pdata := DBytes (b : bytes) | DStr (t : text).

(* try: data = as_string(self.data)  except UnicodeDecodeError: 'Undecodable: %r' % self.data *)
Definition data_text (d : bytes) : text :=
  match utf8_decode d with
  | Some t => t
  | None => L_Undecodable ++ bytes_repr d
  end.

Definition pdata_text (d : pdata) : text :=
  match d with DBytes b => data_text b | DStr t => t end.

(* '%s' % x for the arguments of RemoteCommunicationEvent (str, or bytes when
   called from Python rather than through XML-RPC: '%s' % b'x' is "b'x'") *)
Inductive rc_arg := RStr (t : text) | RBytes (b : bytes).
Definition rc_text (a : rc_arg) : text :=
  match a with RStr t => t | RBytes b => bytes_repr b end.

(* groupname = '' when process.group is None *)
Definition gname_text (g : option text) : text :=
  match g with Some t => t | None => [] end.

(* getProcessStateDescription *)
Fixpoint lookup_state (code : Z) (tbl : list (bytes * Z)) : option bytes :=
  match tbl with
  | [] => None
  | (n, c) :: r => if c =? code then Some n else lookup_state code r
  end.
Definition state_desc (code : Z) : option text := lookup_state code process_states.

Definition payload_log (pname : text) (g : option text) (pid : Z) (channel : text) (d : pdata) : text :=
  L_processname ++ [58] ++ pname ++ [32] ++ L_groupname ++ [58] ++ gname_text g ++ [32] ++
  L_pid ++ [58] ++ print_dec pid ++ [32] ++ L_channel ++ [58] ++ channel ++ [10] ++ pdata_text d.

Definition payload_comm (pname : text) (g : option text) (pid : Z) (d : pdata) : text :=
  L_processname ++ [58] ++ pname ++ [32] ++ L_groupname ++ [58] ++ gname_text g ++ [32] ++
  L_pid ++ [58] ++ print_dec pid ++ [10] ++ pdata_text d.

Definition payload_remote (ty data : rc_arg) : text :=
  L_type ++ [58] ++ rc_text ty ++ [10] ++ rc_text data.

(* L = [processname, groupname, from_state] + extra_values;  ' '.join('%s:%s' % ...) *)
Definition state_fields (pname : text) (g : option text) (from_state : Z) (extra : list (text * Z))
  : list (text * text) :=
  [ (L_processname, pname); (L_groupname, gname_text g);
    (L_from_state, opt_text (state_desc from_state)) ]
  ++ map (fun e => (fst e, print_dec (snd e))) extra.

Definition payload_state (pname : text) (g : option text) (from_state : Z) (extra : list (text * Z)) : text :=
  join 32 (map kv (state_fields pname g from_state extra)).

Definition payload_group (name : text) : text := L_groupname ++ [58] ++ name ++ [10].

Definition payload_tick (when : Z) : text := L_when ++ [58] ++ print_dec when.

(* constructor arguments of an event, by family *)
Inductive evargs :=
| ALog (pname : text) (g : option text) (pid : Z) (d : pdata)
| AComm (pname : text) (g : option text) (pid : Z) (d : pdata)
| ARemote (ty data : rc_arg)
| ASupervisor
| AState (pname : text) (g : option text) (from_state : Z) (extra : list (text * Z))
| AGroup (name : text)
| ATick (when : Z).

(* event.payload(); None = the call raises (abstract class without payload(),
   ProcessLogEvent itself whose channel is None, arguments of another family) *)
Definition payload (c : evclass) (a : evargs) : option text :=
  match payload_kind c, a with
  | PKLog, ALog pn g pid d =>
      match channel_of c with Some ch => Some (payload_log pn g pid ch d) | None => None end
  | PKComm, AComm pn g pid d => Some (payload_comm pn g pid d)
  | PKRemote, ARemote ty d => Some (payload_remote ty d)
  | PKSupervisor, ASupervisor => Some []
  | PKState, AState pn g fs extra => Some (payload_state pn g fs extra)
  | PKGroup, AGroup n => Some (payload_group n)
  | PKTick, ATick w => Some (payload_tick w)
  | _, _ => None
  end.

(* ProcessStateEvent.__init__: self.extra_values = self.get_extra_values() *)
Definition eval_src (backoff : Z) (expected : bool) (pid : Z) (s : extra_src) : Z :=
  match s with
  | SrcBackoff => backoff
  | SrcExpected => if expected then 1 else 0
  | SrcPid => pid
  end.

Definition extra_values (c : evclass) (backoff : Z) (expected : bool) (pid : Z) : list (text * Z) :=
  match extra_spec c with
  | Some l => map (fun e => (fst e, eval_src backoff expected pid (snd e))) l
  | None => []
  end.

(* event_class(process, from_state, expected) on a process whose attributes
   are (pname, group, pid, backoff) at this moment *)
Definition new_state_event (c : evclass) (pname : text) (g : option text) (from_state : Z)
           (backoff : Z) (expected : bool) (pid : Z) : evclass * evargs :=
  (c, AState pname g from_state (extra_values c backoff expected pid)).

(* ------------------------------------------------- _dispatchEvent: bytes written to the listener *)

Definition dispatch_wire (sid pool : text) (serial pool_serial : Z) (c : evclass) (a : evargs) : option bytes :=
  match payload c a with
  | None => None
  | Some p => wire (event_envelope sid pool c serial pool_serial p)
  end.

(* ------------------------------------------------- a byte-level listener *)

(* read one line (up to the first LF), split it on spaces, split each token at
   its first colon; the rest of the buffer follows *)
Definition parse_header (w : bytes) : option (list (bytes * bytes) * bytes) :=
  match split_at 10 w with
  | None => None
  | Some (line, rest) =>
    match parse_kv_line line with
    | Some kvs => Some (kvs, rest)
    | None => None
    end
  end.

Fixpoint assoc (k : bytes) (l : list (bytes * bytes)) : option bytes :=
  match l with
  | [] => None
  | (k', v) :: r => if zlist_eqb k' k then Some v else assoc k r
  end.

(* header, then exactly `len` bytes: (fields, payload bytes, bytes left in the buffer);
   None when the header is malformed or fewer than len bytes are available *)
Definition listener_read (w : bytes) : option (list (bytes * bytes) * bytes * bytes) :=
  match parse_header w with
  | None => None
  | Some (kvs, rest) =>
    match assoc L_len kvs with
    | None => None
    | Some lv =>
      match parse_dec lv with
      | None => None
      | Some n =>
        if (n <? 0) || (zlen rest <? n) then None
        else let k := Z.to_nat (Z.min n (zlen rest)) in
             Some (kvs, firstn k rest, skipn k rest)
      end
    end
  end.

(* the listener's read loop over its whole stdin stream *)
Fixpoint listener_stream (fuel : nat) (w : bytes) : option (list (list (bytes * bytes) * bytes)) :=
  match w with
  | [] => Some []
  | _ =>
    match fuel with
    | O => None
    | S f =>
      match listener_read w with
      | None => None
      | Some (kvs, p, rest) =>
        match listener_stream f rest with
        | Some l => Some ((kvs, p) :: l)
        | None => None
        end
      end
    end
  end.
