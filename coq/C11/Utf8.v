(* C11, part 1: the string primitives the notification code relies on, as
   total Gallina functions over `list Z`:

     utf8_encode   str.encode('utf-8')         (compat.as_bytes)
     utf8_decode   bytes.decode('utf-8')       (compat.as_string), strict: None = UnicodeDecodeError
     print_dec     '%s' % int
     parse_dec     what a listener does with the digits of serial/len/pid
     bytes_repr    '%r' % bytes                 (the "Undecodable: %r" fallback of payload())

   No proofs here. *)
From Coq Require Import ZArith List Bool.
Import ListNotations.
Require Import SV.C11.Base.
Open Scope Z_scope.

Definition zlen {A} (l : list A) : Z := Z.of_nat (length l).

Definition inr (lo hi x : Z) : bool := (lo <=? x) && (x <=? hi).

(* ---------------------------------------------------------------- UTF-8 *)

(* a Unicode scalar value: what a Python str can hold and encode *)
Definition scalar (c : Z) : bool := inr 0 55295 c || inr 57344 1114111 c.
Definition all_scalar (t : text) : bool := forallb scalar t.

Definition ascii (c : Z) : bool := inr 0 127 c.
Definition all_ascii (t : text) : bool := forallb ascii t.

Definition utf8_enc1 (c : Z) : bytes :=
  if c <? 128 then [c]
  else if c <? 2048 then [192 + c / 64; 128 + c mod 64]
  else if c <? 65536 then [224 + c / 4096; 128 + (c / 64) mod 64; 128 + c mod 64]
  else [240 + c / 262144; 128 + (c / 4096) mod 64; 128 + (c / 64) mod 64; 128 + c mod 64].

(* for a str without lone surrogates; as_bytes raises UnicodeEncodeError
   otherwise (see Envelope.wire) *)
Definition utf8_encode (t : text) : bytes := flat_map utf8_enc1 t.

Definition cont (b : Z) : bool := inr 128 191 b.

(* strict decoder (RFC 3629: no overlong forms, no surrogates, max U+10FFFF);
   fuel = number of bytes is always enough *)
Fixpoint utf8_decode_fuel (fuel : nat) (s : bytes) : option text :=
  match fuel with
  | O => match s with [] => Some [] | _ => None end
  | S f =>
    match s with
    | [] => Some []
    | b0 :: r =>
      if inr 0 127 b0 then option_map (cons b0) (utf8_decode_fuel f r)
      else if inr 194 223 b0 then
        match r with
        | b1 :: r' =>
          if cont b1 then option_map (cons ((b0 - 192) * 64 + (b1 - 128))) (utf8_decode_fuel f r')
          else None
        | _ => None
        end
      else if inr 224 239 b0 then
        match r with
        | b1 :: b2 :: r' =>
          if (if b0 =? 224 then inr 160 191 b1 else if b0 =? 237 then inr 128 159 b1 else cont b1)
             && cont b2
          then option_map (cons ((b0 - 224) * 4096 + (b1 - 128) * 64 + (b2 - 128))) (utf8_decode_fuel f r')
          else None
        | _ => None
        end
      else if inr 240 244 b0 then
        match r with
        | b1 :: b2 :: b3 :: r' =>
          if (if b0 =? 240 then inr 144 191 b1 else if b0 =? 244 then inr 128 143 b1 else cont b1)
             && cont b2 && cont b3
          then option_map (cons ((b0 - 240) * 262144 + (b1 - 128) * 4096 + (b2 - 128) * 64 + (b3 - 128)))
                          (utf8_decode_fuel f r')
          else None
        | _ => None
        end
      else None
    end
  end.

Definition utf8_decode (s : bytes) : option text := utf8_decode_fuel (length s) s.

(* ---------------------------------------------------------------- decimal *)

(* little-endian decimal digits of n >= 0; fuel > log2 n is enough *)
Fixpoint le_digits (fuel : nat) (n : Z) : bytes :=
  match fuel with
  | O => []
  | S f => (48 + n mod 10) :: (if n <? 10 then [] else le_digits f (n / 10))
  end.

Definition print_nat_dec (n : Z) : bytes := rev (le_digits (S (Z.to_nat (Z.log2 n))) n).

(* '%s' % n  for a Python int *)
Definition print_dec (n : Z) : bytes :=
  if n <? 0 then 45 :: print_nat_dec (- n) else print_nat_dec n.

Definition is_digit (b : Z) : bool := inr 48 57 b.

(* left-to-right, as strtoul would: None on an empty string or a non-digit *)
Definition parse_digits_from (acc : option Z) (s : bytes) : option Z :=
  fold_left (fun a d => match a with
                        | Some v => if is_digit d then Some (v * 10 + (d - 48)) else None
                        | None => None
                        end) s acc.

Definition parse_nat_dec (s : bytes) : option Z :=
  match s with [] => None | _ => parse_digits_from (Some 0) s end.

Definition parse_dec (s : bytes) : option Z :=
  match s with
  | 45 :: r => option_map Z.opp (parse_nat_dec r)
  | _ => parse_nat_dec s
  end.

(* ---------------------------------------------------------------- repr(bytes) *)

Definition hex_digit (d : Z) : Z := if d <? 10 then 48 + d else 87 + d.

Definition has_byte (x : Z) (s : bytes) : bool := existsb (Z.eqb x) s.

(* CPython bytes_repr: single quotes, unless the value contains a single quote (39) and no double quote (34) *)
Definition bytes_repr (s : bytes) : text :=
  let q := if has_byte 39 s && negb (has_byte 34 s) then 34 else 39 in
  let esc (c : Z) : text :=
    if (c =? q) || (c =? 92) then [92; c]
    else if c =? 9 then [92; 116]
    else if c =? 10 then [92; 110]
    else if c =? 13 then [92; 114]
    else if (c <? 32) || (127 <=? c) then [92; 120; hex_digit (c / 16); hex_digit (c mod 16)]
    else [c] in
  98 :: q :: flat_map esc s ++ [q].

(* ---------------------------------------------------------------- splitting *)

(* split at the first occurrence of sep: (before, after); None when absent *)
Fixpoint split_at (sep : Z) (s : bytes) : option (bytes * bytes) :=
  match s with
  | [] => None
  | b :: r =>
    if b =? sep then Some ([], r)
    else match split_at sep r with
         | Some (a, c) => Some (b :: a, c)
         | None => None
         end
  end.

(* split on every occurrence of sep (never returns the empty list) *)
Fixpoint split_all (sep : Z) (s : bytes) : list bytes :=
  match s with
  | [] => [[]]
  | b :: r =>
    if b =? sep then [] :: split_all sep r
    else match split_all sep r with
         | t :: ts => (b :: t) :: ts
         | [] => [[b]]
         end
  end.

Definition free_of (x : Z) (s : list Z) : bool := negb (has_byte x s).

(* no space, no colon, no line feed: the class of names and identifiers the
   property quantifies over *)
Definition clean (s : list Z) : bool := free_of 32 s && free_of 58 s && free_of 10 s.

(* split each token at its first colon *)
Fixpoint parse_tokens (toks : list bytes) : option (list (bytes * bytes)) :=
  match toks with
  | [] => Some []
  | t :: r =>
    match split_at 58 t, parse_tokens r with
    | Some kv, Some kvs => Some (kv :: kvs)
    | _, _ => None
    end
  end.

(* a `key:value key:value ...` line *)
Definition parse_kv_line (line : bytes) : option (list (bytes * bytes)) :=
  parse_tokens (split_all 32 line).
