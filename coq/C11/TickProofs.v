(* C11: the tick law.  For EVERY sequence of clock readings - irregular,
   skipping several slices, going backwards - TICK_p is notified at a pass
   exactly when the slice of this reading differs from the slice of the reading
   of the previous pass, `when` is the new slice, and the first pass notifies
   nothing. *)
From Coq Require Import ZArith List Bool Lia.
Import ListNotations.
Require Import SV.C11.Base SV.C11.Utf8 SV.C11.Gen_events SV.C11.Envelope SV.C11.Tick.
Open Scope Z_scope.

(* ------------------------------------------------------------ what a slice is *)

(* the start of the period-long slice that contains second `sec` *)
Definition slice_start (period sec : Z) : Z := period * (sec / period).

Lemma slice_start_bounds : forall p s, 0 < p ->
  slice_start p s <= s < slice_start p s + p /\ (slice_start p s) mod p = 0.
Proof.
  intros p s Hp. unfold slice_start. pose proof (Z.mul_div_le s p Hp).
  pose proof (Z.mul_succ_div_gt s p Hp). split; [lia|].
  rewrite Z.mul_comm. apply Z.mod_mul. lia.
Qed.

(* int readings: timeslice(period, now) = now - now % period *)
Lemma timeslice_is_slice_start : forall p now, 0 < p -> timeslice p now = slice_start p now.
Proof.
  intros p now Hp. unfold timeslice, slice_start. pose proof (Z.div_mod now p ltac:(lia)). lia.
Qed.

(* float readings r / U: the slice depends on the whole seconds floor(r / U) only *)
Lemma timeslice_U_is_slice_start : forall U p r, 0 < U -> 0 < p ->
  timeslice_U U p r = slice_start p (r / U).
Proof.
  intros U p r HU Hp. unfold timeslice_U, slice_start.
  assert (HpU : 0 < p * U) by lia.
  pose proof (Z.div_mod r (p * U) ltac:(lia)) as D.
  replace (r - r mod (p * U)) with (p * (r / (p * U)) * U) by lia.
  rewrite Z.div_mul by lia. f_equal.
  rewrite (Z.mul_comm p U). rewrite Z.div_div by lia. reflexivity.
Qed.

Lemma timeslice_U_1 : forall p r, 0 < p -> timeslice_U 1 p r = timeslice p r.
Proof.
  intros p r Hp. rewrite timeslice_U_is_slice_start, timeslice_is_slice_start by lia.
  rewrite Z.div_1_r. reflexivity.
Qed.

Lemma timeslice_int : forall p now, 0 < p ->
  timeslice p now = slice_start p now /\ timeslice_U 1 p now = timeslice p now.
Proof. intros p now Hp. split; [apply timeslice_is_slice_start | apply timeslice_U_1]; assumption. Qed.

(* ------------------------------------------------------------ the dict *)

Lemma ticks_get_set : forall t p v q,
  ticks_get (ticks_set t p v) q = if q =? p then Some v else ticks_get t q.
Proof.
  induction t as [|[k w] r IH]; intros p v q.
  - simpl. rewrite (Z.eqb_sym p q). reflexivity.
  - cbn [ticks_set]. destruct (k =? p) eqn:E; cbn [ticks_get].
    + apply Z.eqb_eq in E. subst k. rewrite (Z.eqb_sym q p). destruct (p =? q); reflexivity.
    + destruct (k =? q) eqn:E2.
      * apply Z.eqb_eq in E2. subst k. rewrite E. reflexivity.
      * apply IH.
Qed.

(* ------------------------------------------------------------ the law *)

Section Law.
  Variable U : Z.

  Definition sl (p r : Z) : Z := timeslice_U U p r.

  (* SPECIFICATION, a function of the previous and the current reading only *)
  Definition spec_one (ev : evclass * Z) (prev : option Z) (now : Z) : list (evclass * Z) :=
    match prev with
    | None => []                                   (* first pass: nothing *)
    | Some r => if sl (snd ev) now =? sl (snd ev) r then [] else [(fst ev, sl (snd ev) now)]
    end.

  Definition spec_pass (evs : list (evclass * Z)) (prev : option Z) (now : Z) : list (evclass * Z) :=
    flat_map (fun ev => spec_one ev prev now) evs.

  Fixpoint spec_run (evs : list (evclass * Z)) (prev : option Z) (readings : list Z) : list (list (evclass * Z)) :=
    match readings with
    | [] => []
    | now :: rest => spec_pass evs prev now :: spec_run evs (Some now) rest
    end.

  (* the dict holds, for each period, the slice of the previous reading *)
  Definition known (t : ticks) (p : Z) (prev : option Z) : Prop :=
    ticks_get t p = match prev with None => None | Some r => Some (sl p r) end.

  Lemma tick_one_spec : forall t ev now prev, known t (snd ev) prev ->
    (ticks_get (fst (tick_one U t ev now)) (snd ev) = Some (sl (snd ev) now) /\
     (forall q, q <> snd ev -> ticks_get (fst (tick_one U t ev now)) q = ticks_get t q)) /\
    snd (tick_one U t ev now) = spec_one ev prev now.
  Proof.
    intros t ev now prev K. unfold known in K. unfold tick_one, spec_one. fold (sl (snd ev) now).
    destruct prev as [r|]; rewrite K.
    - destruct (sl (snd ev) now =? sl (snd ev) r) eqn:E; cbn [negb fst snd].
      + apply Z.eqb_eq in E. repeat split; auto. rewrite K, E. reflexivity.
      + repeat split.
        * rewrite ticks_get_set, Z.eqb_refl. reflexivity.
        * intros q Hq. rewrite ticks_get_set. replace (q =? snd ev) with false by (symmetry; apply Z.eqb_neq; assumption). reflexivity.
    - rewrite Z.eqb_refl. cbn [negb fst snd]. repeat split.
      + rewrite ticks_get_set, Z.eqb_refl. reflexivity.
      + intros q Hq. rewrite ticks_get_set. replace (q =? snd ev) with false by (symmetry; apply Z.eqb_neq; assumption). reflexivity.
  Qed.

  Lemma tick_loop_spec : forall evs t now prev,
    NoDup (map snd evs) ->
    (forall ev, In ev evs -> known t (snd ev) prev) ->
    snd (tick_loop U evs t now) = spec_pass evs prev now /\
    (forall ev, In ev evs -> known (fst (tick_loop U evs t now)) (snd ev) (Some now)) /\
    (forall q, ~ In q (map snd evs) -> ticks_get (fst (tick_loop U evs t now)) q = ticks_get t q).
  Proof.
    induction evs as [|ev r IH]; intros t now prev ND K.
    - simpl. repeat split; auto. intros ev [].
    - cbn [map] in ND. inversion ND as [|x l Hnotin ND']; subst.
      destruct (tick_one_spec t ev now prev (K ev (or_introl eq_refl))) as [[G1 G2] G3].
      cbn [tick_loop]. destruct (tick_one U t ev now) as [t1 out1] eqn:E1. cbn [fst snd] in G1, G2, G3.
      assert (K1 : forall ev', In ev' r -> known t1 (snd ev') prev).
      { intros ev' Hin. unfold known. rewrite G2.
        - apply K. right. assumption.
        - intro Heq. apply Hnotin. rewrite <- Heq. apply in_map. assumption. }
      destruct (IH t1 now prev ND' K1) as (H1 & H2 & H3).
      destruct (tick_loop U r t1 now) as [t2 out2] eqn:E2. cbn [fst snd] in *.
      split; [|split].
      + unfold spec_pass. cbn [flat_map]. rewrite G3. f_equal. exact H1.
      + intros ev' [<-|Hin].
        * unfold known. rewrite H3 by assumption. exact G1.
        * apply H2. assumption.
      + intros q Hq. cbn [map In] in Hq. rewrite H3 by tauto. apply G2. intro Heq. apply Hq. left. auto.
  Qed.

  (* TICK LAW over any table of tick classes with pairwise different periods *)
  Theorem run_ticks_from_spec : forall evs readings t prev,
    NoDup (map snd evs) ->
    (forall ev, In ev evs -> known t (snd ev) prev) ->
    run_ticks_from U evs t readings = spec_run evs prev readings.
  Proof.
    intros evs. induction readings as [|now rest IH]; intros t prev ND K; [reflexivity|].
    cbn [run_ticks_from spec_run].
    destruct (tick_loop_spec evs t now prev ND K) as (H1 & H2 & _).
    destruct (tick_loop U evs t now) as [t' out]. cbn [fst snd] in *.
    rewrite H1. f_equal. apply IH; assumption.
  Qed.

  Lemma tick_periods_ok : NoDup (map snd tick_events) /\ forallb (fun ev => 0 <? snd ev) tick_events = true.
  Proof.
    split; [|vm_compute; reflexivity].
    vm_compute. repeat (constructor; [simpl; intuition discriminate|]). constructor.
  Qed.

  Theorem tick_law : forall readings, run_ticks U readings = spec_run tick_events None readings.
  Proof.
    intros readings. unfold run_ticks. apply run_ticks_from_spec.
    - apply tick_periods_ok.
    - intros ev _. reflexivity.
  Qed.

  (* the same, pass by pass: what pass i notifies depends on readings i-1 and i only *)
  Lemma spec_run_nth : forall evs readings prev i now,
    nth_error readings i = Some now ->
    nth_error (spec_run evs prev readings) i
    = Some (spec_pass evs (match i with O => prev | S j => nth_error readings j end) now).
  Proof.
    intros evs. induction readings as [|r rest IH]; intros prev i now H.
    - destruct i; discriminate.
    - destruct i as [|i].
      + simpl in H. injection H as ->. reflexivity.
      + simpl in H. cbn [spec_run nth_error]. rewrite (IH (Some r) i now H).
        destruct i; reflexivity.
  Qed.

  Theorem tick_law_pointwise : forall readings i now,
    nth_error readings i = Some now ->
    nth_error (run_ticks U readings) i
    = Some (spec_pass tick_events (match i with O => None | S j => nth_error readings j end) now).
  Proof. intros. rewrite tick_law. apply spec_run_nth. assumption. Qed.

  (* reading the specification: membership in what a pass notifies *)
  Theorem tick_emitted_iff : forall c p prev now w, In (c, p) tick_events ->
    (In (c, w) (spec_pass tick_events (Some prev) now) <-> (sl p now <> sl p prev /\ w = sl p now)).
  Proof.
    intros c p prev now w Hin. unfold spec_pass. rewrite in_flat_map. split.
    - intros [[c' p'] [Hin' H]]. unfold spec_one in H. cbn [fst snd] in H.
      destruct (sl p' now =? sl p' prev) eqn:E; [contradiction|].
      destruct H as [H|[]]. injection H as -> <-.
      assert (p' = p).
      { clear - Hin Hin'. revert Hin Hin'. vm_compute. intuition congruence. }
      subst. apply Z.eqb_neq in E. auto.
    - intros [Hne ->]. exists (c, p). split; [assumption|]. unfold spec_one. cbn [fst snd].
      replace (sl p now =? sl p prev) with false by (symmetry; apply Z.eqb_neq; assumption).
      left. reflexivity.
  Qed.
End Law.

(* with U > 0 the slices are those of the whole seconds of the readings *)
Theorem tick_slice_meaning : forall U p r, 0 < U -> In p (map snd tick_events) ->
  sl U p r = slice_start p (r / U) /\
  slice_start p (r / U) <= r / U < slice_start p (r / U) + p.
Proof.
  intros U p r HU Hin.
  assert (Hp : 0 < p).
  { destruct tick_periods_ok as [_ H]. rewrite forallb_forall in H.
    apply in_map_iff in Hin. destruct Hin as [ev [<- Hev]]. specialize (H ev Hev). apply Z.ltb_lt in H. exact H. }
  split; [apply timeslice_U_is_slice_start; assumption|]. apply slice_start_bounds. assumption.
Qed.

(* the tick classes carry the names TICK_<period> *)
Lemma tick_names : forallb (fun ev => match get_event_name_by_type (fst ev) with
                                      | Some n => Common.zlist_eqb n ([84; 73; 67; 75; 95] ++ print_dec (snd ev))
                                      | None => false end) tick_events = true.
Proof. vm_compute. reflexivity. Qed.

(* non-vacuity: an irregular sequence with a skipped minute, a backward jump
   and a repeated reading *)
Example tick_example :
  run_ticks 1 [58; 59; 61; 61; 130; 7; 3605]
  = [ []; [];
      [(Tick5Event, 60); (Tick60Event, 60)];
      [];
      [(Tick5Event, 130); (Tick60Event, 120)];
      [(Tick5Event, 5); (Tick60Event, 0)];
      [(Tick5Event, 3605); (Tick60Event, 3600); (Tick3600Event, 3600)] ].
Proof. vm_compute. reflexivity. Qed.

Example tick_example_half_seconds :
  run_ticks 2 [9; 10; 11; 9] = [ []; [(Tick5Event, 5)]; []; [(Tick5Event, 0)] ].
Proof. vm_compute. reflexivity. Qed.
