(* C11, part 4: where notifications are created.

   (a) a local model of Subprocess.change_state and of the part of
       Subprocess.finish that matters for C11 (the order of: counters updated,
       event created with eagerly rendered values, pid cleared).  The full
       process state machine is the subject of C01-C03; here the caller
       supplies what finish() computed (too_quickly, exit_expected).
   (b) a small model of Supervisor.add_process_group / remove_process_group and
       of the SupervisorRunning / SupervisorStopping notifications of
       runforever.
   (c) rpcinterface.sendRemoteCommEvent.

   No proofs here. *)
From Coq Require Import ZArith List Bool String.
Import ListNotations.
Require Import SV.Common SV.C11.Base SV.C11.Utf8 SV.C11.Gen_events SV.C11.Envelope.
Open Scope Z_scope.

Definition notification := (evclass * evargs)%type.

(* ------------------------------------------------------------ (a) process *)

Record proc := mkProc {
  p_name : text;
  p_group : option text;
  p_state : Z;
  p_pid : Z;
  p_backoff : Z;
  p_delay : Z;
  p_killing : bool;
  p_exitstatus : option Z;
}.

Definition set_state (p : proc) (s : Z) : proc :=
  mkProc (p_name p) (p_group p) s (p_pid p) (p_backoff p) (p_delay p) (p_killing p) (p_exitstatus p).
Definition set_pid (p : proc) (v : Z) : proc :=
  mkProc (p_name p) (p_group p) (p_state p) v (p_backoff p) (p_delay p) (p_killing p) (p_exitstatus p).
Definition set_backoff (p : proc) (v : Z) : proc :=
  mkProc (p_name p) (p_group p) (p_state p) (p_pid p) v (p_delay p) (p_killing p) (p_exitstatus p).
Definition set_delay (p : proc) (v : Z) : proc :=
  mkProc (p_name p) (p_group p) (p_state p) (p_pid p) (p_backoff p) v (p_killing p) (p_exitstatus p).
Definition set_killing (p : proc) (v : bool) : proc :=
  mkProc (p_name p) (p_group p) (p_state p) (p_pid p) (p_backoff p) (p_delay p) v (p_exitstatus p).
Definition set_exitstatus (p : proc) (v : option Z) : proc :=
  mkProc (p_name p) (p_group p) (p_state p) (p_pid p) (p_backoff p) (p_delay p) (p_killing p) v.

Fixpoint lookup_class (code : Z) (m : list (Z * evclass)) : option evclass :=
  match m with
  | [] => None
  | (k, c) :: r => if k =? code then Some c else lookup_class code r
  end.

Fixpoint state_code_from (n : bytes) (tbl : list (bytes * Z)) : Z :=
  match tbl with
  | [] => -1
  | (k, c) :: r => if zlist_eqb k n then c else state_code_from n r
  end.
Definition state_code (n : bytes) : Z := state_code_from n process_states.

Definition S_STOPPED := Eval vm_compute in state_code (s2z "STOPPED"%string).
Definition S_STARTING := Eval vm_compute in state_code (s2z "STARTING"%string).
Definition S_RUNNING := Eval vm_compute in state_code (s2z "RUNNING"%string).
Definition S_BACKOFF := Eval vm_compute in state_code (s2z "BACKOFF"%string).
Definition S_STOPPING := Eval vm_compute in state_code (s2z "STOPPING"%string).
Definition S_EXITED := Eval vm_compute in state_code (s2z "EXITED"%string).
Definition S_FATAL := Eval vm_compute in state_code (s2z "FATAL"%string).
Definition S_UNKNOWN := Eval vm_compute in state_code (s2z "UNKNOWN"%string).

(* def change_state(self, new_state, expected=True)   -- `now` is time.time() *)
Definition change_state (p : proc) (new_state : Z) (expected : bool) (now : Z) : proc * list notification :=
  let old_state := p_state p in
  if new_state =? old_state then (p, [])
  else
    let p := set_state p new_state in
    let p := if new_state =? S_BACKOFF
             then let p := set_backoff p (p_backoff p + 1) in set_delay p (now + p_backoff p)
             else p in
    match lookup_class new_state event_map with
    | None => (p, [])
    | Some c =>
      (p, [new_state_event c (p_name p) (p_group p) old_state (p_backoff p) expected (p_pid p)])
    end.

Inductive outcome := Done (p : proc) (out : list notification) | AssertionError (p : proc) (out : list notification).

(* self._assertInState(s); self.change_state(new, expected) *)
Definition asserted_change (p : proc) (out : list notification) (must_be new_state : Z) (expected : bool) (now : Z)
  : outcome :=
  if p_state p =? must_be
  then let '(p', o) := change_state p new_state expected now in Done p' (out ++ o)
  else AssertionError p out.

(* the tail of finish(), common to every branch *)
Definition clear_pid (p : proc) : proc := set_pid p 0.

(* Subprocess.finish(pid, sts), after `es, msg = decode_wait_status(sts)`:
   es the decoded exit status, too_quickly and exit_expected as computed there *)
Definition finish (p : proc) (es : Z) (too_quickly exit_expected : bool) (now : Z) : outcome :=
  let fin o := match o with
               | Done p out => Done (clear_pid p) out
               | AssertionError p out => AssertionError p out   (* pid = 0 is not reached *)
               end in
  if p_state p =? S_UNKNOWN then
    let p := set_exitstatus (set_delay (set_killing p false) 0) (Some es) in
    Done (clear_pid p) []
  else if p_killing p then
    let p := set_exitstatus (set_delay (set_killing p false) 0) (Some es) in
    fin (asserted_change p [] S_STOPPING S_STOPPED true now)
  else if too_quickly then
    let p := set_exitstatus p None in
    fin (asserted_change p [] S_STARTING S_BACKOFF true now)
  else
    let p := set_exitstatus (set_backoff (set_delay p 0) 0) (Some es) in
    let '(p, out) := if p_state p =? S_STARTING then change_state p S_RUNNING true now else (p, []) in
    fin (asserted_change p out S_RUNNING S_EXITED exit_expected now).

(* primitive steps for histories: everything that touches state, pid or
   backoff between two notifications *)
Inductive pstep :=
| PChange (new_state : Z) (expected : bool) (now : Z)    (* change_state *)
| PSetPid (pid : Z)                                       (* spawn(): self.pid = pid;  finish(): self.pid = 0 *)
| PSetBackoff (b : Z)                                     (* self.backoff = 0 *)
| PFinish (es : Z) (too_quickly exit_expected : bool) (now : Z).

Definition pstep_run (p : proc) (s : pstep) : proc * list notification :=
  match s with
  | PChange n e now => change_state p n e now
  | PSetPid v => (set_pid p v, [])
  | PSetBackoff b => (set_backoff p b, [])
  | PFinish es tq ee now =>
    match finish p es tq ee now with
    | Done p' out => (p', out)
    | AssertionError p' out => (p', out)
    end
  end.

(* the history: every state the process went through (head = initial) and
   every notification, in order *)
Fixpoint run_psteps (p : proc) (l : list pstep) : list notification :=
  match l with
  | [] => []
  | s :: r => let '(p', out) := pstep_run p s in out ++ run_psteps p' r
  end.

(* ------------------------------------------------------------ (b) supervisord *)

Record sup := mkSup {
  s_groups : list text;      (* keys of process_groups, in insertion order *)
  s_stopping : bool;
}.

Definition text_in (n : text) (l : list text) : bool := existsb (zlist_eqb n) l.
Definition remove_text (n : text) (l : list text) : list text := filter (fun x => negb (zlist_eqb n x)) l.

Inductive sop :=
| OAdd (name : text)                       (* add_process_group(config) *)
| ORemove (name : text) (unstopped : bool) (* remove_process_group(name); unstopped: the group still has unstopped processes *)
| ORunforever                              (* entry of runforever *)
| OPass (mood : Z)                         (* one pass of the main loop with options.mood *)
| OAddRaises (name : text)                 (* add_process_group(config) whose make_group() raises (e.g. FastCGI socket) *)
| ORemoveRaises (name : text).             (* remove_process_group(name) of a stopped group whose before_remove() raises *)

Inductive sres := RTrue | RFalse | RNone | RKeyError | RException.

Definition sup_step (s : sup) (o : sop) : sup * sres * list notification :=
  match o with
  | OAdd n =>
    if negb (text_in n (s_groups s))
    then (mkSup (s_groups s ++ [n]) (s_stopping s), RTrue, [(ProcessGroupAddedEvent, AGroup n)])
    else (s, RFalse, [])
  | ORemove n unstopped =>
    if negb (text_in n (s_groups s)) then (s, RKeyError, [])
    else if unstopped then (s, RFalse, [])
    else (mkSup (remove_text n (s_groups s)) (s_stopping s), RTrue, [(ProcessGroupRemovedEvent, AGroup n)])
  | ORunforever => (s, RNone, [(SupervisorRunningEvent, ASupervisor)])
  | OPass mood =>
    if (mood <? supervisor_running) && negb (s_stopping s)
    then (mkSup (s_groups s) true, RNone, [(SupervisorStoppingEvent, ASupervisor)])
    else (s, RNone, [])
  | OAddRaises n =>
    (* the exception leaves add_process_group before the group is stored and before notify *)
    if negb (text_in n (s_groups s)) then (s, RException, []) else (s, RFalse, [])
  | ORemoveRaises n =>
    (* before_remove() raises before `del` and before notify *)
    if negb (text_in n (s_groups s)) then (s, RKeyError, []) else (s, RException, [])
  end.

Fixpoint sup_run (s : sup) (l : list sop) : list notification :=
  match l with
  | [] => []
  | o :: r => let '(s', _, out) := sup_step s o in out ++ sup_run s' r
  end.

Fixpoint sup_states (s : sup) (l : list sop) : list sup :=
  match l with
  | [] => [s]
  | o :: r => let '(s', _, _) := sup_step s o in s :: sup_states s' r
  end.

(* ------------------------------------------------------------ (c) rpcinterface *)

(* sendRemoteCommEvent(type, data): on Python 3 compat.unicode is a private
   subclass of str, so both arguments go through unchanged *)
Definition send_remote_comm_event (ty data : rc_arg) : list notification :=
  [(RemoteCommunicationEvent, ARemote ty data)].

(* ------------------------------------------------------------ (d) output held back at reap time *)

(* finish() first flushes what the output dispatchers were holding back
   (record_output(final=True)): with *_events_enabled each flush raises a
   PROCESS_LOG event built with self.process.pid - still the child's pid - and
   only then the state change(s) are made and announced, and pid is cleared *)
Definition flush_events (p : proc) (held : list (evclass * bytes)) : list notification :=
  map (fun h => (fst h, ALog (p_name p) (p_group p) (p_pid p) (DBytes (snd h)))) held.

Definition finish_with_output (p : proc) (held : list (evclass * bytes)) (es : Z) (tq ee : bool) (now : Z)
  : list notification :=
  flush_events p held ++
  match finish p es tq ee now with Done _ out => out | AssertionError _ out => out end.

(* ------------------------------------------------------------ (e) the exit status finish() judges *)

(* options.decode_wait_status(sts)[0] on a POSIX wait status: the low 7 bits are the
   terminating signal (0 = exited), bit 7 the core flag, the next byte the exit
   status; -1 when the process was killed by a signal *)
Definition wait_exit_status (sts : Z) : Z :=
  if (sts mod 128) =? 0 then (sts / 256) mod 256 else -1.

(* exit_expected = es in self.config.exitcodes *)
Definition exit_expected (sts : Z) (exitcodes : list Z) : bool :=
  existsb (Z.eqb (wait_exit_status sts)) exitcodes.
