(* C07: several processes, the kernel's pipes and descriptors, the main loop's
   read routing and reap-time drain -- the executable model the correspondence
   check runs against real Subprocess / ProcessConfig / POutputDispatcher /
   Supervisor.get_process_map / Supervisor.reap objects on a fake kernel seam
   (harness/c07_seam.py).  Built from Fds.v (descriptors, ownership) and
   C08/Stream.v (one channel). *)
From Coq Require Import ZArith List Bool Lia Arith.
Import ListNotations.
Require Import SV.Common SV.C08.Gen_tokens SV.C08.Stream SV.C08.StreamCheck SV.C07.Strip SV.C07.Fds SV.C07.Gen_facts.
Local Open Scope Z_scope.

Record pcfg := mkCfg {
  c_redirect : bool;
  c_cap_out : Z; c_cap_err : Z;        (* stdout/stderr_capture_maxbytes *)
  c_ev_out : bool; c_ev_err : bool;    (* stdout/stderr_events_enabled *)
  c_nolog : bool                       (* stdout_logfile = stderr_logfile = NONE *)
}.

Inductive wev :=
| WPlog (p : nat) (pid : Z) (c : chan) (d : bytes)     (* PROCESS_LOG_<channel> *)
| WComm (p : nat) (pid : Z) (c : chan) (d : bytes).    (* PROCESS_COMMUNICATION_<channel> *)

Record world := mkW {
  w_f : fstate;
  w_d : nat -> chan -> dstate;      (* dispatcher of (p, c), current incarnation *)
  w_pipe : nat -> chan -> bytes;    (* bytes written by p's child on c, not yet read *)
  w_exited : nat -> bool;           (* child has exited, not yet reaped *)
  w_logs : nat -> chan -> bytes;    (* log file of (p, c) *)
  w_events : list wev               (* in emission order *)
}.

Inductive wop :=
| WSpawn (p : nat) (o : outcome)
| WWrite (p : nat) (c : chan) (d : bytes)     (* the child writes *)
| WWriteGen (p : nat) (c : chan) (n seed : Z) (* the child writes gen_bytes n seed (large bursts) *)
| WRead (p : nat) (c : chan) (n : nat)        (* poll reports p's c pipe readable; read(2) returns <= n bytes *)
| WExit (p : nat)                             (* the child exits *)
| WReap (p : nat)                             (* waitpid returns it: Subprocess.finish *)
| WReapFault (p : nat) (c : chan) (eio : bool) (* the same, but the drain's read on channel c fails: EIO (true)
                                                 raises out of readfd, EBADF (false) is turned into b'' by readfd *)
| WReopen                                     (* SIGUSR2: group.reopenlogs() for every group *)
| WMoveAway (p : nat)                         (* an external logrotate renames p's log files; the log as a whole
                                                 (renamed files + configured path) is unchanged *)
| WClear (p : nat)                            (* clearProcessLogs: Subprocess.removelogs() *)
| WOpen | WClose (fd : nat).                  (* unrelated descriptors *)

(* deterministic filler for large writes: byte i is (7 i + seed) mod 251 *)
Fixpoint gen_loop (fuel : nat) (v : Z) : bytes :=
  match fuel with O => [] | S f => v :: gen_loop f ((v + 7) mod 251) end.
Definition gen_bytes (n seed : Z) : bytes := gen_loop (Z.to_nat (Z.min n 65536)) (seed mod 251).

(* read(fd, want) through ServerOptions.readfd: at most readfd_size bytes, at most
   what the pipe holds *)
Definition read_take (want : Z) (avail : bytes) : nat :=
  Z.to_nat (Z.min (Z.min want readfd_size) (zlen avail)).

Definition upd2 {A} (f : nat -> chan -> A) (p : nat) (c : chan) (v : A) : nat -> chan -> A :=
  fun q c' => if Nat.eqb q p && chan_eqb c' c then v else f q c'.
Definition upd1 {A} (f : nat -> A) (p : nat) (v : A) : nat -> A :=
  fun q => if Nat.eqb q p then v else f q.

Section World.
  Variable cfgs : list pcfg.
  Variable strip : bool.           (* options.strip_ansi *)
  Variable incap : bool.           (* PROCESS_LOG events also for captured data (known finding C08-proclog) *)

  Definition cfg (p : nat) : pcfg := nth p cfgs (mkCfg false 0 0 false false false).
  Definition redirect (p : nat) : bool := c_redirect (cfg p).
  Definition capmax_of (p : nat) (c : chan) : Z :=
    match c with COut => c_cap_out (cfg p) | CErr => c_cap_err (cfg p) | CIn => 0 end.
  Definition ev_of (p : nat) (c : chan) : bool :=
    match c with COut => c_ev_out (cfg p) | CErr => c_ev_err (cfg p) | CIn => false end.
  Definition tr (d : bytes) : bytes := if strip then strip_escapes d else d.
  Definition nprocs : nat := length cfgs.

  Definition is_out (c : chan) : bool := match c with CIn => false | _ => true end.

  (* what one _log / toggle effect of dispatcher (p, c) does to the files and the event stream *)
  Definition apply_eff (w : world) (p : nat) (c : chan) (e : eff) : world :=
    let pid := p_pid (f_procs (w_f w) p) in
    match e with
    | Log d =>
      mkW (w_f w) (w_d w) (w_pipe w) (w_exited w)
          (if c_nolog (cfg p) then w_logs w else upd2 (w_logs w) p c (w_logs w p c ++ tr d))
          (if ev_of p c then w_events w ++ [WPlog p pid c (tr d)] else w_events w)
    | Cap d =>
      mkW (w_f w) (w_d w) (w_pipe w) (w_exited w) (w_logs w)
          (if ev_of p c && incap then w_events w ++ [WPlog p pid c (tr d)] else w_events w)
    | Comm d =>
      mkW (w_f w) (w_d w) (w_pipe w) (w_exited w) (w_logs w) (w_events w ++ [WComm p pid c d])
    end.
  Definition apply_effs (w : world) (p : nat) (c : chan) (l : list eff) : world :=
    fold_left (fun w e => apply_eff w p c e) l w.

  Definition set_d (w : world) (p : nat) (c : chan) (d : dstate) : world :=
    mkW (w_f w) (upd2 (w_d w) p c d) (w_pipe w) (w_exited w) (w_logs w) (w_events w).
  Definition set_pipe (w : world) (p : nat) (c : chan) (b : bytes) : world :=
    mkW (w_f w) (w_d w) (upd2 (w_pipe w) p c b) (w_exited w) (w_logs w) (w_events w).

  (* dispatcher (q, c) receives `data` from readfd *)
  Definition deliver (w : world) (q : nat) (c : chan) (data : bytes) : option world :=
    match handle_read begin_token end_token (capmax_of q c) tr (w_d w q c) data with
    | Ok d' out => Some (apply_effs (set_d w q c d') q c out)
    | Crash => None
    end.

  Definition fd_of (w : world) (p : nat) (c : chan) : option nat :=
    match find (fun e => chan_eqb (snd e) c) (p_disp (f_procs (w_f w) p)) with
    | Some (fd, _) => Some fd
    | None => None
    end.

  Definition running (w : world) (p : nat) : bool := negb (p_pid (f_procs (w_f w) p) =? 0).

  (* drain(): one read of everything left on every open output dispatcher, in
     dict order; then finish(): record_output(final=True) on each *)
  (* fault = Some (c, eio): the read on channel c fails during this drain *)
  Fixpoint drain (fault : option (chan * bool)) (w : world) (p : nat) (l : list (nat * chan)) : option world :=
    match l with
    | [] => Some w
    | (_, c) :: r =>
      if is_out c && negb (closed (w_d w p c)) then
        let faulty := match fault with Some (fc, eio) => if chan_eqb fc c then Some eio else None | None => None end in
        match faulty with
        | Some true =>
          (* OSError out of readfd: drain()'s per-dispatcher guard calls handle_error(),
             which closes the dispatcher; what the pipe held is lost; the loop goes on *)
          let d := w_d w p c in
          drain fault (set_d (set_pipe w p c []) p c (mkD (buf d) (capmode d) (cap d) true)) p r
        | Some false =>
          (* EBADF: readfd returns b'', handle_read_event takes it for EOF *)
          match deliver (set_pipe w p c []) p c [] with
          | Some w' => drain fault w' p r
          | None => None
          end
        | None =>
          (* one readfd; whatever it does not return is lost when the pipe is closed *)
          let k := read_take readfd_size (w_pipe w p c) in
          match deliver (set_pipe w p c (skipn k (w_pipe w p c))) p c (firstn k (w_pipe w p c)) with
          | Some w' => drain fault w' p r
          | None => None
          end
        end
      else drain fault w p r
    end.
  Fixpoint final_flush (w : world) (p : nat) (l : list (nat * chan)) : option world :=
    match l with
    | [] => Some w
    | (_, c) :: r =>
      if is_out c then
        match finish_d begin_token end_token (capmax_of p c) tr (w_d w p c) with
        | Ok d' out => final_flush (apply_effs (set_d w p c d') p c out) p r
        | Crash => None
        end
      else final_flush w p r
    end.

  Definition reap (fault : option (chan * bool)) (w : world) (p : nat) : option world :=
      if running w p && w_exited w p then
        let l := p_disp (f_procs (w_f w) p) in
        (* finish(): self.drain(), then record_output(final=True) on each dispatcher
           (order generated from the source: finish_drain_first) *)
        match (if finish_drain_first then drain fault w p l else final_flush w p l) with
        | Some w1 =>
          match (if finish_drain_first then final_flush w1 p l else drain fault w1 p l) with
          | Some w2 =>
            Some (mkW (fstep redirect (w_f w2) (Finish p)) (w_d w2) (w_pipe w2)
                      (upd1 (w_exited w2) p false) (w_logs w2) (w_events w2))
          | None => None
          end
        | None => None
        end
      else Some w.

  Definition wstep (w : world) (o : wop) : option world :=
    let reap := fun f p => reap f w p in
    match o with
    | WSpawn p oc =>
      if running w p then Some w
      else
        let f' := fstep redirect (w_f w) (Spawn p oc) in
        if (p_pid (f_procs f' p) =? 0) then
          Some (mkW f' (w_d w) (w_pipe w) (w_exited w) (w_logs w) (w_events w))
        else
          Some (mkW f'
                    (upd2 (upd2 (w_d w) p COut init_d) p CErr init_d)
                    (upd2 (upd2 (w_pipe w) p COut []) p CErr [])
                    (upd1 (w_exited w) p false) (w_logs w) (w_events w))
    | WWrite p c d =>
      if running w p && negb (w_exited w p) && is_out c then
        let c' := if redirect p then COut else c in
        Some (set_pipe w p c' (w_pipe w p c' ++ d))
      else Some w
    | WWriteGen p c n seed =>
      if running w p && negb (w_exited w p) && is_out c then
        let c' := if redirect p then COut else c in
        Some (set_pipe w p c' (w_pipe w p c' ++ gen_bytes n seed))
      else Some w
    | WRead p c n =>
      match fd_of w p c with
      | None => Some w
      | Some fd =>
        if negb (is_out c) || closed (w_d w p c) then Some w
        else
          let avail := w_pipe w p c in
          match avail with
          | [] => if w_exited w p then
                    (* EOF *)
                    match route (w_f w) nprocs fd with
                    | Some (q, c') => deliver w q c' []
                    | None => Some w
                    end
                  else Some w      (* not readable *)
          | _ =>
            let k := read_take (Z.max 1 (Z.of_nat n)) avail in
            match route (w_f w) nprocs fd with
            | Some (q, c') => deliver (set_pipe w p c (skipn k avail)) q c' (firstn k avail)
            | None => Some w
            end
          end
      end
    | WExit p =>
      if running w p then
        Some (mkW (w_f w) (w_d w) (w_pipe w) (upd1 (w_exited w) p true) (w_logs w) (w_events w))
      else Some w
    | WReap p => reap None p
    | WReapFault p c eio => reap (Some (c, eio)) p
    | WReopen => Some w
    | WMoveAway _ => Some w
    | WClear p =>
      (* dispatcher.removelogs() on every dispatcher p has now: log files deleted and
         recreated empty, capture buffers cleared *)
      Some (fold_left (fun w e =>
              let c := snd e in
              if is_out c then
                let d := w_d w p c in
                mkW (w_f w) (upd2 (w_d w) p c (mkD (buf d) (capmode d) [] (closed d))) (w_pipe w) (w_exited w)
                    (upd2 (w_logs w) p c []) (w_events w)
              else w) (p_disp (f_procs (w_f w) p)) w)
    | WOpen => Some (mkW (fstep redirect (w_f w) OpenOther) (w_d w) (w_pipe w) (w_exited w) (w_logs w) (w_events w))
    | WClose fd => Some (mkW (fstep redirect (w_f w) (CloseOther fd)) (w_d w) (w_pipe w) (w_exited w) (w_logs w) (w_events w))
    end.

  (* ------------------------------------------------------ serialisation *)
  Definition chan_code (c : chan) : Z := match c with CIn => 0 | COut => 1 | CErr => 2 end.

  Fixpoint open_mask (t : fdtab) : Z :=
    match t with [] => 0 | (k, _) :: r => Z.shiftl 1 (Z.of_nat k) + open_mask r end.

  Definition ser_proc (w : world) (p : nat) : list Z :=
    let ps := f_procs (w_f w) p in
    [p_pid ps; Z.of_nat (length (p_disp ps))] ++
    map (fun e => Z.of_nat (fst e) * 4 + chan_code (snd e)) (p_disp ps) ++
    flat_map (fun c => zlen (w_logs w p c) ::
                       match fd_of w p c with
                       | Some _ => [zlen (buf (w_d w p c)); (if capmode (w_d w p c) then 1 else 0);
                                    (if closed (w_d w p c) then 1 else 0)]
                       | None => [0; 0; 0]
                       end)
             [COut; CErr].

  Definition ser_step (w : world) : list Z :=
    open_mask (f_tab (w_f w)) :: Z.of_nat (length (w_events w)) ::
    flat_map (ser_proc w) (seq 0 nprocs).

  Definition ser_ev (e : wev) : list Z :=
    match e with
    | WPlog p pid c d => [0; Z.of_nat p; pid; chan_code c; zlen d] ++ d
    | WComm p pid c d => [1; Z.of_nat p; pid; chan_code c; zlen d] ++ d
    end.

  Definition ser_final (w : world) : list Z :=
    flat_map (fun p => flat_map (fun c => zlen (w_logs w p c) :: w_logs w p c) [COut; CErr]) (seq 0 nprocs) ++
    Z.of_nat (length (w_events w)) :: flat_map ser_ev (w_events w).

  Fixpoint wtrace (w : world) (ops : list wop) : option (list Z) :=
    match ops with
    | [] => Some (ser_final w)
    | o :: r =>
      match wstep w o with
      | Some w' => match wtrace w' r with
                   | Some t => Some (ser_step w' ++ t)
                   | None => None
                   end
      | None => None
      end
    end.
End World.

Definition init_w (nopen : nat) : world :=
  mkW (init_f nopen) (fun _ _ => init_d) (fun _ _ => []) (fun _ => false) (fun _ _ => []) [].

(* (configs, strip_ansi, incap, descriptors open at start, operations, implementation trace) *)
Definition check_world (c : list pcfg * bool * bool * nat * list wop * list Z) : bool :=
  let '(cfgs, strip, incap, nopen, ops, want) := c in
  match wtrace cfgs strip incap (init_w nopen) ops with
  | Some t => zlist_eqb t want
  | None => false
  end.

(* the same with a weighted checksum of the trace instead of the trace *)
Definition check_world_sum (c : list pcfg * bool * bool * nat * list wop * Z) : bool :=
  let '(cfgs, strip, incap, nopen, ops, want) := c in
  match wtrace cfgs strip incap (init_w nopen) ops with
  | Some t => wsum 0 t =? want
  | None => false
  end.

(* single-channel strip_ansi cases reuse the C08 serialisation:
   (capmax, strip, frags, trace) *)
Definition check_chan (c : Z * bool * list bytes * list Z) : bool :=
  let '(capmax, strip, frags, want) := c in
  match trace_ser begin_token end_token capmax (if strip then strip_escapes else tr_id) None true init_d [] frags with
  | Some t => zlist_eqb t want
  | None => false
  end.
