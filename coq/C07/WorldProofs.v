(* C07: facts about the multi-process model: redirect_stderr means one pipe,
   so the merged stream is the write order; ownership instantiated at the
   initial state. *)
From Coq Require Import ZArith List Bool Lia Arith.
Import ListNotations.
Require Import SV.Common SV.C08.Stream SV.C07.Fds SV.C07.FdsProofs SV.C07.Gen_facts SV.C07.World.

(* with redirect_stderr a complete make_pipes creates the stdin and stdout
   pipes only: there is no stderr dispatcher *)
Theorem redirect_one_pipe redirect p g t par chi t' :
  redirect p = true -> make_pipes redirect p g 3 t = (par, chi, t', true) ->
  map snd par = [COut; CIn] /\ length chi = 2.
Proof.
  intros R H. unfold make_pipes, os_pipe, open_obj in H. rewrite R in H.
  inversion H; subst. split; reflexivity.
Qed.

Theorem no_redirect_three_pipes redirect p g t par chi t' :
  redirect p = false -> make_pipes redirect p g 3 t = (par, chi, t', true) ->
  map snd par = [COut; CErr; CIn] /\ length chi = 3.
Proof.
  intros R H. unfold make_pipes, os_pipe, open_obj in H. rewrite R in H.
  inversion H; subst. split; reflexivity.
Qed.

Section W.
  Variable cfgs : list pcfg.
  Variables strip incap : bool.
  Notation wstep := (wstep cfgs strip incap).

  Fixpoint wrun (w : world) (ops : list wop) : option world :=
    match ops with
    | [] => Some w
    | o :: r => match wstep w o with Some w' => wrun w' r | None => None end
    end.

  Lemma write_step w p c d :
    redirect cfgs p = true -> running w p = true -> w_exited w p = false -> is_out c = true ->
    wstep w (WWrite p c d) = Some (set_pipe w p COut (w_pipe w p COut ++ d)).
  Proof. intros R Ru Ex F. unfold World.wstep. rewrite Ru, Ex, F, R. reflexivity. Qed.

  (* the child of a redirect_stderr process writes on stdout and stderr: both
     land in the one pipe, in write order *)
  Theorem redirect_merged_in_write_order : forall (l : list (chan * bytes)) w p,
    redirect cfgs p = true -> running w p = true -> w_exited w p = false ->
    Forall (fun e => is_out (fst e) = true) l ->
    exists w', wrun w (map (fun e => WWrite p (fst e) (snd e)) l) = Some w' /\
      w_pipe w' p COut = w_pipe w p COut ++ concat (map snd l) /\
      w_pipe w' p CErr = w_pipe w p CErr /\
      w_f w' = w_f w /\ w_logs w' = w_logs w /\ w_events w' = w_events w.
  Proof.
    induction l as [|[c d] l IH]; intros w p R Ru Ex F.
    - exists w. simpl. rewrite app_nil_r. repeat split; reflexivity.
    - inversion F as [|? ? Fc Fl]; subst. simpl in Fc.
      cbn [map fst snd wrun]. rewrite (write_step w p c d R Ru Ex Fc).
      destruct (IH (set_pipe w p COut (w_pipe w p COut ++ d)) p R Ru Ex Fl) as (w' & W & P1 & P2 & P3 & P4 & P5).
      exists w'. split; [exact W|].
      rewrite P1, P2. cbn [concat map snd]. simpl w_pipe. unfold upd2. rewrite Nat.eqb_refl. simpl.
      rewrite <- app_assoc. repeat split; auto.
  Qed.
End W.

(* c07_fd_ownership at the daemon's start: whatever descriptors are open *)
Theorem ownership_from_start redirect nopen ops : Inv (frun redirect (init_f nopen) ops).
Proof. apply fd_ownership. apply Inv_init. Qed.

Example ex_reuse :
  (* process 0: fork failure; process 1 then gets the same descriptor numbers;
     process 0 has no dispatchers, descriptor 4 routes to process 1 *)
  let s := frun (fun _ => false) (init_f 3) [Spawn 0 ForkFail; Spawn 1 ForkOk] in
  p_disp (f_procs s 0) = [] /\ p_disp (f_procs s 1) = [(5, COut); (7, CErr); (4, CIn)] /\
  route s 3 5 = Some (1, COut).
Proof. vm_compute. repeat split; reflexivity. Qed.

(* the single read of drain() returns everything a pipe can hold (Linux default
   capacity 64 KiB): nothing is left behind when finish() closes the pipes *)
Theorem drain_reads_whole_pipe : forall b : bytes, (zlen b <= 65536)%Z ->
  firstn (read_take readfd_size b) b = b /\ skipn (read_take readfd_size b) b = [].
Proof.
  intros b H. unfold read_take, readfd_size.
  assert (E : Z.to_nat (Z.min (Z.min 131072 131072) (zlen b)) = length b).
  { unfold zlen in *. lia. }
  rewrite E. split; [apply firstn_all | apply skipn_all].
Qed.

(* finish() reads what is left in the pipes before the final flush *)
Theorem finish_drains_before_flush : finish_drain_first = true.
Proof. reflexivity. Qed.
