(* C07: model of supervisor.dispatchers.stripEscapes (applied by _log to every
   chunk when strip_ansi is set), its composition law and the law's failure
   when an escape sequence is cut by a chunk boundary.

     result = b''; show = 1; i = 0
     while i < L:
         if show == 0 and s[i:i+1] in ANSI_TERMINATORS: show = 1
         elif show:
             n = s.find(ANSI_ESCAPE_BEGIN, i)
             if n == -1: return result + s[i:]
             else: result = result + s[i:n]; i = n; show = 0
         i += 1
     return result

   Transcribed one byte at a time: in show mode the bytes up to the next
   occurrence of ANSI_ESCAPE_BEGIN are copied one by one; at the occurrence its
   first byte is dropped and the mode becomes hide; in hide mode bytes are
   dropped until after a terminator.  The constants come from Gen_tokens.v. *)
From Coq Require Import ZArith List Bool Lia.
Import ListNotations.
Require Import SV.Common SV.C08.Gen_tokens SV.C08.Stream.

Definition is_term (x : Z) : bool := existsb (Z.eqb x) ansi_terminators.
Definition esc := ansi_escape_begin.

Fixpoint strip_from (show : bool) (s : bytes) : bytes :=
  match s with
  | [] => []
  | x :: r =>
    if show then
      if is_prefix esc s then strip_from false r
      else x :: strip_from true r
    else strip_from (is_term x) r
  end.

Definition strip_escapes (s : bytes) : bytes := strip_from true s.

(* mode after the chunk *)
Fixpoint strip_end (show : bool) (s : bytes) : bool :=
  match s with
  | [] => show
  | x :: r =>
    if show then (if is_prefix esc s then strip_end false r else strip_end true r)
    else strip_end (is_term x) r
  end.

(* a proper prefix of ANSI_ESCAPE_BEGIN at the end of a (in show mode) is
   completed by the beginning of b *)
Fixpoint esc_cut (show : bool) (a b : bytes) : bool :=
  match a with
  | [] => false
  | x :: r =>
    if show then
      xorb (is_prefix esc (a ++ b)) (is_prefix esc a) ||
      (if is_prefix esc a then esc_cut false r b else esc_cut true r b)
    else esc_cut (is_term x) r b
  end.

(* signature of the known finding C07-ansi-split: an escape sequence spans the
   boundary between chunk a and what follows it *)
Definition spans (a b : bytes) : bool := negb (strip_end true a) || esc_cut true a b.

(* no escape sequence spans any boundary of the chunk list *)
Fixpoint clean (chunks : list bytes) : bool :=
  match chunks with
  | [] => true
  | c :: r => negb (spans c (concat r)) && clean r
  end.

Definition check_strip (c : bytes * bytes) : bool := zlist_eqb (strip_escapes (fst c)) (snd c).
